package main

import (
	"encoding/json"
	"fmt"

	ap "github.com/go-ap/activitypub"
)

// C13 — collections as insertion-ordered sets.

type bareItem struct {
	Shape string `json:"shape"` // iri | object | actor | activity
	ID    string `json:"id"`
	Typ   string `json:"typ"`
}

func (b bareItem) item() ap.Item {
	switch b.Shape {
	case "iri":
		return ap.IRI(b.ID)
	case "object":
		return &ap.Object{ID: ap.ID(b.ID), Type: ap.ActivityVocabularyType(b.Typ)}
	case "actor":
		return &ap.Actor{ID: ap.ID(b.ID), Type: ap.ActivityVocabularyType(b.Typ)}
	case "activity":
		return &ap.Activity{ID: ap.ID(b.ID), Type: ap.ActivityVocabularyType(b.Typ)}
	case "rich-activity":
		// activities that agree in everything but their id (the same person listening to the same track through the same service, twice)
		return &ap.Activity{ID: ap.ID(b.ID), Type: ap.ActivityVocabularyType(b.Typ), Actor: ap.IRI("https://example.com/~sally"),
			Object: ap.IRI("https://example.com/track/1"), Instrument: ap.IRI("https://example.com/service"), Target: ap.IRI("https://example.com/t"),
			Name: ap.NaturalLanguageValues{{Ref: ap.NilLangRef, Value: ap.Content("same name")}}}
	case "rich-actor":
		// the same handle on two servers: actors that agree in everything but their id
		return &ap.Actor{ID: ap.ID(b.ID), Type: ap.ActivityVocabularyType(b.Typ),
			PreferredUsername: ap.NaturalLanguageValues{{Ref: ap.NilLangRef, Value: ap.Content("jdoe")}},
			Name:              ap.NaturalLanguageValues{{Ref: "en", Value: ap.Content("J. Doe")}},
			Summary:           ap.NaturalLanguageValues{{Ref: ap.NilLangRef, Value: ap.Content("the same words")}},
			Icon:              ap.IRI("https://example.com/icon.png"), URL: ap.IRI("https://example.com/~jdoe"),
			Endpoints: &ap.Endpoints{SharedInbox: ap.IRI("https://example.com/inbox"), OauthAuthorizationEndpoint: ap.IRI("https://example.com/oauth/authorize"),
				OauthTokenEndpoint: ap.IRI("https://example.com/oauth/token"), UploadMedia: ap.IRI("https://example.com/upload")},
			PublicKey: ap.PublicKey{PublicKeyPem: "-----BEGIN PUBLIC KEY-----"}}
	case "rich-object":
		// a post and its repost elsewhere: objects that agree in everything but their id
		return &ap.Object{ID: ap.ID(b.ID), Type: ap.ActivityVocabularyType(b.Typ),
			Content:      ap.NaturalLanguageValues{{Ref: ap.NilLangRef, Value: ap.Content("the same words")}},
			Name:         ap.NaturalLanguageValues{{Ref: "en", Value: ap.Content("a title")}},
			AttributedTo: ap.IRI("https://example.com/~jdoe"), InReplyTo: ap.IRI("https://example.com/n/0"),
			To: ap.ItemCollection{ap.PublicNS}, MediaType: "text/plain", URL: ap.IRI("https://example.com/n"),
			Source: ap.Source{Content: ap.NaturalLanguageValues{{Ref: ap.NilLangRef, Value: ap.Content("src")}}, MediaType: "text/markdown"}}
	}
	panic("shape")
}

type collCase struct {
	Kind     string          `json:"kind"`
	Pool     []bareItem      `json:"pool"`
	Init     []int           `json:"init"`
	Ops      [][]interface{} `json:"ops"`
	Distinct bool            `json:"distinct"` // the pool has pairwise distinct identity (the property's premise)
	Total    uint            `json:"total,omitempty"` // the totalItems a collection struct starts with (a collection decoded from a remote document reports one)
}

var collKinds = []string{"ItemCollection", "IRIs", "Collection", "OrderedCollection", "CollectionPage", "OrderedCollectionPage"}

// collHandle wraps one of the six kinds behind the operations of the property.
type collHandle struct {
	kind string
	ci   ap.CollectionInterface
}

func newColl(kind string, total ...uint) collHandle {
	var tot uint
	if len(total) > 0 {
		tot = total[0]
	}
	switch kind {
	case "ItemCollection":
		c := make(ap.ItemCollection, 0)
		return collHandle{kind, &c}
	case "IRIs":
		c := make(ap.IRIs, 0)
		return collHandle{kind, &c}
	case "Collection":
		return collHandle{kind, &ap.Collection{ID: "https://example.com/col", Type: ap.CollectionType, TotalItems: tot}}
	case "OrderedCollection":
		return collHandle{kind, &ap.OrderedCollection{ID: "https://example.com/col", Type: ap.OrderedCollectionType, TotalItems: tot}}
	case "CollectionPage":
		return collHandle{kind, &ap.CollectionPage{ID: "https://example.com/col", Type: ap.CollectionPageType, TotalItems: tot}}
	case "OrderedCollectionPage":
		return collHandle{kind, &ap.OrderedCollectionPage{ID: "https://example.com/col", Type: ap.OrderedCollectionPageType, TotalItems: tot}}
	}
	panic("kind")
}

func (h collHandle) remove(it ap.Item) {
	// Remove through the collection's item-list view
	col, err := ap.ToItemCollection(h.ci)
	if err != nil || col == nil {
		panic(fmt.Sprintf("no item-list view: %v", err))
	}
	col.Remove(it)
}

// describe: canonical (shape, id, type) of a collection member.
func describe(it ap.Item) [3]string {
	switch v := it.(type) {
	case nil:
		return [3]string{"nil", "", ""}
	case ap.IRI:
		return [3]string{"iri", string(v), ""}
	case *ap.Object:
		if len(v.Content) > 0 {
			return [3]string{"rich-object", string(v.ID), string(v.Type)}
		}
		return [3]string{"object", string(v.ID), string(v.Type)}
	case *ap.Actor:
		if len(v.PreferredUsername) > 0 {
			return [3]string{"rich-actor", string(v.ID), string(v.Type)}
		}
		return [3]string{"actor", string(v.ID), string(v.Type)}
	case *ap.Activity:
		if v.Instrument != nil {
			return [3]string{"rich-activity", string(v.ID), string(v.Type)}
		}
		return [3]string{"activity", string(v.ID), string(v.Type)}
	}
	return [3]string{fmt.Sprintf("%T", it), string(it.GetLink()), string(it.GetType())}
}

// identify maps a member of the collection back to its pool index (by shape and exact id string).
func identify(pool []bareItem, kind string, it ap.Item) int {
	if it == nil {
		return -1
	}
	for i, b := range pool {
		if string(it.GetLink()) != b.ID {
			continue
		}
		if kind == "IRIs" {
			return i
		}
		if ap.IsIRI(it) == (b.Shape == "iri") {
			return i
		}
	}
	return -2
}

// runCollCase: implementation result for the correspondence + first violated clause against the
// reference insertion-ordered set (only judged when the pool is distinct).
func runCollCase(cs collCase) (res map[string]interface{}, viol string) {
	items := make([]ap.Item, len(cs.Pool))
	for i, b := range cs.Pool {
		items[i] = b.item()
	}
	h := newColl(cs.Kind, cs.Total)
	var ref []int // reference: insertion-ordered set of pool indices
	has := func(x int) bool {
		for _, y := range ref {
			if y == x {
				return true
			}
		}
		return false
	}
	outs := []interface{}{}
	var final [][3]string
	pan, msg := guard(func() {
		for _, i := range cs.Init {
			_ = h.ci.Append(items[i])
			if !has(i) {
				ref = append(ref, i)
			}
		}
		for _, op := range cs.Ops {
			name := op[0].(string)
			x := 0
			if len(op) > 1 {
				x = int(num(op[1]))
			}
			switch name {
			case "append":
				_ = h.ci.Append(items[x])
				outs = append(outs, "ok")
				if !has(x) {
					ref = append(ref, x)
				}
			case "append3":
				// one variadic call with three items: x, y and x again
				y := int(num(op[2]))
				_ = h.ci.Append(items[x], items[y], items[x])
				outs = append(outs, "ok", "ok", "ok")
				for _, z := range []int{x, y, x} {
					if !has(z) {
						ref = append(ref, z)
					}
				}
			case "contains":
				got := h.ci.Contains(items[x])
				outs = append(outs, got)
				if cs.Distinct && viol == "" && got != has(x) {
					viol = fmt.Sprintf("Contains(pool[%d]) = %v, the set says %v", x, got, has(x))
				}
			case "remove":
				h.remove(items[x])
				outs = append(outs, "ok")
				for k, y := range ref {
					if y == x {
						ref = append(ref[:k:k], ref[k+1:]...)
						break
					}
				}
			case "count":
				got := h.ci.Count()
				outs = append(outs, got)
				if cs.Distinct && viol == "" && int(got) != len(ref) {
					viol = fmt.Sprintf("Count() = %d, the set has %d members", got, len(ref))
				}
			}
			if cs.Distinct && viol == "" {
				cur := h.ci.Collection()
				if len(cur) != len(ref) {
					viol = fmt.Sprintf("after %v the collection has %d members, the set has %d", op, len(cur), len(ref))
				} else {
					for k := range cur {
						if identify(cs.Pool, cs.Kind, cur[k]) != ref[k] {
							viol = fmt.Sprintf("after %v member %d is pool[%d], the set has pool[%d] there", op, k, identify(cs.Pool, cs.Kind, cur[k]), ref[k])
							break
						}
					}
				}
			}
		}
		final = [][3]string{}
		for _, it := range h.ci.Collection() {
			final = append(final, describe(it))
		}
	})
	if pan {
		return map[string]interface{}{"panic": true}, "panic: " + msg
	}
	return map[string]interface{}{"outs": outs, "final": final}, viol
}

func c13Case(c *Ctx, cs collCase) {
	res, viol := runCollCase(cs)
	in := map[string]interface{}{"op": "coll", "kind": cs.Kind, "pool": cs.Pool, "init": cs.Init, "ops": cs.Ops, "distinct": cs.Distinct}
	c.Emit(in, res, len(cs.Ops) > 0)
	c.Tag("kind/" + cs.Kind)
	if !cs.Distinct {
		c.Tag("pool/equivalent-ids(correspondence only)")
	}
	if viol != "" {
		c.Fail("C13/set", viol, in)
	}
}

var c13Pool = []bareItem{
	{"iri", "https://example.com/a", ""},
	{"object", "https://example.com/b", "Note"},
	{"actor", "https://example.com/c", "Person"},
	{"activity", "https://example.com/d", "Create"},
}

// a third pool: members that agree in every property except their ids
var c13RichPool = []bareItem{
	{"rich-activity", "https://example.com/listen/1", "Listen"},
	{"rich-activity", "https://example.com/listen/2", "Listen"},
	{"rich-activity", "https://example.com/listen/3", "Listen"},
	{"object", "https://example.com/track/1", "Audio"},
}

// … actors and objects likewise
var c13RichPool2 = []bareItem{
	{"rich-actor", "https://example.com/~jdoe", "Person"},
	{"rich-actor", "https://social.example/~jdoe", "Person"},
	{"rich-object", "https://example.com/n/1", "Note"},
	{"rich-object", "https://social.example/n/1", "Note"},
}

// a second pool with pairwise distinct but path-nested ids (an actor and things below it)
var c13NestedPool = []bareItem{
	{"activity", "https://example.com/actors/jdoe/outbox/1", "Create"},
	{"actor", "https://example.com/actors/jdoe", "Person"},
	{"object", "https://example.com/items/12", "Note"},
	{"iri", "https://example.com/items/1", ""},
}

// pairwise distinct ids that are not hierarchical URLs (no host): URNs, tag:, did:, mailto:
var c13OpaquePool = []bareItem{
	{"object", "urn:uuid:6e8bc430-9c3a-11d9-9669-0800200c9a66", "Note"},
	{"object", "urn:uuid:7f9cd541-9c3a-11d9-9669-0800200c9a66", "Note"},
	{"iri", "tag:example.com,2024:post-1", ""},
	{"actor", "did:example:123456789abcdefghi", "Person"},
}

// ids with letters whose lower-case form and case folding disagree (the dotted capital I of Turkish lowers
// to "i" but folds to itself): pairwise distinct
var c13DottedPool = []bareItem{
	{"object", "https://example.com/users/İnci", "Note"},
	{"object", "https://example.com/users/inci", "Note"},
	{"iri", "https://example.com/tags/İzmir", ""},
	{"actor", "https://example.com/tags/izmir", "Person"},
}

// pools whose members are NOT pairwise distinct (scheme/case/slash variants, iri vs object of one id)
var c13LoosePools = [][]bareItem{
	{{"iri", "https://example.com/a", ""}, {"iri", "http://EXAMPLE.com/a/", ""}, {"object", "https://example.com/a", "Note"}, {"object", "https://example.com/b", "Note"}},
	{{"object", "https://example.com/a", "Note"}, {"object", "http://example.com/a", "Note"}, {"object", "https://example.com/a", "note"}, {"actor", "https://example.com/a", "Person"}},
	{{"activity", "https://example.com/x?a=1&b=2", "Create"}, {"iri", "https://example.com/x?b=2&a=1", ""}, {"activity", "https://example.com/x", "Create"}, {"iri", "https://example.com/x#f", ""}},
}

func c13Ops(kind string, n int) [][]interface{} {
	var ops [][]interface{}
	for i := 0; i < n; i++ {
		ops = append(ops, []interface{}{"append", i}, []interface{}{"contains", i})
		if kind != "IRIs" {
			ops = append(ops, []interface{}{"remove", i})
		}
	}
	for i := 0; i+1 < n; i += 2 {
		ops = append(ops, []interface{}{"append3", i, i + 1}) // a variadic Append that repeats an item within one call
	}
	return append(ops, []interface{}{"count"})
}

func init() {
	campaigns["C13"] = func(c *Ctx) {
		c.Rule = "histories of Append (single and variadic with a repeated item)/Contains/Remove/Count (Remove through the item-list view; IRI lists: no Remove) over pools of 4 items of mixed shapes (IRI, object, actor, activity) with pairwise distinct ids (one flat, one with path-nested ids, one whose members agree in every property except their ids), for each of the 6 collection kinds: exhaustive to a length bound (item list: 4 quick / 5 thorough; other kinds: 3 / 4), random to length 40; plus pools with equivalent ids (scheme/case/slash/query-order variants, IRI vs object of one id) for the model/code correspondence only. After every step contents, Count and Contains are compared with a reference insertion-ordered set. Non-trivial = at least one operation."
		for _, kind := range collKinds {
			maxLen := c.N(3, 4)
			if kind == "ItemCollection" {
				maxLen = c.N(4, 5)
			}
			ops := c13Ops(kind, len(c13Pool))
			var rec func(prefix [][]interface{}, depth int)
			rec = func(prefix [][]interface{}, depth int) {
				if depth == maxLen {
					c13Case(c, collCase{Kind: kind, Pool: c13Pool, Init: []int{}, Ops: append([][]interface{}{}, prefix...), Distinct: true})
					return
				}
				if depth > 0 && depth < maxLen {
					// shorter histories are prefixes of longer ones; emit only full-length ones and the empty one
				}
				for _, op := range ops {
					rec(append(prefix, op), depth+1)
				}
			}
			rec(nil, 0)
			for i := 0; i < c.N(600, 20000); i++ {
				var h [][]interface{}
				for k := 1 + c.R.Intn(40); k > 0; k-- {
					h = append(h, ops[c.R.Intn(len(ops))])
				}
				var init []int
				for k := c.R.Intn(3); k > 0; k-- {
					init = append(init, c.R.Intn(len(c13Pool)))
				}
				if init == nil {
					init = []int{}
				}
				pool := c13Pool
				if i%4 == 1 {
					pool = c13NestedPool
				} else if i%4 == 2 {
					pool = c13RichPool
					if i%8 == 6 {
						pool = c13RichPool2
					}
				} else if i%4 == 3 {
					pool = c13OpaquePool
					if i%8 == 7 {
						pool = c13DottedPool
					}
				}
				cs := collCase{Kind: kind, Pool: pool, Init: init, Ops: h, Distinct: true}
				if i%5 == 4 && kind != "ItemCollection" && kind != "IRIs" {
					cs.Total = uint(1 + c.R.Intn(5)) // the collection already reports a total: Count still counts members
				}
				c13Case(c, cs)
			}
			// a list that grows past several capacity doublings and is emptied again: a pool of 20 items, histories
			// that append most of them one by one, remove most of those, and go on
			if kind != "IRIs" {
				var big []bareItem
				for k := 0; k < 20; k++ {
					big = append(big, bareItem{[]string{"iri", "object", "actor", "activity"}[k%4], fmt.Sprintf("https://example.com/big/%d", k), []string{"", "Note", "Person", "Create"}[k%4]})
				}
				for i := 0; i < c.N(40, 1500); i++ {
					var h [][]interface{}
					perm := c.R.Perm(len(big))
					n := 9 + c.R.Intn(len(big)-9)
					for _, x := range perm[:n] {
						h = append(h, []interface{}{"append", x})
					}
					keep := c.R.Intn(5)
					for _, x := range c.R.Perm(n)[:n-keep] {
						h = append(h, []interface{}{"remove", perm[x]})
						if c.R.Chance(20) {
							h = append(h, []interface{}{"count"})
						}
					}
					for k := 0; k < 4; k++ {
						x := c.R.Intn(len(big))
						h = append(h, []interface{}{"contains", x}, []interface{}{"append", x}, []interface{}{"count"})
					}
					c13Case(c, collCase{Kind: kind, Pool: big, Init: []int{}, Ops: h, Distinct: true})
				}
			}
			for i := 0; i < c.N(600, 20000); i++ {
				pool := c13LoosePools[c.R.Intn(len(c13LoosePools))]
				var h [][]interface{}
				for k := 1 + c.R.Intn(12); k > 0; k-- {
					h = append(h, ops[c.R.Intn(len(ops))])
				}
				c13Case(c, collCase{Kind: kind, Pool: pool, Init: []int{}, Ops: h, Distinct: false})
			}
		}
		c.Exhaust = true
	}
	replayers["C13"] = func(class string, input []byte) string {
		var cs collCase
		if err := json.Unmarshal(input, &cs); err != nil {
			return "bad replay input: " + err.Error()
		}
		_, viol := runCollCase(cs)
		return viol
	}
}
