/-
C02 — Emitted JSON is valid, unambiguous, injection-free and correctly termed.

What is proved (Lean) and what is regenerated:
  * strings: every string the encoder writes goes through the escaper modelled in `Model/Text.lean`
    (tied per writing site by the `textWrite` correspondence of the C02 campaign: id, type, media type,
    IRI as item, IRI list member, units, hrefLang, former type, key owner/id, text, language-map value
    and tag, source media type, link href, url).  For EVERY byte string the written literal ends exactly
    at its own closing quote whatever follows (no injection, `C06_scan_esc`), contains no byte below 0x20
    (`C06_no_control`), and decodes back to the string when that is valid UTF-8 (`C06_unesc_esc`).
  * member names: `C02_terms` — on the write tables regenerated from the source, per struct: no term is
    written twice, no `<term>Map` form of a text property collides with another property's term, every
    row writes the property under the term the struct tag declares, with the helper that produces the
    prescribed JSON kind for the field's Go type.
The assembly of members into an object (commas, braces) and the nesting of values are covered by the
oracle (independent parser: encoding/json) only.
-/
import APModel.Props.C01
import APModel.Props.C06

namespace APModel.Codec
open APModel APModel.Generated

/-- the JSON kind a write helper produces -/
def helperJsonKind (h : String) : String :=
  if h == "JSONWriteBoolProp" then "bool"
  else if h == "JSONWriteIntProp" || h == "JSONWriteFloatProp" then "number"
  else if h == "JSONWriteTimeProp" then "string:rfc3339"
  else if h == "JSONWriteDurationProp" then "string:xsd-duration"
  else if h == "JSONWriteStringProp" || h == "JSONWriteIRIProp" then "string"
  else if h == "JSONWriteNaturalLanguageProp" then "string-or-language-map"
  else if h == "JSONWriteItemProp" || h == "JSONWriteItemCollectionProp" then "iri-object-or-array"
  else if h == "marshal" then "marshaler"
  else "?"

/-- the JSON kind ActivityStreams prescribes for a field of that Go kind -/
def prescribedKind (kind : String) : List String :=
  if kind == "bool" then ["bool"]
  else if kind == "int" || kind == "uint" || kind == "float" then ["number"]
  else if kind == "time" then ["string:rfc3339"]
  else if kind == "duration" then ["string:xsd-duration"]
  else if kind == "nlv" then ["string-or-language-map"]
  else if kind == "item" || kind == "items" then ["iri-object-or-array"]
  else if kind == "source" || kind == "pubkey" || kind == "endpoints" then ["marshaler"]
  else if kind.startsWith "string:" then ["string", "marshaler"]
  else []

/-- all member names a struct's writer can emit: the terms, plus `<term>Map` for text properties -/
def memberNames (S : Schema) (W : List WRow) : List String :=
  W.flatMap fun w =>
    if S.any (fun (f, kind, _) => f == w.field && kind == "nlv") then [w.term, w.term ++ "Map"] else [w.term]

/-- For each struct and sub-record: no member name can be written twice (terms are pairwise distinct,
also against the `Map` forms), every row writes a declared property under its declared term, with a
helper producing the prescribed JSON kind. -/
theorem C02_terms :
    jsonEntries.all (fun e =>
      let S := schemaOf e.1
      let W := wRows jsonWrite e.2.1
      decide ((memberNames S W).Nodup) &&
      W.all (fun w => S.any (fun (f, kind, term) =>
        f == w.field && term == w.term && (prescribedKind kind).contains (helperJsonKind w.helper)))) = true := by
  decide +kernel

/-- what the obligation rejects: the pinned tree wrote Link's preview under "url" next to the url
member, and Place wrote a coordinate twice -/
example : decide ((memberNames [("URL", "item", "url"), ("Preview", "item", "preview")]
    [⟨"url", "URL", "JSONWriteItemProp", "nonNil"⟩, ⟨"url", "Preview", "JSONWriteItemProp", "nonNil"⟩]).Nodup) = false := by
  decide +kernel
/-- … and a boolean or number written by the string helper (quoted) is rejected -/
example : (prescribedKind "bool").contains (helperJsonKind "JSONWriteStringProp") = false := by decide +kernel

end APModel.Codec

namespace APModel.Text

/-- C02, strings: whatever bytes a string-typed property holds and whatever the encoder writes after it,
a reader of the document finds the literal's end exactly where the writer closed it — the text can
never terminate its own string and add or override members. -/
theorem C02_no_injection (s rest : Bytes) : scan (esc s ++ quote :: rest) = some (esc s, rest) :=
  C06_scan_esc s rest

/-- … and the literal is made of bytes >= 0x20 only (JSON forbids raw control characters). -/
theorem C02_no_raw_control (s : Bytes) (hs : ∀ x ∈ s, x < 256) : ∀ x ∈ writeText s, 32 ≤ x := by
  intro x hx
  simp only [writeText, List.mem_cons, List.mem_append, List.not_mem_nil, or_false] at hx
  rcases hx with (rfl | hx) | rfl
  · simp [quote]
  · exact C06_no_control s hs x hx
  · simp [quote]

/-- … and it decodes back to exactly the bytes held, when they are valid UTF-8. -/
theorem C02_string_exact (s rest : Bytes) (hv : valid s = true) :
    readText (writeText s ++ rest) = some (s, rest) := C06_read_write s rest hv

/-- the injection attempt of the property text: an id holding  ","type":"Delete  is written with its
quotes escaped and reads back whole -/
example : readText (writeText [34, 44, 34, 116, 121, 112, 101, 34, 58, 34, 68, 101, 108, 101, 116, 101] ++ [34, 125]) =
    some ([34, 44, 34, 116, 121, 112, 101, 34, 58, 34, 68, 101, 108, 101, 116, 101], [34, 125]) := by decide

end APModel.Text
