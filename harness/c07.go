package main

import (
	"encoding/json"
	"fmt"
	"reflect"
	"strings"

	ap "github.com/go-ap/activitypub"
	"github.com/valyala/fastjson"
)

// C07 — every vocabulary type name maps to one Go type, consistently everywhere.

type vocabEntry struct {
	Name   string
	Family string // object | link | activity | intransitive | actor | collection | generic
	GoType string
}

func c07Vocabulary() []vocabEntry {
	var out []vocabEntry
	add := func(fam, goType string, names ...string) {
		for _, n := range names {
			out = append(out, vocabEntry{n, fam, goType})
		}
	}
	add("generic", "Object", "Object")
	add("generic", "Activity", "Activity")
	add("generic", "IntransitiveActivity", "IntransitiveActivity")
	add("generic", "Actor", "Actor")
	add("link", "Link", "Link", "Mention")
	add("object", "Object", "Article", "Audio", "Document", "Event", "Image", "Note", "Page", "Video")
	add("object", "Place", "Place")
	add("object", "Profile", "Profile")
	add("object", "Relationship", "Relationship")
	add("object", "Tombstone", "Tombstone")
	add("collection", "Collection", "Collection")
	add("collection", "OrderedCollection", "OrderedCollection")
	add("collection", "CollectionPage", "CollectionPage")
	add("collection", "OrderedCollectionPage", "OrderedCollectionPage")
	add("actor", "Actor", "Application", "Group", "Organization", "Person", "Service")
	add("activity", "Activity", vocab["Activity"][1:]...)
	add("intransitive", "IntransitiveActivity", "Arrive", "Travel")
	add("intransitive", "Question", "Question")
	return out
}

var c07Paths = []string{"registry", "jsonTop", "jsonNested", "jsonList", "jsonItemList", "gobTop", "gobNested", "gobList", "gobItemList",
	// the value next to a member whose type is outside the vocabulary, in an array held by an item position / at the top level
	"jsonForeignSibling", "jsonTopForeign",
	// the value without id and name, carrying only a property of its own family
	"jsonAnonTop", "jsonAnonNested", "jsonAnonList",
	// the document as other writers spell it: solidi escaped (PHP's json_encode), letters as \u escapes
	"jsonEscapedTop", "jsonEscapedNested", "jsonEscapedList"}

// … and the value nested under each item-valued property of an object, in both codecs (a property whose
// reader or decoder assumes the common representation of its values)
// … and the value as the only member of a list position, in the compacted JSON-LD spelling of a one-member list
// (the bare member instead of a one-element array): field, the type of the holder, the term
var c07CompactLists = [][3]string{{"Items", "Collection", "items"}, {"OrderedItems", "OrderedCollection", "orderedItems"}, {"Tag", "Note", "tag"},
	{"CC", "Note", "cc"}, {"Audience", "Create", "audience"}, {"Streams", "Person", "streams"}}

var c07ObjectItemFields = [][2]string{{"Attachment", "attachment"}, {"AttributedTo", "attributedTo"}, {"Context", "context"}, {"Generator", "generator"},
	{"Icon", "icon"}, {"Image", "image"}, {"InReplyTo", "inReplyTo"}, {"Location", "location"}, {"Preview", "preview"}, {"Replies", "replies"},
	{"URL", "url"}, {"Likes", "likes"}, {"Shares", "shares"}}

func init() {
	for _, f := range c07CompactLists {
		c07Paths = append(c07Paths, "jsonCompact:"+f[0])
	}
	// the value embedded in an addressing list, through gob; and in an array held by an item position, behind members
	// that stand for nothing (null, a string that is no IRI, an empty object)
	for _, f := range []string{"To", "CC", "Bto", "BCC", "Audience", "Tag"} {
		c07Paths = append(c07Paths, "gobRecipient:"+f)
	}
	c07Paths = append(c07Paths, "jsonItemListAfterNothing:object", "jsonItemListAfterNothing:attachment", "jsonItemListAfterNothing:inReplyTo")
	for _, f := range c07ObjectItemFields {
		c07Paths = append(c07Paths, "jsonField:"+f[0], "gobField:"+f[0])
	}
}

// c07AnonDoc: a document of the given type name with no id and one property that belongs to the type's own
// family (an activity's actor, a collection's totalItems, an actor's inbox, a link's href, an object's content)
func c07AnonDoc(name string) string {
	typ := ap.ActivityVocabularyType(name)
	prop := `"content":"marker"`
	switch {
	case ap.ActivityTypes.Contains(typ) || ap.IntransitiveActivityTypes.Contains(typ) || name == "Activity" || name == "IntransitiveActivity":
		prop = `"actor":"https://example.com/~actor"`
	case ap.CollectionTypes.Contains(typ):
		prop = `"totalItems":3`
	case ap.ActorTypes.Contains(typ) || name == "Actor":
		prop = `"inbox":"https://example.com/inbox"`
	case ap.LinkTypes.Contains(typ):
		prop = `"href":"https://example.com/href"`
	}
	if name == "" {
		return "{" + prop + "}"
	}
	return fmt.Sprintf(`{"type":%q,%s}`, name, prop)
}

type c07Cell struct {
	Name  string `json:"name"`
	Via   string `json:"via"`
	Hooks bool   `json:"hooks"`
}

const c07ID = "https://example.com/the-item"

func goTypeOf(it ap.Item) string {
	if it == nil {
		return "nothing"
	}
	if ap.IsItemCollection(it) {
		if col, err := ap.ToItemCollection(it); err == nil && (col == nil || len(*col) == 0) {
			return "nothing" // an empty list is what an absent value decodes to
		}
	}
	t := reflect.TypeOf(it)
	s := t.String()
	return strings.Replace(s, "activitypub.", "", 1)
}

// withHooks installs extending hooks that delegate to the defaults for every name the defaults know.
func withHooks(on bool, f func()) {
	if !on {
		f()
		return
	}
	oldT, oldJ := ap.ItemTyperFunc, ap.JSONItemUnmarshal
	defer func() { ap.ItemTyperFunc, ap.JSONItemUnmarshal = oldT, oldJ }()
	ap.ItemTyperFunc = func(typ ap.ActivityVocabularyType) (ap.Item, error) { return ap.GetItemByType(typ) }
	ap.JSONItemUnmarshal = func(typ ap.ActivityVocabularyType, val *fastjson.Value, it ap.Item) error {
		return ap.OnObject(it, func(o *ap.Object) error { return ap.JSONLoadObject(val, o) })
	}
	f()
}

// c07Pick: the member of a decoded list that is not the fixed second member (nor the member of a foreign type,
// which has no id)
func c07Pick(col ap.ItemCollection) ap.Item {
	for _, m := range col {
		if !ap.IsNil(m) && string(m.GetLink()) == c07ID {
			return m
		}
	}
	for _, m := range col {
		if !ap.IsNil(m) && string(m.GetLink()) != "https://example.com/second" && string(m.GetLink()) != "" {
			return m
		}
	}
	return nil
}

func c07Run(cell c07Cell) (goType string, idOK, markerOK bool, it ap.Item, pan string) {
	doc := fmt.Sprintf(`{"id":%q,"type":%q,"name":"marker"}`, c07ID, cell.Name)
	if cell.Name == "" {
		doc = fmt.Sprintf(`{"id":%q,"name":"marker"}`, c07ID)
	}
	mk := func() ap.Item {
		v, _ := ap.GetItemByType(ap.ActivityVocabularyType(cell.Name))
		if v == nil {
			return nil
		}
		sv := reflect.ValueOf(v).Elem()
		sv.FieldByName("ID").SetString(c07ID)
		sv.FieldByName("Type").SetString(cell.Name)
		sv.FieldByName("Name").Set(reflect.ValueOf(ap.NaturalLanguageValues{{Ref: ap.NilLangRef, Value: ap.Content("marker")}}))
		return v
	}
	p, msg := guard(func() {
		withHooks(cell.Hooks, func() {
			switch cell.Via {
			case "registry":
				it, _ = ap.ItemTyperFunc(ap.ActivityVocabularyType(cell.Name))
			case "jsonTop":
				it, _ = ap.UnmarshalJSON([]byte(doc))
			case "jsonNested":
				outer, _ := ap.UnmarshalJSON([]byte(`{"id":"https://example.com/outer","type":"Create","object":` + doc + `}`))
				if a, ok := outer.(*ap.Activity); ok {
					it = a.Object
				}
			case "jsonList":
				outer, _ := ap.UnmarshalJSON([]byte(`{"id":"https://example.com/outer","type":"Collection","items":[` + doc + `,"https://example.com/an-iri"]}`))
				if c, ok := outer.(*ap.Collection); ok && len(c.Items) > 0 && !ap.IsIRI(c.Items[0]) {
					it = c.Items[0]
				}
			case "jsonItemList":
				// a list in an item-typed (single value) position
				outer, _ := ap.UnmarshalJSON([]byte(`{"id":"https://example.com/outer","type":"Create","object":[` + doc + `,{"id":"https://example.com/second","type":"Note"}]}`))
				if a, ok := outer.(*ap.Activity); ok {
					_ = ap.OnItemCollection(a.Object, func(col *ap.ItemCollection) error {
						it = c07Pick(*col)
						return nil
					})
				}
			case "field":
			default:
			}
			if strings.HasPrefix(cell.Via, "gobRecipient:") {
				field := cell.Via[len("gobRecipient:"):]
				o := &ap.Object{ID: "https://example.com/outer", Type: ap.NoteType}
				if v := mk(); v != nil {
					reflect.ValueOf(o).Elem().FieldByName(field).Set(reflect.ValueOf(ap.ItemCollection{ap.IRI("https://example.com/first"), v}))
					if b, err := ap.GobEncode(o); err == nil && len(b) > 0 {
						outer, _ := ap.GobDecode(b)
						if oo, ok := outer.(*ap.Object); ok {
							if l, ok := reflect.ValueOf(oo).Elem().FieldByName(field).Interface().(ap.ItemCollection); ok && len(l) == 2 {
								it = l[1]
							}
						}
					}
				}
			}
			if strings.HasPrefix(cell.Via, "jsonItemListAfterNothing:") {
				term := cell.Via[len("jsonItemListAfterNothing:"):]
				typ := "Note"
				if term == "object" {
					typ = "Create"
				}
				outer, _ := ap.UnmarshalJSON([]byte(`{"id":"https://example.com/outer","type":"` + typ + `","` + term + `":[null,"not an iri",{},` + doc + `,{"id":"https://example.com/second","type":"Note"}]}`))
				if outer != nil {
					if rv := reflect.ValueOf(outer); rv.Kind() == reflect.Ptr && rv.Elem().Kind() == reflect.Struct {
						name := strings.ToUpper(term[:1]) + term[1:]
						if v, ok := rv.Elem().FieldByName(name).Interface().(ap.Item); ok && v != nil {
							_ = ap.OnItemCollection(v, func(col *ap.ItemCollection) error {
								it = c07Pick(*col)
								return nil
							})
						}
					}
				}
			}
			if strings.HasPrefix(cell.Via, "jsonCompact:") {
				for _, f := range c07CompactLists {
					if f[0] != cell.Via[len("jsonCompact:"):] {
						continue
					}
					outer, _ := ap.UnmarshalJSON([]byte(`{"id":"https://example.com/outer","type":"` + f[1] + `","` + f[2] + `":` + doc + `}`))
					if outer == nil {
						break
					}
					if rv := reflect.ValueOf(outer); rv.Kind() == reflect.Ptr && rv.Elem().Kind() == reflect.Struct {
						if l, ok := rv.Elem().FieldByName(f[0]).Interface().(ap.ItemCollection); ok && len(l) == 1 {
							it = l[0]
						} else if ok && len(l) > 1 {
							it = l // more members than were written: reported as the list itself
						}
					}
				}
			}
			if strings.HasPrefix(cell.Via, "jsonField:") || strings.HasPrefix(cell.Via, "gobField:") {
				field := cell.Via[strings.Index(cell.Via, ":")+1:]
				term := ""
				for _, f := range c07ObjectItemFields {
					if f[0] == field {
						term = f[1]
					}
				}
				if strings.HasPrefix(cell.Via, "jsonField:") {
					outer, _ := ap.UnmarshalJSON([]byte(`{"id":"https://example.com/outer","type":"Note","` + term + `":` + doc + `}`))
					if o, ok := outer.(*ap.Object); ok {
						it, _ = reflect.ValueOf(o).Elem().FieldByName(field).Interface().(ap.Item)
					}
				} else {
					o := &ap.Object{ID: "https://example.com/outer", Type: ap.NoteType}
					if v := mk(); v != nil {
						reflect.ValueOf(o).Elem().FieldByName(field).Set(reflect.ValueOf(v))
						b, err := ap.GobEncode(o)
						if err == nil && len(b) > 0 {
							outer, _ := ap.GobDecode(b)
							if oo, ok := outer.(*ap.Object); ok {
								it, _ = reflect.ValueOf(oo).Elem().FieldByName(field).Interface().(ap.Item)
							}
						}
					}
				}
			}
			if strings.HasPrefix(cell.Via, "jsonEscaped") {
				// every solidus as \/ and the letters of the type name and of "example" as \u00xx: the same document
				esc := strings.ReplaceAll(doc, "/", `\/`)
				esc = strings.ReplaceAll(esc, "example", `\u0065xampl\u0065`)
				if len(cell.Name) > 1 {
					esc = strings.Replace(esc, `"type":"`+cell.Name+`"`, `"type":"`+fmt.Sprintf(`\u%04x`, cell.Name[0])+cell.Name[1:]+`"`, 1)
				}
				switch cell.Via {
				case "jsonEscapedTop":
					it, _ = ap.UnmarshalJSON([]byte(esc))
				case "jsonEscapedNested":
					outer, _ := ap.UnmarshalJSON([]byte(`{"id":"https://example.com/outer","type":"Create","object":` + esc + `}`))
					if a, ok := outer.(*ap.Activity); ok {
						it = a.Object
					}
				case "jsonEscapedList":
					outer, _ := ap.UnmarshalJSON([]byte(`{"id":"https://example.com/outer","type":"Collection","items":[` + esc + `,"https:\/\/example.com\/an-iri"]}`))
					if c, ok := outer.(*ap.Collection); ok && len(c.Items) > 0 && !ap.IsIRI(c.Items[0]) {
						it = c.Items[0]
					}
				}
			}
			switch cell.Via {
			case "jsonForeignSibling":
				for _, docs := range []string{doc + `,{"type":"PropertyValue","name":"x","value":"y"}`, `{"type":"PropertyValue","name":"x","value":"y"},` + doc} {
					outer, _ := ap.UnmarshalJSON([]byte(`{"id":"https://example.com/outer","type":"Create","object":[` + docs + `]}`))
					it = nil
					if a, ok := outer.(*ap.Activity); ok && !ap.IsNil(a.Object) {
						if ap.IsItemCollection(a.Object) {
							_ = ap.OnItemCollection(a.Object, func(col *ap.ItemCollection) error {
								it = c07Pick(*col)
								return nil
							})
						} else {
							it = a.Object
						}
					}
					if ap.IsNil(it) {
						break // lost in this placement
					}
				}
			case "jsonTopForeign":
				outer, _ := ap.UnmarshalJSON([]byte(`[` + doc + `,{"type":"PropertyValue","name":"x","value":"y"}]`))
				if ap.IsItemCollection(outer) {
					_ = ap.OnItemCollection(outer, func(col *ap.ItemCollection) error {
						it = c07Pick(*col)
						return nil
					})
				} else {
					it = outer
				}
			case "jsonAnonTop":
				it, _ = ap.UnmarshalJSON([]byte(c07AnonDoc(cell.Name)))
			case "jsonAnonNested":
				outer, _ := ap.UnmarshalJSON([]byte(`{"id":"https://example.com/outer","type":"Create","object":` + c07AnonDoc(cell.Name) + `}`))
				if a, ok := outer.(*ap.Activity); ok {
					it = a.Object
				}
			case "jsonAnonList":
				outer, _ := ap.UnmarshalJSON([]byte(`{"id":"https://example.com/outer","type":"Collection","items":[` + c07AnonDoc(cell.Name) + `,"https://example.com/an-iri"]}`))
				if c, ok := outer.(*ap.Collection); ok && len(c.Items) > 0 && !ap.IsIRI(c.Items[0]) {
					it = c.Items[0]
				}
			case "gobList", "gobItemList":
				second := &ap.Object{ID: "https://example.com/second", Type: ap.NoteType}
				var outerIn ap.Item = &ap.OrderedCollection{ID: "https://example.com/outer", Type: ap.OrderedCollectionType, OrderedItems: ap.ItemCollection{mk(), second}}
				if cell.Via == "gobItemList" {
					outerIn = &ap.Activity{ID: "https://example.com/outer", Type: ap.CreateType, Object: ap.ItemCollection{mk(), second}}
				}
				b, err := ap.GobEncode(outerIn)
				if err == nil && len(b) > 0 {
					outer, _ := ap.GobDecode(b)
					var l ap.Item
					switch o := outer.(type) {
					case *ap.OrderedCollection:
						l = o.OrderedItems
					case *ap.Activity:
						l = o.Object
					}
					if ap.IsItemCollection(l) {
						_ = ap.OnItemCollection(l, func(col *ap.ItemCollection) error {
							it = c07Pick(*col)
							return nil
						})
					} else if !ap.IsNil(l) {
						it = l // whatever came back instead of the list
					}
				}
			case "gobTop":
				b, err := ap.GobEncode(mk())
				if err == nil && len(b) > 0 {
					it, _ = ap.GobDecode(b)
				}
			case "gobNested":
				b, err := ap.GobEncode(&ap.Activity{ID: "https://example.com/outer", Type: ap.CreateType, Object: mk()})
				if err == nil && len(b) > 0 {
					outer, _ := ap.GobDecode(b)
					if a, ok := outer.(*ap.Activity); ok {
						it = a.Object
					}
				}
			}
		})
	})
	if p {
		return "panic", false, false, nil, msg
	}
	if ap.IsNil(it) {
		return "nothing", false, false, nil, ""
	}
	goType = goTypeOf(it)
	idOK = string(it.GetLink()) == c07ID
	if strings.HasPrefix(cell.Via, "jsonAnon") {
		idOK, markerOK = true, true // no id and no name in these documents: the type is what is judged
	} else if cell.Via != "registry" {
		sv := reflect.ValueOf(it)
		if sv.Kind() == reflect.Ptr {
			if f := sv.Elem().FieldByName("Name"); f.IsValid() {
				if n, ok := f.Interface().(ap.NaturalLanguageValues); ok && len(n) == 1 && string(n[0].Value) == "marker" {
					markerOK = true
				}
			}
		}
	} else {
		idOK, markerOK = true, true
	}
	return
}

func c07Judge(e *vocabEntry, cell c07Cell, goType string, idOK, markerOK bool, it ap.Item) string {
	if e == nil {
		// a name outside the vocabulary: never a value of a wrong vocabulary type. Nothing, or an untyped *Object.
		if goType != "nothing" && goType != "*Object" {
			return fmt.Sprintf("the unknown name %q produced a %s", cell.Name, goType)
		}
		// … and without the extension hooks nothing at all (an error or no value), wherever the value stands
		if !cell.Hooks && goType != "nothing" && cell.Via != "registry" { // the registry answers with an error next to its default value
			return fmt.Sprintf("the unknown name %q via %s produced a %s although no extension hook is installed", cell.Name, cell.Via, goType)
		}
		return ""
	}
	if goType != "*"+e.GoType {
		return fmt.Sprintf("%s via %s (hooks=%v) produced %s, the vocabulary prescribes *%s", cell.Name, cell.Via, cell.Hooks, goType, e.GoType)
	}
	if !idOK {
		return fmt.Sprintf("%s via %s: the id was not carried over", cell.Name, cell.Via)
	}
	if !markerOK {
		return fmt.Sprintf("%s via %s: the name property was not carried over", cell.Name, cell.Via)
	}
	typ := ap.ActivityVocabularyType(cell.Name)
	fam := map[string]bool{"object": ap.ObjectTypes.Contains(typ), "actor": ap.ActorTypes.Contains(typ), "activity": ap.ActivityTypes.Contains(typ),
		"intransitive": ap.IntransitiveActivityTypes.Contains(typ), "link": ap.LinkTypes.Contains(typ), "collection": ap.CollectionTypes.Contains(typ), "generic": ap.GenericTypes.Contains(typ)}
	for f, in := range fam {
		if in != (f == e.Family) {
			return fmt.Sprintf("%s: family list %q membership is %v, the vocabulary places it in %q", cell.Name, f, in, e.Family)
		}
	}
	isLink := e.Family == "link"
	isColl := e.Family == "collection"
	if it.IsLink() != isLink || it.IsObject() == isLink || it.IsCollection() != isColl || ap.IsObject(it) == isLink || ap.IsLink(it) != isLink {
		return fmt.Sprintf("%s via %s: IsObject/IsLink/IsCollection = %v/%v/%v disagree with family %q", cell.Name, cell.Via, it.IsObject(), it.IsLink(), it.IsCollection(), e.Family)
	}
	// the family's helper accepts it
	var err error
	switch e.Family {
	case "link":
		_, err = ap.ToLink(it)
	case "actor":
		_, err = ap.ToActor(it)
	case "activity":
		_, err = ap.ToActivity(it)
		if err == nil {
			_, err = ap.ToIntransitiveActivity(it)
		}
	case "intransitive":
		_, err = ap.ToIntransitiveActivity(it)
	case "collection":
		err = ap.OnCollectionIntf(it, func(ap.CollectionInterface) error { return nil })
	}
	if err == nil && !isLink {
		_, err = ap.ToObject(it)
	}
	if err != nil {
		return fmt.Sprintf("%s via %s: the family's helper refuses it: %v", cell.Name, cell.Via, err)
	}
	return ""
}

func init() {
	campaigns["C07"] = func(c *Ctx) {
		voc := c07Vocabulary()
		names := []string{}
		byName := map[string]*vocabEntry{}
		for i := range voc {
			names = append(names, voc[i].Name)
			byName[voc[i].Name] = &voc[i]
		}
		extra := []string{"", "Foo", "note", "Emoji", "IRI", "ItemCollection"}
		c.Rule = fmt.Sprintf("exhaustive: %d vocabulary names + %d other names (empty, unknown, wrong case, internal pseudo types) x 40 paths (nested under each of the 13 item-valued properties of an object in both codecs; registry, JSON top-level / nested in an item position / in a list property / in a list held by an item position, gob top-level / nested / in a list property / in a list held by an item position, JSON next to a member of a type outside the vocabulary in an array in an item position (either order) and at the top level, JSON without id and name carrying only a property of the type's own family at top level / nested / in a list) x hooks unset/set (extending hooks that delegate to the defaults). Per cell: reflect type, id, marker property, family lists, IsObject/IsLink/IsCollection, family helper. Non-trivial = a vocabulary name.", len(names), len(extra))
		for _, n := range append(append([]string{}, names...), extra...) {
			for _, via := range c07Paths {
				for _, hooks := range []bool{false, true} {
					cell := c07Cell{n, via, hooks}
					goType, idOK, markerOK, it, pan := c07Run(cell)
					in := map[string]interface{}{"op": "typeOf", "name": n, "via": via, "hooks": hooks}
					c.Emit(in, goType, byName[n] != nil)
					c.Tag("via/" + via)
					if pan != "" {
						c.Fail("C07/panic", pan, cell)
						continue
					}
					if n == "" || n == "IRI" || n == "ItemCollection" {
						continue // the empty name and the internal pseudo types: correspondence only
					}
					if v := c07Judge(byName[n], cell, goType, idOK, markerOK, it); v != "" {
						c.Fail("C07/type", v, cell)
					}
				}
			}
		}
		c.Exhaust = true
	}
	replayers["C07"] = func(class string, input []byte) string {
		var cell c07Cell
		if err := json.Unmarshal(input, &cell); err != nil {
			return "bad replay input"
		}
		voc := c07Vocabulary()
		var e *vocabEntry
		for i := range voc {
			if voc[i].Name == cell.Name {
				e = &voc[i]
			}
		}
		goType, idOK, markerOK, it, pan := c07Run(cell)
		if pan != "" {
			return "panic: " + pan
		}
		return c07Judge(e, cell, goType, idOK, markerOK, it)
	}
}
