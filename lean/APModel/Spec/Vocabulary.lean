/-
The ActivityStreams 2.0 / ActivityPub vocabulary as the W3C documents give it
(https://www.w3.org/TR/activitystreams-vocabulary/): type name → family → the Go struct kind the
library is expected to use for it. Hand-written specification, independent of the Go source.
-/
import APModel.Model.Value

namespace APModel.Spec

inductive Family
  | object | link | activity | intransitive | actor | collection | generic
  deriving DecidableEq, Repr

structure VocabEntry where
  name : String
  family : Family
  kind : Kind
  deriving Repr

def vocabulary : List VocabEntry := [
  -- core / generic names
  ⟨"Object", .generic, .object⟩, ⟨"Activity", .generic, .activity⟩,
  ⟨"IntransitiveActivity", .generic, .intransitive⟩, ⟨"Actor", .generic, .actor⟩,
  -- links
  ⟨"Link", .link, .link⟩, ⟨"Mention", .link, .link⟩,
  -- object types
  ⟨"Article", .object, .object⟩, ⟨"Audio", .object, .object⟩, ⟨"Document", .object, .object⟩,
  ⟨"Event", .object, .object⟩, ⟨"Image", .object, .object⟩, ⟨"Note", .object, .object⟩,
  ⟨"Page", .object, .object⟩, ⟨"Video", .object, .object⟩,
  ⟨"Place", .object, .place⟩, ⟨"Profile", .object, .profile⟩,
  ⟨"Relationship", .object, .relationship⟩, ⟨"Tombstone", .object, .tombstone⟩,
  -- collections
  ⟨"Collection", .collection, .collection⟩, ⟨"OrderedCollection", .collection, .orderedCollection⟩,
  ⟨"CollectionPage", .collection, .collectionPage⟩, ⟨"OrderedCollectionPage", .collection, .orderedCollectionPage⟩,
  -- actors
  ⟨"Application", .actor, .actor⟩, ⟨"Group", .actor, .actor⟩, ⟨"Organization", .actor, .actor⟩,
  ⟨"Person", .actor, .actor⟩, ⟨"Service", .actor, .actor⟩,
  -- transitive activities
  ⟨"Accept", .activity, .activity⟩, ⟨"Add", .activity, .activity⟩, ⟨"Announce", .activity, .activity⟩,
  ⟨"Block", .activity, .activity⟩, ⟨"Create", .activity, .activity⟩, ⟨"Delete", .activity, .activity⟩,
  ⟨"Dislike", .activity, .activity⟩, ⟨"Flag", .activity, .activity⟩, ⟨"Follow", .activity, .activity⟩,
  ⟨"Ignore", .activity, .activity⟩, ⟨"Invite", .activity, .activity⟩, ⟨"Join", .activity, .activity⟩,
  ⟨"Leave", .activity, .activity⟩, ⟨"Like", .activity, .activity⟩, ⟨"Listen", .activity, .activity⟩,
  ⟨"Move", .activity, .activity⟩, ⟨"Offer", .activity, .activity⟩, ⟨"Reject", .activity, .activity⟩,
  ⟨"Read", .activity, .activity⟩, ⟨"Remove", .activity, .activity⟩, ⟨"TentativeReject", .activity, .activity⟩,
  ⟨"TentativeAccept", .activity, .activity⟩, ⟨"Undo", .activity, .activity⟩, ⟨"Update", .activity, .activity⟩,
  ⟨"View", .activity, .activity⟩,
  -- intransitive activities
  ⟨"Arrive", .intransitive, .intransitive⟩, ⟨"Travel", .intransitive, .intransitive⟩,
  ⟨"Question", .intransitive, .question⟩
]

def namesOf (f : Family) : List String := (vocabulary.filter (fun e => e.family == f)).map (·.name)

end APModel.Spec
