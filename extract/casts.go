package main

import (
	"fmt"
	"go/ast"
	"go/types"
	"sort"
	"strings"
)

// C08: struct layouts (go/types, gc/amd64 sizes) and every pointer-reinterpreting conversion site
//   (*T)(unsafe.Pointer(e))
// with the static type of e. Field names and type classes are interned to Nat.

func (x *Extractor) typeClass(t types.Type) string {
	if _, ok := t.Underlying().(*types.Interface); ok {
		return "iface" // Item, CanReceiveActivities, ObjectOrLink: two-word interfaces
	}
	return types.TypeString(t, func(p *types.Package) string { return "" })
}

func (x *Extractor) genCasts() string {
	var sb strings.Builder
	sb.WriteString(header)
	sb.WriteString("namespace APModel.Generated\n\n")
	if err := x.typecheck(); err != nil {
		sb.WriteString("def layoutsError : String := " + lstr(err.Error()) + "\ndef layouts : List (String × Nat × List (Nat × Nat × Nat × Nat)) := []\ndef castSites : List (String × String × String × Bool) := []\ndef unsafeRefs : Nat := 0\ndef fieldNames : List String := []\ndef classNames : List String := []\ndef fieldIdItems : Nat := 0\ndef fieldIdOrderedItems : Nat := 0\n\nend APModel.Generated\n")
		return sb.String()
	}
	fieldIn, classIn := newInterner(), newInterner()
	structs := []string{"Object", "Actor", "Activity", "IntransitiveActivity", "Question", "Collection", "OrderedCollection", "CollectionPage", "OrderedCollectionPage", "Place", "Profile", "Relationship", "Tombstone", "Link"}
	sb.WriteString("/-- struct layouts: (type, size, [(field id, class id, offset, size)]) as the gc compiler lays them out on amd64 -/\ndef layouts : List (String × Nat × List (Nat × Nat × Nat × Nat)) := [\n")
	for i, n := range structs {
		obj := x.pkg.Scope().Lookup(n)
		if obj == nil {
			continue
		}
		st, ok := obj.Type().Underlying().(*types.Struct)
		if !ok {
			continue
		}
		var fields []*types.Var
		for j := 0; j < st.NumFields(); j++ {
			fields = append(fields, st.Field(j))
		}
		offs := x.sizes.Offsetsof(fields)
		var rows []string
		for j, f := range fields {
			rows = append(rows, fmt.Sprintf("(%d, %d, %d, %d)", fieldIn.id(f.Name()), classIn.id(x.typeClass(f.Type())), offs[j], x.sizes.Sizeof(f.Type())))
		}
		sep := ","
		if i == len(structs)-1 {
			sep = ""
		}
		fmt.Fprintf(&sb, "  (%s, %d, [%s])%s\n", lstr(n), x.sizes.Sizeof(obj.Type()), strings.Join(rows, ", "), sep)
	}
	sb.WriteString("]\n\n")
	type site struct {
		fn, src, dst string
		viaCopy      bool
	}
	var sites []site
	var keys []string
	for k := range x.funcs {
		keys = append(keys, k)
	}
	sort.Strings(keys)
	for _, k := range keys {
		fd := x.funcs[k]
		if fd.Body == nil {
			continue
		}
		ast.Inspect(fd.Body, func(n ast.Node) bool {
			call, ok := n.(*ast.CallExpr)
			if !ok || len(call.Args) != 1 {
				return true
			}
			par, ok := call.Fun.(*ast.ParenExpr)
			if !ok {
				return true
			}
			star, ok := par.X.(*ast.StarExpr)
			if !ok {
				return true
			}
			inner, ok := call.Args[0].(*ast.CallExpr)
			if !ok || x.src(inner.Fun) != "unsafe.Pointer" || len(inner.Args) != 1 {
				return true
			}
			arg := inner.Args[0]
			viaCopy := false
			if u, ok := arg.(*ast.UnaryExpr); ok && u.Op.String() == "&" {
				viaCopy = true
			}
			src := "?unknown"
			if tv, ok := x.info.Types[arg]; ok {
				if p, ok := tv.Type.(*types.Pointer); ok {
					src = types.TypeString(p.Elem(), func(*types.Package) string { return "" })
				} else {
					src = "?" + tv.Type.String()
				}
			}
			sites = append(sites, site{k, src, x.src(star.X), viaCopy})
			return true
		})
	}
	sb.WriteString("/-- every `(*T)(unsafe.Pointer(e))`: (enclosing function, struct e points to, T, e is the address of a local copy) -/\ndef castSites : List (String × String × String × Bool) := [\n")
	for i, s := range sites {
		sep := ","
		if i == len(sites)-1 {
			sep = ""
		}
		fmt.Fprintf(&sb, "  (%s, %s, %s, %v)%s\n", lstr(s.fn), lstr(s.src), lstr(s.dst), s.viaCopy, sep)
	}
	sb.WriteString("]\n\n")
	other := 0
	for _, f := range x.files {
		ast.Inspect(f, func(n ast.Node) bool {
			if sel, ok := n.(*ast.SelectorExpr); ok && x.src(sel.X) == "unsafe" {
				other++
			}
			return true
		})
	}
	fmt.Fprintf(&sb, "/-- number of references to package unsafe in the whole package (each cast site has exactly one) -/\ndef unsafeRefs : Nat := %d\n\n", other)
	fmt.Fprintf(&sb, "def fieldNames : List String := %s\n\ndef classNames : List String := %s\n\n", lstrList(fieldIn.names), lstrList(classIn.names))
	fmt.Fprintf(&sb, "def fieldIdItems : Nat := %d\ndef fieldIdOrderedItems : Nat := %d\n\nend APModel.Generated\n", fieldIn.id("Items"), fieldIn.id("OrderedItems"))
	x.facts["cast_sites"] = len(sites)
	return sb.String()
}

func init() {
	moreGens = append(moreGens, func(x *Extractor) map[string]func() string {
		return map[string]func() string{"Casts.lean": x.genCasts}
	})
}
