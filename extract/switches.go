package main

import (
	"fmt"
	"go/ast"
	"go/token"
	"sort"
	"strings"
)

// type-name tables for C07: string constants of type ActivityVocabularyType, the case lists of the four
// switches, the family lists, IsObject's type list, the type lists of the To* type switches, hook references.
// Type names are interned: `typeNames[i]` is the string with id i (id 0 is the empty name "").

type interner struct {
	ids   map[string]int
	names []string
}

func newInterner() *interner { return &interner{ids: map[string]int{"": 0}, names: []string{""}} }
func (in *interner) id(s string) int {
	if i, ok := in.ids[s]; ok {
		return i
	}
	in.ids[s] = len(in.names)
	in.names = append(in.names, s)
	return in.ids[s]
}

func natList(l []int) string {
	q := make([]string, len(l))
	for i, n := range l {
		q[i] = fmt.Sprint(n)
	}
	return "[" + strings.Join(q, ", ") + "]"
}

// constValues: const NAME ActivityVocabularyType = "value"
func (x *Extractor) constValues() map[string]string {
	out := map[string]string{}
	for _, f := range x.files {
		for _, d := range f.Decls {
			gd, ok := d.(*ast.GenDecl)
			if !ok || gd.Tok != token.CONST {
				continue
			}
			for _, sp := range gd.Specs {
				vs := sp.(*ast.ValueSpec)
				for i, n := range vs.Names {
					if i < len(vs.Values) {
						if bl, ok := vs.Values[i].(*ast.BasicLit); ok && bl.Kind == token.STRING {
							out[n.Name] = strings.Trim(bl.Value, "\"")
						}
					}
				}
			}
		}
	}
	return out
}

// kindOfCallee: the Go struct a case body works on, from the name of the function it calls.
func kindFromName(name string) string {
	for _, p := range []string{"JSONLoad", "unmap", "On", "To"} {
		if strings.HasPrefix(name, p) {
			k := strings.TrimSuffix(strings.TrimPrefix(name, p), "Properties")
			return k
		}
	}
	return ""
}

func (x *Extractor) caseKind(fn string, body []ast.Stmt) string {
	kind := ""
	for _, st := range body {
		ast.Inspect(st, func(n ast.Node) bool {
			if kind != "" {
				return false
			}
			switch v := n.(type) {
			case *ast.CallExpr:
				if id, ok := v.Fun.(*ast.Ident); ok {
					switch {
					case fn == "GetItemByType" && id.Name == "ObjectNew":
						kind = "Object"
					case fn == "JSONLoadItem" && strings.HasPrefix(id.Name, "JSONLoad"):
						kind = kindFromName(id.Name)
					case fn == "gobDecodeItem" && strings.HasPrefix(id.Name, "unmap"):
						kind = kindFromName(id.Name)
					case fn == "gobEncodeItem" && strings.HasPrefix(id.Name, "On"):
						kind = kindFromName(id.Name)
					case id.Name == "JSONItemUnmarshal":
						kind = "hook:JSONItemUnmarshal"
					}
				}
				if sel, ok := v.Fun.(*ast.SelectorExpr); ok && fn == "gobEncodeItem" && sel.Sel.Name == "GobEncode" {
					if ta, ok := sel.X.(*ast.TypeAssertExpr); ok {
						kind = x.src(ta.Type)
					}
				}
			case *ast.CompositeLit:
				if fn == "GetItemByType" {
					if id, ok := v.Type.(*ast.Ident); ok {
						kind = id.Name
					}
				}
			}
			return true
		})
	}
	return kind
}

func (x *Extractor) genSwitches() string {
	consts := x.constValues()
	in := newInterner()
	var sb strings.Builder
	sb.WriteString(header)
	sb.WriteString("namespace APModel.Generated\n\n")
	resolve := func(e ast.Expr) (int, bool) {
		switch v := e.(type) {
		case *ast.Ident:
			if s, ok := consts[v.Name]; ok {
				return in.id(s), true
			}
		case *ast.BasicLit:
			if v.Kind == token.STRING {
				return in.id(strings.Trim(v.Value, "\"")), true
			}
		}
		return in.id("?unknown: " + x.src(e)), false
	}
	// the four switches
	type row struct {
		names []int
		kind  string
		deflt bool
		fall  bool
	}
	swRows := map[string][]row{}
	for _, fn := range []string{"GetItemByType", "JSONLoadItem", "gobEncodeItem", "gobDecodeItem"} {
		fd := x.funcs[fn]
		if fd == nil {
			continue
		}
		ast.Inspect(fd.Body, func(n ast.Node) bool {
			sw, ok := n.(*ast.SwitchStmt)
			if !ok || sw.Tag == nil {
				return true
			}
			tag := x.src(sw.Tag)
			if tag != "typ" && tag != "it.GetType()" {
				return true
			}
			var rows []row
			for _, cc := range sw.Body.List {
				c := cc.(*ast.CaseClause)
				r := row{deflt: c.List == nil}
				for _, e := range c.List {
					id, _ := resolve(e)
					r.names = append(r.names, id)
				}
				r.kind = x.caseKind(fn, c.Body)
				if len(c.Body) == 1 {
					if b, ok := c.Body[0].(*ast.BranchStmt); ok && b.Tok == token.FALLTHROUGH {
						r.fall = true
					}
				}
				rows = append(rows, r)
			}
			// resolve fallthrough: a clause that only falls through takes the kind of the next one
			for i := len(rows) - 2; i >= 0; i-- {
				if rows[i].fall {
					rows[i].kind = rows[i+1].kind
				}
			}
			swRows[fn] = rows
			return false
		})
	}
	kinds := newInterner()
	sb.WriteString("/-- per switch: (case names as ids, Go struct the case works on as a kind id, isDefault) -/\n")
	sb.WriteString("def switchRows : List (String × List (List Nat × Nat × Bool)) := [\n")
	fns := []string{"GetItemByType", "JSONLoadItem", "gobEncodeItem", "gobDecodeItem"}
	for i, fn := range fns {
		var rs []string
		for _, r := range swRows[fn] {
			rs = append(rs, fmt.Sprintf("(%s, %d, %v)", natList(r.names), kinds.id(r.kind), r.deflt))
		}
		sep := ","
		if i == len(fns)-1 {
			sep = ""
		}
		fmt.Fprintf(&sb, "  (%s, [%s])%s\n", lstr(fn), strings.Join(rs, ", "), sep)
	}
	sb.WriteString("]\n\n")
	// family lists
	lists := []string{"Types", "ObjectTypes", "ActorTypes", "ActivityTypes", "IntransitiveActivityTypes", "LinkTypes", "CollectionTypes", "GenericTypes"}
	sb.WriteString("/-- the membership lists (type name ids) -/\ndef familyLists : List (String × List Nat) := [\n")
	for i, ln := range lists {
		var ids []int
		for _, f := range x.files {
			for _, d := range f.Decls {
				gd, ok := d.(*ast.GenDecl)
				if !ok || gd.Tok != token.VAR {
					continue
				}
				for _, sp := range gd.Specs {
					vs := sp.(*ast.ValueSpec)
					for j, n := range vs.Names {
						if n.Name == ln && j < len(vs.Values) {
							if cl, ok := vs.Values[j].(*ast.CompositeLit); ok {
								for _, e := range cl.Elts {
									id, _ := resolve(e)
									ids = append(ids, id)
								}
							}
						}
					}
				}
			}
		}
		sep := ","
		if i == len(lists)-1 {
			sep = ""
		}
		fmt.Fprintf(&sb, "  (%s, %s)%s\n", lstr(ln), natList(ids), sep)
	}
	sb.WriteString("]\n\n")
	// type lists of IsObject and of the To* type switches (Go type names; pointer marked with *)
	typeSwitchTypes := func(fd *ast.FuncDecl) []string {
		var out []string
		ast.Inspect(fd.Body, func(n ast.Node) bool {
			ts, ok := n.(*ast.TypeSwitchStmt)
			if !ok {
				return true
			}
			for _, cc := range ts.Body.List {
				for _, e := range cc.(*ast.CaseClause).List {
					out = append(out, x.src(e))
				}
			}
			return false
		})
		return out
	}
	var tsNames []string
	for k := range x.funcs {
		if strings.HasPrefix(k, "To") && !strings.Contains(k, ".") {
			tsNames = append(tsNames, k)
		}
	}
	tsNames = append(tsNames, "IsObject")
	sort.Strings(tsNames)
	sb.WriteString("/-- Go types accepted by the type switch of each To* helper and of IsObject (kind ids; pointer and value forms merged) -/\ndef typeSwitches : List (String × List Nat) := [\n")
	for i, k := range tsNames {
		seen := map[int]bool{}
		var ids []int
		for _, t := range typeSwitchTypes(x.funcs[k]) {
			id := kinds.id(strings.TrimPrefix(t, "*"))
			if !seen[id] {
				seen[id] = true
				ids = append(ids, id)
			}
		}
		sep := ","
		if i == len(tsNames)-1 {
			sep = ""
		}
		fmt.Fprintf(&sb, "  (%s, %s)%s\n", lstr(k), natList(ids), sep)
	}
	sb.WriteString("]\n\n")
	// hook references: functions mentioning the three hook variables (outside their declaration)
	hooks := []string{"ItemTyperFunc", "JSONItemUnmarshal", "IsNotEmpty"}
	var hookRefs []string
	var fkeys []string
	for k := range x.funcs {
		fkeys = append(fkeys, k)
	}
	sort.Strings(fkeys)
	for _, k := range fkeys {
		fd := x.funcs[k]
		if fd.Body == nil {
			continue
		}
		for _, h := range hooks {
			cnt := 0
			ast.Inspect(fd.Body, func(n ast.Node) bool {
				if id, ok := n.(*ast.Ident); ok && id.Name == h {
					cnt++
				}
				return true
			})
			if cnt > 0 {
				hookRefs = append(hookRefs, fmt.Sprintf("(%s, %s, %d)", lstr(k), lstr(h), cnt))
			}
		}
	}
	fmt.Fprintf(&sb, "/-- (function, hook variable, number of references) -/\ndef hookRefs : List (String × String × Nat) := [%s]\n\n", strings.Join(hookRefs, ", "))
	fmt.Fprintf(&sb, "/-- interned type names: id = position -/\ndef typeNames : List String := %s\n\n", lstrList(in.names))
	fmt.Fprintf(&sb, "/-- interned Go struct / callee kinds: id = position -/\ndef kindNames : List String := %s\n\n", lstrList(kinds.names))
	// ids of the vocabulary names listed in extract/vocabulary.txt, in that file's order (name, id or none)
	var spec []string
	if b, err := osReadFile("vocabulary.txt"); err == nil {
		for _, n := range strings.Fields(string(b)) {
			if id, ok := in.ids[n]; ok {
				spec = append(spec, fmt.Sprintf("(%s, some %d)", lstr(n), id))
			} else {
				spec = append(spec, fmt.Sprintf("(%s, none)", lstr(n)))
			}
		}
	}
	fmt.Fprintf(&sb, "/-- the names of extract/vocabulary.txt with their ids -/\ndef vocabularyIds : List (String × Option Nat) := [%s]\n\n", strings.Join(spec, ", "))
	var ksp []string
	for _, n := range []string{"Object", "Actor", "Activity", "IntransitiveActivity", "Question", "Collection", "OrderedCollection", "CollectionPage", "OrderedCollectionPage", "Place", "Profile", "Relationship", "Tombstone", "Link"} {
		if id, ok := kinds.ids[n]; ok {
			ksp = append(ksp, fmt.Sprintf("(%s, some %d)", lstr(n), id))
		} else {
			ksp = append(ksp, fmt.Sprintf("(%s, none)", lstr(n)))
		}
	}
	fmt.Fprintf(&sb, "/-- the 14 struct names with their kind ids -/\ndef kindIds : List (String × Option Nat) := [%s]\n\nend APModel.Generated\n", strings.Join(ksp, ", "))
	return sb.String()
}

func init() {
	moreGens = append(moreGens, func(x *Extractor) map[string]func() string {
		return map[string]func() string{"Switches.lean": x.genSwitches}
	})
}
