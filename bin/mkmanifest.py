#!/usr/bin/env python3
"""Regenerates /verif/MANIFEST.json from bin/props.py (run after editing props.py)."""
import json, os, sys
VERIF = os.path.dirname(os.path.dirname(os.path.abspath(__file__)))
sys.path.insert(0, os.path.join(VERIF, "bin"))
from props import PROPS
ids = [json.loads(l)["id"] for l in open(os.path.join(VERIF, "properties.jsonl"))]
checks, na = [], []
for i in ids:
    c = PROPS.get(i)
    if not c or c.get("unclaimed"):
        na.append({"property_id": i, "reason": (c or {}).get("unclaimed", "check not built yet (work in progress; see DESIGN.md section 4 for the plan)")})
        continue
    checks.append({
        "property_id": i,
        "quick_cmd": "bin/check %s --tier quick" % i,
        "thorough_cmd": "bin/check %s --tier thorough" % i,
        "evidence_file": "/verif/evidence/%s.json" % i,
        "replay_cmd_template": "bin/check replay {path}",
        "engine": "lean4-proof+correspondence",
        "level_claimed": {"category": "proof", "text": c["level_text"], "design_ref": c.get("design_ref", "DESIGN.md section 4, " + i)},
        "level_note": c["level_note"],
        "technique": c["technique"],
    })
m = {
    "version": 1,
    "setup_cmd": "bin/check setup",
    "hooks": {
        "guard": "verif",
        "enable": "go build -tags verif (the harness is built with this tag; no hook file is currently needed: every check drives the package through its exported API)",
        "baseline_off_cmd": "bin/baseline_off.sh",
        "source_commits": [],
        "add_only": True,
    },
    "engines": [
        {"name": "lean4-proof+correspondence", "path": "bin/check", "serves_properties": [c["property_id"] for c in checks],
         "kind_free_text": "Lean 4 theorems about an executable model (lean/APModel), model tied to /repo by (a) tables regenerated from the Go source by extract/ on every run and re-checked by kernel `decide`, (b) a differential correspondence run: Go harness (harness/) drives the real package, the compiled Lean driver (lean/Driver) evaluates the model on the same line protocol, outputs are diffed; direct Go oracles search for the concrete failing input when either tie breaks."},
    ],
    "checks": checks,
    "not_applicable": na,
    "notes": "Every check: regenerate tables from /repo's working tree, lake build the property's theorems, audit axioms, build the harness against /repo, run the correspondence and the direct oracle, classify failures against KNOWN_FINDINGS.json, write evidence. VERIF_SEED seeds every generator.",
}
json.dump(m, open(os.path.join(VERIF, "MANIFEST.json"), "w"), indent=1)
print("checks:", len(checks), "not claimed:", len(na))
