/-
Model of the type-name dispatch (decoding_json.go:GetItemByType / JSONLoadItem,
encoding_gob.go:gobEncodeItem, decoding_gob.go:gobDecodeItem) driven by the case tables
regenerated from the source (`Generated/Switches.lean`, names and kinds interned to Nat).
-/
import APModel.Generated.Switches

namespace APModel.Registry
open APModel.Generated

abbrev Rows := List (List Nat × Nat × Bool)

def rowsOf (fn : String) : Rows := (switchRows.lookup fn).getD []

/-- the kind id a switch selects for a type-name id: the first explicit case holding it, else the
default clause (if the switch has one). -/
def switchKind (rows : Rows) (n : Nat) : Option Nat :=
  match rows.find? (fun r => r.1.contains n) with
  | some r => some r.2.1
  | none => (rows.find? (fun r => r.2.2)).map (fun r => r.2.1)

/-- is the name handled by an explicit case (not by the default clause)? -/
def explicitCase (rows : Rows) (n : Nat) : Bool := rows.any (fun r => r.1.contains n)

def kindName (k : Nat) : String := kindNames.getD k "?"
def nameId (s : String) : Option Nat := let i := typeNames.idxOf s; if i < typeNames.length then some i else none

def hookKind : Option Nat := let i := kindNames.idxOf "hook:JSONItemUnmarshal"; if i < kindNames.length then some i else none

/-- Go type of the value produced for a type name on each path ("*Object", … / "nothing" / "mismatch"). -/
def registryType (n : Nat) : String :=
  match switchKind (rowsOf "GetItemByType") n with
  | some k => "*" ++ kindName k
  | none => "nothing"

def jsonType (n : Nat) (hooks : Bool) : String :=
  match switchKind (rowsOf "GetItemByType") n, switchKind (rowsOf "JSONLoadItem") n with
  | some r, some l =>
    if some l == hookKind then (if hooks then "*" ++ kindName r else "nothing")
    else if r == l then "*" ++ kindName r else "mismatch"
  | _, _ => "nothing"

def gobType (n : Nat) : String :=
  match switchKind (rowsOf "GetItemByType") n, switchKind (rowsOf "gobEncodeItem") n, switchKind (rowsOf "gobDecodeItem") n with
  | some r, some e, some d => if r == e && e == d then "*" ++ kindName r else "mismatch"
  | _, none, _ => "nothing"          -- the encoder has no case (and no default) for the name: nothing is written
  | _, _, _ => "mismatch"

end APModel.Registry
