/-
Model of recipient de-duplication (item_collection.go:ItemCollectionDeduplication,
activity.go:removeFromCollection / removeFromAudience / Activity.Recipients).

Generic over the entry type `β` and the addressee id type `α`:
`key e = some t` when the Go loop computes a `testIt` for the entry (an object: its id; a link or
IRI: its link), `none` when it `continue`s (nil entry, or an item that is neither object nor link).
`eqv t r` is `t.Equals(r, false)`.
-/
namespace APModel.Recip

variable {α β : Type}

/-- The scan of one column: the new `rec` and the marked indices (relative to the head of the
column), exactly as the loop appends them — index `i` once per member of `rec` that equals the
entry's id (there is no `break`), in increasing order of `i`. -/
def scan (eqv : α → α → Bool) (key : β → Option α) : List β → List α → List α × List Nat
  | [], rec => (rec, [])
  | e :: r, rec =>
    match key e with
    | none =>
      let (rec', ms) := scan eqv key r rec
      (rec', ms.map (· + 1))
    | some t =>
      let k := (rec.filter (fun it => eqv t it)).length
      let rec1 := if k = 0 then rec ++ [t] else rec          -- `if save { rec = append(rec, testIt) }`
      let (rec', ms) := scan eqv key r rec1
      (rec', List.replicate k 0 ++ ms.map (· + 1))

/-- `*recCol = append((*recCol)[:idx], (*recCol)[idx+1:]...)` for each index in turn;
`none` models the slice-bounds panic when an index is out of range. -/
def eraseAll : List β → List Nat → Option (List β)
  | l, [] => some l
  | l, i :: is => if i < l.length then eraseAll (l.eraseIdx i) is else none

/-- one column: scan, sort the marks in descending order (they are produced ascending, so this is
`reverse`; see `scan_sorted`), delete. -/
def dedupCol (eqv : α → α → Bool) (key : β → Option α) (col : List β) (rec : List α) :
    List α × Option (List β) :=
  let (rec', ms) := scan eqv key col rec
  (rec', eraseAll col ms.reverse)

/-- `ItemCollectionDeduplication(cols...)`: columns in argument order, `rec` threaded through. -/
def dedup (eqv : α → α → Bool) (key : β → Option α) : List (List β) → List α → List α × List (Option (List β))
  | [], rec => (rec, [])
  | c :: cs, rec =>
    let (rec1, c') := dedupCol eqv key c rec
    let (rec', cs') := dedup eqv key cs rec1
    (rec', c' :: cs')

/-- `removeFromCollection(col, blocked)` as repaired (nil entries are kept): `idOf e` is the entry's
`GetID()` (`none` for a nil entry). -/
def removeFrom (eqv : α → α → Bool) (idOf : β → Option α) (col : List β) (blocked : α) : List β :=
  col.filter (fun e => match idOf e with
    | some i => !eqv i blocked
    | none => true)

end APModel.Recip
