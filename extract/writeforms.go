package main

import (
	"fmt"
	"go/ast"
	"go/token"
	"sort"
	"strings"
)

// The statements of the JSON struct writers, in source order, with the way each combines the helper's
// answer with the `notEmpty` flag:
//   assign    notEmpty = H(...)            orAfter   notEmpty = H(...) || notEmpty
//   orBefore  notEmpty = notEmpty || H(...) call      H(...)
//   cond      if H(...) / if !H(...)       ret       return H(...)
// A row is a JSONWrite…Prop call (named by its term), a delegation is a JSONWrite<T>Value call.
// A statement that sits in a loop, or in a shape not listed, gets a form that starts with "?".

func (x *Extractor) writeEvents(fd *ast.FuncDecl) []string {
	var events []string
	var stack []ast.Node
	formOf := func(call *ast.CallExpr) string {
		// innermost enclosing statement
		var child ast.Node = call
		negated := false
		for i := len(stack) - 1; i >= 0; i-- {
			switch p := stack[i].(type) {
			case *ast.ParenExpr:
			case *ast.UnaryExpr:
				if p.Op != token.NOT {
					return "?unary: " + x.src(p)
				}
				negated = !negated
			case *ast.BinaryExpr:
				// `H(...) || notEmpty`, or its mirror image `!H(...) && empty`
				flag, op := "notEmpty", token.LOR
				if negated {
					flag, op = "empty", token.LAND
				}
				if p.Op != op {
					return "?binary: " + x.src(p)
				}
				other, callFirst := p.Y, true
				if p.Y == child {
					other, callFirst = p.X, false
				}
				if id, ok := other.(*ast.Ident); !ok || id.Name != flag {
					return "?or: " + x.src(p)
				}
				// the statement must be `<flag> = <this>`
				if i > 0 {
					if as, ok := stack[i-1].(*ast.AssignStmt); ok && len(as.Lhs) == 1 && x.src(as.Lhs[0]) == flag && as.Rhs[0] == ast.Expr(p) {
						if callFirst {
							return "orAfter"
						}
						return "orBefore"
					}
				}
				return "?or-in: " + x.src(stack[i-1])
			case *ast.AssignStmt:
				// `notEmpty = H(...)` and its mirror image `empty = !H(...)`
				if len(p.Lhs) == 1 && ((x.src(p.Lhs[0]) == "notEmpty" && !negated) || (x.src(p.Lhs[0]) == "empty" && negated)) && p.Rhs[0] == child {
					return "assign"
				}
				return "?assign: " + x.src(p)
			case *ast.ExprStmt:
				return "call"
			case *ast.ReturnStmt:
				return "ret"
			case *ast.IfStmt:
				if p.Cond == child { // `if H(...)` / `if !H(...)`: the flag is the helper's answer
					return "cond"
				}
				return "?if: " + x.src(p.Cond)
			case *ast.ForStmt, *ast.RangeStmt:
				return "?loop"
			default:
				return fmt.Sprintf("?%T", p)
			}
			child = stack[i]
		}
		return "?top"
	}
	ast.Inspect(fd.Body, func(n ast.Node) bool {
		if n == nil {
			stack = stack[:len(stack)-1]
			return false
		}
		if call, ok := n.(*ast.CallExpr); ok {
			if id, ok := call.Fun.(*ast.Ident); ok {
				switch {
				case strings.HasPrefix(id.Name, "JSONWrite") && strings.HasSuffix(id.Name, "Prop") && len(call.Args) >= 3:
					term := strings.Trim(x.src(call.Args[1]), "\"")
					events = append(events, fmt.Sprintf("(\"row\", %s, %s)", lstr(term), lstr(formOf(call))))
				case strings.HasPrefix(id.Name, "JSONWrite") && strings.HasSuffix(id.Name, "Value") &&
					id.Name != "JSONWriteValue" && id.Name != "JSONWriteStringValue" && id.Name != "JSONWriteItemCollectionValue":
					events = append(events, fmt.Sprintf("(\"del\", %s, %s)", lstr(id.Name), lstr(formOf(call))))
				}
			}
		}
		stack = append(stack, n)
		return true
	})
	// loops around a statement are a different protocol altogether
	return events
}

func (x *Extractor) genWriteForms() string {
	var keys []string
	for k := range x.funcs {
		keys = append(keys, k)
	}
	sort.Strings(keys)
	var sb strings.Builder
	sb.WriteString(header)
	sb.WriteString("namespace APModel.Generated\n\n/-- the statements of every JSON struct writer in source order: (\"row\" | \"del\", term | delegate, form) -/\ndef writeEvents : List (String × List (String × String × String)) := [\n")
	var lines []string
	for _, k := range keys {
		fd := x.funcs[k]
		if fd.Body == nil {
			continue
		}
		if strings.HasSuffix(k, ".MarshalJSON") || (strings.HasPrefix(k, "JSONWrite") && strings.HasSuffix(k, "Value") && k != "JSONWriteValue" && k != "JSONWriteStringValue" && k != "JSONWriteItemCollectionValue") {
			ev := x.writeEvents(fd)
			if len(ev) > 0 {
				lines = append(lines, fmt.Sprintf("  (%s, [%s])", lstr(k), strings.Join(ev, ", ")))
			}
		}
	}
	sb.WriteString(strings.Join(lines, ",\n"))
	sb.WriteString("\n]\n\nend APModel.Generated\n")
	return sb.String()
}

func init() {
	moreGens = append(moreGens, func(x *Extractor) map[string]func() string {
		return map[string]func() string{"WriteForms.lean": x.genWriteForms}
	})
}

// The `hasData` flag of the gob property mappers: every assignment to it, in source order —
//   "true"        hasData = true
//   "del:<fn>"    hasData, err = <fn>(…)   (the flag is taken over from another mapper)
//   "?…"          anything else (an expression: the flag can be switched off again)
func (x *Extractor) genGobFlags() string {
	var keys []string
	for k := range x.funcs {
		keys = append(keys, k)
	}
	sort.Strings(keys)
	var lines []string
	for _, k := range keys {
		fd := x.funcs[k]
		if fd.Body == nil || !(strings.HasPrefix(k, "map") && strings.HasSuffix(k, "Properties") || strings.HasSuffix(k, ".GobEncode")) {
			continue
		}
		var ev []string
		ast.Inspect(fd.Body, func(n ast.Node) bool {
			as, ok := n.(*ast.AssignStmt)
			if !ok {
				return true
			}
			for i, l := range as.Lhs {
				if x.src(l) != "hasData" {
					continue
				}
				switch {
				case len(as.Rhs) == len(as.Lhs) && x.src(as.Rhs[i]) == "true":
					ev = append(ev, lstr("true"))
				case len(as.Rhs) == 1 && len(as.Lhs) == 2:
					if c, ok := as.Rhs[0].(*ast.CallExpr); ok {
						if id, ok := c.Fun.(*ast.Ident); ok && strings.HasPrefix(id.Name, "map") && strings.HasSuffix(id.Name, "Properties") {
							ev = append(ev, lstr("del:"+id.Name))
							continue
						}
					}
					ev = append(ev, lstr("?"+x.src(as)))
				default:
					ev = append(ev, lstr("?"+x.src(as)))
				}
			}
			return true
		})
		if len(ev) > 0 {
			lines = append(lines, fmt.Sprintf("  (%s, [%s])", lstr(k), strings.Join(ev, ", ")))
		}
	}
	var sb strings.Builder
	sb.WriteString(header)
	sb.WriteString("namespace APModel.Generated\n\n/-- every assignment to the `hasData` flag of the gob property mappers, in source order -/\ndef gobFlagEvents : List (String × List String) := [\n")
	sb.WriteString(strings.Join(lines, ",\n"))
	sb.WriteString("\n]\n\nend APModel.Generated\n")
	return sb.String()
}

func init() {
	moreGens = append(moreGens, func(x *Extractor) map[string]func() string {
		return map[string]func() string{"GobFlags.lean": x.genGobFlags}
	})
}
