/-
C17 — Timestamp ordering is a strict weak order consistent with publication time.
Model: `Model/Order.lean`, tied to helpers.go:ItemOrderTimestamp by the `order` correspondence op.
-/
import APModel.Model.Order

namespace APModel.Order
open List

/-- "x ranks at or before y" in newest-first order on keys. -/
def kle : Option Int → Option Int → Prop
  | none, _ => True
  | some _, none => False
  | some a, some b => b ≤ a

/-- the specification of "ranks strictly before". -/
def before (a b : OItem) : Prop :=
  match key a, key b with
  | none, none => False
  | none, some _ => True
  | some _, none => False
  | some x, some y => x > y

/-- ItemOrderTimestamp ranks an item before another exactly when the later of its
published/updated instants is after the other's, and ranks nil before any object. -/
theorem C17_agrees (a b : OItem) : itemOrder a b = true ↔ before a b := by
  cases a <;> cases b <;> simp [itemOrder, before, key] <;> (try split <;> split) <;> omega

theorem C17_nil_first (p u : Int) : itemOrder .nil (.obj p u) = true ∧ itemOrder (.obj p u) .nil = false := by
  simp [itemOrder]

theorem C17_irreflexive (a : OItem) : itemOrder a a = false := by
  cases a <;> simp [itemOrder]

theorem C17_asymmetric (a b : OItem) (h : itemOrder a b = true) : itemOrder b a = false := by
  cases a <;> cases b <;> simp_all [itemOrder] <;> (repeat' split) <;> omega

theorem C17_transitive (a b c : OItem) (h1 : itemOrder a b = true) (h2 : itemOrder b c = true) :
    itemOrder a c = true := by
  cases a <;> cases b <;> cases c <;> simp_all [itemOrder] <;> (repeat' split at *) <;> omega

/-- incomparability (neither before the other) is transitive: together with the three theorems
above this makes the comparator a strict weak order. -/
theorem C17_incomparability_transitive (a b c : OItem)
    (hab : itemOrder a b = false) (hba : itemOrder b a = false)
    (hbc : itemOrder b c = false) (hcb : itemOrder c b = false) :
    itemOrder a c = false ∧ itemOrder c a = false := by
  cases a <;> cases b <;> cases c <;> simp_all [itemOrder] <;> (repeat' split at *) <;> omega

theorem not_before_iff_kle (a b : OItem) : itemOrder b a = false ↔ kle (key a) (key b) := by
  cases a <;> cases b <;> simp [itemOrder, kle, key] <;> (repeat' split) <;> omega

theorem kle_antisymm (x y : Option Int) (h1 : kle x y) (h2 : kle y x) : x = y := by
  cases x <;> cases y <;> simp_all [kle] ; omega

/-- A list is sorted by the comparator when no later element ranks strictly before an earlier one
(what `sort.Slice`/`sort.SliceStable` guarantee for a strict weak order). -/
def SortedBy (l : List OItem) : Prop := l.Pairwise (fun a b => itemOrder b a = false)

/-- A sorted list is newest-first: nil entries first, then keys non-increasing. -/
theorem C17_sorted_newest_first (l : List OItem) (h : SortedBy l) : (l.map key).Pairwise kle := by
  rw [List.pairwise_map]
  exact h.imp (fun {a b} hab => (not_before_iff_kle a b).mp hab)

/-- …regardless of the initial permutation: any two sorted arrangements of the same items show the
same sequence of keys. -/
theorem C17_sort_permutation_independent (l₁ l₂ : List OItem) (hp : l₁ ~ l₂)
    (h₁ : SortedBy l₁) (h₂ : SortedBy l₂) : l₁.map key = l₂.map key :=
  List.Perm.eq_of_pairwise (fun a b _ _ hab hba => kle_antisymm a b hab hba)
    (C17_sorted_newest_first l₁ h₁) (C17_sorted_newest_first l₂ h₂) (hp.map key)

/-! ### a sort driven by the comparator

`sort.Slice(items, func(i, j) bool { return ItemOrderTimestamp(items[i], items[j]) })` is modelled by
the simplest comparison sort that asks only the comparator: insertion of each element before the
first one it ranks strictly before. The theorems are stated for ANY comparator that is asymmetric and
transitive and then instantiated with `itemOrder` (whose two laws are `C17_asymmetric` and
`C17_transitive`), so they show what the strict-weak-order laws buy. -/

section CmpSort
variable {α : Type} (less : α → α → Bool)

theorem insBy_perm (x : α) (l : List α) : insBy less x l ~ x :: l := by
  induction l with
  | nil => exact List.Perm.refl _
  | cons y r ih =>
    simp only [insBy]
    split
    · exact List.Perm.refl _
    · exact ((List.Perm.cons y ih).trans (List.Perm.swap x y r))

theorem sortBy_perm (l : List α) : sortBy less l ~ l := by
  induction l with
  | nil => exact List.Perm.refl _
  | cons x r ih => exact (insBy_perm less x _).trans (List.Perm.cons x ih)

theorem insBy_sorted
    (hasym : ∀ a b, less a b = true → less b a = false)
    (htrans : ∀ a b c, less a b = true → less b c = true → less a c = true)
    (x : α) (l : List α) (h : l.Pairwise (fun a b => less b a = false)) :
    (insBy less x l).Pairwise (fun a b => less b a = false) := by
  induction l with
  | nil => simp [insBy]
  | cons y r ih =>
    rw [List.pairwise_cons] at h
    simp only [insBy]
    split
    · rename_i hxy
      rw [List.pairwise_cons]
      refine ⟨?_, List.pairwise_cons.mpr h⟩
      intro b hb
      rcases List.mem_cons.mp hb with e | hb
      · subst e; exact hasym _ _ hxy
      · cases hbx : less b x with
        | false => rfl
        | true => have := htrans b x y hbx hxy; rw [h.1 b hb] at this; cases this
    · rename_i hxy
      rw [List.pairwise_cons]
      refine ⟨?_, ih h.2⟩
      intro b hb
      rcases List.mem_cons.mp ((insBy_perm less x r).mem_iff.mp hb) with e | hb
      · subst e; simpa using hxy
      · exact h.1 b hb

theorem sortBy_sorted
    (hasym : ∀ a b, less a b = true → less b a = false)
    (htrans : ∀ a b c, less a b = true → less b c = true → less a c = true)
    (l : List α) : (sortBy less l).Pairwise (fun a b => less b a = false) := by
  induction l with
  | nil => simp [sortBy]
  | cons x r ih => exact insBy_sorted less hasym htrans x _ ih

end CmpSort

/-- Sorting any list of objects and nils with the comparator yields a sorted arrangement of the
same items … -/
theorem C17_sort_sorts (l : List OItem) : SortedBy (sortBy itemOrder l) ∧ sortBy itemOrder l ~ l :=
  ⟨sortBy_sorted itemOrder C17_asymmetric C17_transitive l, sortBy_perm itemOrder l⟩

/-- … which is newest-first … -/
theorem C17_sort_newest_first (l : List OItem) : ((sortBy itemOrder l).map key).Pairwise kle :=
  C17_sorted_newest_first _ (C17_sort_sorts l).1

/-- … and the sequence of keys it shows does not depend on the permutation it started from. -/
theorem C17_sort_any_permutation (l₁ l₂ : List OItem) (hp : l₁ ~ l₂) :
    (sortBy itemOrder l₁).map key = (sortBy itemOrder l₂).map key :=
  C17_sort_permutation_independent _ _
    (((C17_sort_sorts l₁).2.trans hp).trans (C17_sort_sorts l₂).2.symm)
    (C17_sort_sorts l₁).1 (C17_sort_sorts l₂).1

/-- Why the laws matter: with a comparator that is not asymmetric (here `≤` on numbers read as
"strictly before") the same sort leaves an arrangement that is not sorted by it. -/
theorem C17_laws_needed :
    ¬ (sortBy (fun a b : Nat => decide (a ≤ b)) [1, 1]).Pairwise
        (fun a b => decide (b ≤ a) = false) := by decide

/-! non-vacuity -/
example : SortedBy [.nil, .obj 5 9, .obj 7 0, .obj 1 2] := by unfold SortedBy; decide
example : itemOrder (.obj 5 9) (.obj 7 0) = true := by decide
example : sortBy itemOrder [.obj 1 2, .obj 7 0, .nil, .obj 5 9] = [.nil, .obj 5 9, .obj 7 0, .obj 1 2] := by decide

end APModel.Order
