import Driver.Util
import Driver.OpsColl
import APModel.Model.Recip
import APModel.Model.Coll
import APModel.Model.IRI
import APModel.Generated.Recipients
open Lean APModel.Recip APModel.IRI

namespace Driver

/-- an addressing entry: kind ("nil" | "iri" | "obj" | "link" | "other") and id. -/
structure AEntry where
  kind : String
  id : Str

def AEntry.key (e : AEntry) : Option Str :=
  if (e.kind == "iri" || e.kind == "obj" || e.kind == "obj2" || e.kind == "link") && !e.id.isEmpty then some e.id else none

/-- `GetID()` of the entry, `none` for nil. -/
def AEntry.idOf (e : AEntry) : Option Str :=
  if e.kind == "nil" then none else if e.kind == "other" then some [] else some e.id

def parseAEntry (j : Json) : R AEntry := do
  if j.isNull then return { kind := "nil", id := [] }
  return { kind := ← strF j "k", id := utf8 (← strF j "id") }

def str8 (s : Str) : String := String.fromUTF8! (ByteArray.mk s.toArray)

def renderAEntry (e : AEntry) : Json :=
  if e.kind == "nil" then Json.null else jarr [Json.str e.kind, Json.str (str8 e.id)]

def iriEqv (a b : Str) : Bool := equals parseOpt a b false

def parseCol (j : Json) (k : String) : R (List AEntry) := do
  match j.getObjVal? k with
  | .ok v => if v.isNull then return [] else (← arr v).mapM parseAEntry
  | .error _ => return []

structure AValue where
  to : List AEntry
  cc : List AEntry
  bto : List AEntry
  bcc : List AEntry
  audience : List AEntry
  actor : AEntry
  object : AEntry

def parseAValue (j : Json) : R AValue := do
  return { to := ← parseCol j "to", cc := ← parseCol j "cc", bto := ← parseCol j "bto", bcc := ← parseCol j "bcc",
           audience := ← parseCol j "audience",
           actor := ← parseAEntry (fldD j "actor" Json.null), object := ← parseAEntry (fldD j "object" Json.null) }

def AValue.col (v : AValue) (name : String) : Option (List AEntry) :=
  match name with
  | "To" => some v.to
  | "CC" => some v.cc
  | "Bto" => some v.bto
  | "BCC" => some v.bcc
  | "copy:Audience" => some v.audience
  | "Audience" => some v.audience
  | "[Actor]" => some [v.actor]
  | _ => none

def AValue.setCol (v : AValue) (name : String) (c : List AEntry) : AValue :=
  match name with
  | "To" => { v with to := c }
  | "CC" => { v with cc := c }
  | "Bto" => { v with bto := c }
  | "BCC" => { v with bcc := c }
  | "Audience" => { v with audience := c }
  | _ => v

/-- Recipients() of one struct value following the generated argument list; returns rec and the
mutated to/cc/bto/bcc (or none on a modelled panic). -/
def recipientsOf (typ : String) (isBlock : Bool) (v0 : AValue) : R (List Str × Option AValue) := do
  let calls ← match APModel.Generated.recipientsCalls.lookup typ with
    | some (c :: _) => pure c
    | _ => throw s!"no Recipients table for {typ}"
  -- Block clause
  let v := if isBlock && APModel.Generated.recipientsBlockTypes.contains typ && v0.object.kind != "nil" then
      match v0.object.idOf with
      | some bid => APModel.Generated.removeFromAudienceFields.foldl (fun v f =>
          match v.col f with
          | some c => if c.isEmpty then v else v.setCol f (removeFrom iriEqv AEntry.idOf c bid)
          | none => v) v0
      | none => v0
    else v0
  let cols ← calls.mapM (fun n => match v.col n with
    | some c => pure c
    | none => throw s!"unknown column {n}")
  let (rec, cols') := dedup iriEqv AEntry.key cols []
  let mut out := v
  let mut ok := true
  for (n, c') in calls.zip cols' do
    match c' with
    | some c => out := out.setCol n c     -- only the pointer arguments (plain field names) are written back
    | none => ok := false
  return (rec, if ok then some out else none)

def renderCols (v : AValue) : List (String × Json) :=
  [("to", jarr (v.to.map renderAEntry)), ("cc", jarr (v.cc.map renderAEntry)),
   ("bto", jarr (v.bto.map renderAEntry)), ("bcc", jarr (v.bcc.map renderAEntry))]

def opRecipients (j : Json) : R Json := do
  let typ ← strF j "type"
  if typ == "ItemCollection" then
    -- members' recipients appended (Append de-duplicates through ItemsEqual on IRIs), then de-duplicated again
    let members ← (← arrF j "members").mapM parseAValue
    let mut all : List Str := []
    let mut outs : List Json := []
    for m in members do
      let (rec, m') ← recipientsOf "Object" false m
      match m' with
      | none => return Json.str "panic"
      | some mv =>
        all := rec.foldl (fun l x => APModel.Coll.append iriEqv l x) all
        outs := outs ++ [Json.mkObj (renderCols mv)]
    let (rec, _) := dedup iriEqv (fun (s : Str) => some s) [all] []
    return Json.mkObj [("rec", jarr (rec.map (fun s => Json.str (str8 s)))), ("members", jarr outs)]
  let v ← parseAValue j
  let isBlock ← boolF j "block"
  let (rec, v') ← recipientsOf typ isBlock v
  match v' with
  | none => return Json.str "panic"
  | some out => return Json.mkObj (("rec", jarr (rec.map (fun s => Json.str (str8 s)))) :: renderCols out)

end Driver
