/- helper lemmas for the table-driven codec model (no property statements) -/
import APModel.Model.Codec

namespace APModel.Codec
open APModel

/-! ### encodeLevel -/

theorem lookup_encode_some (W : List WRow) (fs : Fields) (t : String) (v : FVal) :
    (encodeLevel W fs).lookup t = some v →
    ∃ w ∈ W, w.term = t ∧ fs.get? w.field = some v ∧ guardPasses w.guard v = true := by
  induction W with
  | nil => simp [encodeLevel]
  | cons w W ih =>
    intro h
    simp only [encodeLevel, List.filterMap_cons] at h
    cases hg : fs.get? w.field with
    | none =>
      simp only [hg] at h
      obtain ⟨w', hw', h'⟩ := ih h
      exact ⟨w', List.mem_cons_of_mem _ hw', h'⟩
    | some x =>
      simp only [hg] at h
      by_cases hp : guardPasses w.guard x = true
      · simp only [hp, if_true, List.lookup_cons] at h
        by_cases ht : (t == w.term) = true
        · simp only [ht] at h
          have hx : x = v := Option.some.inj h
          have ht' : w.term = t := (by simpa using ht : t = w.term).symm
          exact ⟨w, List.mem_cons_self, ht', by rw [hg, hx], by rw [← hx]; exact hp⟩
        · have hf : (t == w.term) = false := by simpa using ht
          simp only [hf] at h
          obtain ⟨w', hw', h'⟩ := ih h
          exact ⟨w', List.mem_cons_of_mem _ hw', h'⟩
      · have hf : guardPasses w.guard x = false := by simpa using hp
        simp only [hf] at h
        obtain ⟨w', hw', h'⟩ := ih (by simpa [encodeLevel] using h)
        exact ⟨w', List.mem_cons_of_mem _ hw', h'⟩

theorem lookup_encode_of_mem (W : List WRow) (fs : Fields) (w : WRow) (v : FVal) (hw : w ∈ W)
    (hg : fs.get? w.field = some v) (hp : guardPasses w.guard v = true) :
    ∃ v', (encodeLevel W fs).lookup w.term = some v' := by
  induction W with
  | nil => simp at hw
  | cons a W ih =>
    simp only [encodeLevel, List.filterMap_cons]
    rcases List.mem_cons.mp hw with rfl | hw'
    · simp [hg, hp]
    · obtain ⟨v', hv'⟩ := ih hw'
      cases hga : fs.get? a.field with
      | none => exact ⟨v', by simpa [encodeLevel] using hv'⟩
      | some x =>
        by_cases hpa : guardPasses a.guard x = true
        · simp only [hpa, if_true, List.lookup_cons]
          by_cases ht : (w.term == a.term) = true
          · exact ⟨x, by simp [ht]⟩
          · have hf : (w.term == a.term) = false := by simpa using ht
            exact ⟨v', by simpa [hf, encodeLevel] using hv'⟩
        · have hf : guardPasses a.guard x = false := by simpa using hpa
          exact ⟨v', by simpa [hf, encodeLevel] using hv'⟩

/-! ### decodeLevel -/

theorem decodeStep_same (ms : List (String × FVal)) (acc : Fields) (r : RRow) :
    (decodeStep ms acc r).get? r.field =
      (match ms.lookup r.term with | some v => some v | none => acc.get? r.field) := by
  unfold decodeStep
  cases ms.lookup r.term <;> simp [get_set_same]

theorem decodeStep_other (ms : List (String × FVal)) (acc : Fields) (r : RRow) (m : String) (h : m ≠ r.field) :
    (decodeStep ms acc r).get? m = acc.get? m := by
  unfold decodeStep
  cases ms.lookup r.term <;> simp [get_set_other _ _ _ _ h]

theorem decode_get (ms : List (String × FVal)) (R : List RRow) (hn : (R.map (·.field)).Nodup) (acc : Fields) :
    (∀ r ∈ R, (R.foldl (decodeStep ms) acc).get? r.field =
        (match ms.lookup r.term with | some v => some v | none => acc.get? r.field)) ∧
    (∀ m, (∀ r ∈ R, m ≠ r.field) → (R.foldl (decodeStep ms) acc).get? m = acc.get? m) := by
  induction R generalizing acc with
  | nil => simp
  | cons a R ih =>
    simp only [List.map_cons, List.nodup_cons] at hn
    have ih' := ih hn.2 (decodeStep ms acc a)
    simp only [List.foldl_cons]
    refine ⟨?_, ?_⟩
    · intro r hr
      rcases List.mem_cons.mp hr with rfl | hr
      · rw [ih'.2 r.field (fun r' hr' hEq => hn.1 (List.mem_map.mpr ⟨r', hr', hEq.symm⟩))]
        exact decodeStep_same ms acc r
      · rw [ih'.1 r hr]
        have hne : r.field ≠ a.field := fun hEq => hn.1 (List.mem_map.mpr ⟨r, hr, hEq⟩)
        rw [decodeStep_other ms acc a r.field hne]
    · intro m hm
      rw [ih'.2 m (fun r hr => hm r (List.mem_cons_of_mem _ hr))]
      exact decodeStep_other ms acc a m (hm a List.mem_cons_self)

/-! ### guards -/

theorem guard_of_fits (g kind : String) (v : FVal) (hf : guardFits g kind = true)
    (hk : hasKind (FKind.parse kind) v = true) (hs : isSet v = true) : guardPasses g v = true := by
  unfold guardFits at hf
  unfold guardPasses
  generalize Guard.parse g = G at *
  generalize FKind.parse kind = K at *
  cases G <;> cases K <;> cases v <;> simp_all [guardFitsG, guardPassesG, hasKind, isSet]

end APModel.Codec
