/-
C07 — Every vocabulary type name maps to one Go type, consistently everywhere.
Spec: `Spec/Vocabulary.lean` (hand-written from the W3C vocabulary). Tables: `Generated/Switches.lean`
(regenerated from the source on every run). All theorems are finite and complete over the vocabulary:
kernel `decide` on interned tables. The dynamic half (reflect types, ids, marker properties, predicates,
hooks on/off) is the exhaustive correspondence run.
-/
import APModel.Model.Registry
import APModel.Spec.Vocabulary

namespace APModel.Registry
open APModel APModel.Generated APModel.Spec

/-- position of a kind in `Kind.all` (= order of `Generated.kindIds`) -/
def kindIndex : Kind → Nat
  | .object => 0 | .actor => 1 | .activity => 2 | .intransitive => 3 | .question => 4 | .collection => 5
  | .orderedCollection => 6 | .collectionPage => 7 | .orderedCollectionPage => 8 | .place => 9 | .profile => 10
  | .relationship => 11 | .tombstone => 12 | .link => 13

def kindIdOf (k : Kind) : Option Nat := (kindIds.getD (kindIndex k) ("", none)).2

/-- the translator's vocabulary file and struct list are the Lean specification's, in the same order,
and every name and struct occurs in the source. -/
theorem C07_spec_tie :
    vocabularyIds.map (·.1) = vocabulary.map (·.name) ∧ vocabularyIds.all (fun e => e.2.isSome) = true ∧
    kindIds.map (·.1) = Kind.all.map Kind.goName ∧ kindIds.all (fun e => e.2.isSome) = true := by
  decide

/-- the spec entries paired with their interned ids -/
def specWithIds : List (VocabEntry × Nat) :=
  (vocabulary.zip vocabularyIds).filterMap (fun (e, (_, i)) => i.map (fun n => (e, n)))

/-- The registry, the JSON loader, the gob encoder and the gob decoder each select, by an explicit
case, the Go struct the vocabulary prescribes for every vocabulary name. -/
theorem C07_switches :
    specWithIds.all (fun (e, n) =>
      ["GetItemByType", "JSONLoadItem", "gobEncodeItem", "gobDecodeItem"].all (fun fn =>
        explicitCase (rowsOf fn) n && switchKind (rowsOf fn) n == kindIdOf e.kind)) = true ∧
    specWithIds.length = vocabulary.length := by
  decide

def inList (l : String) (n : Nat) : Bool := ((familyLists.lookup l).getD []).contains n

/-- Each name is in exactly the family list the vocabulary places it in. -/
theorem C07_families :
    specWithIds.all (fun (e, n) =>
      inList "ObjectTypes" n == (e.family == .object) &&
      inList "ActorTypes" n == (e.family == .actor) &&
      inList "ActivityTypes" n == (e.family == .activity) &&
      inList "IntransitiveActivityTypes" n == (e.family == .intransitive) &&
      inList "LinkTypes" n == (e.family == .link) &&
      inList "CollectionTypes" n == (e.family == .collection) &&
      inList "GenericTypes" n == (e.family == .generic)) = true := by
  decide

def accepts (helper : String) (k : Kind) : Bool :=
  match kindIdOf k with
  | some i => ((typeSwitches.lookup helper).getD []).contains i
  | none => false

/-- The family's To helper accepts the Go struct of every name of the family; IsObject's type list is
exactly the thirteen object-family structs (not Link). -/
theorem C07_helpers_accept :
    vocabulary.all (fun e =>
      (e.kind == .link || accepts "ToObject" e.kind) &&
      (e.kind != .link || accepts "ToLink" e.kind) &&
      (e.family != .actor || accepts "ToActor" e.kind) &&
      (e.family != .activity || (accepts "ToActivity" e.kind && accepts "ToIntransitiveActivity" e.kind)) &&
      (e.family != .intransitive || accepts "ToIntransitiveActivity" e.kind) &&
      (e.kind != .question || accepts "ToQuestion" e.kind) &&
      (e.kind != .collection || accepts "ToCollection" e.kind) &&
      (e.kind != .orderedCollection || accepts "ToOrderedCollection" e.kind) &&
      (e.kind != .collectionPage || (accepts "ToCollectionPage" e.kind && accepts "ToCollection" e.kind)) &&
      (e.kind != .orderedCollectionPage || (accepts "ToOrderedCollectionPage" e.kind && accepts "ToOrderedCollection" e.kind)) &&
      (e.kind != .place || accepts "ToPlace" e.kind) && (e.kind != .profile || accepts "ToProfile" e.kind) &&
      (e.kind != .relationship || accepts "ToRelationship" e.kind) && (e.kind != .tombstone || accepts "ToTombstone" e.kind)) = true ∧
    Kind.all.all (fun k => accepts "IsObject" k == (k != .link)) = true := by
  decide

/-- The extension hook for unknown types is consulted only in the default clause of the JSON loader
(vocabulary names never reach it, by `C07_switches`), and the type registry hook is the only other
hook on the decode paths. -/
theorem C07_hooks :
    (hookRefs.filter (fun r => r.2.1 == "JSONItemUnmarshal")).map (·.1) = ["JSONLoadItem"] ∧
    (hookRefs.filter (fun r => r.2.1 == "ItemTyperFunc")).map (·.1) = ["JSONLoadItem", "gobDecodeItem"] ∧
    ((rowsOf "JSONLoadItem").filter (fun r => some r.2.1 == hookKind)).all (fun r => r.2.2 && r.1.isEmpty) = true := by
  decide

/-- Consequently, on every path the Go type produced for a vocabulary name is the same, with hooks set
or unset. -/
theorem C07_same_type_everywhere :
    specWithIds.all (fun (e, n) =>
      let t := "*" ++ e.kind.goName
      registryType n == t && jsonType n false == t && jsonType n true == t && gobType n == t) = true := by
  decide

end APModel.Registry
