/-
C01 — JSON encode -> decode round trip preserves every vocabulary property.

Model: `Model/Codec.lean`.  The write tables (JSONWrite<T>Value, <T>.MarshalJSON), the read tables
(JSONLoad<T>) and the struct definitions are regenerated from /repo on every run
(`Generated/Codec.lean`); `C01_tables` is the proof obligation on them.  The whole-tree normal form
`normJ` is tied to the code by the `jsonRoundTrip` correspondence op (decode∘encode of the
implementation against `normJ` of the model, value by value).
-/
import APModel.Theory.Codec
import APModel.Theory.Deep
import APModel.Model.DeepEnv

namespace APModel.Codec
open APModel APModel.Generated

/-! ### the level theorem, for arbitrary tables -/

/-- If no term is written from two fields, no field is read twice, every written field is read back
under the same term, nothing is read from a term another field is written to, and every set field has
a write row that lets its value through, then decoding the members written for a level gives back
every field with its value, and nothing else. -/
theorem level_roundtrip (W : List WRow) (R : List RRow) (fs : Fields)
    (hR : (R.map (·.field)).Nodup)
    (hW : ∀ w ∈ W, ∀ w' ∈ W, w.term = w'.term → w.field = w'.field)
    (hWR : ∀ w ∈ W, ∃ r ∈ R, r.field = w.field ∧ r.term = w.term)
    (hRW : ∀ r ∈ R, ∀ w ∈ W, w.term = r.term → w.field = r.field)
    (hcov : ∀ f v, fs.get? f = some v → ∃ w ∈ W, w.field = f ∧ guardPasses w.guard v = true) :
    ∀ f, (decodeLevel R (encodeLevel W fs)).get? f = fs.get? f := by
  intro f
  have hd := decode_get (encodeLevel W fs) R hR .nil
  unfold decodeLevel
  cases hf : fs.get? f with
  | some v =>
    obtain ⟨w, hw, hwf, hp⟩ := hcov f v hf
    obtain ⟨r, hr, hrf, hrt⟩ := hWR w hw
    have hget : fs.get? w.field = some v := by rw [hwf]; exact hf
    obtain ⟨v', hv'⟩ := lookup_encode_of_mem W fs w v hw hget hp
    obtain ⟨w', hw', ht', hg', _⟩ := lookup_encode_some W fs w.term v' hv'
    have hsame : w'.field = w.field := hW w' hw' w hw ht'
    have hvv : v' = v := by
      rw [hsame, hget] at hg'
      exact (Option.some.inj hg').symm
    have := hd.1 r hr
    rw [hrf, hwf] at this
    rw [this, hrt, hv', hvv]
  | none =>
    by_cases hex : ∃ r ∈ R, r.field = f
    · obtain ⟨r, hr, hrf⟩ := hex
      have := hd.1 r hr
      rw [hrf] at this
      rw [this]
      cases hl : (encodeLevel W fs).lookup r.term with
      | none => simp [Fields.get?]
      | some v' =>
        exfalso
        obtain ⟨w', hw', ht', hg', _⟩ := lookup_encode_some W fs r.term v' hl
        have : w'.field = r.field := hRW r hr w' hw' ht'
        rw [this, hrf, hf] at hg'
        cases hg'
    · rw [hd.2 f (fun r hr hEq => hex ⟨r, hr, hEq.symm⟩)]
      simp [Fields.get?]

/-- Every set property appears among the written members under the term its struct declares for it
(not dropped, not renamed). -/
theorem encode_under_declared_term (pair : String → String → String → Bool) (S : Schema)
    (W : List WRow) (R : List RRow) (h : tablesAgree pair S W R = true) (fs : Fields) (hwf : wfLevel S fs)
    (f : String) (v : FVal) (hf : fs.get? f = some v) :
    ∃ row ∈ S, row.1 = f ∧ (row.2.2, v) ∈ encodeLevel W fs := by
  obtain ⟨row, hrow, hname, hk, hs⟩ := hwf f v hf
  refine ⟨row, hrow, hname, ?_⟩
  simp only [tablesAgree, Bool.and_eq_true, List.all_eq_true] at h
  have h1 := h.1.1.1.1.1.1 row hrow
  obtain ⟨fn, kind, term⟩ := row
  simp only [List.any_eq_true, Bool.and_eq_true, beq_iff_eq] at h1
  obtain ⟨w, hw, ⟨⟨⟨hwf', hwt⟩, hfit⟩, _⟩⟩ := h1
  simp only at hname hk
  have hp := guard_of_fits w.guard kind v hfit hk hs
  simp only [encodeLevel, List.mem_filterMap]
  refine ⟨w, hw, ?_⟩
  rw [hwf', hname, hf]
  simp [hp, hwt]

/-- the decidable agreement implies the hypotheses of the level theorem on every well-formed level -/
theorem agree_roundtrip (pair : String → String → String → Bool) (S : Schema)
    (W : List WRow) (R : List RRow) (h : tablesAgree pair S W R = true) (fs : Fields) (hwf : wfLevel S fs) :
    ∀ f, (decodeLevel R (encodeLevel W fs)).get? f = fs.get? f := by
  have h0 := h
  simp only [tablesAgree, Bool.and_eq_true, List.all_eq_true, decide_eq_true_eq] at h
  obtain ⟨⟨⟨⟨⟨⟨_, hW⟩, hR⟩, hWR⟩, hRW⟩, _⟩, _⟩ := h
  apply level_roundtrip W R fs hR
  · intro w hw w' hw' ht
    have := hW w hw w' hw'
    simp only [Bool.or_eq_true, bne_iff_ne, ne_eq, beq_iff_eq] at this
    rcases this with h | h
    · exact absurd ht h
    · exact h
  · intro w hw
    have := hWR w hw
    simp only [List.any_eq_true, Bool.and_eq_true, beq_iff_eq] at this
    exact this
  · intro r hr w hw ht
    have := hRW r hr w hw
    simp only [Bool.or_eq_true, bne_iff_ne, ne_eq, beq_iff_eq] at this
    rcases this with h | h
    · exact absurd ht h
    · exact h
  · intro f v hf
    obtain ⟨row, hrow, hname, hk, hs⟩ := hwf f v hf
    have h1 := h0
    simp only [tablesAgree, Bool.and_eq_true, List.all_eq_true] at h1
    have h2 := h1.1.1.1.1.1.1 row hrow
    obtain ⟨fn, kind, term⟩ := row
    simp only [List.any_eq_true, Bool.and_eq_true, beq_iff_eq] at h2
    obtain ⟨w, hw, ⟨⟨⟨hwf', _⟩, hfit⟩, _⟩⟩ := h2
    simp only at hname hk
    exact ⟨w, hw, by rw [hwf', hname], guard_of_fits w.guard kind v hfit hk hs⟩

/-! ### the obligation on the regenerated tables -/

/-- For each of the fourteen vocabulary structs and the three sub-records: the regenerated write and
read tables agree with each other and with the struct definition, every struct has at least its id/type
or a first field declared (the schema is not empty), and the extractor read every statement. -/
theorem C01_tables :
    jsonEntries.all (fun e =>
      tablesAgree pairJ (schemaOf e.1) (wRows jsonWrite e.2.1) (rRowsJ jsonRead e.2.2) &&
      !(schemaOf e.1).isEmpty &&
      (fnOther jsonWrite 5 e.2.1).isEmpty && (fnOther jsonRead 5 e.2.2).isEmpty) = true := by
  decide +kernel

theorem jsonEntries_names : ∀ name ∈ jsonEntries.map (·.1),
    tablesAgree pairJ (schemaOf name) (jsonW name) (jsonR name) = true := by
  decide +kernel

/-- C01, one level, for the code's own tables: for every vocabulary struct (and sub-record) and EVERY
well-formed assignment of values to its properties, decoding what the writer emits restores each
property with its value and sets no other property. -/
theorem C01_level (name : String) (hn : name ∈ jsonEntries.map (·.1)) (fs : Fields)
    (hwf : wfLevel (schemaOf name) fs) :
    ∀ f, (decodeLevel (jsonR name) (encodeLevel (jsonW name) fs)).get? f = fs.get? f :=
  agree_roundtrip pairJ _ _ _ (jsonEntries_names name hn) fs hwf

/-- … and each property is written under the term the struct declares. -/
theorem C01_terms (name : String) (hn : name ∈ jsonEntries.map (·.1)) (fs : Fields)
    (hwf : wfLevel (schemaOf name) fs) (f : String) (v : FVal) (hf : fs.get? f = some v) :
    ∃ row ∈ schemaOf name, row.1 = f ∧ (row.2.2, v) ∈ encodeLevel (jsonW name) fs :=
  encode_under_declared_term pairJ _ _ _ (jsonEntries_names name hn) fs hwf f v hf

/-! ### what the obligation rejects (the pinned tree's defects, as table shapes) -/

/-- a signed field guarded by `> 0` (pinned: Place latitude/longitude/…, Duration) is not accepted -/
theorem C01_rejects_sign_guard : guardFits "gtZero" "float" = false ∧ guardFits "gtZero" "duration" = false := by
  decide +kernel

/-- a write row without a read row, or a read row under another term, is not accepted -/
example : tablesAgree pairJ [("StartIndex", "uint", "startIndex")]
    [⟨"startIndex", "StartIndex", "JSONWriteIntProp", "gtZero"⟩] [] = false := by decide +kernel
example : tablesAgree pairJ [("Describes", "item", "describes")]
    [⟨"describes", "Describes", "JSONWriteItemProp", "nonNil"⟩]
    [⟨"Describes", "JSONGetItem", "Describes", "always"⟩] = false := by decide +kernel

/-! non-vacuity: a level that is well formed for Place, with a negative latitude -/
example : (decodeLevel (jsonR "Place") (encodeLevel (jsonW "Place")
      (.cons "Latitude" (.dec6 (-45500000)) (.cons "Units" (.str [109]) .nil)))).get? "Latitude"
    = some (.dec6 (-45500000)) := by
  apply C01_level "Place" (by decide +kernel)
  intro f v h
  simp only [Fields.get?] at h
  split at h
  · subst_vars; cases h
    exact ⟨("Latitude", "float", "latitude"), by decide +kernel, rfl, by decide +kernel, by decide⟩
  · split at h
    · subst_vars; cases h
      exact ⟨("Units", "string:string", "units"), by decide +kernel, rfl, by decide +kernel, by decide⟩
    · cases h

end APModel.Codec

namespace APModel.Deep
open APModel APModel.Codec APModel.Generated

/-! ### the whole-tree theorem on the deep model (writer and reader on JSON trees, leaf helpers included) -/

/-- every declared field of every struct and sub-record meets write and read rows that fit together in
the deep sense: an adequate guard, a read row for the written member that reads into the same field with
a helper whose composition with the write helper is covered by the theorem, and for text properties a
`<term>Map` reader that no other row shadows -/
theorem C01_deep_tables :
    jsonEntries.all (fun e => (schemaOf e.1).all (fun f => coherentField envJson e.1 f.1)) = true := by
  decide +kernel

/-- C01 on whole trees, for the code's own tables: for EVERY well-formed value tree — any struct, any
properties, IRIs, embedded objects and links, lists, language values, sub-records, nested to any depth —
reading what the writer writes gives the documented normal form `normJ x`. -/
theorem C01_deep (x : Item) (h : wfItem envJson x = true) : roundTrip envJson x = normJ x :=
  deep_roundtrip envJson x h

/-- … in particular nothing is dropped: what survives the normal form survives the round trip, at
every depth (stated for any parametrisation of the model) -/
theorem C01_deep_generic (E : Env) (x : Item) (h : wfItem E x = true) : roundTrip E x = normX (enc E) x :=
  deep_roundtrip E x h

/-! non-vacuity: a Create activity embedding a Note by value, with a language map, recipients and a tag
that is an object without id and type (depth 2) is well formed, so the theorem applies to it -/
def sampleNote : Item := .node .object false
  (.cons "ID" (.str (nm "https://example.com/n/1")) (.cons "Type" (.str (nm "Note"))
  (.cons "Name" (.nlv [(nm "en", nm "hello"), (nm "fr", nm "bonjour")])
  (.cons "To" (.items (.cons (.iri (nm "https://example.com/a")) (.cons (.iri (nm "https://example.com/b")) .nil)))
  (.cons "Tag" (.items (.cons (.node .object true (.cons "Name" (.nlv [(dash, nm "#tag")]) .nil)) .nil)) .nil)))))
def sampleCreate : Item := .node .activity true
  (.cons "ID" (.str (nm "https://example.com/c/1")) (.cons "Type" (.str (nm "Create"))
  (.cons "Actor" (.item (.iri (nm "https://example.com/~u"))) (.cons "Object" (.item sampleNote)
  (.cons "Published" (.time 1700000000 5 7200) .nil)))))
theorem sampleCreate_wf : wfItem envJson sampleCreate = true := by decide +kernel
example : roundTrip envJson sampleCreate = normJ sampleCreate := C01_deep _ sampleCreate_wf

end APModel.Deep
