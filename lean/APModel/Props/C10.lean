/-
C10 — Recipient computation de-duplicates without losing or inventing addressees.
Model: `Model/Recip.lean` (tied to item_collection.go / activity.go by the `recipients` op; the
per-type argument lists of `ItemCollectionDeduplication` come from `Generated/Recipients.lean`).
-/
import APModel.Model.Recip
import Batteries.Data.List.Basic
import APModel.Generated.Recipients

namespace APModel.Recip
open List

variable {α β : Type}

/-- `eqv` is an equivalence relation (C14 provides this for IRI equality on absolute URLs). -/
structure IsEquiv (eqv : α → α → Bool) : Prop where
  refl : ∀ a, eqv a a = true
  symm : ∀ a b, eqv a b = true → eqv b a = true
  trans : ∀ a b c, eqv a b = true → eqv b c = true → eqv a c = true

/-- pairwise inequivalent -/
def Inequiv (eqv : α → α → Bool) (l : List α) : Prop := l.Pairwise (fun a b => eqv a b = false)

/-! ### specification: keep first mentions -/

/-- the addressees in order of first mention, starting from those already known. -/
def firsts (eqv : α → α → Bool) : List α → List α → List α
  | [], rec => rec
  | t :: ts, rec => if rec.any (fun r => eqv t r) then firsts eqv ts rec else firsts eqv ts (rec ++ [t])

/-- one column: entries without a key stay; a keyed entry stays iff nobody equivalent was
mentioned before. -/
def specCol (eqv : α → α → Bool) (key : β → Option α) : List β → List α → List α × List β
  | [], rec => (rec, [])
  | e :: r, rec =>
    match key e with
    | none => let (rec', k) := specCol eqv key r rec; (rec', e :: k)
    | some t =>
      if rec.any (fun x => eqv t x) then specCol eqv key r rec
      else let (rec', k) := specCol eqv key r (rec ++ [t]); (rec', e :: k)

def specCols (eqv : α → α → Bool) (key : β → Option α) : List (List β) → List α → List α × List (List β)
  | [], rec => (rec, [])
  | c :: cs, rec =>
    let (rec1, c') := specCol eqv key c rec
    let (rec', cs') := specCols eqv key cs rec1
    (rec', c' :: cs')

/-! ### helper lemmas -/

theorem filter_len_le_one (eqv : α → α → Bool) (h : IsEquiv eqv) (rec : List α) (hr : Inequiv eqv rec) (t : α) :
    (rec.filter (fun it => eqv t it)).length ≤ 1 := by
  induction rec with
  | nil => simp
  | cons a l ih =>
    have hl : Inequiv eqv l := (List.pairwise_cons.mp hr).2
    have ha := (List.pairwise_cons.mp hr).1
    by_cases hta : eqv t a = true
    · have : l.filter (fun it => eqv t it) = [] := by
        rw [List.filter_eq_nil_iff]
        intro b hb hbt
        have hab : eqv a b = true := h.trans a t b (h.symm t a hta) (by simpa using hbt)
        rw [ha b hb] at hab; cases hab
      simp [List.filter_cons, hta, this]
    · simp [List.filter_cons, hta]; exact ih hl

theorem filter_len_zero_iff (eqv : α → α → Bool) (rec : List α) (t : α) :
    (rec.filter (fun it => eqv t it)).length = 0 ↔ rec.any (fun x => eqv t x) = false := by
  rw [List.length_eq_zero_iff, List.filter_eq_nil_iff]
  simp [List.any_eq_false]

theorem eraseAll_append (l : List β) (a b : List Nat) :
    eraseAll l (a ++ b) = (eraseAll l a).bind (fun l' => eraseAll l' b) := by
  induction a generalizing l with
  | nil => simp [eraseAll]
  | cons i is ih =>
    simp only [List.cons_append, eraseAll]
    split
    · exact ih _
    · rfl

theorem eraseAll_shift (e : β) (l : List β) (ms : List Nat) :
    eraseAll (e :: l) (ms.map (· + 1)) = (eraseAll l ms).map (fun l' => e :: l') := by
  induction ms generalizing l with
  | nil => simp [eraseAll]
  | cons i is ih =>
    simp only [List.map_cons, eraseAll, List.length_cons, Nat.add_lt_add_iff_right, List.eraseIdx_cons_succ]
    split
    · exact ih _
    · rfl

theorem inequiv_snoc (eqv : α → α → Bool) (h : IsEquiv eqv) (rec : List α) (hr : Inequiv eqv rec) (t : α)
    (hn : rec.any (fun x => eqv t x) = false) : Inequiv eqv (rec ++ [t]) := by
  unfold Inequiv at *
  rw [List.pairwise_append]
  refine ⟨hr, by simp, ?_⟩
  intro a ha b hb
  simp at hb; subst hb
  rw [List.any_eq_false] at hn
  cases hab : eqv a b with
  | false => rfl
  | true => exact absurd (h.symm a b hab) (by simpa using hn a ha)

/-- the scan only ever produces indices in non-decreasing order, so sorting them in descending
order (`sort.Sort(sort.Reverse(sort.IntSlice(toRemove)))`) is list reversal. -/
theorem scan_sorted (eqv : α → α → Bool) (key : β → Option α) (col : List β) (rec : List α) :
    (scan eqv key col rec).2.Pairwise (· ≤ ·) := by
  induction col generalizing rec with
  | nil => simp [scan]
  | cons e r ih =>
    simp only [scan]
    split
    · simp only
      rw [List.pairwise_map]
      exact (ih rec).imp (fun h => Nat.add_le_add_right h 1)
    · simp only
      rw [List.pairwise_append]
      refine ⟨by simp [List.pairwise_replicate], ?_, ?_⟩
      · rw [List.pairwise_map]; exact (ih _).imp (fun h => Nat.add_le_add_right h 1)
      · intro a ha b _
        rw [List.mem_replicate] at ha
        omega

/-- Refinement of one column: with an equivalence and a pairwise-inequivalent `rec`, the index
juggling of the code never panics and keeps exactly the first mentions. -/
theorem dedupCol_refines (eqv : α → α → Bool) (key : β → Option α) (h : IsEquiv eqv)
    (col : List β) (rec : List α) (hr : Inequiv eqv rec) :
    dedupCol eqv key col rec = ((specCol eqv key col rec).1, some (specCol eqv key col rec).2) ∧
    Inequiv eqv (specCol eqv key col rec).1 := by
  induction col generalizing rec with
  | nil => simp [dedupCol, scan, specCol, eraseAll, hr]
  | cons e r ih =>
    cases hk : key e with
    | none =>
      have ih' := ih rec hr
      simp only [dedupCol, scan, specCol, hk] at ih' ⊢
      refine ⟨?_, ih'.2⟩
      rw [← List.map_reverse, eraseAll_shift]
      have := ih'.1
      simp only [Prod.mk.injEq] at this
      simp [this.1, this.2]
    | some t =>
      have hle := filter_len_le_one eqv h rec hr t
      by_cases hany : rec.any (fun x => eqv t x) = true
      · -- somebody equivalent was mentioned before: index marked exactly once, entry removed
        have hk1 : (rec.filter (fun it => eqv t it)).length = 1 := by
          have : (rec.filter (fun it => eqv t it)).length ≠ 0 := by
            intro h0
            rw [filter_len_zero_iff] at h0
            rw [h0] at hany; cases hany
          omega
        have ih' := ih rec hr
        simp only [dedupCol, scan, specCol, hk, hk1, hany, if_true] at ih' ⊢
        refine ⟨?_, ih'.2⟩
        have := ih'.1
        simp only [Prod.mk.injEq] at this
        simp only [List.reverse_append, List.reverse_replicate, ← List.map_reverse, eraseAll_append,
          eraseAll_shift, this.2, Nat.one_ne_zero, if_false]
        simp [this.1, eraseAll, List.replicate]
      · have hany' : rec.any (fun x => eqv t x) = false := by simpa using hany
        have hk0 : (rec.filter (fun it => eqv t it)).length = 0 := (filter_len_zero_iff eqv rec t).mpr hany'
        have hr1 := inequiv_snoc eqv h rec hr t hany'
        have ih' := ih (rec ++ [t]) hr1
        simp only [dedupCol, scan, specCol, hk, hk0, hany', if_true] at ih' ⊢
        refine ⟨?_, ih'.2⟩
        have := ih'.1
        simp only [Prod.mk.injEq] at this
        simp only [List.replicate, List.nil_append, ← List.map_reverse, eraseAll_shift, this.2]
        simp [this.1]

/-- Refinement of the whole call. -/
theorem dedup_refines (eqv : α → α → Bool) (key : β → Option α) (h : IsEquiv eqv)
    (cols : List (List β)) (rec : List α) (hr : Inequiv eqv rec) :
    dedup eqv key cols rec = ((specCols eqv key cols rec).1, (specCols eqv key cols rec).2.map some) ∧
    Inequiv eqv (specCols eqv key cols rec).1 := by
  induction cols generalizing rec with
  | nil => simp [dedup, specCols, hr]
  | cons c cs ih =>
    have hc := dedupCol_refines eqv key h c rec hr
    have ih' := ih (specCol eqv key c rec).1 hc.2
    simp only [dedup, specCols, hc.1]
    exact ⟨by rw [ih'.1]; simp, ih'.2⟩

/-! #### facts about the specification -/

theorem specCol_rec (eqv : α → α → Bool) (key : β → Option α) (col : List β) (rec : List α) :
    (specCol eqv key col rec).1 = firsts eqv (col.filterMap key) rec ∧
    (specCol eqv key col rec).1 = rec ++ (specCol eqv key col rec).2.filterMap key := by
  induction col generalizing rec with
  | nil => simp [specCol, firsts]
  | cons e r ih =>
    cases hk : key e with
    | none => simp only [specCol, hk, List.filterMap_cons]; exact ih rec
    | some t =>
      simp only [specCol, hk, List.filterMap_cons, firsts]
      split
      · exact ih rec
      · have := ih (rec ++ [t])
        simp only [hk, List.filterMap_cons]
        exact ⟨this.1, by rw [this.2]; simp⟩

theorem specCol_sublist (eqv : α → α → Bool) (key : β → Option α) (col : List β) (rec : List α) :
    (specCol eqv key col rec).2 <+ col ∧
    (specCol eqv key col rec).2.filter (fun e => (key e).isNone) = col.filter (fun e => (key e).isNone) := by
  induction col generalizing rec with
  | nil => simp [specCol]
  | cons e r ih =>
    cases hk : key e with
    | none =>
      simp only [specCol, hk]
      exact ⟨(ih rec).1.cons₂ e, by simp [List.filter_cons, hk, (ih rec).2]⟩
    | some t =>
      simp only [specCol, hk]
      split
      · exact ⟨(ih rec).1.cons e, by simp [List.filter_cons, hk, (ih rec).2]⟩
      · exact ⟨(ih _).1.cons₂ e, by simp [List.filter_cons, hk, (ih _).2]⟩

theorem firsts_prefix (eqv : α → α → Bool) (ts rec : List α) : rec <+: firsts eqv ts rec := by
  induction ts generalizing rec with
  | nil => exact List.prefix_refl _
  | cons t ts ih =>
    simp only [firsts]; split
    · exact ih rec
    · exact (List.prefix_append rec [t]).trans (ih _)

theorem firsts_complete (eqv : α → α → Bool) (h : IsEquiv eqv) (ts rec : List α) :
    (∀ t ∈ ts, ∃ r ∈ firsts eqv ts rec, eqv t r = true) ∧
    (∀ r ∈ firsts eqv ts rec, r ∈ rec ∨ r ∈ ts) := by
  induction ts generalizing rec with
  | nil => simp [firsts]
  | cons t ts ih =>
    simp only [firsts]
    split
    · rename_i hany
      refine ⟨?_, ?_⟩
      · intro x hx
        rcases List.mem_cons.mp hx with rfl | hx
        · obtain ⟨r, hr, he⟩ := List.any_eq_true.mp hany
          exact ⟨r, (firsts_prefix eqv ts rec).subset hr, he⟩
        · exact (ih rec).1 x hx
      · intro r hr
        rcases (ih rec).2 r hr with h1 | h1
        · exact Or.inl h1
        · exact Or.inr (List.mem_cons_of_mem _ h1)
    · refine ⟨?_, ?_⟩
      · intro x hx
        rcases List.mem_cons.mp hx with rfl | hx
        · exact ⟨x, (firsts_prefix eqv ts _).subset (by simp), h.refl x⟩
        · exact (ih _).1 x hx
      · intro r hr
        rcases (ih _).2 r hr with h1 | h1
        · rcases List.mem_append.mp h1 with h2 | h2
          · exact Or.inl h2
          · simp at h2; subst h2; exact Or.inr List.mem_cons_self
        · exact Or.inr (List.mem_cons_of_mem _ h1)

theorem firsts_append (eqv : α → α → Bool) (a b rec : List α) :
    firsts eqv (a ++ b) rec = firsts eqv b (firsts eqv a rec) := by
  induction a generalizing rec with
  | nil => rfl
  | cons t ts ih => simp only [List.cons_append, firsts]; split <;> exact ih _

theorem specCols_rec (eqv : α → α → Bool) (key : β → Option α) (cols : List (List β)) (rec : List α) :
    (specCols eqv key cols rec).1 = firsts eqv (cols.flatten.filterMap key) rec ∧
    (specCols eqv key cols rec).1 = rec ++ (specCols eqv key cols rec).2.flatten.filterMap key := by
  induction cols generalizing rec with
  | nil => simp [specCols, firsts]
  | cons c cs ih =>
    have hc := specCol_rec eqv key c rec
    have ih' := ih (specCol eqv key c rec).1
    simp only [specCols, List.flatten_cons, List.filterMap_append, firsts_append]
    refine ⟨by rw [ih'.1, hc.1], ?_⟩
    rw [ih'.2, ← List.append_assoc, ← hc.2]

theorem specCols_sublists (eqv : α → α → Bool) (key : β → Option α) (cols : List (List β)) (rec : List α) :
    List.Forall₂ (fun c' c => c' <+ c ∧
      c'.filter (fun e => (key e).isNone) = c.filter (fun e => (key e).isNone))
      (specCols eqv key cols rec).2 cols := by
  induction cols generalizing rec with
  | nil => simp [specCols]
  | cons c cs ih =>
    simp only [specCols]
    exact List.Forall₂.cons (specCol_sublist eqv key c rec) (ih _)

/-! ### property theorems -/

/-- The whole of `ItemCollectionDeduplication` called with empty `rec`, for every list of
columns of entries, any key function and any equivalence on ids:

* it never panics and every column becomes a sublist of itself (survivors keep their relative
  order) in which all key-less entries (nil entries, non-addressable items) are still present;
* the returned list is the list of distinct addressees in order of first mention, scanning the
  columns in argument order (`firsts`), it is pairwise inequivalent (each addressee exactly
  once), every addressable entry is equivalent to one of its members (nobody lost) and every
  member is the id of some entry (nobody invented);
* it is exactly the ids of the surviving entries in order — so the surviving lists together
  mention no addressee twice, and the survivor of each class is its first mention. -/
theorem C10_dedup (eqv : α → α → Bool) (key : β → Option α) (h : IsEquiv eqv) (cols : List (List β)) :
    ∃ rec cols',
      dedup eqv key cols [] = (rec, cols'.map some) ∧
      List.Forall₂ (fun c' c => c' <+ c ∧
        c'.filter (fun e => (key e).isNone) = c.filter (fun e => (key e).isNone)) cols' cols ∧
      rec = firsts eqv (cols.flatten.filterMap key) [] ∧
      Inequiv eqv rec ∧
      (∀ t ∈ cols.flatten.filterMap key, ∃ r ∈ rec, eqv t r = true) ∧
      (∀ r ∈ rec, r ∈ cols.flatten.filterMap key) ∧
      rec = cols'.flatten.filterMap key := by
  have hr : Inequiv eqv ([] : List α) := List.Pairwise.nil
  have href := dedup_refines eqv key h cols [] hr
  have hrec := specCols_rec eqv key cols []
  refine ⟨(specCols eqv key cols []).1, (specCols eqv key cols []).2, href.1,
    specCols_sublists eqv key cols [], hrec.1, href.2, ?_, ?_, by simpa using hrec.2⟩
  · rw [hrec.1]; exact (firsts_complete eqv h _ []).1
  · rw [hrec.1]; intro r hr'
    rcases (firsts_complete eqv h _ []).2 r hr' with h1 | h1
    · simp at h1
    · exact h1

/-- The surviving entries of the mutated columns are pairwise inequivalent: the value's own lists
together no longer mention any addressee twice. -/
theorem C10_lists_dedup (eqv : α → α → Bool) (key : β → Option α) (h : IsEquiv eqv) (cols : List (List β)) :
    Inequiv eqv ((specCols eqv key cols []).2.flatten.filterMap key) := by
  have := (dedup_refines eqv key h cols [] List.Pairwise.nil).2
  rw [(specCols_rec eqv key cols []).2] at this
  simpa using this

/-- Block: after `removeFromCollection(col, blocked)` no entry of the column has an id equivalent to
the blocked object's, entries with other ids and nil entries are kept in order. -/
theorem C10_block (eqv : α → α → Bool) (idOf : β → Option α) (col : List β) (blocked : α) :
    (∀ e ∈ removeFrom eqv idOf col blocked, ∀ i, idOf e = some i → eqv i blocked = false) ∧
    removeFrom eqv idOf col blocked <+ col ∧
    (∀ e ∈ col, idOf e = none → e ∈ removeFrom eqv idOf col blocked) := by
  refine ⟨?_, List.filter_sublist, ?_⟩
  · intro e he i hi
    have := (List.mem_filter.mp he).2
    simp only [hi] at this
    simpa using this
  · intro e he hn
    exact List.mem_filter.mpr ⟨he, by simp [hn]⟩

/-- …hence the blocked object is not among the recipients computed afterwards. -/
theorem C10_block_recipients (eqv : α → α → Bool) (key : β → Option α) (h : IsEquiv eqv)
    (cols : List (List β)) (blocked : α)
    (hcols : ∀ t ∈ cols.flatten.filterMap key, eqv t blocked = false) :
    ∀ r ∈ (dedup eqv key cols []).1, eqv r blocked = false := by
  obtain ⟨rec, cols', hd, _, _, _, _, hsound, _⟩ := C10_dedup eqv key h cols
  intro r hr
  rw [hd] at hr
  exact hcols r (hsound r hr)

/-! ### what goes wrong without an equivalence (why C14 matters here) -/

/-- with a non-transitive comparison an index is marked twice and the deletion loop removes an
innocent neighbour (or panics when the index is the last one). -/
theorem C10_needs_equivalence :
    let eqv : Nat → Nat → Bool := fun a b => (a == b) || (a == 0) || (b == 0)   -- 0 "equals" everyone
    dedupCol eqv (fun e : Nat => some e) [1, 2, 0, 7] [] = ([1, 2, 7], some [1, 2]) ∧   -- 7 is a recipient but was deleted from the list
    dedupCol eqv (fun e : Nat => some e) [1, 2, 0] [] = ([1, 2], none) := by         -- panic
  decide

/-! ### obligations on the tables regenerated from the Go source -/

/-- what the property prescribes: scan to, cc, bto, bcc, then the actor (intransitive activities and
questions only), then (a copy of) audience; an item list de-duplicates its members' addressees. -/
def expectedCalls (t : String) : List (List String) :=
  if t = "IntransitiveActivity" ∨ t = "Question" then [["To", "CC", "Bto", "BCC", "[Actor]", "copy:Audience"]]
  else if t = "ItemCollection" then [["To", "CC", "Bto", "BCC", "copy:Audience"], ["local:all"]]
  else [["To", "CC", "Bto", "BCC", "copy:Audience"]]

/-- every `Recipients()` in the source passes the addressing properties in the prescribed order. -/
theorem C10_argument_order :
    Generated.recipientsCalls.all (fun e => decide (e.2 = expectedCalls e.1)) = true := by decide

/-- all fourteen implementers are present (none lost its method). -/
theorem C10_implementers :
    Generated.recipientsCalls.map (·.1) = ["Activity", "Actor", "Collection", "CollectionPage",
      "IntransitiveActivity", "ItemCollection", "Object", "OrderedCollection", "OrderedCollectionPage", "Place",
      "Profile", "Question", "Relationship", "Tombstone"] := by decide

/-- the Block clause filters all five addressing properties, for transitive activities. -/
theorem C10_block_table :
    Generated.recipientsBlockTypes = ["Activity"] ∧
    ["To", "Bto", "CC", "BCC", "Audience"].all (fun f => Generated.removeFromAudienceFields.contains f) = true := by
  decide

/-! non-vacuity -/
example : IsEquiv (fun a b : Nat => a % 10 == b % 10) :=
  ⟨by simp, by intro a b; simp; omega, by intro a b c; simp; omega⟩
example : dedup (fun a b : Nat => a % 10 == b % 10) (fun e : Nat => if e = 0 then none else some e)
    [[1, 11, 0, 2], [21, 3, 0], [2, 13, 4]] [] = ([1, 2, 3, 4], [some [1, 0, 2], some [3, 0], some [4]]) := by
  decide

/-! ### equality that is an equivalence only on a domain

IRI equality is an equivalence on a domain (C14: accepted absolute URLs with lower-case queries), not on
all strings.  The theorems above quantify over relations that are equivalences everywhere; this section
carries them to relations that are equivalences on a decidable domain `D`, for lists all of whose ids
lie in `D`: the code's loops only ever compare ids that occur in the lists, so on such lists they cannot
tell `eqv` from the relation `onDomain eqv D`, which IS an equivalence everywhere. -/

structure IsEquivOn (eqv : α → α → Bool) (D : α → Bool) : Prop where
  refl : ∀ a, D a = true → eqv a a = true
  symm : ∀ a b, D a = true → D b = true → eqv a b = true → eqv b a = true
  trans : ∀ a b c, D a = true → D b = true → D c = true → eqv a b = true → eqv b c = true → eqv a c = true

/-- `eqv` inside the domain, identity outside -/
def onDomain [DecidableEq α] (eqv : α → α → Bool) (D : α → Bool) (a b : α) : Bool :=
  if D a && D b then eqv a b else decide (a = b)

theorem onDomain_equiv [DecidableEq α] (eqv : α → α → Bool) (D : α → Bool) (h : IsEquivOn eqv D) :
    IsEquiv (onDomain eqv D) := by
  refine ⟨?_, ?_, ?_⟩
  · intro a
    unfold onDomain
    by_cases ha : D a = true
    · simp [ha, h.refl a ha]
    · simp [ha]
  · intro a b
    unfold onDomain
    by_cases ha : D a = true <;> by_cases hb : D b = true <;> simp [ha, hb]
    · exact h.symm a b ha hb
    all_goals (intro e; exact e.symm)
  · intro a b c
    unfold onDomain
    by_cases ha : D a = true <;> by_cases hb : D b = true <;> by_cases hc : D c = true <;> simp [ha, hb, hc]
    · exact h.trans a b c ha hb hc
    all_goals (intros; subst_vars; simp_all)

theorem onDomain_agree [DecidableEq α] (eqv : α → α → Bool) (D : α → Bool) (a b : α)
    (ha : D a = true) (hb : D b = true) : onDomain eqv D a b = eqv a b := by
  simp [onDomain, ha, hb]

/-- the scan cannot tell two relations apart that agree on the ids it meets -/
theorem scan_congr (eqv eqv' : α → α → Bool) (S : α → Prop) (hag : ∀ a b, S a → S b → eqv a b = eqv' a b)
    (key : β → Option α) (col : List β) (rec : List α)
    (hc : ∀ e ∈ col, ∀ t, key e = some t → S t) (hr : ∀ x ∈ rec, S x) :
    scan eqv key col rec = scan eqv' key col rec := by
  induction col generalizing rec with
  | nil => rfl
  | cons e r ih =>
    have hc' : ∀ e' ∈ r, ∀ t, key e' = some t → S t := fun e' he' => hc e' (List.mem_cons_of_mem _ he')
    cases hk : key e with
    | none => simp only [scan, hk, ih rec hc' hr]
    | some t =>
      have ht : S t := hc e List.mem_cons_self t hk
      have hf : rec.filter (fun it => eqv t it) = rec.filter (fun it => eqv' t it) := by
        apply List.filter_congr
        intro x hx
        exact hag t x ht (hr x hx)
      simp only [scan, hk, hf]
      rw [ih _ hc' (by
        intro x hx
        split at hx
        · rcases List.mem_append.mp hx with hx | hx
          · exact hr x hx
          · have : x = t := by simpa using hx
            subst this; exact ht
        · exact hr x hx)]

theorem dedupCol_congr (eqv eqv' : α → α → Bool) (S : α → Prop) (hag : ∀ a b, S a → S b → eqv a b = eqv' a b)
    (key : β → Option α) (col : List β) (rec : List α)
    (hc : ∀ e ∈ col, ∀ t, key e = some t → S t) (hr : ∀ x ∈ rec, S x) :
    dedupCol eqv key col rec = dedupCol eqv' key col rec := by
  simp only [dedupCol, scan_congr eqv eqv' S hag key col rec hc hr]

/-- one column, relation an equivalence on `D`, every id of the column in `D`: no panic, and exactly
the first mentions are kept (first mentions with respect to `eqv` itself on these ids) -/
theorem dedupCol_refines_on [DecidableEq α] (eqv : α → α → Bool) (D : α → Bool) (h : IsEquivOn eqv D)
    (key : β → Option α) (col : List β) (hc : ∀ e ∈ col, ∀ t, key e = some t → D t = true) :
    dedupCol eqv key col [] =
      ((specCol (onDomain eqv D) key col []).1, some (specCol (onDomain eqv D) key col []).2) := by
  rw [dedupCol_congr eqv (onDomain eqv D) (fun a => D a = true)
    (fun a b ha hb => (onDomain_agree eqv D a b ha hb).symm) key col [] hc (by simp)]
  exact (dedupCol_refines (onDomain eqv D) key (onDomain_equiv eqv D h) col [] List.Pairwise.nil).1

end APModel.Recip
