package main

import (
	"encoding/json"
	"flag"
	"fmt"
	"os"
	"strconv"
)

// campaigns maps a property id to its generator + implementation runner + direct oracle.
var campaigns = map[string]func(*Ctx){}

// replayers re-run one recorded failing input against the current tree; they return "" if the
// property holds on it now, else a description.
var replayers = map[string]func(class string, input []byte) string{}

func main() {
	if len(os.Args) < 2 {
		fmt.Fprintln(os.Stderr, "usage: apharness run|replay ...")
		os.Exit(2)
	}
	switch os.Args[1] {
	case "run":
		fs := flag.NewFlagSet("run", flag.ExitOnError)
		prop := fs.String("prop", "", "property id")
		tier := fs.String("tier", "quick", "quick|thorough")
		seed := fs.String("seed", "1", "seed")
		out := fs.String("out", "", "output directory")
		fs.Parse(os.Args[2:])
		f, ok := campaigns[*prop]
		if !ok {
			fmt.Fprintln(os.Stderr, "no campaign for", *prop)
			os.Exit(2)
		}
		s, _ := strconv.ParseUint(*seed, 10, 64)
		c, err := NewCtx(*prop, *tier, s, *out)
		if err != nil {
			fmt.Fprintln(os.Stderr, err)
			os.Exit(2)
		}
		f(c)
		c.Done()
		if err := c.Close(); err != nil {
			fmt.Fprintln(os.Stderr, err)
			os.Exit(2)
		}
	case "replay":
		fs := flag.NewFlagSet("replay", flag.ExitOnError)
		prop := fs.String("prop", "", "property id")
		class := fs.String("class", "", "failure class")
		in := fs.String("input", "", "file with the JSON input")
		fs.Parse(os.Args[2:])
		f, ok := replayers[*prop]
		if !ok {
			fmt.Fprintln(os.Stderr, "no replayer for", *prop)
			os.Exit(2)
		}
		b, err := os.ReadFile(*in)
		if err != nil {
			fmt.Fprintln(os.Stderr, err)
			os.Exit(2)
		}
		if msg := f(*class, b); msg != "" {
			fmt.Println("FAILS:", msg)
			os.Exit(1)
		}
		fmt.Println("HOLDS")
	case "c08site":
		// one conversion site, run in a child process of the checkptr build (a checkptr abort is fatal)
		var s castSite
		if err := json.Unmarshal([]byte(os.Args[2]), &s); err != nil {
			os.Exit(2)
		}
		_, viol := c08Site(s)
		fmt.Println(viol)
	case "c04child":
		c04Child()
	case "c12fresh":
		c12FreshChild()
	default:
		os.Exit(2)
	}
}
