/- the byte-level JSON writer coincides with the canonical rendering of the tree writer (helpers for C02) -/
import APModel.Model.JsonRender
import APModel.Theory.JsonBytes

namespace APModel.JRender
open APModel APModel.Codec APModel.Deep APModel.JBytes

theorem renderList_ofList (F : Fmt) (js : List J) : renderList F (JList.ofList js) = js.map (render F) := by
  induction js with
  | nil => rfl
  | cons j r ih => simp [JList.ofList, renderList, ih]

theorem getLast_snoc (a : Buf) (c : UInt8) : (a ++ [c]).getLast? = some c := by simp

/-- a rendered tree is never empty and never ends in a comma -/
theorem render_ne (F : Fmt) (hF : FmtOK F) : ∀ j : J, render F j ≠ [] ∧ (render F j).getLast? ≠ some 44
  | .null => by simp [render]
  | .str s => ⟨hF.q_ne s, hF.q_last s⟩
  | .leaf v => ⟨hF.leaf_ne v, hF.leaf_last v⟩
  | .arr l => by
    simp only [render]
    refine ⟨by simp, ?_⟩
    rw [getLast_snoc]; simp
  | .obj ms => by
    simp only [render]
    refine ⟨by simp, ?_⟩
    rw [getLast_snoc]; simp

theorem mapOf_render (F : Fmt) (ms : List (Str × Str)) :
    renderMembers F (mapOf ms) = ms.map (fun e => F.q e.1 ++ [58] ++ F.q e.2) := by
  induction ms with
  | nil => rfl
  | cons e r ih => obtain ⟨t, v⟩ := e; simp [mapOf, renderMembers, render, ih]

theorem firstOfTag_eq (n : List (Str × Str)) : ∀ seen, firstOfTag n seen = nlvMapMembers n seen := by
  induction n with
  | nil => intro _; rfl
  | cons e r ih =>
    intro seen
    obtain ⟨t, v⟩ := e
    simp only [firstOfTag, nlvMapMembers]
    split <;> simp [ih]

/-- the relation between what a statement hands to `JSONWriteProp` and what the tree writer files -/
def ValRel (F : Fmt) (t : Option (String × J)) (b : Option (String × Buf)) : Prop :=
  match t, b with
  | some (sfx, j), some (sfx', bytes) => sfx = sfx' ∧ bytes = render F j
  | none, some (_, bytes) => bytes = []
  | none, none => True
  | some _, none => False

theorem nlv_rel (F : Fmt) (n : List (Str × Str)) : ValRel F (writeNLV false n) (bNLV F false n) := by
  match n with
  | [] => simp [ValRel, writeNLV, bNLV]
  | [(t, v)] =>
    simp only [writeNLV, bNLV, Bool.false_and, Bool.false_eq_true, if_false]
    split <;> simp [ValRel, render]
  | a :: b :: r =>
    simp only [writeNLV, bNLV]
    rw [writeLangMap_spec]
    unfold specLangMap
    rw [firstOfTag_eq]
    cases h : nlvMapMembers (a :: b :: r) [] with
    | nil => simp [ValRel]
    | cons m ms =>
      simp only [ValRel, render, mapOf_render, true_and]
      simp

/-! ### what is proved for each syntactic class -/

structure Hyp (E : Env) (F : Fmt) : Prop where
  fmt : FmtOK F
  lib : E.loneTagAsMap = false
  /-- the terms of the tables are plain: written as strings they are themselves between quotes -/
  plain : ∀ sn n w sfx, E.wrow sn n = some w → (sfx = "" ∨ sfx = "Map") →
    nm (w.term ++ sfx) ≠ [] ∧ F.q (nm (w.term ++ sfx)) = [34] ++ nm (w.term ++ sfx) ++ [34]

def ItemB (E : Env) (fm : Forms) (F : Fmt) (x : Item) : Prop := bItem E fm F x = renderOpt F (writeItem E x)

def ItemsB (E : Env) (fm : Forms) (F : Fmt) (l : Items) : Prop :=
  (bItems E fm F l).filter (fun v => !v.isEmpty) = (writeItems E l).map (render F) ∧
  (∀ i, l = .cons i .nil → (bItems E fm F l).head?.getD [] = renderOpt F ((writeItems E l).head?))

/-- the statements of a struct writer, seen as members: names are quoted plain terms -/
def FieldsB (E : Env) (fm : Forms) (F : Fmt) (sn : String) (fs : Fields) : Prop :=
  written (bFields E fm F sn fs) = renderMembers F (writeFields E sn fs) ∧
  ∀ a ∈ bFields E fm F sn fs, formOK a = true ∧ a.name ≠ [] ∧ a.val.getLast? ≠ some 44

def ValB (E : Env) (fm : Forms) (F : Fmt) (kind helper : String) (v : FVal) : Prop :=
  ValRel F (writeVal E kind helper v) (bVal E fm F kind helper v) ∧
  (∀ sfx b, bVal E fm F kind helper v = some (sfx, b) → b.getLast? ≠ some 44 ∧ (sfx = "" ∨ sfx = "Map")) ∧
  (∀ sfx b, bVal E fm F kind helper v = some (sfx, b) → False → b ≠ [])

theorem renderOpt_last (F : Fmt) (hF : FmtOK F) (o : Option J) : (renderOpt F o).getLast? ≠ some 44 := by
  cases o with
  | none => simp [renderOpt]
  | some j => exact (render_ne F hF j).2

theorem object_of_fields (E : Env) (fm : Forms) (F : Fmt) (sn : String) (fs : Fields)
    (h : FieldsB E fm F sn fs) :
    writeObject (bFields E fm F sn fs) =
      renderOpt F (match writeFields E sn fs with | .nil => none | ms => some (.obj ms)) := by
  rw [writeObject_spec _ h.2]
  unfold specObject
  have hw : (bFields E fm F sn fs |>.filter (fun a => !a.val.isEmpty)).map member = written (bFields E fm F sn fs) := rfl
  rw [hw, h.1]
  cases writeFields E sn fs with
  | nil => simp [renderMembers, renderOpt]
  | cons n j r => simp [renderMembers, renderOpt, render]

theorem compact_rel (E : Env) (fm : Forms) (F : Fmt) (l : Items) (h : ItemsB E fm F l) :
    bCompact (Items.length l) (bItems E fm F l) = renderOpt F (compactOf (Items.length l) (writeItems E l)) := by
  unfold bCompact compactOf
  by_cases h0 : Items.length l = 0
  · simp [h0, renderOpt]
  · simp only [h0, if_false]
    by_cases h1 : Items.length l = 1
    · simp only [h1, if_true]
      cases l with
      | nil => simp [Items.length] at h0
      | cons i r =>
        cases r with
        | nil => exact h.2 i rfl
        | cons i' r' => simp [Items.length] at h1
    · simp only [h1, if_false]
      rw [writeArray_spec]
      simp [specArray, h.1, renderOpt, render, renderList_ofList]

theorem array_rel (E : Env) (fm : Forms) (F : Fmt) (l : Items) (h : ItemsB E fm F l) :
    writeArray (bItems E fm F l) = render F (.arr (JList.ofList (writeItems E l))) := by
  rw [writeArray_spec]
  simp [specArray, h.1, render, renderList_ofList]

theorem isEmpty_false_of_ne {b : Buf} (h : b ≠ []) : b.isEmpty = false := by cases b <;> simp_all

/-- one field of a struct, given what is known about its value and about the rest -/
theorem fields_cons (E : Env) (fm : Forms) (F : Fmt) (H : Hyp E F) (sn n : String) (v : FVal) (r : Fields)
    (hok : (match E.wrow sn n with
      | none => true
      | some w =>
        !guardPasses w.guard v ||
        (fm sn n == .orAfter ||
         (fm sn n == .assign &&
           (match bVal E fm F (E.fieldKind sn n) w.helper v with
            | some (_, b) => !b.isEmpty
            | none => false)))) = true)
    (hv : ∀ helper, ValB E fm F (E.fieldKind sn n) helper v)
    (ih : FieldsB E fm F sn r) : FieldsB E fm F sn (.cons n v r) := by
  unfold FieldsB
  cases hw : E.wrow sn n with
  | none => simp only [bFields, writeFields, hw]; exact ih
  | some w =>
    rw [hw] at hok
    by_cases hg : guardPasses w.guard v = true
    · simp only [hg, Bool.not_true, Bool.false_or, Bool.or_eq_true, Bool.and_eq_true, beq_iff_eq] at hok
      simp only [bFields, writeFields, hw, hg, if_true]
      obtain ⟨hrel, hlast, _⟩ := hv w.helper
      cases hb : bVal E fm F (E.fieldKind sn n) w.helper v with
      | none =>
        have hpl := H.plain sn n w "" hw (Or.inl rfl)
        simp only [String.append_empty] at hpl
        have hform : formOK { name := nm w.term, val := [], form := fm sn n } = true := by
          rcases hok with e | ⟨_, e2⟩
          · simp [formOK, e]
          · simp [hb] at e2
        cases hwv : writeVal E (E.fieldKind sn n) w.helper v with
        | none =>
          simp only
          refine ⟨?_, ?_⟩
          · rw [written_cons]
            have : written [({ name := nm w.term, val := [], form := fm sn n } : Attempt)] = [] := by simp [written]
            rw [this, List.nil_append]
            exact ih.1
          · intro a ha
            rcases List.mem_cons.mp ha with rfl | ha
            · exact ⟨hform, hpl.1, by simp⟩
            · exact ih.2 a ha
        | some p => simp [ValRel, hb, hwv] at hrel
      | some p =>
        obtain ⟨sfx, bytes⟩ := p
        have hl := hlast sfx bytes hb
        have hpl := H.plain sn n w sfx hw hl.2
        have hform : formOK { name := nm (w.term ++ sfx), val := bytes, form := fm sn n } = true := by
          rcases hok with e | ⟨e, e2⟩
          · simp [formOK, e]
          · simp only [hb] at e2
            simp [formOK, e, e2]
        cases hwv : writeVal E (E.fieldKind sn n) w.helper v with
        | none =>
          have hbe : bytes = [] := by simpa [ValRel, hb, hwv] using hrel
          subst hbe
          simp only
          refine ⟨?_, ?_⟩
          · rw [written_cons]
            have : written [({ name := nm (w.term ++ sfx), val := [], form := fm sn n } : Attempt)] = [] := by
              simp [written]
            rw [this, List.nil_append]
            exact ih.1
          · intro a ha
            rcases List.mem_cons.mp ha with rfl | ha
            · exact ⟨hform, hpl.1, by simp⟩
            · exact ih.2 a ha
        | some q =>
          obtain ⟨sfx', j⟩ := q
          have hr2 : sfx' = sfx ∧ bytes = render F j := by simpa [ValRel, hb, hwv] using hrel
          obtain ⟨rfl, rfl⟩ := hr2
          simp only
          have hne := (render_ne F H.fmt j).1
          refine ⟨?_, ?_⟩
          · rw [written_cons]
            simp only [written, List.filter_cons, isEmpty_false_of_ne hne, Bool.not_false, if_true, List.filter_nil,
              List.map_cons, List.map_nil, member, renderMembers, hpl.2]
            have := ih.1
            simp only [written] at this
            rw [this]
            simp [List.append_assoc]
          · intro a ha
            rcases List.mem_cons.mp ha with rfl | ha
            · exact ⟨hform, hpl.1, (render_ne F H.fmt j).2⟩
            · exact ih.2 a ha
    · simp only [bFields, writeFields, hw, hg]
      exact ih

mutual
theorem b_item (E : Env) (fm : Forms) (F : Fmt) (H : Hyp E F) : ∀ x : Item, okItem E fm F x = true → ItemB E fm F x
  | .nil, _ => by simp [ItemB, bItem, writeItem, renderOpt]
  | .typedNil _, _ => by simp [ItemB, bItem, writeItem, renderOpt]
  | .collNil _, _ => by simp [ItemB, bItem, writeItem, renderOpt]
  | .irisNil, _ => by simp [ItemB, bItem, writeItem, renderOpt]
  | .iri s, _ => by
    unfold ItemB
    simp only [bItem, writeItem]
    split <;> simp [renderOpt, render]
  | .iris l, _ => by
    unfold ItemB
    simp only [bItem, writeItem, renderOpt, render, writeIRIs_spec, renderList_ofList]
    simp [List.map_map, Function.comp_def, render]
  | .coll p l, h => by
    have := b_items E fm F H l (by simpa [okItem] using h)
    unfold ItemB
    simp only [bItem, writeItem]
    exact compact_rel E fm F l this
  | .node k p fs, h => by
    have := b_fields E fm F H k.goName fs (by simpa [okItem] using h)
    unfold ItemB
    simp only [bItem, writeItem]
    exact object_of_fields E fm F k.goName fs this
theorem b_items (E : Env) (fm : Forms) (F : Fmt) (H : Hyp E F) : ∀ l : Items, okItems E fm F l = true → ItemsB E fm F l
  | .nil, _ => ⟨by simp [bItems, writeItems], by intro i hi; cases hi⟩
  | .cons i r, h => by
    simp only [okItems, Bool.and_eq_true] at h
    have e := b_item E fm F H i h.1
    have ih := b_items E fm F H r h.2
    unfold ItemB at e
    refine ⟨?_, ?_⟩
    · simp only [bItems, writeItems, List.filter_cons, e]
      cases hw : writeItem E i with
      | none => simp [renderOpt, ih.1]
      | some j =>
        have := isEmpty_false_of_ne (render_ne F H.fmt j).1
        simp [renderOpt, this, ih.1]
    · intro i' hl
      cases hl
      simp only [bItems, writeItems, e, List.head?_cons, Option.getD_some]
      cases writeItem E i <;> simp [renderOpt, writeItems]
theorem b_fields (E : Env) (fm : Forms) (F : Fmt) (H : Hyp E F) (sn : String) :
    ∀ fs : Fields, okFields E fm F sn fs = true → FieldsB E fm F sn fs
  | .nil, _ => ⟨by simp [bFields, writeFields, written, renderMembers], by simp [bFields]⟩
  | .cons n v r, h => by
    simp only [okFields, Bool.and_eq_true] at h
    exact fields_cons E fm F H sn n v r h.1.1
      (fun helper => b_val E fm F H (E.fieldKind sn n) helper v h.1.2) (b_fields E fm F H sn r h.2)
theorem b_val (E : Env) (fm : Forms) (F : Fmt) (H : Hyp E F) (kind helper : String) :
    ∀ v : FVal, okVal E fm F kind v = true → ValB E fm F kind helper v
  | .item i, h => by
    have e := b_item E fm F H i (by simpa [okVal] using h)
    unfold ItemB at e
    unfold ValB
    simp only [writeVal, bVal]
    split
    · refine ⟨?_, ?_, ?_⟩
      · cases hw : writeItem E i <;> simp [ValRel, e, hw, renderOpt]
      · intro sfx b hb
        simp only [Option.some.injEq, Prod.mk.injEq] at hb
        obtain ⟨rfl, rfl⟩ := hb
        rw [e]; exact ⟨renderOpt_last F H.fmt _, Or.inl rfl⟩
      · intro _ _ _ ha; cases ha
    · simp [ValRel]
  | .items l, h => by
    have ih := b_items E fm F H l (by simpa [okVal] using h)
    unfold ValB
    simp only [writeVal, bVal]
    by_cases h1 : (helper == "JSONWriteItemCollectionProp") = true
    · simp only [h1, if_true]
      by_cases h0 : Items.length l = 0
      · simp [h0, ValRel]
      · simp only [h0, if_false]
        refine ⟨by simp [ValRel, array_rel E fm F l ih], ?_, ?_⟩
        · intro sfx b hb
          simp only [Option.some.injEq, Prod.mk.injEq] at hb
          obtain ⟨rfl, rfl⟩ := hb
          rw [array_rel E fm F l ih]
          exact ⟨(render_ne F H.fmt _).2, Or.inl rfl⟩
        · intro sfx b hb _
          simp only [Option.some.injEq, Prod.mk.injEq] at hb
          obtain ⟨rfl, rfl⟩ := hb
          rw [array_rel E fm F l ih]
          exact (render_ne F H.fmt _).1
    · simp only [h1, Bool.false_eq_true, if_false]
      by_cases h2 : (helper == "JSONWriteItemProp") = true
      · simp only [h2, if_true]
        have hc := compact_rel E fm F l ih
        refine ⟨?_, ?_, ?_⟩
        · cases hw : compactOf (Items.length l) (writeItems E l) <;> simp [ValRel, hc, hw, renderOpt]
        · intro sfx b hb
          simp only [Option.some.injEq, Prod.mk.injEq] at hb
          obtain ⟨rfl, rfl⟩ := hb
          rw [hc]; exact ⟨renderOpt_last F H.fmt _, Or.inl rfl⟩
        · intro _ _ _ ha; cases ha
      · simp [h2, ValRel]
  | .nlv n, _ => by
    unfold ValB
    simp only [writeVal, bVal, H.lib]
    split
    · have hr := nlv_rel F n
      refine ⟨hr, ?_, ?_⟩
      · intro sfx b hb
        cases hw : writeNLV false n with
        | none =>
          have : b = [] := by simpa [ValRel, hb, hw] using hr
          subst this
          refine ⟨by simp, ?_⟩
          revert hb
          unfold bNLV
          split
          · simp
          · split
            · simp
            · simp only [Bool.false_and, Bool.false_eq_true, if_false, Option.some.injEq, Prod.mk.injEq]
              intro e; exact Or.inl e.1.symm
          · simp only [Option.some.injEq, Prod.mk.injEq]
            intro e; exact Or.inr e.1.symm
        | some p =>
          obtain ⟨sfx', j⟩ := p
          have : sfx' = sfx ∧ b = render F j := by simpa [ValRel, hb, hw] using hr
          obtain ⟨rfl, rfl⟩ := this
          refine ⟨(render_ne F H.fmt j).2, ?_⟩
          revert hw
          unfold writeNLV
          split
          · simp
          · split
            · simp
            · simp only [Bool.false_and, Bool.false_eq_true, if_false, Option.some.injEq, Prod.mk.injEq]
              intro e; exact Or.inl e.1.symm
          · split
            · simp
            · simp only [Option.some.injEq, Prod.mk.injEq]
              intro e; exact Or.inr e.1.symm
      · intro _ _ _ ha; cases ha
    · simp [ValRel]
  | .time s ns o, _ => by
    unfold ValB; simp only [writeVal, bVal]
    split
    · exact ⟨by simp [ValRel, render], by intro sfx b hb; cases hb; exact ⟨H.fmt.leaf_last _, Or.inl rfl⟩,
        by intro sfx b hb _; cases hb; exact H.fmt.leaf_ne _⟩
    · simp [ValRel]
  | .dur d, _ => by
    unfold ValB; simp only [writeVal, bVal]
    split
    · exact ⟨by simp [ValRel, render], by intro sfx b hb; cases hb; exact ⟨H.fmt.leaf_last _, Or.inl rfl⟩,
        by intro sfx b hb _; cases hb; exact H.fmt.leaf_ne _⟩
    · simp [ValRel]
  | .dec6 z, _ => by
    unfold ValB; simp only [writeVal, bVal]
    split
    · exact ⟨by simp [ValRel, render], by intro sfx b hb; cases hb; exact ⟨H.fmt.leaf_last _, Or.inl rfl⟩,
        by intro sfx b hb _; cases hb; exact H.fmt.leaf_ne _⟩
    · simp [ValRel]
  | .int z, _ => by
    unfold ValB; simp only [writeVal, bVal]
    split
    · exact ⟨by simp [ValRel, render], by intro sfx b hb; cases hb; exact ⟨H.fmt.leaf_last _, Or.inl rfl⟩,
        by intro sfx b hb _; cases hb; exact H.fmt.leaf_ne _⟩
    · simp [ValRel]
  | .uint z, _ => by
    unfold ValB; simp only [writeVal, bVal]
    split
    · exact ⟨by simp [ValRel, render], by intro sfx b hb; cases hb; exact ⟨H.fmt.leaf_last _, Or.inl rfl⟩,
        by intro sfx b hb _; cases hb; exact H.fmt.leaf_ne _⟩
    · simp [ValRel]
  | .bool z, _ => by
    unfold ValB; simp only [writeVal, bVal]
    split
    · exact ⟨by simp [ValRel, render], by intro sfx b hb; cases hb; exact ⟨H.fmt.leaf_last _, Or.inl rfl⟩,
        by intro sfx b hb _; cases hb; exact H.fmt.leaf_ne _⟩
    · simp [ValRel]
  | .str s, _ => by
    unfold ValB; simp only [writeVal, bVal]
    split
    · split
      · simp [ValRel]
      · exact ⟨by simp [ValRel, render], by intro sfx b hb; cases hb; exact ⟨H.fmt.q_last _, Or.inl rfl⟩,
          by intro sfx b hb _; cases hb; exact H.fmt.q_ne _⟩
    · simp [ValRel]
  | .record fs, h => by
    have ih := b_fields E fm F H (recName kind) fs (by simpa [okVal] using h)
    have ho := object_of_fields E fm F (recName kind) fs ih
    unfold ValB; simp only [writeVal, bVal]
    split
    · refine ⟨?_, ?_, ?_⟩
      · rw [ho]
        cases writeFields E (recName kind) fs <;> simp [ValRel, renderOpt]
      · intro sfx b hb
        simp only [Option.some.injEq, Prod.mk.injEq] at hb
        obtain ⟨rfl, rfl⟩ := hb
        rw [ho]; exact ⟨renderOpt_last F H.fmt _, Or.inl rfl⟩
      · intro _ _ _ ha; cases ha
    · simp [ValRel]
end

end APModel.JRender
