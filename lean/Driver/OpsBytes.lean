import Driver.Value
import APModel.Model.JsonEnv
open Lean APModel APModel.Codec APModel.Deep APModel.JBytes APModel.JRender

namespace Driver

/-- the zero value a Go struct holds in a field the value tree does not mention -/
def zeroOf (kind : String) : Option FVal :=
  if kind == "uint" then some (.uint 0) else if kind == "int" then some (.int 0)
  else if kind == "float" then some (.dec6 0) else if kind == "bool" then some (.bool false) else none

/-- the fields of a struct in the order its writer visits them (fields without a write row are dropped;
a field the tree does not mention is there with its zero value when its statement has no guard) -/
def reorder (sn : String) (fs : Fields) : Fields :=
  (fieldOrder sn).foldr (fun f acc =>
    match fs.get? f with
    | some v => .cons f v acc
    | none =>
      match envJson.wrow sn f with
      | some w => if w.guard == "always" then (match zeroOf (envJson.fieldKind sn f) with | some z => .cons f z acc | none => acc) else acc
      | none => acc) .nil

mutual
partial def sortItem : Item → Item
  | .coll p l => .coll p (sortItems l)
  | .node k p fs => .node k p (reorder k.goName (sortFields k.goName fs))
  | x => x
partial def sortItems : Items → Items
  | .nil => .nil
  | .cons i r => .cons (sortItem i) (sortItems r)
partial def sortFields (sn : String) : Fields → Fields
  | .nil => .nil
  | .cons n v r => .cons n (sortVal (envJson.fieldKind sn n) v) (sortFields sn r)
partial def sortVal (kind : String) : FVal → FVal
  | .item i => .item (sortItem i)
  | .items l => .items (sortItems l)
  | .record fs => .record (reorder (recName kind) (sortFields (recName kind) fs))
  | v => v
end

def asciiBuf (s : String) : Buf := s.toUTF8.toList

def pad6 (n : Nat) : String :=
  let s := toString n
  String.ofList (List.replicate (6 - s.length) '0') ++ s

/-- fmt `%d`, `%t`, `%f`; instants and durations are looked up in the texts the harness computed with
time.Format and xsd.Marshal -/
def leafOf (times durs : List (Int × String)) : FVal → Buf
  | .int z => asciiBuf (toString z)
  | .uint n => asciiBuf (toString n)
  | .bool b => asciiBuf (if b then "true" else "false")
  | .dec6 z =>
    let a := z.natAbs
    asciiBuf ((if z < 0 then "-" else "") ++ toString (a / 1000000) ++ "." ++ pad6 (a % 1000000))
  | .time s _ _ => asciiBuf ("\"" ++ ((times.find? (fun p => p.1 == s)).map (·.2)).getD "?" ++ "\"")
  | .dur d => asciiBuf ("\"" ++ ((durs.find? (fun p => p.1 == d)).map (·.2)).getD "?" ++ "\"")
  | _ => asciiBuf "?"

def parsePairs (j : Json) : R (List (Int × String)) := do
  (← arr j).mapM fun p => do
    match (← arr p) with
    | [k, v] => return (← int k, ← str v)
    | _ => throw "bad pair"

/-- the bytes `<T>.MarshalJSON` produces according to the byte-level model, and whether the value is
inside the precondition of `C02_bytes` -/
def opJsonBytes (j : Json) : R Json := do
  let x := sortItem (← parseItem (← fld j "v"))
  let F : Fmt := ⟨qText, leafOf (← parsePairs (← fld j "times")) (← parsePairs (← fld j "durs"))⟩
  if !(okItem envJson envForms F x) then return Json.mkObj [("outside", Json.bool true)]
  return Json.str (hex (bItem envJson envForms F x))

end Driver
