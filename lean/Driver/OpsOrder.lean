import Driver.Util
import APModel.Model.Order
open Lean APModel.Order

namespace Driver

def parseOItem (j : Json) : R OItem := do
  if j.isNull then return .nil
  match ← arr j with
  | [ps, pn, us, un] =>
    return .obj ((← int ps) * 1000000000 + (← int pn)) ((← int us) * 1000000000 + (← int un))
  | _ => throw "oitem"

def opOrder (j : Json) : R Json := do
  let a ← parseOItem (← fld j "a")
  let b ← parseOItem (← fld j "b")
  return Json.bool (itemOrder a b)

/-- `orderSort`: the keys, in order, of the list sorted by the comparator (model of sort.Slice). -/
def opOrderSort (j : Json) : R Json := do
  let items ← (← arr (← fld j "items")).mapM parseOItem
  let ks := (sortBy itemOrder items).map key
  return Json.arr (ks.map (fun k => match k with
    | none => Json.str "nil"
    | some n => Json.str (toString n))).toArray

end Driver
