package main

import (
	"encoding/json"
	"fmt"
	"os"
	"os/exec"
	"reflect"
	"strings"
	"time"

	ap "github.com/go-ap/activitypub"
)

// C08 — typed views are field-faithful and stay inside the value.

type castSite struct {
	Fn  string `json:"fn"`
	Src string `json:"src"`
	Ptr bool   `json:"ptr"`
	Typ string `json:"typ,omitempty"` // the value's type property ("" = a marker string)
}

var c08Fns = map[string]func(ap.Item) (interface{}, error){
	"ToObject":                func(it ap.Item) (interface{}, error) { return ap.ToObject(it) },
	"ToActor":                 func(it ap.Item) (interface{}, error) { return ap.ToActor(it) },
	"ToActivity":              func(it ap.Item) (interface{}, error) { return ap.ToActivity(it) },
	"ToIntransitiveActivity":  func(it ap.Item) (interface{}, error) { return ap.ToIntransitiveActivity(it) },
	"ToQuestion":              func(it ap.Item) (interface{}, error) { return ap.ToQuestion(it) },
	"ToCollection":            func(it ap.Item) (interface{}, error) { return ap.ToCollection(it) },
	"ToCollectionPage":        func(it ap.Item) (interface{}, error) { return ap.ToCollectionPage(it) },
	"ToOrderedCollection":     func(it ap.Item) (interface{}, error) { return ap.ToOrderedCollection(it) },
	"ToOrderedCollectionPage": func(it ap.Item) (interface{}, error) { return ap.ToOrderedCollectionPage(it) },
	"ToPlace":                 func(it ap.Item) (interface{}, error) { return ap.ToPlace(it) },
	"ToProfile":               func(it ap.Item) (interface{}, error) { return ap.ToProfile(it) },
	"ToRelationship":          func(it ap.Item) (interface{}, error) { return ap.ToRelationship(it) },
	"ToTombstone":             func(it ap.Item) (interface{}, error) { return ap.ToTombstone(it) },
	"ToLink":                  func(it ap.Item) (interface{}, error) { return ap.ToLink(it) },
}

var c08FnOrder = []string{"ToObject", "ToActor", "ToActivity", "ToIntransitiveActivity", "ToQuestion", "ToCollection", "ToCollectionPage",
	"ToOrderedCollection", "ToOrderedCollectionPage", "ToPlace", "ToProfile", "ToRelationship", "ToTombstone", "ToLink"}

// marker value for a field, derived from a tag string so that every field of a value differs.
func markerFor(ft reflect.Type, tag string) reflect.Value {
	switch kindOfType(ft) {
	case "item":
		v := reflect.New(ft).Elem()
		v.Set(reflect.ValueOf(ap.IRI("https://example.com/item/" + tag)))
		return v
	case "items":
		return reflect.ValueOf(ap.ItemCollection{ap.IRI("https://example.com/list/" + tag)})
	case "nlv":
		return reflect.ValueOf(ap.NaturalLanguageValues{{Ref: "en", Value: ap.Content(tag)}})
	case "time":
		return reflect.ValueOf(time.Unix(int64(1000000+len(tag)*7919+int(tag[0])*31+int(tag[len(tag)-1])), 0).UTC())
	case "duration":
		return reflect.ValueOf(time.Duration(len(tag)*1000+int(tag[0])) * time.Second)
	case "string":
		v := reflect.New(ft).Elem()
		v.SetString("str-" + tag)
		return v
	case "float":
		return reflect.ValueOf(float64(len(tag)) + float64(tag[0])/256)
	case "int":
		return reflect.ValueOf(int64(len(tag)*100 + int(tag[0])))
	case "uint":
		return reflect.ValueOf(uint(len(tag)*100 + int(tag[0])))
	case "bool":
		return reflect.ValueOf(true)
	case "source":
		return reflect.ValueOf(ap.Source{MediaType: ap.MimeType("text/" + tag)})
	case "pubkey":
		return reflect.ValueOf(ap.PublicKey{ID: ap.ID("https://example.com/key/" + tag)})
	case "endpoints":
		return reflect.ValueOf(&ap.Endpoints{SharedInbox: ap.IRI("https://example.com/shared/" + tag)})
	}
	return reflect.Zero(ft)
}

func fillMarkers(sv reflect.Value, prefix string) {
	for i := 0; i < sv.NumField(); i++ {
		sv.Field(i).Set(markerFor(sv.Type().Field(i).Type, prefix+sv.Type().Field(i).Name))
	}
}

func rhoName(src, dst reflect.Type, name string) string {
	if _, ok := src.FieldByName(name); ok {
		return name
	}
	if name == "Items" {
		return "OrderedItems"
	}
	if name == "OrderedItems" {
		return "Items"
	}
	return name
}

// c08Site exercises one conversion: returns "ok"/"err" and the first violated clause.
func c08Site(s castSite) (outcome string, viol string) {
	st := goTypes[s.Src]
	pv := reflect.New(st)
	fillMarkers(pv.Elem(), "a-")
	if s.Typ != "" {
		pv.Elem().FieldByName("Type").SetString(s.Typ)
	}
	var it ap.Item
	if s.Ptr {
		it = pv.Interface().(ap.Item)
	} else {
		it = pv.Elem().Interface().(ap.Item)
	}
	view, err := c08Fns[s.Fn](it)
	if err != nil {
		return "err", ""
	}
	vv := reflect.ValueOf(view)
	if vv.IsNil() {
		return "ok", "the conversion returned a nil view without an error"
	}
	dv := vv.Elem()
	dt := dv.Type()
	// reads: every field of the view equals the like-named field of the original
	for i := 0; i < dt.NumField(); i++ {
		name := dt.Field(i).Name
		sf := pv.Elem().FieldByName(rhoName(st, dt, name))
		if !sf.IsValid() {
			return "ok", fmt.Sprintf("%s(%s): the view has a field %s the original does not have", s.Fn, s.Src, name)
		}
		if !reflect.DeepEqual(dv.Field(i).Interface(), sf.Interface()) {
			return "ok", fmt.Sprintf("%s(%s): field %s reads %v through the view, the original holds %v", s.Fn, s.Src, name, dv.Field(i).Interface(), sf.Interface())
		}
	}
	if s.Ptr {
		// writes through the view of a pointer are seen by the original
		for i := 0; i < dt.NumField(); i++ {
			name := dt.Field(i).Name
			nv := markerFor(dt.Field(i).Type, "b-"+name)
			dv.Field(i).Set(nv)
			sf := pv.Elem().FieldByName(rhoName(st, dt, name))
			if !reflect.DeepEqual(sf.Interface(), nv.Interface()) {
				return "ok", fmt.Sprintf("%s(*%s): a write to %s through the view is not seen by the original", s.Fn, s.Src, name)
			}
		}
		// and nothing else of the original changed
		for i := 0; i < st.NumField(); i++ {
			name := st.Field(i).Name
			if _, shared := dt.FieldByName(rhoName(dt, st, name)); shared {
				continue
			}
			if want := markerFor(st.Field(i).Type, "a-"+name); name != "Type" && !reflect.DeepEqual(pv.Elem().Field(i).Interface(), want.Interface()) {
				return "ok", fmt.Sprintf("%s(*%s): writing through the view changed %s, which the view does not have", s.Fn, s.Src, name)
			}
		}
	}
	if dt.Size() > st.Size() {
		return "ok", fmt.Sprintf("%s(%s): the view (%s, %d bytes) is larger than the value it is placed on (%d bytes): it exposes memory outside the original", s.Fn, s.Src, dt.Name(), dt.Size(), st.Size())
	}
	return "ok", ""
}

func init() {
	campaigns["C08"] = func(c *Ctx) {
		c.Rule = "exhaustive: (a) the reflect layout (field, offset, size; total size) of each of the 14 structs against the go/types layout in the regenerated tables; (b) every To* helper x every struct x {value, pointer} x {type property a marker, type property naming the target}: accepted or refused as the regenerated type-switch lists predict, and for accepted conversions every field of the view read against the like-named field (items<->orderedItems) of a source filled with distinct markers, every field written through pointer views and checked on the original, untouched fields re-checked, and the view's size against the source's. Thorough: every accepted site re-run in a child process of a binary built with -gcflags=all=-d=checkptr. Non-trivial = the source struct differs from the view struct."
		for _, t := range allGoTypes {
			rt := goTypes[t]
			var fs []interface{}
			for i := 0; i < rt.NumField(); i++ {
				fs = append(fs, []interface{}{rt.Field(i).Name, rt.Field(i).Offset, rt.Field(i).Type.Size()})
			}
			c.Emit(map[string]interface{}{"op": "layout", "t": t}, map[string]interface{}{"size": rt.Size(), "fields": fs}, true)
			c.Tag("layout")
		}
		checkptr := os.Getenv("VERIF_CHECKPTR_BIN")
		for _, fn := range c08FnOrder {
			for _, src := range allGoTypes {
				for _, variant := range []int{0, 1, 2, 3} {
					ptr := variant%2 == 1
					s := castSite{Fn: fn, Src: src, Ptr: ptr}
					if variant >= 2 {
						s.Typ = strings.TrimPrefix(fn, "To") // a value of another struct that carries the target's type name
					}
					var out, viol string
					if p, msg := guard(func() { out, viol = c08Site(s) }); p {
						out, viol = "panic", "panic: "+msg
					}
					in := map[string]interface{}{"op": "cast", "fn": fn, "src": src, "ptr": ptr, "typ": s.Typ}
					c.Emit(in, out, "To"+src != fn)
					c.Tag("cast/" + out)
					if viol != "" {
						cls := "C08/view"
						if strings.Contains(viol, "larger than the value") || strings.Contains(viol, "the original does not have") {
							cls = "C08/widening:" + fn + "(" + src + ")"
						}
						c.Fail(cls, viol, s)
					}
					if out == "ok" && checkptr != "" && c.Thorough() {
						b, _ := json.Marshal(s)
						cmd := exec.Command(checkptr, "c08site", string(b))
						o, err := cmd.CombinedOutput()
						c.Tag("checkptr")
						if err != nil {
							msg := string(o)
							if i := strings.Index(msg, "fatal error"); i >= 0 {
								msg = msg[i:]
								if j := strings.Index(msg, "\n"); j > 0 {
									msg = msg[:j]
								}
							}
							c.Fail("C08/widening:"+fn+"("+src+")", "under -d=checkptr: "+msg, s)
						}
					}
				}
			}
		}
		c.Exhaust = true
	}
	replayers["C08"] = func(class string, input []byte) string {
		var s castSite
		if err := json.Unmarshal(input, &s); err != nil {
			return "bad replay input"
		}
		_, viol := c08Site(s)
		return viol
	}
}
