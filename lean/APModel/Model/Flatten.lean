/-
Model of flattening (flatten.go, iri.go:FlattenToIRI) on the shared value trees, driven by the
table regenerated from the source (`Generated/Flatten.lean`).
-/
import APModel.Model.Value
import APModel.Model.Recip
import APModel.Generated.Flatten

namespace APModel.Flatten
open APModel APModel.Generated
abbrev Str := APModel.IRI.Str

def strOf (fs : Fields) (n : String) : Str :=
  match fs.get? n with
  | some (.str s) => s
  | _ => []

def ascii (s : String) : Str := s.toUTF8.toList

/-- Go's `ObjectTypes` and `LinkTypes` lists (types.go / link.go); `Contains` folds case. -/
def objectTypesGo : List String :=
  ["Article", "Audio", "Document", "Event", "Image", "Note", "Page", "Place", "Profile", "Relationship", "Tombstone", "Video"]
def linkTypesGo : List String := ["Link", "Mention"]

def typeIn (l : List String) (t : Str) : Bool := l.any (fun n => IRI.foldEq (ascii n) t)

/-- `it.IsObject()` (method of the concrete type). -/
def isObjectM : Item → Bool
  | .node .link _ fs => strOf fs "Type" == ascii "Object" || typeIn objectTypesGo (strOf fs "Type")
  | .node _ _ _ => true
  | _ => false

/-- `it.IsLink()` -/
def isLinkM : Item → Bool
  | .iri _ => true
  | .node .link _ fs => strOf fs "Type" == ascii "Link" || typeIn linkTypesGo (strOf fs "Type")
  | _ => false

/-- `it.GetLink()` / `GetID()` of a struct or IRI -/
def linkOf : Item → Str
  | .iri s => s
  | .node _ _ fs => strOf fs "ID"
  | _ => []

/-- `FlattenToIRI` -/
def flattenToIRI (i : Item) : Item :=
  if !i.isNilLike && isObjectM i && !(linkOf i).isEmpty then .iri (linkOf i) else i

/-- the `testIt` of `ItemCollectionDeduplication` for a list member (`none`: the loop continues). -/
def dedupKey (i : Item) : Option Str :=
  match i with
  | .nil => none
  | _ =>
    -- an entry without an id (or link) names nobody: the loop leaves it alone (as repaired)
    if (isObjectM i || isLinkM i) && !(linkOf i).isEmpty then some (linkOf i) else none

def iriEqv (a b : Str) : Bool := IRI.equals IRI.parseOpt a b false

/-- `FlattenItemCollection` (as repaired): de-duplicate, then flatten every remaining entry.
`none` = the modelled slice-bounds panic of the de-duplication. -/
def flattenList (l : List Item) : Option (List Item) :=
  match (Recip.dedupCol iriEqv dedupKey l []).2 with
  | some l' => some (l'.map flattenToIRI)
  | none => none

/-- `ItemCollection.Normalize` -/
def normalize : List Item → Item
  | [] => .nil
  | [i] => i
  | l => .coll false (Items.ofList l)

inductive Res (α : Type)
  | ok (v : α)
  | panic
  | outside          -- outside the modelled domain (collection objects in flattened positions, typed nils in lists)

/-- `Flatten(it)` (as repaired). -/
def flatten (i : Item) : Res Item :=
  if i.isNilLike then .ok .nil
  else match i with
    | .coll _ l =>
      if l.toList.any (fun x => match x with | .typedNil _ => true | _ => false) then .outside
      else match flattenList l.toList with
        | some l' => .ok (normalize l')
        | none => .panic
    | .iris l => match flattenList (l.map Item.iri) with
        | some l' => .ok (normalize l')
        | none => .panic
    | .node k _ _ =>
      if k == .collection || k == .orderedCollection || k == .collectionPage || k == .orderedCollectionPage then .outside
      else .ok (flattenToIRI i)
    | x => .ok (flattenToIRI x)

def flattenFVal (fn : String) (v : FVal) : Res FVal :=
  match fn, v with
  | "FlattenToIRI", .item i => .ok (.item (flattenToIRI i))
  | "Flatten", .item i =>
    match flatten i with
    | .ok .nil => .ok (.item .nil)       -- the field becomes nil; rendered as absent (see `dropNil`)
    | .ok j => .ok (.item j)
    | .panic => .panic
    | .outside => .outside
  | "FlattenItemCollection", .items l =>
    if l.toList.any (fun x => match x with | .typedNil _ => true | _ => false) then .outside
    else match flattenList l.toList with
      | some l' => .ok (.items (Items.ofList l'))
      | none => .panic
  | _, _ => .outside

/-- apply one table row to the fields -/
def applyRow (fs : Fields) (row : String × String) : Res Fields :=
  match fs.get? row.1 with
  | none => .ok fs                                   -- unset field: all three functions return nil / the nil list
  | some v =>
    match flattenFVal row.2 v with
    | .ok (.item .nil) => .ok (fs.erase row.1)
    | .ok v' => .ok (fs.set row.1 v')
    | .panic => .panic
    | .outside => .outside

def applyRows (fs : Fields) : List (String × String) → Res Fields
  | [] => .ok fs
  | r :: rs => match applyRow fs r with
    | .ok fs' => applyRows fs' rs
    | .panic => .panic
    | .outside => .outside

/-- all rows of a `Flatten…Properties` function including its delegations (fuel bounds the delegation chain). -/
def rowsOf (T : List FlattenRow) : Nat → String → List (String × String)
  | 0, _ => []
  | n + 1, fn =>
    match T.find? (fun r => r.fn == fn) with
    | none => []
    | some r => (r.delegates.flatMap (rowsOf T n)) ++ r.rows

/-- `Flatten<T>Properties(x)` on the fields of the value. -/
def flattenProps (T : List FlattenRow) (fn : String) (fs : Fields) : Res Fields :=
  applyRows fs (rowsOf T 4 fn)

end APModel.Flatten
