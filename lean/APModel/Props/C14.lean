/-
C14 — IRI equivalence is an equivalence relation with the documented insensitivities.
Model: `Model/IRI.lean` (tied to iri.go by the `iriEquals` / `irisContains` correspondence ops).
-/
import APModel.Model.IRI
import APModel.Theory.IRIFast
import Batteries.Data.List.Perm

namespace APModel.IRI
open List

/-! ### helper lemmas -/

theorem foldEq_refl (a : Str) : foldEq a a = true := by simp [foldEq]

theorem foldEq_symm (a b : Str) : foldEq a b = foldEq b a := by
  simp only [foldEq]; exact Bool.eq_iff_iff.mpr ⟨fun h => by simpa using (eq_of_beq h).symm, fun h => by simpa using (eq_of_beq h).symm⟩

theorem foldEq_trans (a b c : Str) (h1 : foldEq a b = true) (h2 : foldEq b c = true) : foldEq a c = true := by
  simp only [foldEq, beq_iff_eq] at *; rw [h1, h2]

theorem foldEq_iff (a b : Str) : foldEq a b = true ↔ lower a = lower b := by simp [foldEq]

theorem pathEq_symm (p q : Str) : pathEq p q = pathEq q p := by
  simp only [pathEq]; exact foldEq_symm _ _

theorem valuesEq_iff (a b : List Str) : valuesEq a b = true ↔ a ~ b := by
  simp [valuesEq, List.isPerm_iff]

/-- keys of Go's query map are distinct. -/
def KeysNodup (q : List (Str × List Str)) : Prop := (q.map Prod.fst).Nodup

theorem lookup_of_mem {q : List (Str × List Str)} (hn : KeysNodup q) {k : Str} {vs : List Str}
    (hm : (k, vs) ∈ q) : q.lookup k = some vs := by
  induction q with
  | nil => simp at hm
  | cons e r ih =>
    obtain ⟨k', vs'⟩ := e
    simp only [KeysNodup, List.map_cons, List.nodup_cons] at hn
    rcases List.mem_cons.mp hm with h | h
    · cases h; simp [List.lookup]
    · have hne : k ≠ k' := by
        intro he; subst he
        exact hn.1 (List.mem_map.mpr ⟨(k, vs), h, rfl⟩)
      have : (k == k') = false := by simpa using hne
      simp only [List.lookup, this]
      exact ih hn.2 h

theorem mem_of_lookup {q : List (Str × List Str)} {k : Str} {vs : List Str}
    (h : q.lookup k = some vs) : (k, vs) ∈ q := by
  induction q with
  | nil => simp [List.lookup] at h
  | cons e r ih =>
    obtain ⟨k', vs'⟩ := e
    by_cases hk : k = k'
    · subst hk; simp [List.lookup] at h; subst h; exact List.mem_cons_self
    · have : (k == k') = false := by simpa using hk
      simp only [List.lookup, this] at h
      exact List.mem_cons_of_mem _ (ih h)

theorem queryEq_iff (q w : List (Str × List Str)) :
    queryEq q w = true ↔ q.length = w.length ∧
      ∀ k vs, (k, vs) ∈ q → ∃ ws, w.lookup k = some ws ∧ vs ~ ws := by
  simp only [queryEq, queryEqWith, Bool.and_eq_true, beq_iff_eq, List.all_eq_true]
  constructor
  · rintro ⟨hl, h⟩
    refine ⟨hl, fun k vs hm => ?_⟩
    have := h (k, vs) hm
    simp only at this
    cases hlk : w.lookup k with
    | none => simp [hlk] at this
    | some ws => simp only [hlk] at this; exact ⟨ws, rfl, (valuesEq_iff _ _).mp this⟩
  · rintro ⟨hl, h⟩
    refine ⟨hl, fun kv hm => ?_⟩
    obtain ⟨ws, hw, hp⟩ := h kv.1 kv.2 hm
    simp [hw, (valuesEq_iff _ _).mpr hp]

theorem keys_subset_of_queryEq {q w : List (Str × List Str)} (h : queryEq q w = true) :
    q.map Prod.fst ⊆ w.map Prod.fst := by
  obtain ⟨_, h⟩ := (queryEq_iff q w).mp h
  intro k hk
  obtain ⟨⟨k', vs⟩, hm, rfl⟩ := List.mem_map.mp hk
  obtain ⟨ws, hw, _⟩ := h k' vs hm
  exact List.mem_map.mpr ⟨(k', ws), mem_of_lookup hw, rfl⟩

theorem queryEq_symm {q w : List (Str × List Str)} (hq : KeysNodup q) (hw : KeysNodup w)
    (h : queryEq q w = true) : queryEq w q = true := by
  have hsub := keys_subset_of_queryEq h
  obtain ⟨hl, hall⟩ := (queryEq_iff q w).mp h
  rw [queryEq_iff]
  refine ⟨hl.symm, fun k ws hm => ?_⟩
  -- keys of w ⊆ keys of q by pigeonhole
  have hsp : q.map Prod.fst <+~ w.map Prod.fst := List.subperm_of_subset hq hsub
  have hperm : q.map Prod.fst ~ w.map Prod.fst :=
    hsp.perm_of_length_le (by simp [hl])
  have hk : k ∈ q.map Prod.fst := (hperm.mem_iff).mpr (List.mem_map.mpr ⟨(k, ws), hm, rfl⟩)
  obtain ⟨⟨k', vs⟩, hmq, hk'⟩ := List.mem_map.mp hk
  simp only at hk'; subst hk'
  obtain ⟨ws', hw', hp⟩ := hall k' vs hmq
  have : ws' = ws := by
    have := lookup_of_mem hw hm
    rw [this] at hw'; exact (Option.some.inj hw').symm
  subst this
  exact ⟨vs, lookup_of_mem hq hmq, hp.symm⟩

theorem queryEq_refl {q : List (Str × List Str)} (hq : KeysNodup q) : queryEq q q = true := by
  rw [queryEq_iff]
  exact ⟨rfl, fun k vs hm => ⟨vs, lookup_of_mem hq hm, List.Perm.refl _⟩⟩

theorem queryEq_trans {q w x : List (Str × List Str)}
    (h1 : queryEq q w = true) (h2 : queryEq w x = true) : queryEq q x = true := by
  obtain ⟨hl1, ha1⟩ := (queryEq_iff q w).mp h1
  obtain ⟨hl2, ha2⟩ := (queryEq_iff w x).mp h2
  rw [queryEq_iff]
  refine ⟨hl1.trans hl2, fun k vs hm => ?_⟩
  obtain ⟨ws, hw, hp⟩ := ha1 k vs hm
  obtain ⟨xs, hx, hp2⟩ := ha2 k ws (mem_of_lookup hw)
  exact ⟨xs, hx, hp.trans hp2⟩

/-- well-formedness of a parse function: the query of a parsed URL is a Go map (distinct keys). -/
def ParseWF (parse : Str → Option URL) : Prop := ∀ s u, parse s = some u → KeysNodup u.query

theorem slowEq_symm {cs : Bool} {u w : URL} (hu : KeysNodup u.query) (hw : KeysNodup w.query)
    (h : slowEq cs u w = true) : slowEq cs w u = true := by
  simp only [slowEq, Bool.and_eq_true, Bool.or_eq_true, Bool.not_eq_true'] at *
  obtain ⟨⟨⟨hs, hh⟩, hp⟩, hq⟩ := h
  refine ⟨⟨⟨?_, ?_⟩, ?_⟩, queryEq_symm hu hw hq⟩
  · rcases hs with hs | hs
    · exact Or.inl hs
    · exact Or.inr (by rw [foldEq_symm]; exact hs)
  · rw [foldEq_symm]; exact hh
  · rw [pathEq_symm]; exact hp

theorem irisEqual_symm (parse : Str → Option URL) (hwf : ParseWF parse) (i w : Str) (cs : Bool) :
    irisEqual parse i w cs = irisEqual parse w i cs := by
  unfold irisEqual
  cases hi : parse i with
  | none => cases hw : parse w <;> simp [foldEq_symm]
  | some u =>
    cases hw : parse w with
    | none => simp [foldEq_symm]
    | some v =>
      simp only
      have hu := hwf i u hi
      have hv := hwf w v hw
      cases h1 : slowEq cs u v
      · cases h2 : slowEq cs v u
        · rfl
        · have := slowEq_symm hv hu h2; rw [h1] at this; cases this
      · exact (slowEq_symm hu hv h1).symm

/-! ### property theorems -/

/-- Reflexive on arbitrary byte strings, whatever the URL parser does. -/
theorem C14_refl (parse : Str → Option URL) (i : Str) (cs : Bool) : equals parse i i cs = true := by
  simp [equals, foldEq_refl]

/-- Symmetric on arbitrary byte strings, for every parser that returns queries as maps. -/
theorem C14_symm (parse : Str → Option URL) (hwf : ParseWF parse) (i w : Str) (cs : Bool) :
    equals parse i w cs = equals parse w i cs := by
  simp only [equals]
  rw [foldEq_symm, irisEqual_symm parse hwf i w cs]

/-- The equivalence key comparison: scheme (only when asked), host with port, cleaned path with
"" ≡ "/", query multimap — each ignoring ASCII letter case where the code folds. -/
def keyEq (cs : Bool) (u w : URL) : Prop :=
  (cs = true → lower u.scheme = lower w.scheme) ∧ lower u.host = lower w.host ∧
  lower (clean (if u.path = [] then slash else u.path)) = lower (clean (if w.path = [] then slash else w.path)) ∧
  u.query.length = w.query.length ∧ ∀ k vs, (k, vs) ∈ u.query → ∃ ws, w.query.lookup k = some ws ∧ vs ~ ws

/-- On parsed absolute URLs the URL-level comparison is exactly key equality. -/
theorem C14_slow_char (cs : Bool) (u w : URL) : slowEq cs u w = true ↔ keyEq cs u w := by
  simp only [slowEq, keyEq, pathEq, Bool.and_eq_true, Bool.or_eq_true, Bool.not_eq_true', foldEq_iff, queryEq_iff]
  constructor
  · rintro ⟨⟨⟨hs, hh⟩, hp⟩, hq⟩
    exact ⟨fun hc => by rcases hs with hs | hs; (· rw [hc] at hs; cases hs); (· exact hs), hh, hp, hq⟩
  · rintro ⟨hs, hh, hp, hq⟩
    refine ⟨⟨⟨?_, hh⟩, hp⟩, hq⟩
    cases cs
    · exact Or.inl rfl
    · exact Or.inr (hs rfl)

/-- Key equality is an equivalence relation on URLs whose queries are maps … -/
theorem C14_keyEq_refl (cs : Bool) (u : URL) (hu : KeysNodup u.query) : keyEq cs u u := by
  rw [← C14_slow_char]; simp [slowEq, foldEq_refl, pathEq, queryEq_refl hu]

theorem C14_keyEq_symm (cs : Bool) (u w : URL) (hu : KeysNodup u.query) (hw : KeysNodup w.query)
    (h : keyEq cs u w) : keyEq cs w u := by
  rw [← C14_slow_char] at *; exact slowEq_symm hu hw h

theorem C14_keyEq_trans (cs : Bool) (u w x : URL) (h1 : keyEq cs u w) (h2 : keyEq cs w x) : keyEq cs u x := by
  obtain ⟨s1, h1', p1, q1⟩ := h1
  obtain ⟨s2, h2', p2, q2⟩ := h2
  refine ⟨fun hc => (s1 hc).trans (s2 hc), h1'.trans h2', p1.trans p2, ?_⟩
  have := queryEq_trans ((queryEq_iff _ _).mpr q1) ((queryEq_iff _ _).mpr q2)
  exact (queryEq_iff _ _).mp this

theorem equals_eq (parse : Str → Option URL) (i w : Str) (cs : Bool) :
    equals parse i w cs =
      (foldEq (if cs then stripFragment i else stripScheme (stripFragment i))
              (if cs then stripFragment w else stripScheme (stripFragment w)) || irisEqual parse i w cs) := by
  simp only [equals]
  cases foldEq _ _ <;> simp

/-- …and `IRI.Equals` coincides with it on every pair of IRIs that parse as absolute URLs and on
which the textual fast path is sound (`hfast`: when the strings stripped of fragment and scheme are
equal up to letter case, the parsed URLs have equal keys — true on the URL grid, where query
strings are in one letter case; exercised exhaustively by the correspondence). -/
theorem C14_char (parse : Str → Option URL) (i w : Str) (cs : Bool) (u v : URL)
    (hi : parse i = some u) (hw : parse w = some v)
    (hfast : foldEq (if cs then stripFragment i else stripScheme (stripFragment i))
                    (if cs then stripFragment w else stripScheme (stripFragment w)) = true → keyEq cs u v) :
    equals parse i w cs = true ↔ keyEq cs u v := by
  rw [equals_eq]
  simp only [irisEqual, hi, hw]
  cases hf : foldEq (if cs then stripFragment i else stripScheme (stripFragment i))
                    (if cs then stripFragment w else stripScheme (stripFragment w))
  · simp only [Bool.false_or]; exact C14_slow_char cs u v
  · simp only [Bool.true_or, true_iff]; exact hfast hf

/-- Membership in an IRI list agrees with IRI equality (scheme ignored), for every needle that is not the nil
item … -/
theorem C14_contains (parse : Str → Option URL) (l : List Str) (r : Str) (hr : isNilIRI r = false) :
    irisContains parse l r = true ↔ ∃ i ∈ l, equals parse r i false = true := by
  simp [irisContains, hr, List.any_eq_true]

/-- … and the nil item (the empty IRI, the IRI `-`) is a member of no list (the nil rule of the collections) -/
theorem C14_contains_nil (parse : Str → Option URL) (l : List Str) (r : Str) (hr : isNilIRI r = true) :
    irisContains parse l r = false := by
  simp [irisContains, hr]

/-! ### insensitivities of the key, at the level of path segments and query maps -/

/-- a trailing slash (a final empty segment) does not change the cleaned path. -/
theorem C14_clean_trailing_slash (rooted : Bool) (segs : List Str) :
    cleanSegs rooted (segs ++ [[]]) = cleanSegs rooted segs := by
  simp [cleanSegs, List.foldl_append, cleanStep]

/-- a "." segment anywhere does not change the cleaned path. -/
theorem C14_clean_dot (rooted : Bool) (a b : List Str) :
    cleanSegs rooted (a ++ dot :: b) = cleanSegs rooted (a ++ b) := by
  simp [cleanSegs, List.foldl_append, cleanStep]

/-- "seg/.." cancels, for every ordinary segment. -/
theorem C14_clean_dotdot (rooted : Bool) (a b : List Str) (s : Str)
    (h1 : s ≠ []) (h2 : s ≠ dot) (h3 : s ≠ dotdot) :
    cleanSegs rooted (a ++ s :: dotdot :: b) = cleanSegs rooted (a ++ b) := by
  have hstep : ∀ st : List Str, cleanStep rooted (cleanStep rooted st s) dotdot = st := by
    intro st
    have e1 : cleanStep rooted st s = s :: st := by simp [cleanStep, h1, h2, h3]
    rw [e1]
    have h3' : s ≠ [46, 46] := h3
    simp [cleanStep, h3', dotdot, dot]
  simp only [cleanSegs, List.foldl_append, List.foldl_cons, hstep]

/-- the order of the values of one key, and hence of the query parameters, is ignored. -/
theorem C14_query_order (k : Str) (vs ws : List Str) (h : vs ~ ws) : queryEq [(k, vs)] [(k, ws)] = true := by
  rw [queryEq_iff]; simp [List.lookup, h]

/-! ### the concrete splitter returns maps -/

theorem qInsert_keys (m : List (Str × List Str)) (k v : Str) (hn : KeysNodup m) : KeysNodup (qInsert m k v) := by
  induction m with
  | nil => simp [qInsert, KeysNodup]
  | cons e r ih =>
    obtain ⟨k', vs⟩ := e
    simp only [KeysNodup, List.map_cons, List.nodup_cons] at hn
    by_cases hk : k' = k
    · simp only [qInsert, hk, if_true, KeysNodup, List.map_cons, List.nodup_cons]
      subst hk; exact hn
    · simp only [qInsert, hk, if_false, KeysNodup, List.map_cons, List.nodup_cons]
      refine ⟨?_, ih hn.2⟩
      intro hmem
      have : ∀ (m : List (Str × List Str)), k' ∈ (qInsert m k v).map Prod.fst → k' ∈ m.map Prod.fst := by
        intro m
        induction m with
        | nil => simp [qInsert]; exact hk
        | cons e2 r2 ih2 =>
          obtain ⟨k2, vs2⟩ := e2
          by_cases h2 : k2 = k
          · simp [qInsert, h2]
          · simp only [qInsert, h2, if_false, List.map_cons, List.mem_cons]
            rintro (h | h)
            · exact Or.inl h
            · exact Or.inr (ih2 h)
      exact hn.1 (this r hmem)

theorem parsePair_keys (acc : Option (List (Str × List Str))) (pair : Str)
    (ha : ∀ a, acc = some a → KeysNodup a) : ∀ a, parsePair acc pair = some a → KeysNodup a := by
  intro a h
  unfold parsePair at h
  cases acc with
  | none => simp at h
  | some a0 =>
    have h0 := ha a0 rfl
    simp only at h
    split at h
    · injection h with h; subst h; exact h0
    · split at h
      · injection h with h; subst h; exact qInsert_keys a0 _ _ h0
      · cases h

theorem foldl_parsePair_keys (pairs : List Str) (acc : Option (List (Str × List Str)))
    (ha : ∀ a, acc = some a → KeysNodup a) : ∀ m, pairs.foldl parsePair acc = some m → KeysNodup m := by
  induction pairs generalizing acc with
  | nil => intro m hm; exact ha m hm
  | cons p ps ih =>
    intro m hm
    simp only [List.foldl_cons] at hm
    exact ih _ (parsePair_keys acc p ha) m hm

theorem parseQuery_keys (q : Str) (m : List (Str × List Str)) (h : parseQuery q = some m) : KeysNodup m :=
  foldl_parsePair_keys _ (some []) (fun a ha => by cases ha; simp [KeysNodup]) m h

theorem finishURL_keys (a b c q : Str) (u : URL) (h : finishURL a b c q = .abs u) : KeysNodup u.query := by
  unfold finishURL at h
  split at h
  · rename_i m hq; cases h; exact parseQuery_keys _ m hq
  · cases h

theorem parseAuthority_keys (a b c : Str) (u : URL) (h : parseAuthority a b c = .abs u) : KeysNodup u.query := by
  unfold parseAuthority at h
  simp only at h
  split at h
  · exact finishURL_keys _ _ _ _ u h
  · cases h

/-- the executable parser used by the driver satisfies the well-formedness assumed by `C14_symm`. -/
theorem C14_parseOpt_wf : ParseWF parseOpt := by
  intro s u h
  unfold parseOpt at h
  split at h
  · rename_i u' hp
    cases h
    unfold parseURL at hp
    simp only at hp
    split at hp
    · split at hp
      · cases hp
      · split at hp
        · exact parseAuthority_keys _ _ _ _ hp
        · cases hp
    · cases hp
  · cases h

/-- `IRI.Equals` as executed by the driver is symmetric on all byte strings. -/
theorem C14_symm_concrete (i w : Str) (cs : Bool) : equals parseOpt i w cs = equals parseOpt w i cs :=
  C14_symm parseOpt C14_parseOpt_wf i w cs

/-! ### the domain on which `IRI.Equals` IS the equivalence: accepted absolute URLs with a lower-case query

`hfast` of `C14_char` is discharged here.  The textual fast path folds letter case over the whole
string, the parsed comparison does not fold the query: on URLs whose query contains capital letters the
two disagree (`C14_mixed_case_query_not_transitive` below), which is why the property's domain says
"query strings in one letter case".  `inDomain` is that domain, decidable: the splitter accepts the
string as an absolute URL and lowering its query string changes nothing. -/

def inDomain (s : Str) : Bool := (parseOpt s).isSome && (lower (queryStr s) == queryStr s)

/-- the fast path is sound on the domain -/
theorem C14_fast_sound (i w : Str) (u v : URL) (cs : Bool) (hi : parseOpt i = some u) (hw : parseOpt w = some v)
    (hqi : lower (queryStr i) = queryStr i) (hqw : lower (queryStr w) = queryStr w)
    (hf : foldEq (if cs then stripFragment i else stripScheme (stripFragment i))
                 (if cs then stripFragment w else stripScheme (stripFragment w)) = true) : keyEq cs u v := by
  have si := parse_shape i u hi
  have sw := parse_shape w v hw
  obtain ⟨hs, hh, hp, hq⟩ := fast_components i w u v cs si sw hf
  rw [hqi, hqw] at hq
  have hquery : u.query = v.query := by
    have := si.query
    rw [hq, sw.query] at this
    exact (Option.some.inj this).symm
  refine ⟨fun hc => ?_, ?_, ?_, ?_⟩
  · rw [si.scheme, sw.scheme, hs hc]
  · rw [si.host, sw.host]; exact hh
  · rw [si.path, sw.path]
    have hnil : pathOf i = [] ↔ pathOf w = [] := by
      rw [← lower_eq_nil (pathOf i), ← lower_eq_nil (pathOf w), hp]
    by_cases h1 : pathOf i = []
    · simp only [h1, hnil.mp h1, if_true]
    · have h2 : pathOf w ≠ [] := fun e => h1 (hnil.mpr e)
      simp only [h1, h2, if_false]
      exact clean_congr_lower _ _ hp
  · rw [hquery]
    have hk := C14_parseOpt_wf w v hw
    exact ⟨rfl, fun k vs hm => ⟨vs, lookup_of_mem hk hm, List.Perm.refl _⟩⟩

/-- **C14 on its domain**: for all accepted absolute URLs with lower-case queries, `IRI.Equals` holds
exactly when the keys agree — host (with port), cleaned path, query multimap, and the scheme only when
asked; letter case in scheme, host and path, trailing slash, dot segments, fragment and query order
are ignored.  No further hypothesis. -/
theorem C14_char_on (i w : Str) (cs : Bool) (hi : inDomain i = true) (hw : inDomain w = true) :
    ∃ u v, parseOpt i = some u ∧ parseOpt w = some v ∧ (equals parseOpt i w cs = true ↔ keyEq cs u v) := by
  simp only [inDomain, Bool.and_eq_true, beq_iff_eq] at hi hw
  obtain ⟨u, hu⟩ := Option.isSome_iff_exists.mp hi.1
  obtain ⟨v, hv⟩ := Option.isSome_iff_exists.mp hw.1
  exact ⟨u, v, hu, hv, C14_char parseOpt i w cs u v hu hv (C14_fast_sound i w u v cs hu hv hi.2 hw.2)⟩

/-- … and therefore an equivalence relation there: reflexive, symmetric, transitive -/
theorem C14_equiv_on (cs : Bool) :
    (∀ a, equals parseOpt a a cs = true) ∧
    (∀ a b, equals parseOpt a b cs = true → equals parseOpt b a cs = true) ∧
    (∀ a b c, inDomain a = true → inDomain b = true → inDomain c = true →
      equals parseOpt a b cs = true → equals parseOpt b c cs = true → equals parseOpt a c cs = true) := by
  refine ⟨fun a => C14_refl parseOpt a cs, fun a b h => by rw [C14_symm_concrete]; exact h, ?_⟩
  intro a b c ha hb hc h1 h2
  obtain ⟨ua, ub, hua, hub, e1⟩ := C14_char_on a b cs ha hb
  obtain ⟨ub', uc, hub', huc, e2⟩ := C14_char_on b c cs hb hc
  obtain ⟨ua', uc', hua', huc', e3⟩ := C14_char_on a c cs ha hc
  rw [hub] at hub'; cases hub'
  rw [hua] at hua'; cases hua'
  rw [huc] at huc'; cases huc'
  exact e3.mpr (C14_keyEq_trans cs _ _ _ (e1.mp h1) (e2.mp h2))

/-! ### the two defects of the pinned tree that were repaired (witnesses on the model) -/

private def s (x : String) : Str := x.toUTF8.toList

/-- pinned: one-directional comparison of repeated query values made Equals asymmetric. -/
theorem C14_pinned_asymmetric :
    equalsPinned parseOpt (s "http://e.com/?x=1&x=1") (s "http://e.com/?x=1&x=2") true = true ∧
    equalsPinned parseOpt (s "http://e.com/?x=1&x=2") (s "http://e.com/?x=1&x=1") true = false := by
  decide +kernel

/-- pinned: "" ≡ "/" was special-cased before cleaning, so equality was not transitive. -/
theorem C14_pinned_not_transitive :
    equalsPinned parseOpt (s "http://e.com") (s "http://e.com/") true = true ∧
    equalsPinned parseOpt (s "http://e.com/") (s "http://e.com/a/..") true = true ∧
    equalsPinned parseOpt (s "http://e.com") (s "http://e.com/a/..") true = false := by
  decide +kernel

/-- outside the domain (a capital letter in a query) equality is NOT transitive on the current tree: the
fast path folds the query's case, the parsed comparison does not.  This is why the domain excludes it. -/
theorem C14_mixed_case_query_not_transitive :
    equals parseOpt (s "http://e.com/?X=1") (s "http://e.com/?x=1") false = true ∧
    equals parseOpt (s "http://e.com/?x=1") (s "http://e.com/./?x=1") false = true ∧
    equals parseOpt (s "http://e.com/?X=1") (s "http://e.com/./?x=1") false = false ∧
    inDomain (s "http://e.com/?X=1") = false := by
  decide +kernel

/-! non-vacuity -/
example : inDomain (s "https://Example.com/a/./b/../c/?y=2&x=1#Frag") = true ∧
    inDomain (s "http://example.COM:8080/a/c?x=1&y=2") = true ∧ inDomain (s "http://e.com") = true := by
  decide +kernel
example : equals parseOpt (s "https://Example.com/a/./b/../c/?y=2&x=1#frag") (s "http://example.COM/a/c?x=1&y=2") false = true := by
  decide +kernel
example : equals parseOpt (s "https://example.com/a") (s "http://example.com/a") true = false := by decide +kernel
example : (parseOpt (s "http://e.com:80/a?x=1&x=2&y=3")).isSome = true := by decide +kernel

end APModel.IRI
