/-
C16 — Flattening replaces embedded items by their own ids and nothing else.
Model: `Model/Flatten.lean` (+ the de-duplication model of C10), table `Generated/Flatten.lean`
regenerated from flatten.go on every run; tied to the code by the `flatten` correspondence op.
-/
import APModel.Model.Flatten
import APModel.Props.C10
import APModel.Props.C14
import APModel.Theory.Fields

namespace APModel.Flatten
open APModel APModel.Generated APModel.Recip

/-! ### single items -/

/-- An embedded object that has an id is replaced by an IRI equal to that id. -/
theorem C16_object_with_id (i : Item) (hn : i.isNilLike = false) (ho : isObjectM i = true)
    (hid : (linkOf i).isEmpty = false) : flattenToIRI i = .iri (linkOf i) := by
  simp [flattenToIRI, hn, ho, hid]

/-- Plain IRIs stay as they were. -/
theorem C16_iri_stays (s : Str) : flattenToIRI (.iri s) = .iri s := by
  simp [flattenToIRI, isObjectM]

/-- Links (a Link struct whose type is not an object type) stay as they were. -/
theorem C16_link_stays (p : Bool) (fs : Fields)
    (h : (strOf fs "Type" == ascii "Object" || typeIn objectTypesGo (strOf fs "Type")) = false) :
    flattenToIRI (.node .link p fs) = .node .link p fs := by
  simp only [flattenToIRI, isObjectM, h]; simp

/-- Embedded objects without an id stay as they were. -/
theorem C16_idless_stays (i : Item) (hid : (linkOf i).isEmpty = true) : flattenToIRI i = i := by
  simp [flattenToIRI, hid]

/-- No IRI is invented: the result is the item itself or the IRI made of its own id. -/
theorem C16_no_new_iri (i : Item) : flattenToIRI i = i ∨ flattenToIRI i = .iri (linkOf i) := by
  unfold flattenToIRI; split
  · exact Or.inr rfl
  · exact Or.inl rfl

theorem linkOf_flatten (i : Item) : linkOf (flattenToIRI i) = linkOf i := by
  unfold flattenToIRI; split <;> simp [linkOf]

/-- Flattening an item twice equals flattening it once. -/
theorem C16_idem_item (i : Item) : flattenToIRI (flattenToIRI i) = flattenToIRI i := by
  rcases C16_no_new_iri i with h | h
  · rw [h]; exact h
  · rw [h]; exact C16_iri_stays _

/-! ### lists (to, bto, cc, bcc, audience and list-valued attributedTo/replies/likes/shares) -/

/-- IRI equality is an equivalence on C14's domain (accepted absolute URLs with lower-case queries) -/
theorem iriEqv_equiv_on : IsEquivOn iriEqv IRI.inDomain := by
  obtain ⟨hr, hs, ht⟩ := IRI.C14_equiv_on false
  exact ⟨fun a _ => hr a, fun a b _ _ => hs a b, ht⟩

/-- every id the de-duplication looks at lies in `D` -/
def keysIn (D : Str → Bool) (l : List Item) : Prop := ∀ e ∈ l, ∀ t, dedupKey e = some t → D t = true

def keysInB (D : Str → Bool) (l : List Item) : Bool :=
  l.all (fun e => match dedupKey e with
    | some t => D t
    | none => true)

theorem keysIn_of_B (D : Str → Bool) (l : List Item) (h : keysInB D l = true) : keysIn D l := by
  intro e he t ht
  have := List.all_eq_true.mp h e he
  simpa [ht] using this

/-- the relation the theorems are stated with: IRI equality on the domain (identity outside it; on lists
whose ids are in the domain the code cannot tell the difference, `dedupCol_refines_on`) -/
abbrev eqvOn (D : Str → Bool) : Str → Str → Bool := onDomain iriEqv D

/-- With IRI equality an equivalence on `D` (C14) and the ids of the list in `D`, the flattened list is:
the first mentions that survive de-duplication, each flattened — nothing else happens and there is no
panic. -/
theorem C16_list (D : Str → Bool) (h : IsEquivOn iriEqv D) (l : List Item) (hl : keysIn D l) :
    flattenList l = some ((specCol (eqvOn D) dedupKey l []).2.map flattenToIRI) := by
  simp [flattenList, dedupCol_refines_on iriEqv D h dedupKey l hl]

/-- every entry of a flattened list is an original entry or the IRI made of an original entry's id. -/
theorem C16_list_no_new_iri (D : Str → Bool) (h : IsEquivOn iriEqv D) (l r : List Item) (hl : keysIn D l)
    (hr : flattenList l = some r) : ∀ x ∈ r, ∃ y ∈ l, x = y ∨ x = .iri (linkOf y) := by
  rw [C16_list D h l hl] at hr
  cases hr
  intro x hx
  obtain ⟨y, hy, rfl⟩ := List.mem_map.mp hx
  exact ⟨y, (specCol_sublist (eqvOn D) dedupKey l []).1.subset hy, C16_no_new_iri y⟩

/-- the de-duplication key of an entry is not changed by flattening it. -/
theorem dedupKey_flatten (i : Item) : dedupKey (flattenToIRI i) = dedupKey i := by
  unfold flattenToIRI
  split
  · rename_i hc
    simp only [Bool.and_eq_true, Bool.not_eq_true'] at hc
    obtain ⟨⟨hn, ho⟩, _⟩ := hc
    cases i <;> simp_all [dedupKey, isObjectM, isLinkM, linkOf, Item.isNilLike]
  · rfl

/-- a list whose keyed entries are pairwise inequivalent (and inequivalent to `rec`) is left alone. -/
theorem specCol_fixed (eqv : Str → Str → Bool) (h : IsEquiv eqv) (key : Item → Option Str) (l : List Item)
    (rec : List Str) (hi : Inequiv eqv (rec ++ l.filterMap key)) : (specCol eqv key l rec).2 = l := by
  induction l generalizing rec with
  | nil => simp [specCol]
  | cons e r ih =>
    cases hk : key e with
    | none =>
      simp only [specCol, hk]
      simp only [List.filterMap_cons, hk] at hi
      rw [ih rec hi]
    | some t =>
      simp only [List.filterMap_cons, hk] at hi
      have hany : rec.any (fun x => eqv t x) = false := by
        rw [List.any_eq_false]
        intro x hx htx
        unfold Inequiv at hi
        rw [List.pairwise_append] at hi
        have hxt := hi.2.2 x hx t (by simp)
        rw [h.symm t x htx] at hxt
        cases hxt
      simp only [specCol, hk, hany]
      have : Inequiv eqv ((rec ++ [t]) ++ r.filterMap key) := by simpa using hi
      simp [ih (rec ++ [t]) this]

theorem keysIn_flattened (D : Str → Bool) (l : List Item) (hl : keysIn D l) :
    keysIn D ((specCol (eqvOn D) dedupKey l []).2.map flattenToIRI) := by
  intro e he t ht
  obtain ⟨y, hy, rfl⟩ := List.mem_map.mp he
  rw [dedupKey_flatten] at ht
  exact hl y ((specCol_sublist (eqvOn D) dedupKey l []).1.subset hy) t ht

/-- Flattening a list twice equals flattening it once. -/
theorem C16_idem_list (D : Str → Bool) (h : IsEquivOn iriEqv D) (l r : List Item) (hl : keysIn D l)
    (hr : flattenList l = some r) : flattenList r = some r := by
  rw [C16_list D h l hl] at hr
  cases hr
  rw [C16_list D h _ (keysIn_flattened D l hl)]
  have hE := onDomain_equiv iriEqv D h
  have hkeys : ((specCol (eqvOn D) dedupKey l []).2.map flattenToIRI).filterMap dedupKey =
      (specCol (eqvOn D) dedupKey l []).2.filterMap dedupKey := by
    rw [List.filterMap_map]
    congr 1
    funext i
    simp [dedupKey_flatten]
  have hin : Inequiv (eqvOn D) ([] ++ ((specCol (eqvOn D) dedupKey l []).2.map flattenToIRI).filterMap dedupKey) := by
    rw [List.nil_append, hkeys]
    have := C10_lists_dedup (eqvOn D) dedupKey hE [l]
    simpa [specCols] using this
  rw [specCol_fixed (eqvOn D) hE dedupKey _ [] hin]
  simp [List.map_map, Function.comp_def, C16_idem_item]

/-- … for the code's own IRI equality, with no assumption left: on lists whose ids are accepted absolute
URLs with lower-case queries, flattening never panics, keeps exactly the first mentions (flattened), and
doing it twice equals doing it once -/
theorem C16_list_concrete (l : List Item) (hl : keysInB IRI.inDomain l = true) :
    ∃ r, flattenList l = some r ∧ flattenList r = some r ∧
      r = (specCol (eqvOn IRI.inDomain) dedupKey l []).2.map flattenToIRI ∧
      ∀ x ∈ r, ∃ y ∈ l, x = y ∨ x = .iri (linkOf y) := by
  have hk := keysIn_of_B IRI.inDomain l hl
  have e := C16_list IRI.inDomain iriEqv_equiv_on l hk
  exact ⟨_, e, C16_idem_list IRI.inDomain iriEqv_equiv_on l _ hk e, rfl,
    C16_list_no_new_iri IRI.inDomain iriEqv_equiv_on l _ hk e⟩

/-! ### every other property is unchanged -/

theorem applyRow_frame (fs fs' : Fields) (row : String × String) (m : String) (hne : m ≠ row.1)
    (h : applyRow fs row = .ok fs') : fs'.get? m = fs.get? m := by
  unfold applyRow at h
  split at h
  · cases h; rfl
  · split at h
    · cases h; exact get_erase_other _ _ _ hne
    · cases h; exact get_set_other _ _ _ _ hne
    · cases h
    · cases h

/-- Flattening the properties of a value changes no property outside the flattened positions. -/
theorem C16_frame (rows : List (String × String)) (fs fs' : Fields) (m : String)
    (hm : ∀ r ∈ rows, m ≠ r.1) (h : applyRows fs rows = .ok fs') : fs'.get? m = fs.get? m := by
  induction rows generalizing fs with
  | nil => simp [applyRows] at h; cases h; rfl
  | cons r rs ih =>
    simp only [applyRows] at h
    split at h
    · rename_i fs1 h1
      rw [ih fs1 (fun r' hr' => hm r' (List.mem_cons_of_mem _ hr')) h]
      exact applyRow_frame fs fs1 r m (hm r List.mem_cons_self) h1
    · cases h
    · cases h

/-! ### obligations on the regenerated table: the flattened positions are the prescribed ones -/

def expectedObjectRows : List (String × String) :=
  [("Replies", "Flatten"), ("Shares", "Flatten"), ("Likes", "Flatten"), ("AttributedTo", "Flatten"),
   ("To", "FlattenItemCollection"), ("Bto", "FlattenItemCollection"), ("CC", "FlattenItemCollection"),
   ("BCC", "FlattenItemCollection"), ("Audience", "FlattenItemCollection")]

def sameRows (a b : List (String × String)) : Bool :=
  a.all (fun r => b.contains r) && b.all (fun r => a.contains r)

/-- objects/actors: attributedTo, replies, likes, shares + the five addressing lists;
intransitive activities add actor, target, result, origin, instrument; activities add object —
and nothing else is touched; no statement of these functions was left unrecognised. -/
theorem C16_table :
    sameRows (rowsOf flattenRows 4 "FlattenObjectProperties") expectedObjectRows = true ∧
    sameRows (rowsOf flattenRows 4 "FlattenActorProperties") expectedObjectRows = true ∧
    sameRows (rowsOf flattenRows 4 "FlattenIntransitiveActivityProperties")
      (expectedObjectRows ++ [("Actor", "FlattenToIRI"), ("Target", "FlattenToIRI"), ("Result", "FlattenToIRI"),
        ("Origin", "FlattenToIRI"), ("Instrument", "FlattenToIRI")]) = true ∧
    sameRows (rowsOf flattenRows 4 "FlattenActivityProperties")
      (expectedObjectRows ++ [("Actor", "FlattenToIRI"), ("Target", "FlattenToIRI"), ("Result", "FlattenToIRI"),
        ("Origin", "FlattenToIRI"), ("Instrument", "FlattenToIRI"), ("Object", "FlattenToIRI")]) = true ∧
    flattenRows.all (fun r => r.other.isEmpty) = true := by
  decide

/-! non-vacuity -/
private def obj (id : String) : Item := .node .object true (.cons "ID" (.str (ascii id)) .nil)
example : (flattenToIRI (obj "https://e.com/a")).beq (.iri (ascii "https://e.com/a")) = true := by decide +kernel
example : ((flattenList [obj "https://e.com/a", .nil, .iri (ascii "http://e.com/a"), obj ""]).map Items.ofList).map
    (fun r => r.beq (Items.ofList [.iri (ascii "https://e.com/a"), .nil, obj ""])) = some true := by decide +kernel

/-! ### the whole function, twice

`Flatten<T>Properties` applied to its own result changes nothing.  The per-position facts are
`C16_idem_item` and `C16_idem_list`; what is added here is `Flatten` (a single-item position that may
hold a list and normalises it) and the fold over the rows of the regenerated table.

The statement is about the model's verdicts: a second application never panics, and whenever it has an
answer inside the modelled domain that answer holds, property by property, what the first result held.
(`outside` stays possible: a collection object in a flattened position is outside the model both times.)
Nothing is assumed about IRI equality: C14 proves it an equivalence on its domain (`iriEqv_equiv_on`), and
the side condition `domVal IRI.inDomain` says the ids in the lists being de-duplicated lie in that
domain (accepted absolute URLs with lower-case queries).
The explicit side condition `plainVal` concerns lists sitting in single-item positions: their members
are items (not lists, not typed nils) that do not flatten to a nil IRI (an id that is "-"), and an
embedded object there does not either; everything else is unrestricted. -/

def simpleMember (x : Item) : Bool :=
  match x with
  | .nil => true
  | .iri _ => !(flattenToIRI x).isNilLike
  | .node _ _ _ => !(flattenToIRI x).isNilLike
  | _ => false

def plainVal : FVal → Bool
  | .item (.coll _ l) => l.toList.all simpleMember
  | .item (.iris l) => l.all (fun s => simpleMember (.iri s))
  | .item (.node k p fs) => simpleMember (.node k p fs)
  | _ => true

/-- the ids the de-duplication of a value's lists looks at are in the domain of IRI equality -/
def domVal (D : Str → Bool) : FVal → Bool
  | .item (.coll _ l) => keysInB D l.toList
  | .item (.iris l) => keysInB D (l.map Item.iri)
  | .items l => keysInB D l.toList
  | _ => true

theorem toList_ofList (l : List Item) : (Items.ofList l).toList = l := by
  induction l with
  | nil => rfl
  | cons a r ih => simp [Items.ofList, Items.toList, ih]

/-- what a value in a flattened position looks like once the function has been there -/
def ValFix (fn : String) (v : FVal) : Prop :=
  flattenFVal fn v = .ok v ∨ flattenFVal fn v = .outside

theorem flatten_iri_fix (s : Str) (hn : (Item.iri s).isNilLike = false) : flatten (.iri s) = .ok (.iri s) := by
  unfold flatten
  simp only [hn, Bool.false_eq_true, if_false]
  rw [C16_iri_stays]

theorem flatten_node_fix (k : Kind) (p : Bool) (fs : Fields) (hf : flattenToIRI (.node k p fs) = .node k p fs) :
    flatten (.node k p fs) = .ok (.node k p fs) ∨ flatten (.node k p fs) = .outside := by
  unfold flatten
  simp only [Item.isNilLike, Bool.false_eq_true, if_false]
  split
  · exact Or.inr rfl
  · exact Or.inl (by rw [hf])

/-- a flattened simple member is a fixpoint of `Flatten` -/
theorem flatten_simple_fix (y : Item) (hs : simpleMember y = true) (hn : flattenToIRI y ≠ .nil) :
    flatten (flattenToIRI y) = .ok (flattenToIRI y) ∨ flatten (flattenToIRI y) = .outside := by
  rcases C16_no_new_iri y with h | h
  · cases y with
    | node k p fs => rw [h]; exact flatten_node_fix k p fs h
    | iri s =>
      rw [h]
      refine Or.inl (flatten_iri_fix s ?_)
      simpa [simpleMember, h] using hs
    | nil => exact absurd h hn
    | _ => simp [simpleMember] at hs
  · rw [h]
    refine Or.inl (flatten_iri_fix _ ?_)
    cases y with
    | nil => simp [flattenToIRI, Item.isNilLike] at h
    | iri s => simpa [simpleMember, h] using hs
    | node k p fs => simpa [simpleMember, h] using hs
    | _ => simp [simpleMember] at hs

theorem flattenList_simple (D : Str → Bool) (h : IsEquivOn iriEqv D) (l l' : List Item) (hk : keysIn D l)
    (hl : flattenList l = some l')
    (hs : l.all simpleMember = true) : ∀ x ∈ l', ∃ y ∈ l, simpleMember y = true ∧ x = flattenToIRI y := by
  rw [C16_list D h l hk] at hl
  cases hl
  intro x hx
  obtain ⟨y, hy, rfl⟩ := List.mem_map.mp hx
  have hyl := (specCol_sublist (eqvOn D) dedupKey l []).1.subset hy
  exact ⟨y, hyl, List.all_eq_true.mp hs y hyl, rfl⟩

theorem flatten_normalize_fix (D : Str → Bool) (h : IsEquivOn iriEqv D) (l l' : List Item) (hk : keysIn D l)
    (hl : flattenList l = some l')
    (hs : l.all simpleMember = true) (hn : normalize l' ≠ .nil) :
    flatten (normalize l') = .ok (normalize l') ∨ flatten (normalize l') = .outside := by
  match l', hl, hn with
  | [], _, hn => simp [normalize] at hn
  | [x], hl, hn =>
    obtain ⟨y, _, hy, rfl⟩ := flattenList_simple D h l _ hk hl hs x (by simp)
    exact flatten_simple_fix y hy (by simpa [normalize] using hn)
  | a :: b :: r, hl, _ =>
    simp only [normalize]
    unfold flatten
    simp only [Item.isNilLike, Bool.false_eq_true, if_false, toList_ofList]
    split
    · exact Or.inr rfl
    · rw [C16_idem_list D h l _ hk hl]
      exact Or.inl rfl

/-- `Flatten` on its own result -/
theorem flatten_fix (D : Str → Bool) (h : IsEquivOn iriEqv D) (i j : Item) (hp : plainVal (.item i) = true)
    (hd : domVal D (.item i) = true)
    (hj : flatten i = .ok j) (hjn : j ≠ .nil) : flatten j = .ok j ∨ flatten j = .outside := by
  cases i with
  | nil => simp [flatten, Item.isNilLike] at hj; exact absurd hj.symm hjn
  | typedNil _ => simp [flatten, Item.isNilLike] at hj; exact absurd hj.symm hjn
  | collNil _ => simp [flatten, Item.isNilLike] at hj; exact absurd hj.symm hjn
  | irisNil => simp [flatten, Item.isNilLike] at hj; exact absurd hj.symm hjn
  | iri s =>
    by_cases hn : (Item.iri s).isNilLike = true
    · simp [flatten, hn] at hj; exact absurd hj.symm hjn
    · have hn' : (Item.iri s).isNilLike = false := by simpa using hn
      rw [flatten_iri_fix s hn'] at hj
      cases hj
      exact Or.inl (flatten_iri_fix s hn')
  | iris l =>
    simp only [flatten, Item.isNilLike, Bool.false_eq_true, if_false] at hj
    cases hl : flattenList (l.map Item.iri) with
    | none => simp [hl] at hj
    | some l' =>
      simp only [hl] at hj
      cases hj
      exact flatten_normalize_fix D h _ _ (keysIn_of_B D _ (by simpa [domVal] using hd)) hl (by simpa [plainVal, List.all_map, Function.comp_def] using hp) hjn
  | coll p l =>
    simp only [flatten, Item.isNilLike, Bool.false_eq_true, if_false] at hj
    split at hj
    · cases hj
    · cases hl : flattenList l.toList with
      | none => simp [hl] at hj
      | some l' =>
        simp only [hl] at hj
        cases hj
        exact flatten_normalize_fix D h _ _ (keysIn_of_B D _ (by simpa [domVal] using hd)) hl (by simpa [plainVal] using hp) hjn
  | node k p fs =>
    simp only [flatten, Item.isNilLike, Bool.false_eq_true, if_false] at hj
    split at hj
    · cases hj
    · cases hj
      rcases C16_no_new_iri (.node k p fs) with e | e
      · rw [e]; exact flatten_node_fix k p fs e
      · rw [e]
        refine Or.inl (flatten_iri_fix _ ?_)
        simpa [plainVal, simpleMember, e] using hp

theorem fval_Flatten_ok (i j : Item) (hf : flatten i = .ok j) (hjn : j ≠ .nil) :
    flattenFVal "Flatten" (.item i) = .ok (.item j) := by
  unfold flattenFVal
  cases j <;> simp_all

theorem fval_Flatten_outside (i : Item) (hf : flatten i = .outside) :
    flattenFVal "Flatten" (.item i) = .outside := by
  unfold flattenFVal
  simp only [hf]

/-- a value a row has produced is a fixpoint of that row's function (or outside the model) -/
theorem val_fix (D : Str → Bool) (h : IsEquivOn iriEqv D) (fn : String) (v v' : FVal) (hp : plainVal v = true)
    (hd : domVal D v = true)
    (hv : flattenFVal fn v = .ok v') (hnn : v' ≠ .item .nil) : ValFix fn v' := by
  unfold ValFix
  unfold flattenFVal at hv
  split at hv
  · cases hv
    exact Or.inl (by simp [flattenFVal, C16_idem_item])
  · rename_i i
    cases hf : flatten i with
    | ok j =>
      by_cases hjn : j = .nil
      · subst hjn
        simp only [hf] at hv
        cases hv
        exact absurd rfl hnn
      · have hv' : v' = .item j := by
          simp only [hf] at hv
          cases j <;> simp_all
        subst hv'
        rcases flatten_fix D h i j hp hd hf hjn with e | e
        · exact Or.inl (fval_Flatten_ok j j e hjn)
        · exact Or.inr (fval_Flatten_outside j e)
    | panic => simp [hf] at hv
    | outside => simp [hf] at hv
  · rename_i l
    split at hv
    · cases hv
    · rename_i hty
      cases hl : flattenList l.toList with
      | none => simp [hl] at hv
      | some l' =>
        simp only [hl] at hv
        cases hv
        unfold flattenFVal
        simp only [toList_ofList]
        split
        · exact Or.inr rfl
        · rw [C16_idem_list D h _ _ (keysIn_of_B D _ (by simpa [domVal] using hd)) hl]
          exact Or.inl rfl
  · cases hv

/-- the state of a row's position after the function has been there: unset, or holding a fixpoint -/
def RowFix (fs : Fields) (row : String × String) : Prop :=
  fs.get? row.1 = none ∨ ∃ v, fs.get? row.1 = some v ∧ v ≠ .item .nil ∧ ValFix row.2 v

theorem rowFix_congr (fs fs' : Fields) (row : String × String) (he : fs'.get? row.1 = fs.get? row.1)
    (hr : RowFix fs row) : RowFix fs' row := by
  unfold RowFix at *
  rw [he]; exact hr

/-- applying a row establishes its fixpoint state -/
theorem applyRow_establishes (D : Str → Bool) (h : IsEquivOn iriEqv D) (fs fs' : Fields) (row : String × String)
    (hp : ∀ v, fs.get? row.1 = some v → plainVal v = true ∧ domVal D v = true)
    (ha : applyRow fs row = .ok fs') : RowFix fs' row := by
  unfold applyRow at ha
  cases hg : fs.get? row.1 with
  | none =>
    simp only [hg] at ha
    cases ha
    exact Or.inl hg
  | some v =>
    simp only [hg] at ha
    cases hv : flattenFVal row.2 v with
    | ok v' =>
      by_cases hnn : v' = .item .nil
      · subst hnn
        simp only [hv] at ha
        cases ha
        exact Or.inl (get_erase_same _ _)
      · have : fs' = fs.set row.1 v' := by
          simp only [hv] at ha
          cases ha; rfl
        subst this
        exact Or.inr ⟨v', get_set_same _ _ _, hnn, val_fix D h row.2 v v' (hp v hg).1 (hp v hg).2 hv hnn⟩
    | panic => simp [hv] at ha
    | outside => simp [hv] at ha

/-- a row applied to a position in its fixpoint state changes nothing and does not panic -/
theorem applyRow_fixed (fs : Fields) (row : String × String) (hr : RowFix fs row) :
    (applyRow fs row = .outside ∨ ∃ fs', applyRow fs row = .ok fs' ∧ ∀ m, fs'.get? m = fs.get? m) := by
  unfold applyRow
  rcases hr with hn | ⟨v, hg, hnn, hv | hv⟩
  · simp only [hn]
    exact Or.inr ⟨fs, rfl, fun _ => rfl⟩
  · simp only [hg, hv]
    refine Or.inr ⟨fs.set row.1 v, rfl, ?_⟩
    · intro m
      by_cases hm : m = row.1
      · subst hm; rw [get_set_same, hg]
      · exact get_set_other _ _ _ _ hm
  · simp [hg, hv]

/-- after the rows have run, every row's position is in its fixpoint state.  A position may be visited
more than once as long as it is by the same function (the code flattens `result` twice). -/
theorem applyRows_establishes (D : Str → Bool) (h : IsEquivOn iriEqv D) (rows : List (String × String)) :
    ∀ (fs fs' : Fields) (done : List (String × String)),
    (∀ r ∈ done, RowFix fs r) → (∀ x ∈ done, ∀ r' ∈ rows, x.1 ≠ r'.1 ∨ x = r') →
    rows.Pairwise (fun a b => a.1 ≠ b.1 ∨ a = b) →
    (∀ r ∈ rows, r ∉ done → ∀ v, fs.get? r.1 = some v → plainVal v = true ∧ domVal D v = true) →
    applyRows fs rows = .ok fs' → ∀ r ∈ done ++ rows, RowFix fs' r := by
  induction rows with
  | nil =>
    intro fs fs' done hd _ _ _ ha
    simp only [applyRows] at ha
    cases ha
    simpa using hd
  | cons r rs ih =>
    intro fs fs' done hd hdis hpw hp ha
    simp only [applyRows] at ha
    have hpw' := List.pairwise_cons.mp hpw
    cases h1 : applyRow fs r with
    | ok fs1 =>
      simp only [h1] at ha
      by_cases hmem : r ∈ done
      · -- visited before by the same function: nothing changes
        rcases applyRow_fixed fs r (hd r hmem) with e | ⟨fs1', e, hsame⟩
        · rw [e] at h1; cases h1
        · rw [e] at h1; cases h1
          have := ih fs1 fs' done
            (fun x hx => rowFix_congr fs fs1 x (hsame _) (hd x hx))
            (fun x hx r' hr' => hdis x hx r' (List.mem_cons_of_mem _ hr'))
            hpw'.2
            (fun r' hr' hnd v hg => hp r' (List.mem_cons_of_mem _ hr') hnd v (by rw [← hsame]; exact hg))
            ha
          intro x hx
          rcases List.mem_append.mp hx with hx | hx
          · exact this x (List.mem_append_left _ hx)
          · rcases List.mem_cons.mp hx with rfl | hx
            · exact this x (List.mem_append_left _ hmem)
            · exact this x (List.mem_append_right _ hx)
      · have hne : ∀ x ∈ done, x.1 ≠ r.1 := by
          intro x hx
          rcases hdis x hx r List.mem_cons_self with e | e
          · exact e
          · subst e; exact absurd hx hmem
        have := ih fs1 fs' (done ++ [r])
          (by
            intro x hx
            rcases List.mem_append.mp hx with hx | hx
            · exact rowFix_congr fs fs1 x (applyRow_frame fs fs1 r x.1 (hne x hx) h1) (hd x hx)
            · have : x = r := by simpa using hx
              subst this
              exact applyRow_establishes D h fs fs1 x (hp x List.mem_cons_self hmem) h1)
          (by
            intro x hx r' hr'
            rcases List.mem_append.mp hx with hx | hx
            · exact hdis x hx r' (List.mem_cons_of_mem _ hr')
            · have : x = r := by simpa using hx
              subst this
              exact hpw'.1 r' hr')
          hpw'.2
          (by
            intro r' hr' hnd v hg
            have hnr : r' ≠ r := by intro e; subst e; exact hnd (by simp)
            have hn1 : r.1 ≠ r'.1 := by
              rcases hpw'.1 r' hr' with e | e
              · exact e
              · exact absurd e.symm hnr
            rw [applyRow_frame fs fs1 r r'.1 (Ne.symm hn1) h1] at hg
            exact hp r' (List.mem_cons_of_mem _ hr') (fun hc => hnd (List.mem_append_left _ hc)) v hg)
          ha
        intro x hx
        exact this x (by simpa using hx)
    | panic => simp [h1] at ha
    | outside => simp [h1] at ha

/-- rows applied to fields where each of their positions is in its fixpoint state -/
theorem applyRows_fixed (rows : List (String × String)) :
    ∀ fs : Fields, (∀ r ∈ rows, RowFix fs r) →
    (applyRows fs rows = .outside ∨ ∃ fs', applyRows fs rows = .ok fs' ∧ ∀ m, fs'.get? m = fs.get? m) := by
  induction rows with
  | nil => intro fs _; exact Or.inr ⟨fs, rfl, fun _ => rfl⟩
  | cons r rs ih =>
    intro fs hr
    simp only [applyRows]
    rcases applyRow_fixed fs r (hr r List.mem_cons_self) with e | ⟨fs1, e, hsame⟩
    · simp [e]
    · simp only [e]
      rcases ih fs1 (fun x hx => rowFix_congr fs fs1 x (hsame _) (hr x (List.mem_cons_of_mem _ hx))) with e2 | ⟨fs2, e2, hs2⟩
      · exact Or.inl e2
      · exact Or.inr ⟨fs2, e2, fun m => by rw [hs2, hsame]⟩

/-- **Flattening the properties of a value twice equals flattening them once**: for any table of rows
whose positions are distinct (or visited again by the same function), any fields, if the function answers `fs'`, then run on `fs'` it never panics,
and any answer it gives holds in every property exactly what `fs'` holds. -/
theorem C16_idem_rows (D : Str → Bool) (h : IsEquivOn iriEqv D) (rows : List (String × String))
    (hpw : rows.Pairwise (fun a b => a.1 ≠ b.1 ∨ a = b)) (fs fs' : Fields)
    (hp : ∀ r ∈ rows, ∀ v, fs.get? r.1 = some v → plainVal v = true ∧ domVal D v = true)
    (ha : applyRows fs rows = .ok fs') :
    applyRows fs' rows ≠ .panic ∧ ∀ fs'', applyRows fs' rows = .ok fs'' → ∀ m, fs''.get? m = fs'.get? m := by
  have hfix := applyRows_establishes D h rows fs fs' [] (by simp) (by simp) hpw (fun r hr _ => hp r hr) ha
  rcases applyRows_fixed rows fs' (fun r hr => hfix r (by simpa using hr)) with e | ⟨fs2, e, hs⟩
  · rw [e]; exact ⟨by simp, by intro _ hc; cases hc⟩
  · rw [e]; exact ⟨by simp, by intro fs'' hc; cases hc; exact hs⟩

def distinctNames : List (String × String) → Bool
  | [] => true
  | r :: rs => rs.all (fun x => x.1 != r.1 || x == r) && distinctNames rs

theorem distinctNames_pairwise : ∀ rows, distinctNames rows = true → rows.Pairwise (fun a b => a.1 ≠ b.1 ∨ a = b)
  | [], _ => List.Pairwise.nil
  | r :: rs, h => by
    simp only [distinctNames, Bool.and_eq_true, List.all_eq_true, Bool.or_eq_true, bne_iff_ne, ne_eq, beq_iff_eq] at h
    refine List.pairwise_cons.mpr ⟨fun x hx => ?_, distinctNames_pairwise rs h.2⟩
    rcases h.1 x hx with e | e
    · exact Or.inl (Ne.symm e)
    · exact Or.inr e.symm

/-- obligation on the regenerated table: no Flatten…Properties function visits a position with two
different flattening functions -/
theorem C16_table_distinct :
    (["FlattenObjectProperties", "FlattenActorProperties", "FlattenIntransitiveActivityProperties",
      "FlattenActivityProperties"].all (fun fn => distinctNames (rowsOf flattenRows 4 fn))) = true := by
  decide

/-- C16's "flattening twice equals flattening once" for the code's own four functions -/
theorem C16_idem_props (fn : String)
    (hfn : fn ∈ ["FlattenObjectProperties", "FlattenActorProperties", "FlattenIntransitiveActivityProperties",
      "FlattenActivityProperties"]) (fs fs' : Fields)
    (hp : ∀ r ∈ rowsOf flattenRows 4 fn, ∀ v, fs.get? r.1 = some v →
      plainVal v = true ∧ domVal IRI.inDomain v = true)
    (ha : flattenProps flattenRows fn fs = .ok fs') :
    flattenProps flattenRows fn fs' ≠ .panic ∧
    ∀ fs'', flattenProps flattenRows fn fs' = .ok fs'' → ∀ m, fs''.get? m = fs'.get? m := by
  have hd := List.all_eq_true.mp C16_table_distinct fn hfn
  exact C16_idem_rows IRI.inDomain iriEqv_equiv_on _ (distinctNames_pairwise _ hd) fs fs' hp ha

/-! non-vacuity of `C16_idem_props`: an activity whose actor is embedded, whose attributedTo is a list of
two embedded objects and whose `to` names one addressee twice has an answer, meets the side condition,
and the answer is reproduced by a second run (the last line is a test on this one value, not the theorem) -/
private def sampleAct : Fields :=
  .cons "ID" (.str (ascii "https://e.com/act/1")) (.cons "Type" (.str (ascii "Create"))
  (.cons "Actor" (.item (obj "https://e.com/~a"))
  (.cons "AttributedTo" (.item (.coll false (Items.ofList [obj "https://e.com/~a", obj "https://e.com/~b"])))
  (.cons "To" (.items (Items.ofList [obj "https://e.com/~c", .iri (ascii "https://e.com/~c"), .iri (ascii "https://e.com/~d")]))
  .nil))))
private def resOk : Res Fields → Option Fields
  | .ok fs => some fs
  | _ => none
example : ((rowsOf flattenRows 4 "FlattenActivityProperties").all (fun r =>
    match sampleAct.get? r.1 with
    | some v => plainVal v && domVal IRI.inDomain v
    | none => true)) = true := by decide +kernel
example : ((resOk (flattenProps flattenRows "FlattenActivityProperties" sampleAct)).bind
    (fun fs' => (resOk (flattenProps flattenRows "FlattenActivityProperties" fs')).map (fun fs'' =>
      fs'.beq fs'' && !(fs'.beq sampleAct)))) = some true := by decide +kernel

end APModel.Flatten
