import Driver.Util
import APModel.Model.Coll
import APModel.Model.IRI
open Lean APModel.Coll APModel.IRI

namespace Driver

/-- a bare identified item of a pool: position in the pool, shape, id, type. -/
structure BareItem where
  idx : Nat
  shape : String      -- "iri" | "object" | "actor" | "activity"
  id : Str
  typ : Str

def utf8 (s : String) : Str := s.toUTF8.toList

/-- the model of `ItemsEqual` on bare (id + type only) non-nil items. -/
def bareEq (a b : BareItem) : Bool :=
  if a.shape == "iri" || b.shape == "iri" then equals parseOpt a.id b.id false
  else equals parseOpt a.id b.id true && foldEq a.typ b.typ

/-- comparison used by IRI lists: on the links only, scheme ignored. -/
def linkEq (a b : BareItem) : Bool := equals parseOpt b.id a.id false

def parseBare (i : Nat) (j : Json) : R BareItem := do
  return { idx := i, shape := ← strF j "shape", id := utf8 (← strF j "id"), typ := utf8 (← strF j "typ") }

def parseCollOp (pool : Array BareItem) (j : Json) : R (List (Op BareItem)) := do
  let get (x : Json) : R BareItem := do
    match pool[(← nat x)]? with
    | some b => return b
    | none => throw "pool index"
  match ← arr j with
  | [Json.str "append", x] => return [.append (← get x)]
  | [Json.str "append3", x, y] => return [.append (← get x), .append (← get y), .append (← get x)]   -- one variadic call
  | [Json.str "contains", x] => return [.contains (← get x)]
  | [Json.str "remove", x] => return [.remove (← get x)]
  | [Json.str "count"] => return [.count]
  | _ => throw "coll op"

def renderCollOut : Out → Json
  | .unit => Json.str "ok"
  | .bool b => Json.bool b
  | .nat n => Json.num n

def opColl (j : Json) : R Json := do
  let kind ← strF j "kind"
  let poolL ← (← arrF j "pool").mapIdxM (fun i x => parseBare i x)
  let pool := poolL.toArray
  let init ← (← arrF j "init").mapM (fun x => do
    match pool[(← nat x)]? with
    | some b => pure b
    | none => throw "pool index")
  let ops := (← (← arrF j "ops").mapM (parseCollOp pool)).flatten
  let eq := if kind == "IRIs" then linkEq else bareEq
  let start := init.foldl (fun l x => append eq l x) []   -- the harness builds the initial collection with Append
  let (final, outs) := run eq start ops
  return Json.mkObj [("outs", jarr (outs.map renderCollOut)), ("final", jarr (final.map (fun b =>
      if kind == "IRIs" then jarr [Json.str "iri", Json.str (String.fromUTF8! (ByteArray.mk b.id.toArray)), Json.str ""]
      else jarr [Json.str b.shape, Json.str (String.fromUTF8! (ByteArray.mk b.id.toArray)), Json.str (String.fromUTF8! (ByteArray.mk b.typ.toArray))])))]

end Driver
