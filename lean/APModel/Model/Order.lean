/-
Model of `ItemOrderTimestamp` (helpers.go) on objects and nil.

An object is reduced to its two instants (published, updated), each an integer count of
nanoseconds (Go's `time.Time.After` compares instants, not zones). `nil` stands for the untyped nil
item and for a nil pointer of any object type (`ToObject` yields a nil `*Object` for both).
-/
namespace APModel.Order

inductive OItem
  | nil
  | obj (published updated : Int)
  deriving Repr, DecidableEq

/-- `ItemOrderTimestamp`, transcribed: nil first; otherwise the later of published/updated decides. -/
def itemOrder : OItem → OItem → Bool
  | .nil, .nil => false          -- o1 == nil: return o2 != nil
  | .nil, .obj _ _ => true
  | .obj _ _, .nil => false      -- o2 == nil: return false
  | .obj p1 u1, .obj p2 u2 =>
    let t1 := if u1 > p1 then u1 else p1   -- if o1.Updated.After(t1) { t1 = o1.Updated }
    let t2 := if u2 > p2 then u2 else p2
    decide (t1 > t2)                        -- t1.After(t2)

/-- The ranking key: `none` for nil (ranks before every object), otherwise the later of the
published / updated instants. -/
def key : OItem → Option Int
  | .nil => none
  | .obj p u => some (max p u)

/-! A sort that asks only the comparator (the model of `sort.Slice(items, ItemOrderTimestamp)`):
each element is inserted before the first one it ranks strictly before. -/
section CmpSort
variable {α : Type} (less : α → α → Bool)

def insBy (x : α) : List α → List α
  | [] => [x]
  | y :: r => if less x y then x :: y :: r else y :: insBy x r

def sortBy : List α → List α
  | [] => []
  | x :: r => insBy less x (sortBy r)

end CmpSort

end APModel.Order
