package main

import (
	"bufio"
	"bytes"
	"encoding/hex"
	"encoding/json"
	"fmt"
	"io"
	"os"
	"os/exec"
	"path/filepath"
	"reflect"
	"runtime"
	"sort"
	"strings"
	"time"

	ap "github.com/go-ap/activitypub"
)

// C04 — decoders are total.
//
// Entry points are found by reflection: the package-level decoders and every method named
// UnmarshalJSON / UnmarshalText / GobDecode / UnmarshalBinary on the vocabulary and leaf types.
// Calls run in a child process (a stack overflow or a runaway loop cannot be recovered in-process):
// the parent feeds one case per line and records the input on which the child died or went silent.

type entryPoint struct {
	name string
	call func(data []byte) (val interface{}, err error)
}

var c04Leaf = []interface{}{
	new(ap.IRI), new(ap.IRIs), new(ap.ItemCollection), new(ap.NaturalLanguageValues), new(ap.LangRef), new(ap.LangRefValue),
	new(ap.Content), new(ap.MimeType), new(ap.ActivityVocabularyType), new(ap.Source), new(ap.PublicKey), new(ap.Endpoints),
}

func c04EntryPoints() []entryPoint {
	eps := []entryPoint{
		{"UnmarshalJSON", func(d []byte) (interface{}, error) { return ap.UnmarshalJSON(d) }},
		{"GobDecode", func(d []byte) (interface{}, error) { return ap.GobDecode(d) }},
	}
	var types []reflect.Type
	for _, n := range allGoTypes {
		types = append(types, goTypes[n])
	}
	for _, p := range c04Leaf {
		types = append(types, reflect.TypeOf(p).Elem())
	}
	for _, t := range types {
		t := t
		pt := reflect.PtrTo(t)
		for _, mn := range []string{"UnmarshalJSON", "UnmarshalText", "GobDecode", "UnmarshalBinary"} {
			mn := mn
			m, ok := pt.MethodByName(mn)
			if !ok || m.Type.NumIn() != 2 || m.Type.NumOut() != 1 {
				continue
			}
			eps = append(eps, entryPoint{t.Name() + "." + mn, func(d []byte) (interface{}, error) {
				v := reflect.New(t)
				out := v.MethodByName(mn).Call([]reflect.Value{reflect.ValueOf(d)})
				var err error
				if e, ok := out[0].Interface().(error); ok {
					err = e
				}
				return v.Interface(), err
			}})
		}
	}
	sort.SliceStable(eps[2:], func(i, j int) bool { return eps[2+i].name < eps[2+j].name })
	return eps
}

// follow-up operations on whatever a decoder returned
// follow-up budget: the follow-ups must not panic; how long they take is not part of the property (re-encoding
// a deeply nested value in gob takes time exponential in the depth on the current tree), so a step is not
// started once the budget is used up
var c04FollowBudget = 5 * time.Second

// set per case by the parent ("nogob" flag): values nested deep enough to make the gob follow-up take minutes
var c04SkipGob bool

func c04Follow(v interface{}) string {
	var msg string
	t0 := time.Now()
	step := func(name string, f func()) {
		if msg != "" || time.Since(t0) > c04FollowBudget {
			return
		}
		if p, m := guard(f); p {
			msg = name + ": " + m
		}
	}
	if v == nil || (reflect.ValueOf(v).Kind() == reflect.Ptr && reflect.ValueOf(v).IsNil()) {
		return ""
	}
	if it, ok := v.(ap.Item); ok {
		step("IsNil", func() { _ = ap.IsNil(it) })
		if !ap.IsNil(it) {
			step("MarshalJSON", func() { _, _ = ap.MarshalJSON(it) })
			step("ItemsEqual", func() { _ = ap.ItemsEqual(it, it) })
			step("GetID/GetType/GetLink", func() {
				_ = it.GetID()
				_ = it.GetType()
				_ = it.GetLink()
				_ = it.IsObject()
				_ = it.IsLink()
				_ = it.IsCollection()
			})
			step("Format", func() { _ = fmt.Sprintf("%v %s %+v", it, it, it) })
			step("Flatten", func() { _ = ap.FlattenProperties(it) })
			step("Recipients", func() {
				_ = ap.OnObject(it, func(o *ap.Object) error { _ = o.Recipients(); return nil })
			})
			if !c04SkipGob {
				step("GobEncode", func() { _, _ = ap.GobEncode(it) })
			}
		}
		return msg
	}
	step("MarshalJSON", func() {
		if m, ok := v.(json.Marshaler); ok {
			_, _ = m.MarshalJSON()
		} else if m, ok := reflect.ValueOf(v).Elem().Interface().(json.Marshaler); ok {
			_, _ = m.MarshalJSON()
		}
	})
	step("GobEncode", func() {
		if m, ok := reflect.ValueOf(v).Elem().Interface().(interface{ GobEncode() ([]byte, error) }); ok {
			_, _ = m.GobEncode()
		}
	})
	step("Format", func() { _ = fmt.Sprintf("%v %+v", v, reflect.ValueOf(v).Elem().Interface()) })
	return msg
}

type c04Result struct {
	R      string `json:"r"` // ok | err | panic: …
	Follow string `json:"follow,omitempty"`
	Ms     int64  `json:"ms"`
	Alloc  uint64 `json:"alloc"`
}

func c04RunOne(ep entryPoint, data []byte) c04Result {
	var res c04Result
	var ms0, ms1 runtime.MemStats
	runtime.ReadMemStats(&ms0)
	t0 := time.Now()
	var v interface{}
	var err error
	if p, m := guard(func() { v, err = ep.call(data) }); p {
		res.R = "panic: " + m
	} else if err != nil {
		res.R = "err"
	} else {
		res.R = "ok"
	}
	res.Ms = time.Since(t0).Milliseconds() // the decoding call alone
	if res.R == "ok" {
		res.Follow = c04Follow(v)
	}
	runtime.ReadMemStats(&ms1)
	res.Alloc = ms1.TotalAlloc - ms0.TotalAlloc
	return res
}

// child: lines "<entry point index> <hex input>" -> one JSON result per line
func c04Child() {
	eps := c04EntryPoints()
	in := bufio.NewReaderSize(os.Stdin, 1<<22)
	out := bufio.NewWriter(os.Stdout)
	for {
		line, err := in.ReadString('\n')
		if len(line) > 1 {
			var idx int
			var hx, flag string
			fmt.Sscanf(line, "%d %s %s", &idx, &hx, &flag)
			c04SkipGob = flag == "nogob"
			data, _ := hex.DecodeString(hx)
			r := c04RunOne(eps[idx], data)
			b, _ := json.Marshal(r)
			out.Write(b)
			out.WriteByte('\n')
			out.Flush()
		}
		if err != nil {
			return
		}
	}
}

type c04Proc struct {
	cmd *exec.Cmd
	in  io.WriteCloser
	out *bufio.Reader
}

func c04Start() (*c04Proc, error) {
	exe, err := os.Executable()
	if err != nil {
		return nil, err
	}
	cmd := exec.Command(exe, "c04child")
	cmd.Env = append(os.Environ(), "GOMEMLIMIT=2GiB", "GOMAXPROCS=2")
	in, _ := cmd.StdinPipe()
	op, _ := cmd.StdoutPipe()
	cmd.Stderr = nil
	if err := cmd.Start(); err != nil {
		return nil, err
	}
	return &c04Proc{cmd, in, bufio.NewReaderSize(op, 1<<20)}, nil
}

func (p *c04Proc) kill() {
	p.in.Close()
	p.cmd.Process.Kill()
	p.cmd.Wait()
}

// one case through the child, with a deadline
func (p *c04Proc) run(idx int, data []byte, limit time.Duration, flags ...string) (res c04Result, dead string) {
	fmt.Fprintf(p.in, "%d %s %s\n", idx, hex.EncodeToString(data), strings.Join(flags, ","))
	type ans struct {
		line string
		err  error
	}
	ch := make(chan ans, 1)
	go func() {
		l, err := p.out.ReadString('\n')
		ch <- ans{l, err}
	}()
	select {
	case a := <-ch:
		if a.err != nil {
			return res, "the process died (fatal error: stack overflow, out of memory or runtime abort)"
		}
		json.Unmarshal([]byte(a.line), &res)
		return res, ""
	case <-time.After(limit):
		return res, fmt.Sprintf("no answer within %v (hang or super-linear time)", limit)
	}
}

// ---------------------------------------------------------------- inputs

func c04JSONCorpus(c *Ctx) [][]byte {
	var out [][]byte
	files, _ := filepath.Glob(filepath.Join(repoDir(), "tests", "mocks", "*.json"))
	sort.Strings(files)
	for _, f := range files {
		if b, err := os.ReadFile(f); err == nil {
			out = append(out, b)
		}
	}
	cfg := c01Cfg(2)
	stats := map[string]int{}
	for i := 0; i < c.N(40, 400); i++ {
		typ := allGoTypes[c.R.Intn(len(allGoTypes))]
		tr := cfg.genNode(c.R, typ, 2, false)
		tr["ptr"] = true
		out = append(out, c05Present(c.R, sortNLVs(tr).(T), stats))
	}
	return out
}

var c04Atoms = []string{`null`, `true`, `false`, `0`, `-1`, `1e999999`, `-0.0e-9999`, `123456789012345678901234567890`, `""`, `"x"`, `"\u0000"`, `"\ud83d"`, `[]`, `{}`, `[[]]`, `[{}]`, `{"a":[]}`,
	`"https://example.com/x"`, `{"type":"Note"}`, `{"id":1}`, `{"type":["Note","Article"]}`, `[null]`, `[1,"a",{}]`, `{"type":"Person","publicKey":"x"}`, `{"type":"Person","endpoints":[1]}`,
	`{"type":"Note","contentMap":"x"}`, `{"type":"Note","contentMap":{"en":1}}`, `{"type":"Note","content":["a",{"en":"b"},1]}`, `{"type":"OrderedCollection","orderedItems":"x","totalItems":-1}`,
	`{"type":"Place","latitude":"x","radius":1.5}`, `{"type":"Question","closed":"2020-01-01T00:00:00Z","oneOf":{}}`, `{"type":"Note","published":"yesterday","duration":"-"}`, `{"type":"Note","duration":"P"}`, `{"type":"Note","duration":"PT"}`,
	`{"type":"Note","source":"x"}`, `{"type":"Note","source":{"content":1}}`, `{"type":"Link","href":1,"rel":[]}`, `{"type":"Tombstone","formerType":1,"deleted":1}`}

// structure-aware mutation of a JSON document
func c04MutateJSON(r *RNG, doc []byte) []byte {
	switch r.Intn(9) {
	case 0: // truncate
		if len(doc) > 0 {
			return doc[:r.Intn(len(doc))]
		}
	case 1: // replace one value by an atom of another kind
		var v interface{}
		if json.Unmarshal(doc, &v) == nil {
			v = c04ReplaceValue(r, v, 0)
			if b, err := json.Marshal(v); err == nil {
				return b
			}
		}
	case 2: // byte flip
		if len(doc) > 0 {
			b := append([]byte{}, doc...)
			b[r.Intn(len(b))] = byte(r.Intn(256))
			return b
		}
	case 3: // duplicate a chunk
		if len(doc) > 4 {
			i := r.Intn(len(doc) - 2)
			j := i + 1 + r.Intn(len(doc)-i-1)
			return append(append(append([]byte{}, doc[:j]...), doc[i:j]...), doc[j:]...)
		}
	case 4: // wrap in arrays
		n := 1 + r.Intn(4)
		return append(append(bytes.Repeat([]byte{'['}, n), doc...), bytes.Repeat([]byte{']'}, n)...)
	case 5: // delete a chunk
		if len(doc) > 4 {
			i := r.Intn(len(doc) - 2)
			j := i + 1 + r.Intn(len(doc)-i-1)
			return append(append([]byte{}, doc[:i]...), doc[j:]...)
		}
	case 6: // non-UTF-8 into a string
		if i := bytes.IndexByte(doc, '"'); i >= 0 {
			return append(append(append([]byte{}, doc[:i+1]...), 0xff, 0xc3, 0x00), doc[i+1:]...)
		}
	case 7: // swap braces and brackets
		b := append([]byte{}, doc...)
		for i := range b {
			if r.Chance(10) {
				switch b[i] {
				case '{':
					b[i] = '['
				case '}':
					b[i] = ']'
				case '[':
					b[i] = '{'
				case ':':
					b[i] = ','
				}
			}
		}
		return b
	}
	return []byte(r.Pick(c04Atoms))
}

func c04ReplaceValue(r *RNG, v interface{}, depth int) interface{} {
	atom := func() interface{} {
		var a interface{}
		json.Unmarshal([]byte(r.Pick(c04Atoms)), &a)
		return a
	}
	switch x := v.(type) {
	case map[string]interface{}:
		if len(x) == 0 || r.Chance(15) {
			return atom()
		}
		keys := make([]string, 0, len(x))
		for k := range x {
			keys = append(keys, k)
		}
		sort.Strings(keys)
		k := keys[r.Intn(len(keys))]
		x[k] = c04ReplaceValue(r, x[k], depth+1)
		return x
	case []interface{}:
		if len(x) == 0 || r.Chance(25) {
			return atom()
		}
		i := r.Intn(len(x))
		x[i] = c04ReplaceValue(r, x[i], depth+1)
		return x
	}
	return atom()
}

// a list with two equal members, each nesting its own kind `depth` levels deep through one property
func c04Twin(typ, prop, pos string, depth int) []byte {
	x := fmt.Sprintf(`{"id":"https://example.com/t/0","type":%q}`, typ)
	for k := 1; k <= depth; k++ {
		x = fmt.Sprintf(`{"id":"https://example.com/t/%d","type":%q,%q:%s}`, k, typ, prop, x)
	}
	return []byte(`{"type":"OrderedCollection","id":"https://example.com/c",` + fmt.Sprintf("%q", pos) + `:[` + x + `,` + x + `]}`)
}

func c04Deep(n int, open, close string, core string) []byte {
	return []byte(strings.Repeat(open, n) + core + strings.Repeat(close, n))
}

func c04GobCorpus(c *Ctx) [][]byte {
	var out [][]byte
	cfg := &GenCfg{MaxDepth: 2, Density: 18, Zones: true, GobZones: true, Nanos: true, ValueNodes: true, Links: true, EmptyTypes: true, Negatives: true, MultiLang: true}
	for i := 0; i < c.N(40, 400); i++ {
		typ := allGoTypes[c.R.Intn(len(allGoTypes))]
		tr := cfg.genNode(c.R, typ, 2, false)
		tr["ptr"] = true
		if b, err := ap.GobEncode(buildItem(tr)); err == nil && len(b) > 0 {
			out = append(out, b)
		}
	}
	for _, v := range []interface{}{ap.IRI("https://example.com/x"), ap.IRIs{"https://a.example/", "https://b.example/"},
		ap.NaturalLanguageValues{{Ref: "en", Value: ap.Content("hello")}}, ap.LangRef("en"), ap.Content("x"), ap.MimeType("text/html"),
		ap.ItemCollection{ap.IRI("https://example.com/1"), &ap.Object{ID: "https://example.com/2", Type: ap.NoteType}}} {
		if g, ok := v.(interface{ GobEncode() ([]byte, error) }); ok {
			if b, err := g.GobEncode(); err == nil {
				out = append(out, b)
			}
		}
	}
	return out
}

func c04MutateGob(r *RNG, b []byte) []byte {
	if len(b) == 0 {
		return []byte{byte(r.Intn(256))}
	}
	switch r.Intn(6) {
	case 0:
		return b[:r.Intn(len(b))]
	case 1, 2:
		o := append([]byte{}, b...)
		for k := 1 + r.Intn(3); k > 0; k-- {
			o[r.Intn(len(o))] = byte(r.Intn(256))
		}
		return o
	case 3:
		i := r.Intn(len(b))
		return append(append(append([]byte{}, b[:i]...), byte(r.Intn(256)), 0xff, 0xff, 0xff, 0x7f), b[i:]...)
	case 4:
		o := make([]byte, 1+r.Intn(40))
		for i := range o {
			o[i] = byte(r.Intn(256))
		}
		return o
	}
	return append(append([]byte{}, b...), b...)
}

// the text unmarshalers that are modelled in Lean: name -> call returning (value bytes, outcome)
func c04TextModelled(name string, data []byte) interface{} {
	var out interface{}
	p, msg := guard(func() {
		switch name {
		case "Content":
			var c ap.Content
			err := c.UnmarshalText(data)
			out = T{"err": err != nil, "v": bytesToInts(c)}
		case "LangRef":
			var l ap.LangRef
			err := l.UnmarshalText(data)
			out = T{"err": err != nil, "v": bytesToInts([]byte(l))}
		case "NaturalLanguageValues":
			var n ap.NaturalLanguageValues
			err := n.UnmarshalText(data)
			vals := []interface{}{}
			for _, e := range n {
				vals = append(vals, bytesToInts(e.Value))
			}
			out = T{"err": err != nil, "vals": vals}
		}
	})
	if p {
		return T{"panic": msg}
	}
	return out
}

func init() {
	campaigns["C04"] = func(c *Ctx) {
		eps := c04EntryPoints()
		c.Rule = fmt.Sprintf("%d decode entry points found by reflection (package-level UnmarshalJSON/GobDecode; UnmarshalJSON, UnmarshalText, GobDecode, UnmarshalBinary of the 14 vocabulary structs and 12 leaf types). Inputs: empty, all 256 one-byte strings, 38 hand-picked JSON atoms and mistyped documents, nesting to depth 5k-200k of arrays, objects and strings-of-backslashes, 10^5-10^6-digit numbers and strings; every ordered pair of the vocabulary's 55 type names as neighbours in one decoded list; a text property given as a plain value and as a mistyped map at once; a short, a partial and a detailed copy of one value of every struct as neighbours in a list, in both orders; two equal members of one list each nesting its own kind 20-26 levels deep through each of 40 item-valued properties (16 type names: the comparison made while decoding must not double per level); 54 hostile scalars (padded signs, partial durations and instants, non-numbers) as string and as raw value under each of 16 typed terms; the repository mocks and harness-written documents with structure-aware mutations (truncation, value replaced by another kind, byte flip, duplicated/deleted chunk, array wrapping, non-UTF-8, brace swaps); valid gob streams of generated values with truncation, byte flips, length bombs, random bytes. Every call runs in a child process with a deadline; a panic, a dead or silent child, more than 2 s, or allocation beyond 64 MiB + 400 x input size is a failure; every returned value then goes through MarshalJSON, GobEncode, ItemsEqual(v,v), accessors, Format, Flatten, Recipients under recover. Correspondence: the three hand-written text unmarshalers against their Lean models with an explicit panic outcome, exhaustively on all strings of length <= 3 over {quote, backslash, a} plus random strings.", len(eps))
		proc, err := c04Start()
		if err != nil {
			c.Fail("C04/harness", "cannot start the child: "+err.Error(), nil)
			return
		}
		defer func() { proc.kill() }()
		limit := 20 * time.Second
		deaths := 0
		twinDeaths := 0
		runCase := func(idx int, data []byte, tag string) {
			if deaths >= 3 {
				c.Tag("skipped-after-3-deaths")
				return // every death costs a process and (for stack exhaustion) seconds: three are enough to report
			}
			in := map[string]interface{}{"ep": eps[idx].name, "hex": hex.EncodeToString(data)}
			if len(data) > 4096 {
				in = map[string]interface{}{"ep": eps[idx].name, "gen": tag, "len": len(data)}
			}
			c.Count(map[string]interface{}{"ep": idx, "h": hx(data[:minInt(len(data), 64)]), "n": len(data)}, true)
			c.Tag(tag)
			var flags []string
			if strings.HasPrefix(tag, "twins/") {
				flags = append(flags, "nogob")
			}
			res, dead := proc.run(idx, data, limit, flags...)
			if dead != "" && strings.HasPrefix(tag, "twins/") {
				// one class per (type, property) of the nested twins: a slow pair is one finding, not the entry point's
				c.Fail("C04/"+tag, eps[idx].name+": "+dead+" on "+fmt.Sprint(len(data))+" bytes", in)
				twinDeaths++
				proc.kill()
				proc, _ = c04Start()
				return
			}
			if dead != "" {
				c.Fail("C04/dead:"+eps[idx].name, eps[idx].name+": "+dead, in)
				deaths++
				proc.kill()
				proc, _ = c04Start()
				return
			}
			c.Tag("outcome/" + strings.SplitN(res.R, ":", 2)[0])
			switch {
			case strings.HasPrefix(res.R, "panic"):
				c.Fail("C04/panic:"+eps[idx].name, eps[idx].name+" "+res.R, in)
			case res.Follow != "":
				c.Fail("C04/follow:"+eps[idx].name, eps[idx].name+" returned a value on which "+res.Follow+" panics", in)
			case res.Ms > 2000 && strings.HasPrefix(tag, "twins/"):
				c.Fail("C04/"+tag, fmt.Sprintf("%s took %d ms on %d bytes", eps[idx].name, res.Ms, len(data)), in)
			case res.Ms > 2000:
				c.Fail("C04/slow:"+eps[idx].name, fmt.Sprintf("%s took %d ms on %d bytes", eps[idx].name, res.Ms, len(data)), in)
			case res.Alloc > 64<<20+400*uint64(len(data)):
				c.Fail("C04/alloc:"+eps[idx].name, fmt.Sprintf("%s allocated %d bytes on %d bytes of input", eps[idx].name, res.Alloc, len(data)), in)
			}
		}
		isJSON := func(n string) bool {
			return strings.HasSuffix(n, "UnmarshalJSON") || strings.HasSuffix(n, "UnmarshalText")
		}
		// 1. tiny inputs at every entry point
		for idx := range eps {
			runCase(idx, nil, "tiny/empty")
			for b := 0; b < 256; b++ {
				if c.Thorough() || b < 128 || b%8 == 0 {
					runCase(idx, []byte{byte(b)}, "tiny/1-byte")
				}
			}
			for _, a := range c04Atoms {
				runCase(idx, []byte(a), "atoms")
			}
		}
		// 2. depth and size
		depth := c.N(5000, 200000)
		big := c.N(100000, 1000000)
		for idx := range eps {
			if !isJSON(eps[idx].name) {
				continue
			}
			if !c.Thorough() && idx%4 != 0 && idx > 1 {
				continue
			}
			runCase(idx, c04Deep(depth, "[", "]", ""), "deep/arrays")
			runCase(idx, c04Deep(depth, `{"object":`, "}", `"x"`), "deep/objects")
			runCase(idx, c04Deep(depth, `{"type":"Create","object":`, "}", `{"type":"Note"}`), "deep/activities")
			runCase(idx, c04Deep(depth, "[", "", ""), "deep/unclosed")
			runCase(idx, []byte(`{"type":"Note","content":"`+strings.Repeat(`\`, big)+`"}`), "big/backslashes")
			runCase(idx, []byte(`{"type":"Place","latitude":`+strings.Repeat("9", big)+`}`), "big/number")
			runCase(idx, []byte(`{"type":"Note","name":"`+strings.Repeat("a", big)+`"}`), "big/string")
			runCase(idx, []byte(`{"type":"Note","to":[`+strings.Repeat(`"https://example.com/a",`, big/30)+`"https://example.com/a"]}`), "big/list-of-equal-iris")
		}
		// 2b. every ordered pair of vocabulary types as neighbours in one list (decoding compares members)
		var typeNames []string
		for _, gt := range allGoTypes {
			typeNames = append(typeNames, vocab[gt]...)
		}
		sort.Strings(typeNames)
		for i, a := range typeNames {
			for j, b := range typeNames {
				if !c.Thorough() && (i*len(typeNames)+j)%3 != int(c.Seed%3) && !(i < 12 || j < 12) {
					continue
				}
				doc := fmt.Sprintf(`{"type":"OrderedCollection","id":"https://example.com/c","orderedItems":[{"type":%q,"id":"https://example.com/1"},{"type":%q,"id":"https://example.com/2","name":"x"},{"type":%q,"id":"https://example.com/1"}]}`, a, b, a)
				runCase(0, []byte(doc), "type-pairs")
			}
		}
		// 2b'. two equal members of one list, each nesting the same kind of value `d` levels deep through one
		// property: decoding compares the members (Append -> Contains -> ItemsEqual), and the comparison must
		// stay proportional to the document (a comparison that visits a property twice per level doubles per level)
		// The oracle is the growth rate, not a wall-clock budget alone: the decoding time at depth d+4 against the
		// time at depth d (x16 when the work doubles per level, x1.3 when it is proportional); a pair is run again
		// before it is reported, and only times above 40 ms count (timer and collector noise).
		twin := c04Twin
		d1, d2 := c.N(12, 14), c.N(16, 18)
		for _, typ := range []string{"Create", "Person", "Note", "OrderedCollection", "Collection", "CollectionPage", "OrderedCollectionPage", "Question", "Arrive", "Activity", "Actor", "Object", "Place", "Tombstone", "Relationship", "Profile"} {
			for _, prop := range []string{"attachment", "inReplyTo", "context", "object", "actor", "target", "result", "origin", "instrument", "inbox", "first", "last", "current", "next", "prev", "partOf", "items", "orderedItems", "oneOf", "anyOf", "tag", "preview", "replies", "likes", "shares", "attributedTo", "audience", "to", "generator", "icon", "image", "location", "url",
				"outbox", "followers", "following", "liked", "streams", "subject", "relationship", "describes"} {
				for _, pos := range []string{"tag", "orderedItems"} {
					tag := "twins/" + typ + "." + prop
					measure := func(depth int) (int64, string) {
						data := twin(typ, prop, pos, depth)
						c.Count(map[string]interface{}{"ep": 0, "h": hx(data[:64]), "n": len(data), "twin": tag + "@" + pos}, true)
						c.Tag("twins")
						best := int64(-1)
						for try := 0; try < 2; try++ {
							res, dead := proc.run(0, data, limit, "nogob")
							if dead != "" {
								proc.kill()
								proc, _ = c04Start()
								return 1 << 40, dead
							}
							if strings.HasPrefix(res.R, "panic") || res.Follow != "" {
								c.Fail("C04/panic:UnmarshalJSON", "UnmarshalJSON "+res.R+" "+res.Follow, map[string]interface{}{"ep": "UnmarshalJSON", "hex": hex.EncodeToString(data)})
							}
							if best < 0 || res.Ms < best {
								best = res.Ms
							}
							if res.Ms < 40 {
								break
							}
						}
						return best, ""
					}
					t1, _ := measure(d1)
					t2, dead := measure(d2)
					if t2 >= 40 && t2 > 6*maxInt64(t1, 1) {
						data := twin(typ, prop, pos, d2)
						what := fmt.Sprintf("UnmarshalJSON: two equal %s members of one list, nested through %q: %d ms at depth %d (%d bytes) against %d ms at depth %d - the work multiplies with every level", typ, prop, t2, d2, len(data), t1, d1)
						if dead != "" {
							what = fmt.Sprintf("UnmarshalJSON: two equal %s members of one list, nested %d deep through %q (%d bytes): %s", typ, d2, prop, len(data), dead)
						}
						c.Fail("C04/"+tag, what, map[string]interface{}{"ep": "UnmarshalJSON", "hex": hex.EncodeToString(data), "twin": []interface{}{typ, prop, pos, d1, d2}})
					}
				}
			}
		}
		// 2b''. a text property given both ways at once, the map form mistyped; and a short copy next to a detailed
		// copy of one value in a list (the decoder compares them, property by property, in both orders)
		for _, term := range []string{"name", "summary", "content", "preferredUsername"} {
			for _, plain := range []string{`"x"`, `{"en":"x"}`, `["x"]`, `null`, `1`} {
				for _, mp := range []string{`null`, `"y"`, `["y"]`, `1`, `true`, `{}`, `{"en":null}`, `{"en":1}`, `{"":"y"}`, `[{"en":"y"}]`} {
					for _, typ := range []string{"Note", "Person", "Create", "Link"} {
						runCase(0, []byte(fmt.Sprintf(`{"type":%q,"id":"https://example.com/x",%q:%s,%q:%s}`, typ, term, plain, term+"Map", mp)), "text-and-map")
						runCase(0, []byte(fmt.Sprintf(`{"type":%q,"id":"https://example.com/x",%q:%s,%q:%s}`, typ, term+"Map", mp, term, plain)), "text-and-map")
					}
				}
			}
			runCase(0, []byte(fmt.Sprintf(`{"type":"Note","source":{%q:"x",%q:null,"mediaType":"text/plain"}}`, "content", "contentMap")), "text-and-map")
		}
		{
			stats := map[string]int{}
			cfgFull := &GenCfg{MaxDepth: 1, Density: 100, Links: true, MultiLang: true, Zones: true}
			for _, goType := range allGoTypes {
				for rep := 0; rep < c.N(2, 6); rep++ {
					full := cfgFull.genNode(c.R, goType, 1, false)
					full["ptr"] = true
					ff := full["f"].(T)
					id := fmt.Sprintf("https://example.com/copy/%s/%d", goType, rep)
					ff["ID"] = T{"s": id}
					if _, ok := ff["Type"]; !ok {
						ff["Type"] = T{"s": vocab[goType][0]}
					}
					stub := T{"t": goType, "ptr": true, "f": T{"ID": T{"s": id}, "Type": ff["Type"]}}
					half := cloneTree(full).(T)
					for k := range half["f"].(T) {
						if k != "ID" && k != "Type" && c.R.Bool() {
							delete(half["f"].(T), k)
						}
					}
					// … and copies that lack exactly one property (the comparison reaches that property with one side unset)
					if rep == 0 {
						fdoc := string(c05Present(c.R, sortNLVs(full).(T), stats))
						var keys []string
						for k := range ff {
							if k != "ID" && k != "Type" {
								keys = append(keys, k)
							}
						}
						sort.Strings(keys)
						for _, k := range keys {
							one := cloneTree(full).(T)
							delete(one["f"].(T), k)
							odoc := string(c05Present(c.R, sortNLVs(one).(T), stats))
							runCase(0, []byte(`{"type":"OrderedCollection","id":"https://example.com/c","orderedItems":[`+odoc+`,`+fdoc+`]}`), "copies-but-one/"+goType)
							runCase(0, []byte(`{"type":"OrderedCollection","id":"https://example.com/c","orderedItems":[`+fdoc+`,`+odoc+`]}`), "copies-but-one/"+goType)
						}
					}
					fd, sd, hd := string(c05Present(c.R, sortNLVs(full).(T), stats)), string(c05Present(c.R, stub, stats)), string(c05Present(c.R, sortNLVs(half).(T), stats))
					for _, pair := range [][2]string{{sd, fd}, {fd, sd}, {hd, fd}, {fd, hd}, {sd, hd}} {
						for _, pos := range []string{"orderedItems", "tag", "attributedTo"} {
							runCase(0, []byte(`{"type":"OrderedCollection","id":"https://example.com/c",`+fmt.Sprintf("%q", pos)+`:[`+pair[0]+`,`+pair[1]+`]}`), "copies/"+goType)
						}
						runCase(0, []byte(`[`+pair[0]+`,`+pair[1]+`]`), "copies/"+goType)
					}
				}
			}
		}
		// 2c. hostile scalars in every typed position
		scalars := []string{"", " ", "-", "- ", " -", "-\n", "\t-", "+", "P", "-P", "P ", " P", "PT", "-PT", "P-", "PT-", "P1", "1", "T", "PT1", "PT1.S", "PT.5S", "P1Y2M3DT4H5M6.7S", "PT-1S", "P-1D", "PP", "PTT", "P1S", "PT1D", "P1.5D",
			"Z", "2020", "2020-01-01", "2020-01-01T", "2020-01-01T00:00:00", "9999-99-99T99:99:99Z", "-0001-01-01T00:00:00Z", "T00:00:00Z", "2020-01-01T00:00:00+99:99", "2020-01-01 00:00:00Z",
			"true", "null", "1e5", "0x10", "NaN", "Infinity", "-", "--1", "1-", ".", "1.", ".1", "1e", "١٢٣"}
		terms := []string{"duration", "published", "updated", "startTime", "endTime", "deleted", "latitude", "radius", "totalItems", "startIndex", "closed", "height", "units", "mediaType", "hrefLang", "formerType"}
		for _, term := range terms {
			for _, sc := range scalars {
				for _, typ := range []string{"Note", "Place", "Question", "OrderedCollectionPage", "Link", "Tombstone"} {
					if !c.Thorough() && typ != "Note" && !(typ == "Place" && (term == "latitude" || term == "radius" || term == "units")) && !(typ == "Question" && term == "closed") &&
						!(typ == "OrderedCollectionPage" && (term == "totalItems" || term == "startIndex")) && !(typ == "Link" && (term == "height" || term == "hrefLang")) && !(typ == "Tombstone" && (term == "deleted" || term == "formerType")) {
						continue
					}
					runCase(0, []byte(fmt.Sprintf(`{"type":%q,"id":"https://example.com/x",%q:"%s"}`, typ, term, sc)), "typed-scalars/string")
					if json.Valid([]byte(sc)) {
						runCase(0, []byte(fmt.Sprintf(`{"type":%q,"id":"https://example.com/x",%q:%s}`, typ, term, sc)), "typed-scalars/raw")
					}
				}
			}
		}
		// 3. mutated JSON documents
		jc := c04JSONCorpus(c)
		for i := 0; i < c.N(6000, 200000); i++ {
			doc := jc[c.R.Intn(len(jc))]
			for k := 1 + c.R.Intn(2); k > 0; k-- {
				doc = c04MutateJSON(c.R, doc)
			}
			idx := 0
			if c.R.Chance(40) {
				for {
					idx = c.R.Intn(len(eps))
					if isJSON(eps[idx].name) {
						break
					}
				}
			}
			runCase(idx, doc, "json-mutation")
		}
		// 4. gob streams
		gc := c04GobCorpus(c)
		for i := 0; i < c.N(4000, 150000); i++ {
			b := gc[c.R.Intn(len(gc))]
			if !c.R.Chance(10) {
				b = c04MutateGob(c.R, b)
			}
			idx := 1
			if c.R.Chance(50) {
				for {
					idx = c.R.Intn(len(eps))
					if !isJSON(eps[idx].name) {
						break
					}
				}
			}
			runCase(idx, b, "gob-mutation")
		}
		// 5. the modelled text unmarshalers: correspondence with the Lean models
		alpha := []byte{'"', '\\', 'a'}
		var all [][]byte
		all = append(all, nil)
		for n := 1; n <= 3; n++ {
			cnt := 1
			for i := 0; i < n; i++ {
				cnt *= len(alpha)
			}
			for k := 0; k < cnt; k++ {
				s := make([]byte, n)
				x := k
				for i := range s {
					s[i] = alpha[x%len(alpha)]
					x /= len(alpha)
				}
				all = append(all, s)
			}
		}
		for i := 0; i < c.N(300, 5000); i++ {
			all = append(all, genText(c.R))
			q := append([]byte{'"'}, genText(c.R)...)
			if c.R.Bool() {
				q = append(q, '"')
			}
			all = append(all, q)
		}
		for _, name := range []string{"Content", "LangRef", "NaturalLanguageValues"} {
			for _, s := range all {
				r := c04TextModelled(name, s)
				c.Emit(map[string]interface{}{"op": "unmarshalText", "type": name, "s": bytesToInts(s)}, r, true)
				c.Tag("text-model/" + name)
				if m, ok := r.(T); ok && m["panic"] != nil {
					c.Fail("C04/panic:"+name+".UnmarshalText", fmt.Sprintf("%s.UnmarshalText panics on %q: %v", name, s, m["panic"]), map[string]interface{}{"ep": name + ".UnmarshalText", "hex": hex.EncodeToString(s)})
				}
			}
		}
	}
	replayers["C04"] = func(class string, input []byte) string {
		var in map[string]interface{}
		if err := json.Unmarshal(input, &in); err != nil {
			return "bad replay input"
		}
		if tw := asList(in["twin"]); len(tw) == 5 {
			proc, err := c04Start()
			if err != nil {
				return "cannot start child"
			}
			defer func() { proc.kill() }()
			typ, prop, pos := tw[0].(string), tw[1].(string), tw[2].(string)
			measure := func(depth int) int64 {
				best := int64(-1)
				for try := 0; try < 2; try++ {
					res, dead := proc.run(0, c04Twin(typ, prop, pos, depth), 20*time.Second, "nogob")
					if dead != "" {
						proc.kill()
						proc, _ = c04Start()
						return 1 << 40
					}
					if best < 0 || res.Ms < best {
						best = res.Ms
					}
				}
				return best
			}
			d1, d2 := int(num(tw[3])), int(num(tw[4]))
			t1, t2 := measure(d1), measure(d2)
			if t2 >= 40 && t2 > 6*maxInt64(t1, 1) {
				return fmt.Sprintf("UnmarshalJSON: two equal %s members nested through %q: %d ms at depth %d against %d ms at depth %d", typ, prop, t2, d2, t1, d1)
			}
			return ""
		}
		hxs, ok := in["hex"].(string)
		if !ok {
			return "" // generated oversize input: not replayable from the record
		}
		data, _ := hex.DecodeString(hxs)
		eps := c04EntryPoints()
		for i, ep := range eps {
			if ep.name == in["ep"] {
				proc, err := c04Start()
				if err != nil {
					return "cannot start child"
				}
				defer proc.kill()
				res, dead := proc.run(i, data, 20*time.Second)
				if dead != "" {
					return ep.name + ": " + dead
				}
				if strings.HasPrefix(res.R, "panic") {
					return ep.name + " " + res.R
				}
				if res.Follow != "" {
					return ep.name + " returned a value on which " + res.Follow + " panics"
				}
				if res.Ms > 2000 {
					return fmt.Sprintf("%s took %d ms", ep.name, res.Ms)
				}
				return ""
			}
		}
		return "unknown entry point"
	}
}

func minInt(a, b int) int {
	if a < b {
		return a
	}
	return b
}

func maxInt64(a, b int64) int64 {
	if a > b {
		return a
	}
	return b
}
