#!/bin/bash
# Runs go-ap/activitypub's test-suite with the `verif` build tag OFF and compares with BASELINE.json.
export GOFLAGS=-mod=mod GOPROXY=off GOSUMDB=off GOTOOLCHAIN=local
cd /repo || exit 2
go test -mod=mod -json -vet=off -count=1 -timeout 25m ./... > /tmp/baseline_off.$$.json 2>/tmp/baseline_off.$$.err
python3 - /tmp/baseline_off.$$.json <<'PY'
import json,sys
passed=set(); failed=set()
for l in open(sys.argv[1]):
    try: e=json.loads(l)
    except Exception: continue
    if e.get('Test') and e.get('Action') in('pass','fail'):
        (passed if e['Action']=='pass' else failed).add(e['Package']+'::'+e['Test'])
base=json.load(open('/root/.vp/BASELINE.json'))
stable=set(base['stable_pass'])
missing=sorted(stable-passed)
print(f"passed={len(passed)} failed={len(failed)} stable={len(stable)} stable_not_passing={len(missing)}")
for m in missing[:40]: print("  NOT PASSING:",m)
sys.exit(1 if missing else 0)
PY
rc=$?
rm -f /tmp/baseline_off.$$.json /tmp/baseline_off.$$.err
exit $rc
