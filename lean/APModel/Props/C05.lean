/-
C05 — Decoding reads what the document says, and re-encoding is a fixpoint.

The specification of "what the document says" is the same `normJ` as in C01 (`Model/Codec.lean`): a
document written by an independent writer from a value x, under any admissible presentation, must
decode to `normJ x` (the `docDecode` correspondence op: documents are produced by the harness from
value trees with RNG-chosen presentations and serialised by encoding/json; the implementation's
decoded value is compared with the model's `normJ x`).  The read tables that make "none ignored, none
attached to the wrong property" true are the regenerated ones of C01 (`C01_tables`, re-exported below).

Theorems here: the normal form is idempotent on EVERY value tree (so a decoded value, which is in
normal form, is a fixpoint of decode∘encode as specified by C01: v2 = v1 and hence the bytes no longer
change), and every surviving member of a normalised list is itself normal and not nil.
-/
import APModel.Props.C01

namespace APModel.Codec
open APModel

theorem normXItems_ofList (enc : Bool) (L : List Item) (h : ∀ e ∈ L, normX enc e = e ∧ isNilItem e = false) :
    normXItems enc (Items.ofList L) = L := by
  induction L with
  | nil => simp [Items.ofList, normXItems]
  | cons a L ih =>
    have ha := h a List.mem_cons_self
    simp only [Items.ofList, normXItems, ha.1, ha.2]
    rw [ih (fun e he => h e (List.mem_cons_of_mem _ he))]
    simp

theorem collapse_fix (enc : Bool) (L : List Item) (h : ∀ e ∈ L, normX enc e = e ∧ isNilItem e = false) :
    normX enc (collapse L) = collapse L := by
  match L with
  | [] => simp [collapse, normX]
  | [x] => simpa [collapse] using (h x (by simp)).1
  | x :: y :: r =>
    simp only [collapse, normX]
    rw [normXItems_ofList enc _ h]

theorem collapse_nonnil (L : List Item) (hne : L ≠ []) (h : ∀ e ∈ L, isNilItem e = false) :
    isNilItem (collapse L) = false := by
  match L with
  | [] => exact absurd rfl hne
  | [x] => simpa [collapse] using h x (by simp)
  | x :: y :: r => simp [collapse, isNilItem]

mutual
theorem normX_idem (enc : Bool) : ∀ x : Item, normX enc (normX enc x) = normX enc x
  | .nil => by simp [normX]
  | .typedNil _ => by simp [normX]
  | .collNil _ => by simp [normX]
  | .irisNil => by simp [normX]
  | .iri s => by
    simp only [normX]; split <;> simp [normX, *]
  | .iris l => by
    simp only [normX]
    apply collapse_fix enc
    intro e he
    obtain ⟨s, hs, rfl⟩ := List.mem_map.mp he
    have : s.isEmpty = false := by simpa using (List.mem_filter.mp hs).2
    simp [normX, isNilItem, this]
  | .coll _ l => by
    simp only [normX]
    exact collapse_fix enc _ (normXItems_fix enc l)
  | .node k _ fs => by
    have hf := normXFields_idem enc fs
    simp only [normX]
    cases h : normXFields enc fs with
    | nil => simp [normX]
    | cons n v r => rw [h] at hf; simp only [normX, hf]
theorem normXItems_fix (enc : Bool) : ∀ l : Items, ∀ e ∈ normXItems enc l, normX enc e = e ∧ isNilItem e = false
  | .nil => by simp [normXItems]
  | .cons i r => by
    intro e he
    simp only [normXItems] at he
    by_cases hn : isNilItem (normX enc i) = true
    · simp only [hn, if_true] at he
      exact normXItems_fix enc r e he
    · simp only [hn] at he
      rcases List.mem_cons.mp he with rfl | he
      · exact ⟨normX_idem enc i, by simpa using hn⟩
      · exact normXItems_fix enc r e he
theorem normXFields_idem (enc : Bool) : ∀ fs : Fields, normXFields enc (normXFields enc fs) = normXFields enc fs
  | .nil => by simp [normXFields]
  | .cons n v r => by
    simp only [normXFields]
    cases hv : normXVal enc v with
    | none => simp only; exact normXFields_idem enc r
    | some v' =>
      simp only [normXFields, normXVal_fix enc v v' hv, normXFields_idem enc r]
theorem normXVal_fix (enc : Bool) : ∀ (v v' : FVal), normXVal enc v = some v' → normXVal enc v' = some v'
  | .item i, v', h => by
    simp only [normXVal] at h
    by_cases hn : isNilItem (normX enc i) = true
    · simp [hn] at h
    · simp only [hn] at h
      cases h
      simp [normXVal, normX_idem enc i, hn]
  | .items l, v', h => by
    simp only [normXVal] at h
    cases hl : normXItems enc l with
    | nil => simp [hl] at h
    | cons a L =>
      simp only [hl] at h
      cases h
      have hfix := normXItems_fix enc l
      rw [hl] at hfix
      simp only [normXVal]
      rw [normXItems_ofList enc _ hfix]
  | .nlv n, v', h => by
    match n with
    | [] => simp [normXVal] at h
    | [(t, x)] => simp only [normXVal] at h; cases h; cases enc <;> simp [normXVal]
    | a :: b :: r => simp only [normXVal] at h; cases h; simp [normXVal]
  | .time s _ _, v', h => by simp only [normXVal] at h; cases h; simp [normXVal]
  | .record fs, v', h => by
    simp only [normXVal] at h
    cases hf : normXFields enc fs with
    | nil => simp [hf] at h
    | cons n v r =>
      simp only [hf] at h
      cases h
      have := normXFields_idem enc fs
      rw [hf] at this
      simp only [normXVal, this]
  | .dur d, v', h => by simp only [normXVal] at h; cases h; simp [normXVal]
  | .str s, v', h => by simp only [normXVal] at h; cases h; simp [normXVal]
  | .dec6 z, v', h => by simp only [normXVal] at h; cases h; simp [normXVal]
  | .int z, v', h => by simp only [normXVal] at h; cases h; simp [normXVal]
  | .uint n, v', h => by simp only [normXVal] at h; cases h; simp [normXVal]
  | .bool b, v', h => by simp only [normXVal] at h; cases h; simp [normXVal]
end


theorem collapse_isNil (L : List Item) (h : ∀ e ∈ L, isNilItem e = false) : isNilItem (collapse L) = L.isEmpty := by
  match L with
  | [] => simp [collapse, isNilItem]
  | [x] => simpa [collapse] using h x (by simp)
  | x :: y :: r => simp [collapse, isNilItem]

theorem normXItems_nonnil (e : Bool) : ∀ l : Items, ∀ x ∈ normXItems e l, isNilItem x = false := by
  intro l x hx; exact (normXItems_fix e l x hx).2

def fieldsNil : Fields → Bool
  | .nil => true
  | _ => false

mutual
/-- whether a value normalises to nothing does not depend on the direction -/
theorem isNil_normX : ∀ x : Item, isNilItem (normX false x) = isNilItem (normX true x)
  | .nil => by simp [normX]
  | .typedNil _ => by simp [normX]
  | .collNil _ => by simp [normX]
  | .irisNil => by simp [normX]
  | .iri s => by simp [normX]
  | .iris l => by simp [normX]
  | .coll _ l => by
    simp only [normX]
    rw [collapse_isNil _ (normXItems_nonnil false l), collapse_isNil _ (normXItems_nonnil true l)]
    exact isEmpty_normXItems l
  | .node k _ fs => by
    have h := fieldsNil_normX fs
    simp only [normX]
    cases h1 : normXFields false fs <;> cases h2 : normXFields true fs <;> simp_all [isNilItem, fieldsNil]
theorem isEmpty_normXItems : ∀ l : Items, (normXItems false l).isEmpty = (normXItems true l).isEmpty
  | .nil => by simp [normXItems]
  | .cons i r => by
    simp only [normXItems, isNil_normX i]
    by_cases h : isNilItem (normX true i) = true
    · simp [h, isEmpty_normXItems r]
    · simp [h]
theorem fieldsNil_normX : ∀ fs : Fields, fieldsNil (normXFields false fs) = fieldsNil (normXFields true fs)
  | .nil => by simp [normXFields]
  | .cons n v r => by
    have hv := isNone_normXVal v
    have hr := fieldsNil_normX r
    simp only [normXFields]
    cases h1 : normXVal false v <;> cases h2 : normXVal true v
    · simpa using hr
    · simp [h1, h2] at hv
    · simp [h1, h2] at hv
    · simp [fieldsNil]
theorem isNone_normXVal : ∀ v : FVal, (normXVal false v).isNone = (normXVal true v).isNone
  | .item i => by
    simp only [normXVal, isNil_normX i]
    by_cases h : isNilItem (normX true i) = true <;> simp [h]
  | .items l => by
    have h := isEmpty_normXItems l
    simp only [normXVal]
    cases h1 : normXItems false l <;> cases h2 : normXItems true l <;> simp_all
  | .nlv n => by
    match n with
    | [] => simp [normXVal]
    | [(t, x)] => simp [normXVal]
    | a :: b :: r => simp [normXVal]
  | .time s _ _ => by simp [normXVal]
  | .record fs => by
    have h := fieldsNil_normX fs
    simp only [normXVal]
    cases h1 : normXFields false fs <;> cases h2 : normXFields true fs <;> simp_all [fieldsNil]
  | .dur d => by simp [normXVal]
  | .str s => by simp [normXVal]
  | .dec6 z => by simp [normXVal]
  | .int z => by simp [normXVal]
  | .uint n => by simp [normXVal]
  | .bool b => by simp [normXVal]
end

theorem normXItems_ofList_map (L : List Item) (h : ∀ e ∈ L, isNilItem (normX true e) = false) :
    normXItems true (Items.ofList L) = L.map (normX true) := by
  induction L with
  | nil => simp [Items.ofList, normXItems]
  | cons a L ih =>
    simp only [Items.ofList, normXItems, h a List.mem_cons_self, List.map_cons]
    rw [ih (fun e he => h e (List.mem_cons_of_mem _ he))]
    simp

theorem normJ_collapse (L : List Item) (h : ∀ e ∈ L, isNilItem (normX true e) = false) :
    normX true (collapse L) = collapse (L.map (normX true)) := by
  match L with
  | [] => simp [collapse, normX]
  | [x] => simp [collapse]
  | x :: y :: r =>
    simp only [collapse, normX]
    rw [normXItems_ofList_map _ h]

theorem nonnil_after (l : Items) : ∀ e ∈ normXItems false l, isNilItem (normX true e) = false := by
  intro e he
  have := normXItems_fix false l e he
  rw [← isNil_normX e, this.1]; exact this.2

mutual
/-- normalising for the encoder after normalising a document's value is normalising for the encoder -/
theorem normJ_normD : ∀ x : Item, normX true (normX false x) = normX true x
  | .nil => by simp [normX]
  | .typedNil _ => by simp [normX]
  | .collNil _ => by simp [normX]
  | .irisNil => by simp [normX]
  | .iri s => by
    simp only [normX]; split <;> simp [normX, *]
  | .iris l => by
    simp only [normX]
    apply collapse_fix
    intro e he
    obtain ⟨s, hs, rfl⟩ := List.mem_map.mp he
    have : s.isEmpty = false := by simpa using (List.mem_filter.mp hs).2
    simp [normX, isNilItem, this]
  | .coll _ l => by
    simp only [normX]
    rw [normJ_collapse _ (nonnil_after l), normJItems_normD l]
  | .node k _ fs => by
    have hf := normJFields_normD fs
    simp only [normX]
    cases h : normXFields false fs with
    | nil => rw [h] at hf; simp [normXFields] at hf; simp [normX, ← hf]
    | cons n v r => rw [h] at hf; simp only [normX, hf]
theorem normJItems_normD : ∀ l : Items, (normXItems false l).map (normX true) = normXItems true l
  | .nil => by simp [normXItems]
  | .cons i r => by
    simp only [normXItems, isNil_normX i]
    by_cases h : isNilItem (normX true i) = true
    · simp [h, normJItems_normD r]
    · simp [h, normJ_normD i, normJItems_normD r]
theorem normJFields_normD : ∀ fs : Fields, normXFields true (normXFields false fs) = normXFields true fs
  | .nil => by simp [normXFields]
  | .cons n v r => by
    have hv := normJVal_normD v
    simp only [normXFields]
    cases h : normXVal false v with
    | none =>
      rw [h] at hv; simp only [Option.bind] at hv
      rw [← hv]; exact normJFields_normD r
    | some v' =>
      rw [h] at hv; simp only [Option.bind] at hv
      simp only [normXFields, hv, normJFields_normD r]
theorem normJVal_normD : ∀ v : FVal, (normXVal false v).bind (normXVal true) = normXVal true v
  | .item i => by
    simp only [normXVal, isNil_normX i]
    by_cases h : isNilItem (normX true i) = true
    · simp [h]
    · simp [h, normXVal, normJ_normD i]
  | .items l => by
    simp only [normXVal]
    have hm := normJItems_normD l
    cases hl : normXItems false l with
    | nil => rw [hl] at hm; simp at hm; simp [hm]
    | cons a L =>
      have hnn := nonnil_after l
      rw [hl] at hm hnn
      simp only [Option.bind, normXVal]
      rw [normXItems_ofList_map _ hnn, hm]
  | .nlv n => by
    match n with
    | [] => simp [normXVal]
    | [(t, x)] => simp [normXVal]
    | a :: b :: r => simp [normXVal]
  | .time s _ _ => by simp [normXVal]
  | .record fs => by
    simp only [normXVal]
    have hf := normJFields_normD fs
    cases h : normXFields false fs with
    | nil => rw [h] at hf; simp [normXFields] at hf; simp [← hf]
    | cons n v r =>
      rw [h] at hf
      simp only [Option.bind, normXVal, hf]
  | .dur d => by simp [normXVal]
  | .str s => by simp [normXVal]
  | .dec6 z => by simp [normXVal]
  | .int z => by simp [normXVal]
  | .uint n => by simp [normXVal]
  | .bool b => by simp [normXVal]
end


/-- C05 fixpoint, on the specification: normalising twice is normalising once, for every value tree. -/
theorem C05_fixpoint (x : Item) : normJ (normJ x) = normJ x ∧ normD (normD x) = normD x :=
  ⟨normX_idem true x, normX_idem false x⟩

/-- hence a second encode→decode of an already decoded value changes nothing: with `rt` standing for
any function that agrees with the normal form (the implementation's decode∘encode, by the C01
correspondence), rt (rt x) = rt x. -/
theorem C05_second_round_trip (rt : Item → Item) (h : ∀ x, rt x = normJ x) (x : Item) : rt (rt x) = rt x := by
  rw [h, h]; exact normX_idem true x

/-- The chain the property describes, on the specification: v1 = what the document says (normD x),
v2 = decode(encode(v1)) = normJ v1.  Then v2 is what C01 prescribes for x itself, and v2 is a fixpoint:
decoding its encoding changes nothing any more. -/
theorem C05_chain (x : Item) :
    normJ (normD x) = normJ x ∧ normJ (normJ (normD x)) = normJ (normD x) :=
  ⟨normJ_normD x, normX_idem true (normD x)⟩

/-- the read side of C05 rests on the same regenerated tables as C01 -/
theorem C05_tables : ∀ name ∈ jsonEntries.map (·.1),
    tablesAgree pairJ (schemaOf name) (jsonW name) (jsonR name) = true := jsonEntries_names

/-! non-vacuity: a value that is not in normal form (value struct, tagged lone text, zoned instant,
one-element list in a single-item position) and its normal form -/
example : (normJ (.node .object false (.cons "Name" (.nlv [([101, 110], [120])])
      (.cons "Published" (.time 1700000000 5 7200) (.cons "Icon" (.item (.coll false (.cons (.iri [104]) .nil))) .nil))))).beq
    (.node .object true (.cons "Name" (.nlv [(dash, [120])])
      (.cons "Published" (.time 1700000000 0 0) (.cons "Icon" (.item (.iri [104])) .nil)))) = true := by
  simp [normJ, normX, normXFields, normXVal, normXItems, collapse, isNilItem, Item.beq, Fields.beq, FVal.beq, dash]

end APModel.Codec

namespace APModel.Deep
open APModel APModel.Codec

/-- C05 fixpoint on the deep model (the library's writer and reader on JSON trees, with the regenerated
tables): take ANY JSON document j; if the value d it decodes to is well formed (and so is its normal
form), then encoding d and decoding again yields the normal form of d, and doing it once more changes
nothing — the second round trip is the identity on what the first produced. -/
theorem C05_deep_fixpoint (j : J) (h1 : wfItem envJson (readTop envJson j) = true)
    (h2 : wfItem envJson (normJ (readTop envJson j)) = true) :
    roundTrip envJson (readTop envJson j) = normJ (readTop envJson j) ∧
    roundTrip envJson (roundTrip envJson (readTop envJson j)) = roundTrip envJson (readTop envJson j) := by
  have e1 := C01_deep _ h1
  refine ⟨e1, ?_⟩
  rw [e1, C01_deep _ h2]
  exact normX_idem true _

/-! ### documents that did not come from this library: presentations

An independent writer is free in how it presents a value.  `present bare asMap` is the library's own
reader (`envJson`'s read tables, untouched) facing a writer that differs from the library's in the two
dimensions the format leaves open:

  * a list-valued property with one member is written as that member alone (`bare sn n = true`) or as an
    array of one (`false`) — chosen per struct and property by an ARBITRARY function;
  * a single language-tagged text is written as a one-entry language map under `<term>Map`
    (`asMap = true`, the tag survives) or as a plain string (`false`, the library's own choice).

(Member order and unknown members are not part of this theorem: they are covered by the `docDecode`
correspondence only.) -/
def presentRow (bare : Bool) (kind : String) (w : WRow) : WRow :=
  if kind == "items" then
    { w with helper := if bare then "JSONWriteItemProp" else "JSONWriteItemCollectionProp" }
  else w

def present (bare : String → String → Bool) (asMap : Bool) : Env :=
  { envJson with
    wrow := fun sn n => (envJson.wrow sn n).map (presentRow (bare sn n) (envJson.fieldKind sn n))
    loneTagAsMap := asMap }

theorem deepPair_items_swap (hw hr : String) (b : Bool) (h : deepPair "items" hw hr = true) :
    deepPair "items" (if b then "JSONWriteItemProp" else "JSONWriteItemCollectionProp") hr = true := by
  have e1 : isStrKind "items" = false := by decide
  simp only [deepPair, e1, Bool.false_eq_true, if_false] at h ⊢
  have e2 : ("items" == "item") = false := by decide
  simp only [e2, Bool.false_eq_true, if_false, beq_self_eq_true, if_true, Bool.and_eq_true] at h ⊢
  refine ⟨?_, h.2⟩
  cases b <;> simp

/-- the tables fit for every presentation: a field that is coherent for the library's writer is
coherent for any `present bare asMap` -/
theorem coherent_present (bare : String → String → Bool) (asMap : Bool) (sn n : String)
    (h : coherentField envJson sn n = true) : coherentField (present bare asMap) sn n = true := by
  unfold coherentField at h ⊢
  show (match (envJson.wrow sn n).map (presentRow (bare sn n) (envJson.fieldKind sn n)) with
    | none => false
    | some w =>
      let kind := envJson.fieldKind sn n
      guardFits w.guard kind &&
      (match envJson.rrow sn (nm w.term) with
       | some r => r.field == n && deepPair kind w.helper r.helper
       | none => false) &&
      (kind != "nlv" ||
        ((envJson.rrow sn (nm (w.term ++ "Map"))).isNone &&
         (match envJson.rrowMap sn (nm (w.term ++ "Map")) with
          | some r => r.field == n
          | none => false)))) = true
  cases hw : envJson.wrow sn n with
  | none => simp [hw] at h
  | some w =>
    simp only [hw, Option.map_some] at h ⊢
    by_cases hk : (envJson.fieldKind sn n == "items") = true
    · have hk' : envJson.fieldKind sn n = "items" := by simpa using hk
      simp only [presentRow, hk, if_true]
      simp only [hk'] at h ⊢
      simp only [Bool.and_eq_true] at h ⊢
      refine ⟨⟨h.1.1, ?_⟩, h.2⟩
      cases hr : envJson.rrow sn (nm w.term) with
      | none => simp [hr] at h
      | some r =>
        have h2 := h.1.2
        simp only [hr, Bool.and_eq_true] at h2 ⊢
        exact ⟨h2.1, deepPair_items_swap _ _ _ h2.2⟩
    · simp only [presentRow, hk, Bool.false_eq_true, if_false]
      exact h

theorem C05_tables_present (bare : String → String → Bool) (asMap : Bool) :
    jsonEntries.all (fun e => (schemaOf e.1).all (fun f => coherentField (present bare asMap) e.1 f.1)) = true := by
  have h := C01_deep_tables
  simp only [List.all_eq_true] at h ⊢
  intro e he f hf
  exact coherent_present bare asMap _ _ (h e he f hf)

/-- C05, "decoding reads what the document says", over presentations: for EVERY choice of bare-vs-array
per property, either presentation of single tagged texts, and EVERY value tree well formed for that
presentation, the library's reader applied to the presented document yields the decode normal form:
`normJ` when the tag was dropped by the writer, `normD` (tags kept) when it was presented as a map. -/
theorem present_same_reader (bare : String → String → Bool) (asMap : Bool) :
    SameReader (present bare asMap) envJson := ⟨rfl, rfl, rfl, rfl, rfl, rfl⟩

/-- what the library's reader makes of the document an independent writer produced for `x` -/
def readPresented (bare : String → String → Bool) (asMap : Bool) (x : Item) : Item :=
  match writeItem (present bare asMap) x with
  | none => .nil
  | some j => readTop envJson j

/-- C05, "decoding reads what the document says", over presentations: for EVERY choice of bare-vs-array
per property, either presentation of single tagged texts, and EVERY value tree well formed for that
presentation, the library's reader (`readTop envJson`) applied to the presented document yields the
decode normal form: `normJ` when the writer dropped the tag, `normD` (tags kept) when it presented it
as a map. -/
theorem C05_presentations (bare : String → String → Bool) (asMap : Bool) (x : Item)
    (h : wfItem (present bare asMap) x = true) :
    readPresented bare asMap x = (if asMap then normD x else normJ x) := by
  have e := deep_roundtrip (present bare asMap) x h
  have e2 : enc (present bare asMap) = !asMap := rfl
  rw [e2] at e
  unfold roundTrip at e
  unfold readPresented
  cases hw : writeItem (present bare asMap) x with
  | none => rw [hw] at e; cases asMap <;> simpa [normJ, normD] using e
  | some j =>
    rw [hw] at e
    simp only at e ⊢
    rw [← readTop_ext _ _ (present_same_reader bare asMap) j, e]
    cases asMap <;> simp [normJ, normD]

/-! non-vacuity: the sample Create of C01, with its single-member tag list presented bare and a lone
French title presented as a language map, is well formed for that presentation; and the presented
document really differs from the library's own -/
def sampleDoc : Item := .node .object false
  (.cons "ID" (.str (nm "https://example.com/n/1")) (.cons "Type" (.str (nm "Note"))
  (.cons "Name" (.nlv [(nm "fr", nm "bonjour")])
  (.cons "To" (.items (.cons (.iri (nm "https://example.com/a")) .nil)) .nil))))
theorem sampleDoc_wf : wfItem (present (fun _ _ => true) true) sampleDoc = true := by decide +kernel
example : readPresented (fun _ _ => true) true sampleDoc = normD sampleDoc := by
  simpa using C05_presentations _ true _ sampleDoc_wf
def hasMember (j : Option J) (name : String) : Bool :=
  match j with
  | some (.obj ms) => (JMembers.get? ms (nm name)).isSome
  | _ => false
example : hasMember (writeItem (present (fun _ _ => true) true) sampleDoc) "nameMap" = true
    ∧ hasMember (writeItem envJson sampleDoc) "nameMap" = false
    ∧ hasMember (writeItem envJson sampleDoc) "name" = true := by decide +kernel

/-- "none ignored, none attached to the wrong property" has a converse the reader must also meet: a member
the vocabulary does not know is NOT attached to any property.  For the regenerated read tables: an object
with an `@context` member (any value, any position) decodes exactly as without it; and the same holds
for every member name that no read row of any struct mentions. -/
theorem C05_context_ignored (n : Nat) (j : J) (ms : JMembers) :
    loadItem envJson (.obj (JMembers.insertAt n (nm "@context") j ms)) = loadItem envJson (.obj ms) := by
  apply loadItem_insert_unknown envJson (nm "@context") j (by decide +kernel)
  intro k
  cases k <;> decide +kernel

theorem C05_unknown_member_ignored (name : Str) (hne : name ≠ nm "type")
    (h : ∀ k : Kind, envJson.rrow k.goName name = none ∧ envJson.rrowMap k.goName name = none)
    (n : Nat) (j : J) (ms : JMembers) :
    loadItem envJson (.obj (JMembers.insertAt n name j ms)) = loadItem envJson (.obj ms) :=
  loadItem_insert_unknown envJson name j hne h n ms

/-- **member order of a document**: JSON objects are unordered.  Two objects holding the same members
in any order, of which no two are attached to the same property (a term next to its own `<term>Map` is the
one case excluded), are read by the library's reader to values that hold the same in every property. -/
theorem C05_member_order (sn : String) (ms ms' : JMembers)
    (hp : (JMembers.toList ms).Perm (JMembers.toList ms'))
    (hn : (((JMembers.toList ms).filterMap (fun p => readMember envJson sn p.1 p.2)).map Prod.fst).Nodup)
    (f : String) : (readFields envJson sn ms').get? f = (readFields envJson sn ms).get? f :=
  readFields_perm envJson sn ms ms' hp hn f

end APModel.Deep
