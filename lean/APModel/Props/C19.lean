/-
C19 — Language-value containers behave as ordered maps from language tag to text.

Property theorems only (model: `Model/NLV.lean`, tied to natural_language_values.go by the
`nlv` / `nlvEquals` correspondence ops).
-/
import APModel.Model.NLV
import Batteries.Data.List.Perm

namespace APModel.NLV
open List

set_option linter.unusedSectionVars false
variable {τ γ : Type} [DecidableEq τ] [DecidableEq γ]

/-! ### helper lemmas (local to this file, none of them weakens a property statement) -/

theorem get_replaceAll_same (n : NLV τ γ) (t : τ) (v : γ) (h : hasTag n t = true) :
    get (replaceAll n t v) t = some v := by
  induction n with
  | nil => simp [hasTag] at h
  | cons e r ih =>
    obtain ⟨t', v'⟩ := e
    by_cases ht : t' = t
    · simp [replaceAll, get, ht]
    · simp [hasTag, ht] at h
      simp [replaceAll, get, ht, ih h]

theorem get_replaceAll_other (n : NLV τ γ) (t t' : τ) (v : γ) (hne : t' ≠ t) :
    get (replaceAll n t v) t' = get n t' := by
  induction n with
  | nil => rfl
  | cons e r ih =>
    obtain ⟨t0, v0⟩ := e
    by_cases ht : t0 = t
    · subst ht
      have : ¬ t0 = t' := fun h => hne h.symm
      simp [replaceAll, get, this, ih]
    · simp [replaceAll, get, ht, ih]

theorem get_append (n : NLV τ γ) (t t' : τ) (v : γ) :
    get (append n t v) t' = match get n t' with
      | some x => some x
      | none => if t = t' then some v else none := by
  induction n with
  | nil => simp [append, get]
  | cons e r ih =>
    obtain ⟨t0, v0⟩ := e
    by_cases ht : t0 = t'
    · simp [append, get, ht]
    · simp only [append, List.cons_append, get, ht, if_false]
      exact ih

theorem hasTag_false_get (n : NLV τ γ) (t : τ) (h : hasTag n t = false) : get n t = none := by
  induction n with
  | nil => rfl
  | cons e r ih =>
    obtain ⟨t0, v0⟩ := e
    simp [hasTag] at h
    simp [get, h.1, ih h.2]

theorem hasTag_iff_get (n : NLV τ γ) (t : τ) : hasTag n t = true ↔ (get n t).isSome = true := by
  induction n with
  | nil => simp [hasTag, get]
  | cons e r ih =>
    obtain ⟨t0, v0⟩ := e
    by_cases ht : t0 = t <;> simp [hasTag, get, ht, ih]

theorem replaceAll_length (n : NLV τ γ) (t : τ) (v : γ) : (replaceAll n t v).length = n.length := by
  induction n with
  | nil => rfl
  | cons e r ih => obtain ⟨t0, v0⟩ := e; simp [replaceAll, ih]

theorem replaceAll_tags (n : NLV τ γ) (t : τ) (v : γ) :
    (replaceAll n t v).map Prod.fst = n.map Prod.fst := by
  induction n with
  | nil => rfl
  | cons e r ih =>
    obtain ⟨t0, v0⟩ := e
    by_cases ht : t0 = t <;> simp [replaceAll, ht, ih]

/-! ### property theorems -/

/-- Set(tag, v) makes Get(tag) return v — for every container, tag and text. -/
theorem C19_get_set (n : NLV τ γ) (t : τ) (v : γ) : get (set n t v) t = some v := by
  unfold set
  cases h : hasTag n t
  · simp [get_append, hasTag_false_get n t h]
  · simp [get_replaceAll_same n t v h]

/-- Set(tag, v) leaves every other tag's text unchanged. -/
theorem C19_set_frame (n : NLV τ γ) (t t' : τ) (v : γ) (hne : t' ≠ t) :
    get (set n t v) t' = get n t' := by
  unfold set
  cases h : hasTag n t
  · have : ¬ t = t' := fun h => hne h.symm
    simp only [Bool.false_eq_true, if_false, get_append, this]
    cases get n t' <;> rfl
  · simp [get_replaceAll_other n t t' v hne]

/-- Set keeps the order of entries (the sequence of tags is the old one, possibly followed by the
new tag) … -/
theorem C19_set_order (n : NLV τ γ) (t : τ) (v : γ) :
    (set n t v).map Prod.fst = n.map Prod.fst ++ (if hasTag n t then [] else [t]) := by
  unfold set
  cases h : hasTag n t <;> simp [append, replaceAll_tags]

/-- … leaves every entry with another tag in its place … -/
theorem C19_set_entries (n : NLV τ γ) (t : τ) (v : γ) (i : Nat) (e : τ × γ)
    (hi : n[i]? = some e) (hne : e.1 ≠ t) : (set n t v)[i]? = some e := by
  unfold set
  cases h : hasTag n t
  · simp only [Bool.false_eq_true, if_false, append]
    rw [List.getElem?_append_left]
    · exact hi
    · exact (List.getElem?_eq_some_iff.mp hi).1
  · simp only [if_true]
    clear h
    induction n generalizing i with
    | nil => simp at hi
    | cons e0 r ih =>
      obtain ⟨t0, v0⟩ := e0
      cases i with
      | zero =>
        simp at hi
        subst hi
        simp at hne
        simp [replaceAll, hne]
      | succ j =>
        simp at hi
        simp [replaceAll, ih j hi]

/-- … and grows the list by at most one (by exactly one iff the tag was absent). -/
theorem C19_set_length (n : NLV τ γ) (t : τ) (v : γ) :
    (set n t v).length = n.length + (if hasTag n t then 0 else 1) := by
  unfold set
  cases h : hasTag n t <;> simp [append, replaceAll_length]

/-- Get returns the text of the *first* entry with that tag, `none` if there is none. -/
theorem C19_get_first (n : NLV τ γ) (t : τ) :
    get n t = (n.find? (fun e => decide (e.1 = t))).map Prod.snd := by
  induction n with
  | nil => rfl
  | cons e r ih =>
    obtain ⟨t0, v0⟩ := e
    by_cases ht : t0 = t <;> simp [get, List.find?, ht, ih]

/-- Count is the number of entries and First is the first entry, after any history. -/
theorem C19_count_first (n : NLV τ γ) (ops : List (Op τ γ)) :
    (step (run n ops) .count).2 = .nat (run n ops).length ∧
    (step (run n ops) .first).2 = .entry (run n ops)[0]? := by
  simp [step, count, first, List.head?_eq_getElem?]

/-- The ordered-map specification: a function from tag to text; `set` overrides, `append` binds
only an unbound tag (first entry wins). -/
def specStep (m : τ → Option γ) : Op τ γ → (τ → Option γ)
  | .set t v => fun t' => if t' = t then some v else m t'
  | .append t v => fun t' => if t' = t then (match m t with | some x => some x | none => some v) else m t'
  | _ => m

def specRun (m : τ → Option γ) : List (Op τ γ) → (τ → Option γ)
  | [] => m
  | op :: ops => specRun (specStep m op) ops

theorem step_refines (n : NLV τ γ) (op : Op τ γ) :
    get (step n op).1 = specStep (get n) op := by
  funext t'
  cases op with
  | get t => rfl
  | count => rfl
  | first => rfl
  | set t v =>
    simp only [step, specStep]
    by_cases h : t' = t
    · subst h; simp [C19_get_set]
    · simp [h, C19_set_frame n t t' v h]
  | append t v =>
    simp only [step, specStep, get_append]
    by_cases h : t' = t
    · subst h; simp
    · have : ¬ t = t' := fun e => h e.symm
      simp [h, this]; cases get n t' <;> rfl

/-- Refinement: for every history of Set / Append(Add) / Get / Count / First calls, the lookups
of the container are those of the ordered-map specification driven by the same calls. -/
theorem C19_refines (n : NLV τ γ) (ops : List (Op τ γ)) :
    get (run n ops) = specRun (get n) ops := by
  induction ops generalizing n with
  | nil => rfl
  | cons op ops ih => simp only [run, specRun]; rw [ih, step_refines]

/-- …and each Get output in the history is the specification's answer at that point. -/
theorem C19_get_output (n : NLV τ γ) (ops : List (Op τ γ)) (t : τ) :
    (step (run n ops) (.get t)).2 = .text (specRun (get n) ops t) := by
  simp [step, C19_refines]

def NoRepeatedTags (n : NLV τ γ) : Prop := (n.map Prod.fst).Nodup

instance (n : NLV τ γ) : Decidable (NoRepeatedTags n) := by
  unfold NoRepeatedTags; infer_instance

theorem nodup_of_noRepeatedTags {n : NLV τ γ} (h : NoRepeatedTags n) : n.Nodup := by
  unfold NoRepeatedTags List.Nodup at *
  rw [List.pairwise_map] at h
  exact h.imp (fun hab e => hab (by rw [e]))

theorem equals_iff (a b : NLV τ γ) :
    equals a b = true ↔ a.length = b.length ∧ ∀ e ∈ b, e ∈ a := by
  simp [equals, List.all_eq_true, List.any_eq_true]

/-- Two lists without repeated tags compare equal exactly when they hold the same tag/text
pairs, in any order. -/
theorem C19_equals (a b : NLV τ γ) (ha : NoRepeatedTags a) (hb : NoRepeatedTags b) :
    equals a b = true ↔ ∀ p, p ∈ a ↔ p ∈ b := by
  have hna := nodup_of_noRepeatedTags ha
  have hnb := nodup_of_noRepeatedTags hb
  rw [equals_iff]
  constructor
  · rintro ⟨hl, hsub⟩ p
    have hsp : b <+~ a := List.subperm_of_subset hnb (fun x hx => hsub x hx)
    have hp : b ~ a := hsp.perm_of_length_le (by omega)
    exact (hp.mem_iff).symm
  · intro h
    have h1 : a <+~ b := List.subperm_of_subset hna (fun x hx => (h x).mp hx)
    have h2 : b <+~ a := List.subperm_of_subset hnb (fun x hx => (h x).mpr hx)
    exact ⟨Nat.le_antisymm h1.length_le h2.length_le, fun e he => (h e).mpr he⟩

/-- Equality is reflexive on every list (this is what failed on the pinned tree for lists of
two or more distinct entries, see `C19_pinned_equals_not_reflexive`). -/
theorem C19_equals_refl (a : NLV τ γ) : equals a a = true := by
  rw [equals_iff]; exact ⟨rfl, fun _ h => h⟩

/-- Finding (repaired by a `fix:` commit): the pinned `Equals` was not reflexive. -/
theorem C19_pinned_equals_not_reflexive :
    equalsPinned [("en", "a"), ("fr", "b")] [("en", "a"), ("fr", "b")] = false := by decide

/-! ### the domain of the equality law is what editing through `Set` produces -/

theorem hasTag_false_not_mem (n : NLV τ γ) (t : τ) (h : hasTag n t = false) :
    t ∉ n.map Prod.fst := by
  induction n with
  | nil => simp
  | cons e r ih =>
    obtain ⟨t0, v0⟩ := e
    simp [hasTag] at h
    simp only [List.map_cons, List.mem_cons, not_or]
    exact ⟨fun e => h.1 e.symm, ih h.2⟩

/-- `Set` never introduces a repeated tag: a list without repeated tags stays one. -/
theorem C19_set_noRepeated (n : NLV τ γ) (t : τ) (v : γ) (h : NoRepeatedTags n) :
    NoRepeatedTags (set n t v) := by
  unfold NoRepeatedTags at *
  unfold set
  cases hh : hasTag n t with
  | true => simp only [if_true]; rw [replaceAll_tags]; exact h
  | false =>
    simp only [append, List.map_append, List.map_cons, List.map_nil, Bool.false_eq_true, if_false]
    rw [List.nodup_append]
    refine ⟨h, by simp, ?_⟩
    intro a ha b hb
    simp at hb
    subst hb
    intro e; subst e
    exact hasTag_false_not_mem n a hh ha

/-- an operation other than Append/Add -/
def Op.noAppend : Op τ γ → Bool
  | .append _ _ => false
  | _ => true

/-- Invariant over histories: every container built from the empty one by any sequence of
Set/Get/Count/First calls (no Append/Add) has no repeated tag — so `C19_equals` applies to every
pair of containers edited that way. -/
theorem C19_history_noRepeated (n : NLV τ γ) (ops : List (Op τ γ)) (h : NoRepeatedTags n)
    (hops : ops.all Op.noAppend = true) : NoRepeatedTags (run n ops) := by
  induction ops generalizing n with
  | nil => exact h
  | cons op ops ih =>
    simp only [List.all_cons, Bool.and_eq_true] at hops
    simp only [run]
    apply ih _ _ hops.2
    cases op with
    | set t v => exact C19_set_noRepeated n t v h
    | append t v => simp [Op.noAppend] at hops
    | get t => exact h
    | count => exact h
    | first => exact h

theorem C19_history_from_empty (ops : List (Op τ γ)) (hops : ops.all Op.noAppend = true) :
    NoRepeatedTags (run ([] : NLV τ γ) ops) :=
  C19_history_noRepeated [] ops (by simp [NoRepeatedTags]) hops

/-- On lists without repeated tags the comparison is symmetric … -/
theorem C19_equals_symm (a b : NLV τ γ) (ha : NoRepeatedTags a) (hb : NoRepeatedTags b)
    (h : equals a b = true) : equals b a = true := by
  rw [C19_equals a b ha hb] at h
  rw [C19_equals b a hb ha]
  exact fun p => (h p).symm

/-- … and transitive: with `C19_equals_refl` an equivalence relation there. -/
theorem C19_equals_trans (a b c : NLV τ γ) (ha : NoRepeatedTags a) (hb : NoRepeatedTags b)
    (hc : NoRepeatedTags c) (h1 : equals a b = true) (h2 : equals b c = true) :
    equals a c = true := by
  rw [C19_equals a b ha hb] at h1
  rw [C19_equals b c hb hc] at h2
  rw [C19_equals a c ha hc]
  exact fun p => (h1 p).trans (h2 p)

/-- Equal containers answer every Get alike (the comparison is a congruence for the reads). -/
theorem C19_equals_get (a b : NLV τ γ) (ha : NoRepeatedTags a) (hb : NoRepeatedTags b)
    (h : equals a b = true) (t : τ) : get a t = get b t := by
  rw [C19_equals a b ha hb] at h
  have key : ∀ (n : NLV τ γ), NoRepeatedTags n → ∀ v, get n t = some v ↔ (t, v) ∈ n := by
    intro n hn v
    induction n with
    | nil => simp [get]
    | cons e r ih =>
      obtain ⟨t0, v0⟩ := e
      have hr : NoRepeatedTags r := by
        unfold NoRepeatedTags at *; simp only [List.map_cons, List.nodup_cons] at hn; exact hn.2
      have hnot : t0 ∉ r.map Prod.fst := by
        unfold NoRepeatedTags at hn; simp only [List.map_cons, List.nodup_cons] at hn; exact hn.1
      by_cases ht : t0 = t
      · subst ht
        simp only [get, if_true, Option.some.injEq, List.mem_cons, Prod.mk.injEq, true_and]
        constructor
        · intro e; exact Or.inl e.symm
        · rintro (e | hm)
          · exact e.symm
          · exact absurd (List.mem_map.mpr ⟨(t0, v), hm, rfl⟩) hnot
      · simp only [get, ht, if_false, List.mem_cons, Prod.mk.injEq]
        rw [ih hr]
        constructor
        · intro hm; exact Or.inr hm
        · rintro (⟨e, _⟩ | hm)
          · exact absurd e.symm ht
          · exact hm
  cases hga : get a t with
  | none =>
    cases hgb : get b t with
    | none => rfl
    | some v =>
      have := (key a ha v).mpr ((h (t, v)).mpr ((key b hb v).mp hgb))
      rw [hga] at this; cases this
  | some v =>
    exact ((key b hb v).mpr ((h (t, v)).mp ((key a ha v).mp hga))).symm

/-! ### non-vacuity -/
example : NoRepeatedTags [("en", "a"), ("fr", "b")] := by decide
example : equals [("en", "a"), ("fr", "b")] [("fr", "b"), ("en", "a")] = true := by decide
example : get (set [("en", "a"), ("-", "x"), ("en", "c")] "en" "z") "en" = some "z" := by decide
example : ([Op.set "en" "a", Op.get "en", Op.set "fr" "b", Op.set "en" "c"] : List (Op String String)).all
    Op.noAppend = true := by decide

end APModel.NLV
