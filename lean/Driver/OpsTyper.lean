import Driver.Util
import Driver.Value
import APModel.Model.Typer
open Lean APModel.Typer APModel.IRI

namespace Driver

def optStrJ : Option Str → Json
  | some s => Json.str (str8s s)
  | none => Json.null

def opTyper (j : Json) : R Json := do
  let f ← strF j "f"
  match f with
  | "iriF" => return Json.str (str8s (iriF (utf8s (← strF j "o")) (utf8s (← strF j "c"))))
  | "split" =>
    match split collectionNames (utf8s (← strF j "i")) with
    | some (o, c) => return jarr [Json.str (str8s o), Json.str (str8s c)]
    | none => return Json.mkObj [("outside", Json.bool true)]
  | "ofActor" => return optStrJ (ofActor (utf8s (← strF j "c")) (utf8s (← strF j "i")))
  | "validIRI" =>
    match validCollectionIRI (utf8s (← strF j "i")) with
    | some b => return Json.bool b
    | none => return Json.mkObj [("outside", Json.bool true)]
  | "of" =>
    let explicit ← match j.getObjVal? "explicit" with
      | .ok (Json.str s) => pure (some (utf8s s))
      | _ => pure none
    return optStrJ (ofValue (utf8s (← strF j "c")) (← boolF j "actorType") (utf8s (← strF j "id")) explicit)
  | _ => throw "typer op"

end Driver
