package main

import (
	"encoding/json"
	"fmt"
	"math/big"
	"math/rand"
	"reflect"
	"sort"
	"time"

	ap "github.com/go-ap/activitypub"
)

// C17 — ItemOrderTimestamp is a strict weak order consistent with max(published, updated).

type ordItem struct {
	GoType string   `json:"t"` // "" = untyped nil
	Ptr    bool     `json:"ptr"`
	Nil    bool     `json:"nil"` // typed nil pointer
	Pub    [3]int64 `json:"pub"` // sec, nsec, zone offset; zero time = {-62135596800,0,0}
	Upd    [3]int64 `json:"upd"`
	// Other, when not zero, fills every other instant the type has (startTime, endTime, a tombstone's deleted)
	// with an instant that many seconds away from the later of published/updated: the order ignores them
	Other int64 `json:"other,omitempty"`
}

func mkTime(p [3]int64) time.Time {
	if p[0] == -62135596800 && p[1] == 0 {
		return time.Time{}
	}
	t := time.Unix(p[0], p[1])
	if p[2] == 0 {
		return t.UTC()
	}
	return t.In(time.FixedZone("", int(p[2])))
}

func (o ordItem) item() ap.Item {
	if o.GoType == "" {
		return nil
	}
	rt := goTypes[o.GoType]
	if o.Nil {
		return reflect.Zero(reflect.PtrTo(rt)).Interface().(ap.Item)
	}
	pv := reflect.New(rt)
	pv.Elem().FieldByName("Published").Set(reflect.ValueOf(mkTime(o.Pub)))
	pv.Elem().FieldByName("Updated").Set(reflect.ValueOf(mkTime(o.Upd)))
	pv.Elem().FieldByName("ID").SetString("https://example.com/o")
	if o.Other != 0 {
		_, k := o.key()
		other := time.Unix(k[0]+o.Other, k[1]).UTC()
		tt := reflect.TypeOf(time.Time{})
		for i := 0; i < rt.NumField(); i++ {
			if f := rt.Field(i); f.Type == tt && f.Name != "Published" && f.Name != "Updated" {
				pv.Elem().Field(i).Set(reflect.ValueOf(other))
			}
		}
	}
	if o.Ptr {
		return pv.Interface().(ap.Item)
	}
	return pv.Elem().Interface().(ap.Item)
}

func (o ordItem) isNil() bool { return o.GoType == "" || o.Nil }

// abstract view sent to the model: null or [pubSec,pubNsec,updSec,updNsec]
func (o ordItem) abs() interface{} {
	if o.isNil() {
		return nil
	}
	return []int64{o.Pub[0], o.Pub[1], o.Upd[0], o.Upd[1]}
}

// independent key: (isObject, later instant as (sec,nsec))
func (o ordItem) key() (bool, [2]int64) {
	if o.isNil() {
		return false, [2]int64{}
	}
	p, u := [2]int64{o.Pub[0], o.Pub[1]}, [2]int64{o.Upd[0], o.Upd[1]}
	if u[0] > p[0] || (u[0] == p[0] && u[1] > p[1]) {
		return true, u
	}
	return true, p
}

func keyAfter(a, b [2]int64) bool { return a[0] > b[0] || (a[0] == b[0] && a[1] > b[1]) }

// specBefore: nil before any object; otherwise later key first.
func specBefore(a, b ordItem) bool {
	ao, ak := a.key()
	bo, bk := b.key()
	if !ao {
		return bo
	}
	if !bo {
		return false
	}
	return keyAfter(ak, bk)
}

func implOrder(a, b ordItem) (res bool, pan string) {
	p, msg := guard(func() { res = ap.ItemOrderTimestamp(a.item(), b.item()) })
	if p {
		return false, msg
	}
	return res, ""
}

var zeroT = [3]int64{-62135596800, 0, 0}

func c17Pool(r *RNG, n int) []ordItem {
	instants := [][3]int64{zeroT, {1700000000, 0, 0}, {1700000000, 0, 3600}, {1700000000, 500, 0}, {1700000001, 0, -18000},
		{1600000000, 999999999, 0}, {0, 0, 0}, {-1, 0, 0}, {1800000000, 1, 7200},
		// instants far from the present (outside what fits a count of nanoseconds in 64 bits)
		{-8520336000, 0, 0}, {-11644473600, 0, 0}, {10413792000, 0, 0}, {253402300799, 0, 0}, {-62135510400, 0, 0}}
	var pool []ordItem
	pool = append(pool, ordItem{}) // untyped nil
	// every object type in both forms at least once, with pairwise different instants
	for ti, gt := range objectGoTypes {
		for pi, ptr := range []bool{true, false} {
			o := ordItem{GoType: gt, Ptr: ptr}
			o.Pub = [3]int64{1500000000 + int64(ti*1000+pi*10), 0, 0}
			o.Upd = zeroT
			if (ti+pi)%3 == 0 {
				o.Upd = [3]int64{1500000000 + int64(ti*1000+pi*10) + 5, 0, 3600}
			}
			if (ti+pi)%2 == 0 {
				o.Other = 400000000 // later than every published/updated of these entries
			}
			pool = append(pool, o)
		}
	}
	for i := 0; i < n; i++ {
		o := ordItem{GoType: objectGoTypes[r.Intn(len(objectGoTypes))], Ptr: r.Bool()}
		if r.Chance(8) {
			o.Ptr, o.Nil = true, true
		}
		pick := func() [3]int64 {
			if r.Chance(70) {
				return instants[r.Intn(len(instants))]
			}
			return [3]int64{int64(r.Intn(2000000000)) - 100000000, int64(r.Intn(1000000000)), int64(r.Intn(25)-12) * 3600}
		}
		o.Pub, o.Upd = pick(), pick()
		if o.Nil {
			o.Pub, o.Upd = zeroT, zeroT
		} else if r.Chance(40) {
			o.Other = []int64{3600, 86400 * 365, -3600, 400000000, 1}[r.Intn(5)]
		}
		pool = append(pool, o)
	}
	return pool
}

func c17Triple(c *Ctx, a, b, x ordItem) string {
	ord := func(p, q ordItem) bool {
		r, pan := implOrder(p, q)
		if pan != "" {
			panic(pan)
		}
		return r
	}
	var viol string
	pan, msg := guard(func() {
		for _, p := range []ordItem{a, b, x} {
			if ord(p, p) {
				viol = "not irreflexive"
				return
			}
		}
		pairs := [][2]ordItem{{a, b}, {b, a}, {a, x}, {x, a}, {b, x}, {x, b}}
		for _, pq := range pairs {
			if got, want := ord(pq[0], pq[1]), specBefore(pq[0], pq[1]); got != want {
				viol = fmt.Sprintf("ItemOrderTimestamp=%v but the later-instant rule says %v", got, want)
				return
			}
			if ord(pq[0], pq[1]) && ord(pq[1], pq[0]) {
				viol = "not asymmetric"
				return
			}
		}
		perms := [][3]ordItem{{a, b, x}, {a, x, b}, {b, a, x}, {b, x, a}, {x, a, b}, {x, b, a}}
		for _, t := range perms {
			if ord(t[0], t[1]) && ord(t[1], t[2]) && !ord(t[0], t[2]) {
				viol = "not transitive"
				return
			}
			inc := func(p, q ordItem) bool { return !ord(p, q) && !ord(q, p) }
			if inc(t[0], t[1]) && inc(t[1], t[2]) && !inc(t[0], t[2]) {
				viol = "incomparability not transitive"
				return
			}
		}
	})
	if pan {
		return "panic: " + msg
	}
	return viol
}

func c17Sort(items []ordItem, shuffleSeed int64) string {
	col := make(ap.ItemCollection, len(items))
	idx := make([]int, len(items))
	for i := range idx {
		idx[i] = i
	}
	rand.New(rand.NewSource(shuffleSeed)).Shuffle(len(idx), func(i, j int) { idx[i], idx[j] = idx[j], idx[i] })
	shuffled := make([]ordItem, len(items))
	for i, j := range idx {
		shuffled[i] = items[j]
		col[i] = items[j].item()
	}
	type tagged struct {
		it ap.Item
		o  ordItem
	}
	tg := make([]tagged, len(col))
	for i := range col {
		tg[i] = tagged{col[i], shuffled[i]}
	}
	var viol string
	pan, msg := guard(func() {
		sort.SliceStable(tg, func(i, j int) bool { return ap.ItemOrderTimestamp(tg[i].it, tg[j].it) })
	})
	if pan {
		return "panic: " + msg
	}
	// independent sort of the keys, newest first, nil first
	want := append([]ordItem{}, items...)
	sort.SliceStable(want, func(i, j int) bool { return specBefore(want[i], want[j]) })
	for i := range tg {
		go1, k1 := tg[i].o.key()
		go2, k2 := want[i].key()
		if go1 != go2 || k1 != k2 {
			viol = fmt.Sprintf("sorted position %d holds key %v/%v, newest-first order has %v/%v", i, go1, k1, go2, k2)
			break
		}
	}
	return viol
}

// implSortKeys sorts the items with sort.Slice and the library's comparator and returns the keys of the
// result in order ("nil" or the later instant in nanoseconds, as a decimal string).
func implSortKeys(items []ordItem) (keys []string, pan string) {
	type tagged struct {
		it ap.Item
		o  ordItem
	}
	tg := make([]tagged, len(items))
	for i := range items {
		tg[i] = tagged{items[i].item(), items[i]}
	}
	p, msg := guard(func() {
		sort.Slice(tg, func(i, j int) bool { return ap.ItemOrderTimestamp(tg[i].it, tg[j].it) })
	})
	if p {
		return nil, msg
	}
	for _, t := range tg {
		isObj, k := t.o.key()
		if !isObj {
			keys = append(keys, "nil")
			continue
		}
		n := new(big.Int).Mul(big.NewInt(k[0]), big.NewInt(1000000000))
		n.Add(n, big.NewInt(k[1]))
		keys = append(keys, n.String())
	}
	return keys, ""
}

func init() {
	campaigns["C17"] = func(c *Ctx) {
		pool := c17Pool(c.R, c.N(40, 120))
		c.Rule = fmt.Sprintf("pool of %d items (untyped nil, typed nil pointers, the 13 object Go types by value and by pointer; every type in both forms at least once; instants: zero, equal instants in different zones, nanosecond differences, years 1, 1601, 1700, 2300 and 9999, random); all ordered pairs go to the correspondence, random triples to the strict-weak-order oracle, shuffled sub-collections to the sort oracle. Non-trivial = at least one non-nil object.", len(pool))
		for _, a := range pool {
			for _, b := range pool {
				res, pan := implOrder(a, b)
				in := map[string]interface{}{"op": "order", "a": a.abs(), "b": b.abs(), "go": []interface{}{a, b}}
				if pan != "" {
					c.Emit(in, "panic", true)
					c.Fail("C17/panic", pan, in)
					continue
				}
				c.Emit(in, res, !a.isNil() || !b.isNil())
				if a.isNil() {
					c.Tag("pair/nil-first")
				} else if b.isNil() {
					c.Tag("pair/nil-second")
				} else {
					_, ka := a.key()
					_, kb := b.key()
					if ka == kb {
						c.Tag("pair/equal-keys")
					} else {
						c.Tag("pair/different-keys")
					}
				}
			}
		}
		for i := 0; i < c.N(20000, 400000); i++ {
			a, b, x := pool[c.R.Intn(len(pool))], pool[c.R.Intn(len(pool))], pool[c.R.Intn(len(pool))]
			in := map[string]interface{}{"triple": []ordItem{a, b, x}}
			c.Count(in, true)
			if v := c17Triple(c, a, b, x); v != "" {
				c.Fail("C17/order", v, in)
			}
		}
		for i := 0; i < c.N(300, 5000); i++ {
			n := 2 + c.R.Intn(12)
			items := make([]ordItem, n)
			for k := range items {
				items[k] = pool[c.R.Intn(len(pool))]
			}
			in := map[string]interface{}{"sort": items, "shuffle": int64(c.R.Next() >> 1)}
			c.Count(in, true)
			c.Tag("sort")
			if v := c17Sort(items, in["shuffle"].(int64)); v != "" {
				c.Fail("C17/sort", v, in)
			}
			// the same list against the model's comparator-driven sort (C17_sort_sorts / C17_sort_any_permutation)
			absItems := make([]interface{}, len(items))
			for k := range items {
				absItems[k] = items[k].abs()
			}
			sin := map[string]interface{}{"op": "orderSort", "items": absItems, "go": items}
			if keys, pan := implSortKeys(items); pan != "" {
				c.Emit(sin, "panic", true)
				c.Fail("C17/panic", pan, sin)
			} else {
				c.Emit(sin, keys, true)
				c.Tag("sort/model")
			}
		}
	}
	replayers["C17"] = func(class string, input []byte) string {
		var in struct {
			Triple  []ordItem `json:"triple"`
			Sort    []ordItem `json:"sort"`
			Shuffle int64     `json:"shuffle"`
			Go      []ordItem `json:"go"`
		}
		if err := json.Unmarshal(input, &in); err != nil {
			return "bad replay input: " + err.Error()
		}
		if len(in.Triple) == 3 {
			return c17Triple(nil, in.Triple[0], in.Triple[1], in.Triple[2])
		}
		if len(in.Sort) > 0 {
			return c17Sort(in.Sort, in.Shuffle)
		}
		if len(in.Go) == 2 {
			return c17Triple(nil, in.Go[0], in.Go[1], in.Go[1])
		}
		return "bad replay input"
	}
}
