/-
C13 — Collections are insertion-ordered sets under Append / Contains / Remove.
Model: `Model/Coll.lean` (tied to the six collection kinds by the `coll` correspondence op).
-/
import APModel.Model.Coll

namespace APModel.Coll
open List

variable {α : Type} [DecidableEq α]

/-! ### the specification: a duplicate-free list in insertion order -/

def specStep (l : List α) : Op α → List α × Out
  | .append x => (if x ∈ l then l else l ++ [x], .unit)
  | .contains x => (l, .bool (decide (x ∈ l)))
  | .remove x => (l.erase x, .unit)
  | .count => (l, .nat l.length)

def specRun (l : List α) : List (Op α) → List α × List Out
  | [] => (l, [])
  | op :: ops =>
    let (l', o) := specStep l op
    let (lf, os) := specRun l' ops
    (lf, o :: os)

/-- the items of the pool have distinct identity: the comparison the code uses (ItemsEqual /
IRI.Equals) answers true exactly for the same pool element. Provided for generated pools by the
C09 / C14 theorems; the correspondence also runs pools that violate it. -/
def PoolOK (eq : α → α → Bool) (pool : List α) : Prop :=
  ∀ a ∈ pool, ∀ b ∈ pool, (eq a b = true ↔ a = b)

/-! ### helper lemmas -/

theorem contains_iff (eq : α → α → Bool) (pool l : List α) (hp : PoolOK eq pool) (hl : l ⊆ pool)
    (x : α) (hx : x ∈ pool) : contains eq l x = true ↔ x ∈ l := by
  simp only [contains, List.any_eq_true]
  constructor
  · rintro ⟨it, hit, he⟩
    have := (hp it (hl hit) x hx).mp he
    subst this; exact hit
  · intro h; exact ⟨x, h, (hp x hx x hx).mpr rfl⟩

theorem lastIdx_none (p : α → Bool) (l : List α) : lastIdx p l = none ↔ ∀ a ∈ l, p a = false := by
  induction l with
  | nil => simp [lastIdx]
  | cons a r ih =>
    simp only [lastIdx]
    cases h : lastIdx p r with
    | some i =>
      simp only [reduceCtorEq, false_iff]
      intro hall
      have := ih.mpr (fun b hb => hall b (List.mem_cons_of_mem _ hb))
      rw [h] at this; cases this
    | none =>
      have hr := ih.mp h
      by_cases hpa : p a = true
      · simp [hpa]
      · have hpa' : p a = false := by simpa using hpa
        simp only [hpa', Bool.false_eq_true, if_false, true_iff]
        intro b hb
        rcases List.mem_cons.mp hb with rfl | hb
        · exact hpa'
        · exact hr b hb

theorem remove_eq_erase (eq : α → α → Bool) (pool l : List α) (hp : PoolOK eq pool) (hl : l ⊆ pool)
    (hn : l.Nodup) (x : α) (hx : x ∈ pool) : remove eq l x = l.erase x := by
  unfold remove
  induction l with
  | nil => simp [lastIdx]
  | cons a r ih =>
    have hr : r ⊆ pool := fun b hb => hl (List.mem_cons_of_mem _ hb)
    have ha : a ∈ pool := hl List.mem_cons_self
    have hnr : r.Nodup := (List.nodup_cons.mp hn).2
    have hanr : a ∉ r := (List.nodup_cons.mp hn).1
    have ih' := ih hr hnr
    simp only [lastIdx]
    cases h : lastIdx (fun it => eq it x) r with
    | some i =>
      -- x occurs in the tail, hence the head is not x
      simp only [h] at ih'
      have hxr : x ∈ r := by
        by_cases hm : x ∈ r
        · exact hm
        exfalso
        have hnot := hm
        have : lastIdx (fun it => eq it x) r = none := by
          rw [lastIdx_none]
          intro b hb
          cases hb' : eq b x with
          | false => rfl
          | true =>
            have := (hp b (hr hb) x hx).mp hb'
            subst this; exact absurd hb hnot
        rw [h] at this; cases this
      have hne : a ≠ x := fun e => hanr (e ▸ hxr)
      simp only [List.eraseIdx_cons_succ, ih']
      simp [List.erase_cons, hne]
    | none =>
      simp only [h] at ih'
      by_cases hax : eq a x = true
      · have := (hp a ha x hx).mp hax
        subst this
        simp [hax]
      · simp only [hax, if_false]
        have hne : a ≠ x := by
          intro e; subst e
          exact hax ((hp a ha a ha).mpr rfl)
        rw [List.erase_cons]
        simp [hne, ← ih']

theorem step_refines (eq : α → α → Bool) (pool l : List α) (hp : PoolOK eq pool) (hl : l ⊆ pool)
    (hn : l.Nodup) (op : Op α) (hop : ∀ x, op.arg = some x → x ∈ pool) :
    step eq l op = specStep l op := by
  cases op with
  | count => rfl
  | append x =>
    have hx := hop x rfl
    simp only [step, specStep, append]
    by_cases h : x ∈ l
    · simp [(contains_iff eq pool l hp hl x hx).mpr h, h]
    · have : contains eq l x = false := by
        cases hc : contains eq l x with
        | false => rfl
        | true => exact absurd ((contains_iff eq pool l hp hl x hx).mp hc) h
      simp [this, h]
  | contains x =>
    have hx := hop x rfl
    simp only [step, specStep]
    congr 2
    by_cases h : x ∈ l
    · simp [(contains_iff eq pool l hp hl x hx).mpr h, h]
    · cases hc : contains eq l x with
      | false => simp [h]
      | true => exact absurd ((contains_iff eq pool l hp hl x hx).mp hc) h
  | remove x =>
    have hx := hop x rfl
    simp only [step, specStep, remove_eq_erase eq pool l hp hl hn x hx]

theorem specStep_inv (pool l : List α) (hl : l ⊆ pool) (hn : l.Nodup) (op : Op α)
    (hop : ∀ x, op.arg = some x → x ∈ pool) :
    (specStep l op).1 ⊆ pool ∧ (specStep l op).1.Nodup := by
  cases op with
  | count => exact ⟨hl, hn⟩
  | contains x => exact ⟨hl, hn⟩
  | remove x =>
    exact ⟨fun b hb => hl (List.mem_of_mem_erase hb), hn.erase x⟩
  | append x =>
    have hx := hop x rfl
    simp only [specStep]
    by_cases h : x ∈ l
    · simp [h, hl, hn]
    · simp only [h, if_false]
      refine ⟨?_, ?_⟩
      · intro b hb
        rcases List.mem_append.mp hb with hb | hb
        · exact hl hb
        · simp at hb; subst hb; exact hx
      · rw [List.nodup_append]
        refine ⟨hn, by simp, ?_⟩
        intro a ha b hb
        simp at hb; subst hb
        intro e; subst e; exact h ha

/-! ### property theorems -/

/-- Refinement: for every history of Append / Contains / Remove / Count calls with arguments from a
pool of items with pairwise distinct identity, starting from a duplicate-free collection of pool
items, the collection's contents and every output equal those of the insertion-ordered set. -/
theorem C13_refines (eq : α → α → Bool) (pool : List α) (hp : PoolOK eq pool)
    (ops : List (Op α)) (hops : ∀ op ∈ ops, ∀ x, op.arg = some x → x ∈ pool)
    (l : List α) (hl : l ⊆ pool) (hn : l.Nodup) :
    run eq l ops = specRun l ops := by
  induction ops generalizing l with
  | nil => rfl
  | cons op ops ih =>
    have hop := hops op List.mem_cons_self
    have hs := step_refines eq pool l hp hl hn op hop
    have hinv := specStep_inv pool l hl hn op hop
    simp only [run, specRun, hs]
    rw [ih (fun o ho => hops o (List.mem_cons_of_mem _ ho)) _ hinv.1 hinv.2]

/-- every reachable collection is duplicate-free (a set), so Count is the number of members. -/
theorem C13_nodup (eq : α → α → Bool) (pool : List α) (hp : PoolOK eq pool)
    (ops : List (Op α)) (hops : ∀ op ∈ ops, ∀ x, op.arg = some x → x ∈ pool)
    (l : List α) (hl : l ⊆ pool) (hn : l.Nodup) :
    (run eq l ops).1.Nodup ∧ (run eq l ops).1 ⊆ pool := by
  induction ops generalizing l with
  | nil => exact ⟨hn, hl⟩
  | cons op ops ih =>
    have hop := hops op List.mem_cons_self
    have hs := step_refines eq pool l hp hl hn op hop
    have hinv := specStep_inv pool l hl hn op hop
    simp only [run, hs]
    exact ih (fun o ho => hops o (List.mem_cons_of_mem _ ho)) _ hinv.1 hinv.2

/-- appending a present item changes nothing; an appended item is contained; a removed item is
not; members keep first-insertion order (an append only ever extends the list at the end). -/
theorem C13_laws (eq : α → α → Bool) (pool l : List α) (hp : PoolOK eq pool) (hl : l ⊆ pool)
    (hn : l.Nodup) (x : α) (hx : x ∈ pool) :
    (x ∈ l → append eq l x = l) ∧
    contains eq (append eq l x) x = true ∧
    contains eq (remove eq l x) x = false ∧
    l <+: append eq l x ∧
    (remove eq l x) <+ l := by
  have hc := contains_iff eq pool l hp hl x hx
  refine ⟨?_, ?_, ?_, ?_, ?_⟩
  · intro h; simp [append, hc.mpr h]
  · unfold append
    by_cases h : x ∈ l
    · simp [hc.mpr h]
    · have : contains eq l x = false := by
        cases hcc : contains eq l x with
        | false => rfl
        | true => exact absurd (hc.mp hcc) h
      simp only [this, Bool.false_eq_true, if_false]
      simp only [contains, List.any_append, List.any_cons, List.any_nil, Bool.or_false]
      simp [(hp x hx x hx).mpr rfl]
  · rw [remove_eq_erase eq pool l hp hl hn x hx]
    cases hcc : contains eq (l.erase x) x with
    | false => rfl
    | true =>
      have hsub : l.erase x ⊆ pool := fun b hb => hl (List.mem_of_mem_erase hb)
      have := (contains_iff eq pool (l.erase x) hp hsub x hx).mp hcc
      exact absurd this (hn.not_mem_erase)
  · unfold append; split
    · exact List.prefix_refl _
    · exact List.prefix_append _ _
  · rw [remove_eq_erase eq pool l hp hl hn x hx]; exact List.erase_sublist

/-! non-vacuity: a pool of three naturals with equality as the comparison. -/
example : PoolOK (fun a b : Nat => a == b) [1, 2, 3] := by
  intro a _ b _; simp
example : (run (fun a b : Nat => a == b) [] [.append 1, .append 2, .append 1, .remove 1, .contains 1, .count]) =
    ([2], [.unit, .unit, .unit, .unit, .bool false, .nat 1]) := by decide

end APModel.Coll
