/-
C03 — gob/binary encode -> decode round trip preserves every vocabulary property.

Same model as C01 (`Model/Codec.lean`, level theorem in `Props/C01.lean`), instantiated with the gob
property-map tables (map<T>Properties / unmap<T>Properties, <T>.GobEncode / <T>.GobDecode), which are
regenerated from /repo on every run.  The map keys are the codec's private affair: a field's key is
whatever its write row uses, and the obligation is that the read side uses the same one.  The
whole-tree normal form `normG` is tied to the code by the `gobRoundTrip` correspondence op.
-/
import APModel.Props.C01

namespace APModel.Codec
open APModel APModel.Generated

def gobEntries : List (String × String × String) := [
  ("Object", "Object.GobEncode", "Object.GobDecode"),
  ("Actor", "Actor.GobEncode", "Actor.GobDecode"),
  ("Activity", "Activity.GobEncode", "Activity.GobDecode"),
  ("IntransitiveActivity", "IntransitiveActivity.GobEncode", "IntransitiveActivity.GobDecode"),
  ("Question", "Question.GobEncode", "Question.GobDecode"),
  ("Collection", "Collection.GobEncode", "Collection.GobDecode"),
  ("OrderedCollection", "OrderedCollection.GobEncode", "OrderedCollection.GobDecode"),
  ("CollectionPage", "CollectionPage.GobEncode", "CollectionPage.GobDecode"),
  ("OrderedCollectionPage", "OrderedCollectionPage.GobEncode", "OrderedCollectionPage.GobDecode"),
  ("Place", "Place.GobEncode", "Place.GobDecode"),
  ("Profile", "Profile.GobEncode", "Profile.GobDecode"),
  ("Relationship", "Relationship.GobEncode", "Relationship.GobDecode"),
  ("Tombstone", "Tombstone.GobEncode", "Tombstone.GobDecode"),
  ("Link", "Link.GobEncode", "Link.GobDecode"),
  ("Source", "Source.GobEncode", "Source.GobDecode"),
  ("PublicKey", "PublicKey.GobEncode", "PublicKey.GobDecode"),
  ("Endpoints", "Endpoints.GobEncode", "Endpoints.GobDecode")]

def gobW (name : String) : List WRow :=
  ((gobEntries.find? (fun e => e.1 == name)).map (fun e => wRows gobMap e.2.1)).getD []
def gobR (name : String) : List RRow :=
  ((gobEntries.find? (fun e => e.1 == name)).map (fun e => rRowsG gobUnmap e.2.2)).getD []

/-- the struct's fields with the key the gob writer files each one under -/
def gobSchema (name : String) : Schema :=
  (schemaOf name).map fun (f, kind, _) =>
    (f, kind, (((gobW name).find? (fun w => w.field == f)).map (·.term)).getD "?no write row")

/-- For each struct: the regenerated gob write and read tables agree with each other and with the struct
definition (every declared field is written with an adequate guard and read back from the same key by
the paired decoder; no key serves two fields), and the extractor read every statement. -/
theorem C03_tables :
    gobEntries.all (fun e =>
      tablesAgree pairG (gobSchema e.1) (gobW e.1) (gobR e.1) &&
      !(schemaOf e.1).isEmpty &&
      (fnOther gobMap 5 e.2.1).isEmpty && (fnOther gobUnmap 5 e.2.2).isEmpty) = true := by
  decide +kernel

theorem gobEntries_names : ∀ name ∈ gobEntries.map (·.1),
    tablesAgree pairG (gobSchema name) (gobW name) (gobR name) = true := by
  decide +kernel

/-- C03, one level, for the code's own tables: for every vocabulary struct (and sub-record) and EVERY
well-formed assignment of values to its properties, decoding the property map the writer builds
restores each property with its value and sets no other property. -/
theorem C03_level (name : String) (hn : name ∈ gobEntries.map (·.1)) (fs : Fields)
    (hwf : wfLevel (gobSchema name) fs) :
    ∀ f, (decodeLevel (gobR name) (encodeLevel (gobW name) fs)).get? f = fs.get? f :=
  agree_roundtrip pairG _ _ _ (gobEntries_names name hn) fs hwf

/-- the two schemas declare the same fields with the same kinds, so well-formedness is the same notion -/
theorem gobSchema_fields (name : String) :
    (gobSchema name).map (fun r => (r.1, r.2.1)) = (schemaOf name).map (fun r => (r.1, r.2.1)) := by
  simp [gobSchema, List.map_map, Function.comp_def]

/-! what the obligation rejects: the pinned tree's gob defects as table shapes -/
example : tablesAgree pairG [("Origin", "item", "origin")] [] [⟨"Origin", "gobDecodeItem", "origin", ""⟩] = false := by
  decide +kernel
example : tablesAgree pairG [("Describes", "item", "Describes")]
    [⟨"Describes", "Describes", "gobEncodeItem", "nonNil"⟩] [⟨"Describes", "gobDecodeItem", "describes", ""⟩] = false := by
  decide +kernel

/-! non-vacuity -/
example : (decodeLevel (gobR "Place") (encodeLevel (gobW "Place")
      (.cons "Longitude" (.dec6 (-45500000)) .nil))).get? "Longitude" = some (.dec6 (-45500000)) := by
  apply C03_level "Place" (by decide +kernel)
  intro f v h
  simp only [Fields.get?] at h
  split at h
  · subst_vars; cases h
    exact ⟨("Longitude", "float", "longitude"), by decide +kernel, rfl, by decide +kernel, by decide⟩
  · cases h

end APModel.Codec
