import Driver.Value
open Lean APModel

namespace Driver

/-- the model's prediction for every cell of the helper × nil-kind matrix: no panic. -/
def opNilCell (_ : Json) : R Json := return Json.mkObj [("panic", Json.bool false)]

def opIsNil (j : Json) : R Json := do
  return Json.bool (← parseItem (← fld j "v")).isNilLike

end Driver
