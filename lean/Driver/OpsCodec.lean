import Driver.Value
import APModel.Model.Codec
open Lean APModel APModel.Codec

namespace Driver

/-- the model's answer for a round trip: the documented normal form of the value -/
def opJsonRoundTrip (j : Json) : R Json := do
  return renderItem (normJ (← parseItem (← fld j "v")))

def opGobRoundTrip (j : Json) : R Json := do
  return renderItem (normG (← parseItem (← fld j "v")))

/-- the model's answer for decoding a document that presents the value `v` -/
def opDocDecode (j : Json) : R Json := do
  return renderItem (normD (← parseItem (← fld j "v")))

end Driver
