/-
The deep JSON codec model (C01 / C05): the library's JSON writer and reader as functions between value
trees and JSON trees, including the leaf helpers and the recursion through nested values.

  writer : JSONWrite<T>Value / <T>.MarshalJSON with JSONWriteItemProp, JSONWriteItemCollectionProp / …Value,
           ItemCollection.MarshalJSON (compact), IRIs.MarshalJSON, JSONWriteNaturalLanguageProp, the scalar writers
  reader : JSONLoadItem, JSONItemsFn, JSONGetItem, JSONGetURIItem, JSONGetItems, JSONGetNaturalLanguageField,
           the scalar getters, JSONLoad<T> (driven by the regenerated read tables)

Scalars other than strings (numbers, booleans, instants, durations) travel as tokens (`J.leaf`): their
textual formats are not part of this model.  Strings travel as their bytes (escaping is `Model/Text`).
Which struct a type name selects (`kindOfType`), which strings are absolute URLs (`validIRI`) and which
items a list regards as already present (`eqv`) are parameters.
-/
import APModel.Model.Codec

namespace APModel.Deep
open APModel APModel.Codec

abbrev Str := APModel.IRI.Str

mutual
inductive J
  | null
  | str (s : Str)
  | leaf (v : FVal)          -- number / boolean / instant / duration token
  | arr (l : JList)
  | obj (ms : JMembers)
inductive JList
  | nil
  | cons (j : J) (r : JList)
inductive JMembers
  | nil
  | cons (name : Str) (j : J) (r : JMembers)
end

def JList.ofList : List J → JList
  | [] => .nil
  | j :: r => .cons j (JList.ofList r)
def JList.toList : JList → List J
  | .nil => []
  | .cons j r => j :: JList.toList r
/-- member names are byte strings (language tags are arbitrary bytes); a term of a table is its UTF-8 -/
def nm (s : String) : Str := s.toUTF8.toList

def JMembers.get? : JMembers → Str → Option J
  | .nil, _ => none
  | .cons n j r, k => if n = k then some j else JMembers.get? r k
def JMembers.isNil : JMembers → Bool
  | .nil => true
  | _ => false
def Fields.isNil : Fields → Bool
  | .nil => true
  | _ => false

/-- what the codec is parametrised by -/
structure Env where
  /-- write row of a field of a struct (struct name, field name) -/
  wrow : String → String → Option WRow
  /-- read row that reads the member of that name -/
  rrow : String → Str → Option RRow
  /-- read row of the text property whose `<term>Map` member this is -/
  rrowMap : String → Str → Option RRow
  /-- the declared kind of a field (struct name, field name) -/
  fieldKind : String → String → String
  kindOfType : Str → Option Kind
  validIRI : Str → Bool
  eqv : Item → Item → Bool
  /-- presentation of a single language-tagged text: `false` = the library's writer (collapsed to a plain
  string under the term, the tag is lost), `true` = a one-entry language map under `<term>Map` (an
  independent writer's choice; the tag survives) -/
  loneTagAsMap : Bool := false

def recName (kind : String) : String :=
  if kind == "source" then "Source" else if kind == "pubkey" then "PublicKey" else if kind == "endpoints" then "Endpoints" else "?"

/-- ItemCollection.MarshalJSON (compact): nothing for an empty list, the element for a one-element
list (nothing if that element has nothing to say), else the array of the members that say something. -/
def compactOf (rawLen : Nat) (js : List J) : Option J :=
  if rawLen = 0 then none
  else if rawLen = 1 then js.head?
  else some (.arr (JList.ofList js))

/-- JSONWriteNaturalLanguageProp: a single value is written as a plain string under the term; several
as a language map under `<term>Map` (each language once, the first value wins; values and references
that are empty are skipped). -/
def nlvMapMembers : List (Str × Str) → List Str → List (Str × Str)
  | [], _ => []
  | (t, v) :: r, seen =>
    if t.isEmpty || v.isEmpty || seen.contains t then nlvMapMembers r seen
    else (t, v) :: nlvMapMembers r (t :: seen)

def mapOf : List (Str × Str) → JMembers
  | [] => .nil
  | (t, v) :: r => .cons t (.str v) (mapOf r)

def writeNLV (asMap : Bool) (n : List (Str × Str)) : Option (String × J) :=
  match n with
  | [] => none
  | [(t, v)] =>
    if v.isEmpty then none
    else if asMap && t != dash then some ("Map", .obj (mapOf [(t, v)]))
    else some ("", .str v)
  | _ =>
    match nlvMapMembers n [] with
    | [] => none
    | ms => some ("Map", .obj (mapOf ms))

mutual
def writeItem (E : Env) : Item → Option J
  | .nil => none
  | .typedNil _ => none
  | .collNil _ => none
  | .irisNil => none
  | .iri s => if s.isEmpty then none else some (.str s)
  | .iris l => some (.arr (JList.ofList (l.map J.str)))
  | .coll _ l => compactOf (Items.length l) (writeItems E l)
  | .node k _ fs =>
    match writeFields E k.goName fs with
    | .nil => none
    | ms => some (.obj ms)
def writeItems (E : Env) : Items → List J
  | .nil => []
  | .cons i r =>
    match writeItem E i with
    | none => writeItems E r
    | some j => j :: writeItems E r
def writeFields (E : Env) (sn : String) : Fields → JMembers
  | .nil => .nil
  | .cons n v r =>
    match E.wrow sn n with
    | none => writeFields E sn r
    | some w =>
      if guardPasses w.guard v then
        match writeVal E (E.fieldKind sn n) w.helper v with
        | none => writeFields E sn r
        | some (sfx, j) => .cons (nm (w.term ++ sfx)) j (writeFields E sn r)
      else writeFields E sn r
def writeVal (E : Env) (kind helper : String) : FVal → Option (String × J)
  | .item i => if helper == "JSONWriteItemProp" then (writeItem E i).map (fun j => ("", j)) else none
  | .items l =>
    if helper == "JSONWriteItemCollectionProp" then
      (if Items.length l = 0 then none else some ("", .arr (JList.ofList (writeItems E l))))
    else if helper == "JSONWriteItemProp" then (compactOf (Items.length l) (writeItems E l)).map (fun j => ("", j))
    else none
  | .nlv n => if helper == "JSONWriteNaturalLanguageProp" then writeNLV E.loneTagAsMap n else none
  | .time s _ _ => if helper == "JSONWriteTimeProp" then some ("", .leaf (.time s 0 0)) else none
  | .dur d => if helper == "JSONWriteDurationProp" then some ("", .leaf (.dur d)) else none
  | .dec6 z => if helper == "JSONWriteFloatProp" then some ("", .leaf (.dec6 z)) else none
  | .int z => if helper == "JSONWriteIntProp" then some ("", .leaf (.int z)) else none
  | .uint n => if helper == "JSONWriteIntProp" then some ("", .leaf (.uint n)) else none
  | .bool b => if helper == "JSONWriteBoolProp" then some ("", .leaf (.bool b)) else none
  | .str s =>
    if helper == "marshal" || helper == "JSONWriteStringProp" || helper == "JSONWriteIRIProp" then
      (if s.isEmpty then none else some ("", .str s))
    else none
  | .record fs =>
    if helper == "marshal" then
      (match writeFields E (recName kind) fs with
       | .nil => none
       | ms => some ("", .obj ms))
    else none
end

/-- ItemCollection.Append: a member the list regards as already present is skipped -/
def dedup (eqv : Item → Item → Bool) : List Item → List Item → List Item
  | acc, [] => acc
  | acc, i :: r => if acc.any (fun a => eqv a i) then dedup eqv acc r else dedup eqv (acc ++ [i]) r

def langPairs : JMembers → List (Str × Str)
  | .nil => []
  | .cons n j r =>
    match j with
    | .str v => (if n == dash ∧ v.isEmpty then langPairs r else (n, v) :: langPairs r)
    | _ => (if n == dash then langPairs r else (n, []) :: langPairs r)

/-- JSONGetType: the string under "type", if any -/
def typOf (ms : JMembers) : Str :=
  match JMembers.get? ms (nm "type") with
  | some (.str t) => t
  | _ => []

mutual
/-- JSONLoadItem on one JSON value (a list member, an embedded object, a string) -/
def loadItem (E : Env) : J → Item
  | .null => .nil
  | .leaf _ => .nil
  | .arr _ => .nil
  | .str s => if E.validIRI s then .iri s else .nil
  | .obj ms =>
    match E.kindOfType (typOf ms) with
    | none => .nil
    | some k =>
      match readFields E k.goName ms with
      | .nil => .nil
      | fs => .node k true fs
/-- the members of an array, in order, those that load to something -/
def loadList (E : Env) : JList → List Item
  | .nil => []
  | .cons j r =>
    match loadItem E j with
    | .nil => loadList E r
    | i => i :: loadList E r
/-- JSONLoad<T>: every member that a read row of the struct reads -/
def readFields (E : Env) (sn : String) : JMembers → Fields
  | .nil => .nil
  | .cons name j r =>
    match E.rrow sn name with
    | some row =>
      (match readVal E (E.fieldKind sn row.field) row.helper j with
       | some v => .cons row.field v (readFields E sn r)
       | none => readFields E sn r)
    | none =>
      match E.rrowMap sn name with
      | some row =>
        (match j with
         | .obj ms =>
           (match langPairs ms with
            | [] => readFields E sn r
            | ps => .cons row.field (.nlv ps) (readFields E sn r))
         | _ => readFields E sn r)
      | none => readFields E sn r
def readVal (E : Env) (kind helper : String) : J → Option FVal
  | .null => none
  | .str s =>
    if helper == "JSONGetItem" then (if E.validIRI s then some (.item (.iri s)) else none)
    else if helper == "JSONGetURIItem" then
      (if kind == "item" then some (.item (.iri s)) else if s.isEmpty then none else some (.str s))
    else if helper == "JSONGetItems" then (if s.isEmpty then none else some (.items (.cons (.iri s) .nil)))
    else if helper == "JSONGetNaturalLanguageField" then some (.nlv [(dash, s)])
    else if helper == "JSONGetID" || helper == "JSONGetType" || helper == "JSONGetMimeType" || helper == "JSONGetString"
        || helper == "JSONGetLangRefField" || helper == "JSONGetIRI" || helper == "val.GetStringBytes" then
      (if s.isEmpty then none else some (.str s))
    else none
  | .leaf v =>
    match v with
    | .time s _ _ => if helper == "JSONGetTime" then some (.time s 0 0) else none
    | .dur d => if helper == "JSONGetDuration" then some (.dur d) else none
    | .dec6 z => if helper == "JSONGetFloat" then some (.dec6 z) else none
    | .int z => if helper == "JSONGetInt" then (if kind == "uint" then some (.uint z.toNat) else some (.int z)) else none
    | .uint n => if helper == "JSONGetInt" then (if kind == "uint" then some (.uint n) else some (.int n)) else none
    | .bool b => if helper == "JSONGetBoolean" then some (.bool b) else none
    | _ => none
  | .arr l =>
    if helper == "JSONGetItem" || helper == "JSONGetURIItem" then
      (match dedup E.eqv [] (loadList E l) with
       | [] => none
       | is => some (.item (.coll false (Items.ofList is))))
    else if helper == "JSONGetItems" then
      (match dedup E.eqv [] (loadList E l) with
       | [] => none
       | is => some (.items (Items.ofList is)))
    else none
  | .obj ms =>
    if helper == "JSONGetItem" || helper == "JSONGetURIItem" then
      (match loadItem E (.obj ms) with
       | .nil => none
       | i => some (.item i))
    else if helper == "JSONGetItems" then
      (match loadItem E (.obj ms) with
       | .nil => none
       | i => some (.items (.cons i .nil)))
    else if helper == "JSONGetNaturalLanguageField" then
      (match langPairs ms with
       | [] => none
       | ps => some (.nlv ps))
    else if helper == "GetAPSource" || helper == "JSONGetPublicKey" || helper == "JSONGetActorEndpoints" then
      (match readFields E (recName kind) ms with
       | .nil => none
       | fs => some (.record fs))
    else none
end

/-- JSONUnmarshalToItem: the document level -/
def readTop (E : Env) : J → Item
  | .arr l =>
    match dedup E.eqv [] (loadList E l) with
    | [] => .nil
    | is => .coll false (Items.ofList is)
  | j => loadItem E j

/-- decode(encode(x)) in the model -/
def roundTrip (E : Env) (x : Item) : Item :=
  match writeItem E x with
  | none => .nil
  | some j => readTop E j

end APModel.Deep
