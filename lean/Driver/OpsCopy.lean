import Driver.Value
import APModel.Model.Copy
open Lean APModel APModel.Copy

namespace Driver

def opCopy (j : Json) : R Json := do
  let to ← parseItem (← fld j "to")
  let frm ← parseItem (← fld j "from")
  match copyItem APModel.Generated.copyRows to frm with
  | .ok t => return Json.mkObj [("to", renderItem t)]
  | .err => return Json.mkObj [("err", Json.bool true)]
  | .outside => return Json.mkObj [("outside", Json.bool true)]

end Driver
