/- canonical dump (JSON) ↔ `APModel.Item` -/
import Driver.Util
import APModel.Model.Value
open Lean APModel

namespace Driver

def utf8s (s : String) : IRI.Str := s.toUTF8.toList
def str8s (s : IRI.Str) : String :=
  match String.fromUTF8? (ByteArray.mk s.toArray) with
  | some x => x
  | none => "�hex:" ++ hex s

def objKVs (j : Json) : R (List (String × Json)) :=
  match j with
  | .obj kvs => .ok (kvs.foldl (fun acc k v => (k, v) :: acc) []).reverse
  | _ => .error "object expected"

def isTrue (j : Json) (k : String) : Bool := (j.getObjVal? k).toOption == some (Json.bool true)

mutual
partial def parseItem (j : Json) : R Item := do
  if j.isNull then return .nil
  if let .ok s := j.getObjVal? "iri" then return .iri (utf8s (← str s))
  if let .ok l := j.getObjVal? "iris" then
    if isTrue j "nil" then return .irisNil
    return .iris (← (← arr l).mapM (fun x => do return utf8s (← str x)))
  if let .ok l := j.getObjVal? "items" then
    let ptr := isTrue j "ptr"
    if isTrue j "nil" then return .collNil ptr
    return .coll ptr (← parseItems (← arr l))
  let t ← strF j "t"
  let k ← match Kind.ofGoName t with
    | some k => pure k
    | none => throw s!"unknown go type {t}"
  if isTrue j "nil" then return .typedNil k
  let fs ← match j.getObjVal? "f" with
    | .ok f => parseFields (← objKVs f)
    | .error _ => pure Fields.nil
  return .node k (isTrue j "ptr") fs
partial def parseItems (l : List Json) : R Items := do
  match l with
  | [] => return .nil
  | x :: r => return .cons (← parseItem x) (← parseItems r)
partial def parseFields (l : List (String × Json)) : R Fields := do
  match l with
  | [] => return .nil
  | (n, v) :: r => return .cons n (← parseFVal v) (← parseFields r)
partial def parseFVal (j : Json) : R FVal := do
  if let .ok l := j.getObjVal? "list" then return .items (← parseItems (← arr l))
  if let .ok l := j.getObjVal? "nlv" then
    return .nlv (← (← arr l).mapM (fun e => do
      match ← arr e with
      | [a, b] => return (utf8s (← str a), utf8s (← str b))
      | _ => throw "nlv entry"))
  if let .ok l := j.getObjVal? "time" then
    match ← arr l with
    | [a, b, c] => return .time (← int a) (← int b) (← int c)
    | _ => throw "time"
  if let .ok x := j.getObjVal? "dur" then return .dur (← int x)
  if let .ok x := j.getObjVal? "s" then return .str (utf8s (← str x))
  if let .ok x := j.getObjVal? "dec6" then return .dec6 (← int x)
  if let .ok x := j.getObjVal? "int" then return .int (← int x)
  if let .ok x := j.getObjVal? "uint" then return .uint (← nat x)
  if let .ok x := j.getObjVal? "bool" then return .bool (← bool x)
  if let .ok x := j.getObjVal? "rec" then return .record (← parseFields (← objKVs x))
  return .item (← parseItem j)
end

mutual
partial def renderItem : Item → Json
  | .nil => Json.null
  | .typedNil k => Json.mkObj [("t", k.goName), ("ptr", true), ("nil", true)]
  | .collNil ptr => Json.mkObj [("items", jarr []), ("nil", true), ("ptr", ptr)]
  | .irisNil => Json.mkObj [("iris", jarr []), ("nil", true)]
  | .iri s => Json.mkObj [("iri", str8s s)]
  | .iris l => Json.mkObj [("iris", jarr (l.map (fun s => Json.str (str8s s))))]
  | .coll ptr l => Json.mkObj [("items", jarr (renderItems l)), ("ptr", ptr)]
  | .node k ptr fs => Json.mkObj [("t", k.goName), ("ptr", ptr), ("f", Json.mkObj (renderFields fs))]
partial def renderItems : Items → List Json
  | .nil => []
  | .cons i r => renderItem i :: renderItems r
partial def renderFields : Fields → List (String × Json)
  | .nil => []
  | .cons n v r => (n, renderFVal v) :: renderFields r
partial def renderFVal : FVal → Json
  | .item i => renderItem i
  | .items l => Json.mkObj [("list", jarr (renderItems l))]
  | .nlv n => Json.mkObj [("nlv", jarr (n.map (fun (a, b) => jarr [Json.str (str8s a), Json.str (str8s b)])))]
  | .time a b c => Json.mkObj [("time", jarr [Json.num a, Json.num b, Json.num c])]
  | .dur d => Json.mkObj [("dur", Json.num d)]
  | .str s => Json.mkObj [("s", str8s s)]
  | .dec6 z => Json.mkObj [("dec6", Json.num z)]
  | .int z => Json.mkObj [("int", Json.num z)]
  | .uint n => Json.mkObj [("uint", Json.num n)]
  | .bool b => Json.mkObj [("bool", b)]
  | .record fs => Json.mkObj [("rec", Json.mkObj (renderFields fs))]
end

def opEcho (j : Json) : R Json := do
  return renderItem (← parseItem (← fld j "v"))

end Driver
