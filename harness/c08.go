package main

import (
	"encoding/json"
	"fmt"
	"os"
	"os/exec"
	"reflect"
	"runtime"
	"strings"
	"time"

	ap "github.com/go-ap/activitypub"
)

// C08 — typed views are field-faithful and stay inside the value.

type castSite struct {
	Fn  string `json:"fn"`
	Src string `json:"src"`
	Ptr bool   `json:"ptr"`
	Typ string `json:"typ,omitempty"` // the value's type property ("" = a marker string)
	// what the item-valued properties of the source hold: "" = IRIs, else embedded values of that struct (a page
	// whose partOf is its collection by value, an activity whose object is an embedded activity …)
	Embed string `json:"embed,omitempty"`
}

// embedded values in the item-valued properties: each with its own id, name and members, different from the source's
func embedMarkers(sv reflect.Value, embed string) {
	for i := 0; i < sv.NumField(); i++ {
		f := sv.Type().Field(i)
		if kindOfType(f.Type) != "item" {
			continue
		}
		ev := reflect.New(goTypes[embed])
		fillMarkers(ev.Elem(), "e-"+f.Name+"-")
		ev.Elem().FieldByName("Type").SetString(vocab[embed][0])
		sv.Field(i).Set(ev)
	}
}

var c08Fns = map[string]func(ap.Item) (interface{}, error){
	"ToObject":                func(it ap.Item) (interface{}, error) { return ap.ToObject(it) },
	"ToActor":                 func(it ap.Item) (interface{}, error) { return ap.ToActor(it) },
	"ToActivity":              func(it ap.Item) (interface{}, error) { return ap.ToActivity(it) },
	"ToIntransitiveActivity":  func(it ap.Item) (interface{}, error) { return ap.ToIntransitiveActivity(it) },
	"ToQuestion":              func(it ap.Item) (interface{}, error) { return ap.ToQuestion(it) },
	"ToCollection":            func(it ap.Item) (interface{}, error) { return ap.ToCollection(it) },
	"ToCollectionPage":        func(it ap.Item) (interface{}, error) { return ap.ToCollectionPage(it) },
	"ToOrderedCollection":     func(it ap.Item) (interface{}, error) { return ap.ToOrderedCollection(it) },
	"ToOrderedCollectionPage": func(it ap.Item) (interface{}, error) { return ap.ToOrderedCollectionPage(it) },
	"ToPlace":                 func(it ap.Item) (interface{}, error) { return ap.ToPlace(it) },
	"ToProfile":               func(it ap.Item) (interface{}, error) { return ap.ToProfile(it) },
	"ToRelationship":          func(it ap.Item) (interface{}, error) { return ap.ToRelationship(it) },
	"ToTombstone":             func(it ap.Item) (interface{}, error) { return ap.ToTombstone(it) },
	"ToLink":                  func(it ap.Item) (interface{}, error) { return ap.ToLink(it) },
}

var c08FnOrder = []string{"ToObject", "ToActor", "ToActivity", "ToIntransitiveActivity", "ToQuestion", "ToCollection", "ToCollectionPage",
	"ToOrderedCollection", "ToOrderedCollectionPage", "ToPlace", "ToProfile", "ToRelationship", "ToTombstone", "ToLink"}

// marker value for a field, derived from a tag string so that every field of a value differs.
func markerFor(ft reflect.Type, tag string) reflect.Value {
	switch kindOfType(ft) {
	case "item":
		v := reflect.New(ft).Elem()
		v.Set(reflect.ValueOf(ap.IRI("https://example.com/item/" + tag)))
		return v
	case "items":
		return reflect.ValueOf(ap.ItemCollection{ap.IRI("https://example.com/list/" + tag)})
	case "nlv":
		return reflect.ValueOf(ap.NaturalLanguageValues{{Ref: "en", Value: ap.Content(tag)}})
	case "time":
		return reflect.ValueOf(time.Unix(int64(1000000+len(tag)*7919+int(tag[0])*31+int(tag[len(tag)-1])), 0).UTC())
	case "duration":
		return reflect.ValueOf(time.Duration(len(tag)*1000+int(tag[0])) * time.Second)
	case "string":
		v := reflect.New(ft).Elem()
		v.SetString("str-" + tag)
		return v
	case "float":
		return reflect.ValueOf(float64(len(tag)) + float64(tag[0])/256)
	case "int":
		return reflect.ValueOf(int64(len(tag)*100 + int(tag[0])))
	case "uint":
		return reflect.ValueOf(uint(len(tag)*100 + int(tag[0])))
	case "bool":
		return reflect.ValueOf(true)
	case "source":
		return reflect.ValueOf(ap.Source{MediaType: ap.MimeType("text/" + tag)})
	case "pubkey":
		return reflect.ValueOf(ap.PublicKey{ID: ap.ID("https://example.com/key/" + tag)})
	case "endpoints":
		return reflect.ValueOf(&ap.Endpoints{SharedInbox: ap.IRI("https://example.com/shared/" + tag)})
	}
	return reflect.Zero(ft)
}

func fillMarkers(sv reflect.Value, prefix string) {
	for i := 0; i < sv.NumField(); i++ {
		sv.Field(i).Set(markerFor(sv.Type().Field(i).Type, prefix+sv.Type().Field(i).Name))
	}
}

func rhoName(src, dst reflect.Type, name string) string {
	if _, ok := src.FieldByName(name); ok {
		return name
	}
	if name == "Items" {
		return "OrderedItems"
	}
	if name == "OrderedItems" {
		return "Items"
	}
	return name
}

// c08Site exercises one conversion: returns "ok"/"err" and the first violated clause.
func c08Site(s castSite) (outcome string, viol string) {
	st := goTypes[s.Src]
	pv := reflect.New(st)
	fillMarkers(pv.Elem(), "a-")
	if s.Embed != "" {
		embedMarkers(pv.Elem(), s.Embed)
	}
	if s.Typ != "" {
		pv.Elem().FieldByName("Type").SetString(s.Typ)
	}
	var it ap.Item
	if s.Ptr {
		it = pv.Interface().(ap.Item)
	} else {
		it = pv.Elem().Interface().(ap.Item)
	}
	view, err := c08Fns[s.Fn](it)
	if err != nil {
		return "err", ""
	}
	vv := reflect.ValueOf(view)
	if vv.IsNil() {
		return "ok", "the conversion returned a nil view without an error"
	}
	dv := vv.Elem()
	dt := dv.Type()
	// reads: every field of the view equals the like-named field of the original
	for i := 0; i < dt.NumField(); i++ {
		name := dt.Field(i).Name
		sf := pv.Elem().FieldByName(rhoName(st, dt, name))
		if !sf.IsValid() {
			return "ok", fmt.Sprintf("%s(%s): the view has a field %s the original does not have", s.Fn, s.Src, name)
		}
		if !reflect.DeepEqual(dv.Field(i).Interface(), sf.Interface()) {
			return "ok", fmt.Sprintf("%s(%s): field %s reads %v through the view, the original holds %v", s.Fn, s.Src, name, dv.Field(i).Interface(), sf.Interface())
		}
	}
	if s.Ptr {
		before := make([]interface{}, st.NumField())
		for i := range before {
			before[i] = pv.Elem().Field(i).Interface()
		}
		// writes through the view of a pointer are seen by the original
		for i := 0; i < dt.NumField(); i++ {
			name := dt.Field(i).Name
			nv := markerFor(dt.Field(i).Type, "b-"+name)
			dv.Field(i).Set(nv)
			sf := pv.Elem().FieldByName(rhoName(st, dt, name))
			if !reflect.DeepEqual(sf.Interface(), nv.Interface()) {
				return "ok", fmt.Sprintf("%s(*%s): a write to %s through the view is not seen by the original", s.Fn, s.Src, name)
			}
		}
		// and nothing else of the original changed
		for i := 0; i < st.NumField(); i++ {
			name := st.Field(i).Name
			if _, shared := dt.FieldByName(rhoName(dt, st, name)); shared {
				continue
			}
			if name != "Type" && !reflect.DeepEqual(pv.Elem().Field(i).Interface(), before[i]) {
				return "ok", fmt.Sprintf("%s(*%s): writing through the view changed %s, which the view does not have", s.Fn, s.Src, name)
			}
		}
	}
	if dt.Size() > st.Size() {
		return "ok", fmt.Sprintf("%s(%s): the view (%s, %d bytes) is larger than the value it is placed on (%d bytes): it exposes memory outside the original", s.Fn, s.Src, dt.Name(), dt.Size(), st.Size())
	}
	return "ok", ""
}

func init() {
	campaigns["C08"] = func(c *Ctx) {
		c.Rule = "exhaustive: (a) the reflect layout (field, offset, size; total size) of each of the 14 structs against the go/types layout in the regenerated tables; (b) every To* helper x every struct x {value, pointer} x {type property a marker, type property naming the target}: accepted or refused as the regenerated type-switch lists predict, and for accepted conversions every field of the view read against the like-named field (items<->orderedItems) of a source filled with distinct markers, every field written through pointer views and checked on the original, untouched fields re-checked, and the view's size against the source's. (c) pointers to types of another scope whose underlying type is a vocabulary struct, through the reflection fallback: a write through the view must reach the original; (d) every On* helper x every struct x {value, pointer}: the callback's argument is never a pointer to a struct larger than the source. Thorough: every accepted site re-run in a child process of a binary built with -gcflags=all=-d=checkptr. Non-trivial = the source struct differs from the view struct."
		for _, t := range allGoTypes {
			rt := goTypes[t]
			var fs []interface{}
			for i := 0; i < rt.NumField(); i++ {
				fs = append(fs, []interface{}{rt.Field(i).Name, rt.Field(i).Offset, rt.Field(i).Type.Size()})
			}
			c.Emit(map[string]interface{}{"op": "layout", "t": t}, map[string]interface{}{"size": rt.Size(), "fields": fs}, true)
			c.Tag("layout")
		}
		checkptr := os.Getenv("VERIF_CHECKPTR_BIN")
		for _, fn := range c08FnOrder {
			for _, src := range allGoTypes {
				for _, variant := range []int{0, 1, 2, 3} {
					ptr := variant%2 == 1
					s := castSite{Fn: fn, Src: src, Ptr: ptr}
					if variant >= 2 {
						s.Typ = strings.TrimPrefix(fn, "To") // a value of another struct that carries the target's type name
					}
					var out, viol string
					c.Attempt("C08/crash", s)
					if p, msg := guard(func() { out, viol = c08Site(s) }); p {
						out, viol = "panic", "panic: "+msg
					}
					runtime.GC() // a view over foreign memory is found by the collector: here, not many cases later
					in := map[string]interface{}{"op": "cast", "fn": fn, "src": src, "ptr": ptr, "typ": s.Typ}
					c.Emit(in, out, "To"+src != fn)
					c.Tag("cast/" + out)
					if viol != "" {
						cls := "C08/view"
						if strings.Contains(viol, "larger than the value") || strings.Contains(viol, "the original does not have") {
							cls = "C08/widening:" + fn + "(" + src + ")"
						}
						c.Fail(cls, viol, s)
					}
					// the same conversion with embedded values (not IRIs) in the source's item-valued properties: the view is
					// still the view of the source, not of something the source refers to
					if out == "ok" && viol == "" {
						for _, embed := range []string{"Collection", "OrderedCollection", "Object", "Activity"} {
							s2 := s
							s2.Embed = embed
							var out2, viol2 string
							c.Attempt("C08/crash", s2)
							if p, msg := guard(func() { out2, viol2 = c08Site(s2) }); p {
								out2, viol2 = "panic", "panic: "+msg
							}
							c.Count(s2, "To"+src != fn)
							c.Tag("cast-embedded/" + out2)
							if out2 != out && viol2 == "" {
								viol2 = fmt.Sprintf("%s(%s) is %s with IRIs in the item-valued properties and %s with embedded %s values there", fn, src, out, out2, embed)
							}
							if viol2 != "" {
								c.Fail("C08/view", viol2, s2)
							}
						}
					}
					if out == "ok" && checkptr != "" && c.Thorough() {
						b, _ := json.Marshal(s)
						cmd := exec.Command(checkptr, "c08site", string(b))
						o, err := cmd.CombinedOutput()
						c.Tag("checkptr")
						if err != nil {
							msg := string(o)
							if i := strings.Index(msg, "fatal error"); i >= 0 {
								msg = msg[i:]
								if j := strings.Index(msg, "\n"); j > 0 {
									msg = msg[:j]
								}
							}
							c.Fail("C08/widening:"+fn+"("+src+")", "under -d=checkptr: "+msg, s)
						}
					}
				}
			}
		}
		// (c) types of another scope whose underlying type is a vocabulary struct reach the helpers through the
		// reflection fallback (ConvertibleTo): the view of a pointer must be the same memory
		for _, f := range c08Foreign {
			viol := ""
			c.Attempt("C08/crash", map[string]interface{}{"foreign": f.name})
			if p, msg := guard(func() { viol = f.run() }); p {
				viol = "panic: " + msg
			}
			c.Count(map[string]interface{}{"foreign": f.name}, true)
			c.Tag("foreign-type")
			if viol != "" {
				c.Fail("C08/view", f.name+": "+viol, map[string]interface{}{"foreign": f.name})
			}
		}
		// (d) what the callbacks of the On* helpers receive: a view never larger than the value it was made from
		for _, src := range allGoTypes {
			for _, ptr := range []bool{true, false} {
				for _, h := range c08OnHelpers {
					pv := reflect.New(goTypes[src])
					fillMarkers(pv.Elem(), "a-")
					pv.Elem().FieldByName("Type").SetString(vocab[src][0])
					var it ap.Item
					if ptr {
						it = pv.Interface().(ap.Item)
					} else {
						it = pv.Elem().Interface().(ap.Item)
					}
					var got reflect.Type
					c.Attempt("C08/crash", map[string]interface{}{"on": h.name, "src": src, "ptr": ptr})
					p, msg := guard(func() { got = h.run(it) })
					runtime.GC() // a view over foreign memory is found by the collector: here, not many cases later
					c.Count(map[string]interface{}{"on": h.name, "src": src, "ptr": ptr}, true)
					c.Tag("on-callback")
					in := map[string]interface{}{"on": h.name, "src": src, "ptr": ptr}
					if p {
						c.Fail("C08/panic", h.name+"("+src+") panics: "+msg, in)
						continue
					}
					if got != nil && got.Kind() == reflect.Ptr && got.Elem().Kind() == reflect.Struct && got.Elem().Size() > goTypes[src].Size() {
						c.Fail("C08/widening:"+h.name+"("+src+")", fmt.Sprintf("%s hands its callback a %s (%d bytes) made from a %s (%d bytes): the view exposes memory outside the original",
							h.name, got, got.Elem().Size(), src, goTypes[src].Size()), in)
					}
				}
			}
		}
		c.Exhaust = true
	}
	replayers["C08"] = func(class string, input []byte) string {
		var g map[string]interface{}
		if json.Unmarshal(input, &g) == nil {
			if n, ok := g["foreign"].(string); ok {
				for _, f := range c08Foreign {
					if f.name == n {
						return f.run()
					}
				}
			}
			if n, ok := g["on"].(string); ok {
				for _, h := range c08OnHelpers {
					if h.name == n {
						src := g["src"].(string)
						pv := reflect.New(goTypes[src])
						fillMarkers(pv.Elem(), "a-")
						pv.Elem().FieldByName("Type").SetString(vocab[src][0])
						var it ap.Item = pv.Interface().(ap.Item)
						if g["ptr"] != true {
							it = pv.Elem().Interface().(ap.Item)
						}
						got := h.run(it)
						if got != nil && got.Kind() == reflect.Ptr && got.Elem().Kind() == reflect.Struct && got.Elem().Size() > goTypes[src].Size() {
							return fmt.Sprintf("%s hands its callback a %s larger than the %s it was made from", n, got, src)
						}
						return ""
					}
				}
			}
		}
		var s castSite
		if err := json.Unmarshal(input, &s); err != nil {
			return "bad replay input"
		}
		_, viol := c08Site(s)
		return viol
	}
}

// types of another scope with a vocabulary struct as underlying type
type c08FNote ap.Object
type c08FActor ap.Actor
type c08FActivity ap.Activity

// they are Items through explicit methods (the vocabulary methods are not inherited by a defined type)
func (n *c08FNote) GetID() ap.ID                           { return n.ID }
func (n *c08FNote) GetLink() ap.IRI                        { return n.ID }
func (n *c08FNote) GetType() ap.ActivityVocabularyType     { return n.Type }
func (n *c08FNote) IsLink() bool                           { return false }
func (n *c08FNote) IsObject() bool                         { return true }
func (n *c08FNote) IsCollection() bool                     { return false }
func (n *c08FActor) GetID() ap.ID                          { return n.ID }
func (n *c08FActor) GetLink() ap.IRI                       { return n.ID }
func (n *c08FActor) GetType() ap.ActivityVocabularyType    { return n.Type }
func (n *c08FActor) IsLink() bool                          { return false }
func (n *c08FActor) IsObject() bool                        { return true }
func (n *c08FActor) IsCollection() bool                    { return false }
func (n *c08FActivity) GetID() ap.ID                       { return n.ID }
func (n *c08FActivity) GetLink() ap.IRI                    { return n.ID }
func (n *c08FActivity) GetType() ap.ActivityVocabularyType { return n.Type }
func (n *c08FActivity) IsLink() bool                       { return false }
func (n *c08FActivity) IsObject() bool                     { return true }
func (n *c08FActivity) IsCollection() bool                 { return false }

type c08ForeignCase struct {
	name string
	run  func() string
}

var c08Foreign = []c08ForeignCase{
	{"ToObject(*foreign note)", func() string {
		n := &c08FNote{ID: "https://example.com/f/1", Type: ap.NoteType}
		v, err := ap.ToObject(n)
		if err != nil {
			return "" // refusing is allowed
		}
		v.Summary = ap.NaturalLanguageValues{{Ref: ap.NilLangRef, Value: ap.Content("written through the view")}}
		if len(n.Summary) != 1 {
			return "a write through the view of a pointer is not seen by the original (the view is a copy)"
		}
		return ""
	}},
	{"OnObject(*foreign note)", func() string {
		n := &c08FNote{ID: "https://example.com/f/2", Type: ap.NoteType}
		err := ap.OnObject(n, func(o *ap.Object) error { o.MediaType = "text/plain"; return nil })
		if err == nil && n.MediaType != "text/plain" {
			return "a write through the view handed to the callback is not seen by the original"
		}
		return ""
	}},
	{"ToActor(*foreign actor)", func() string {
		n := &c08FActor{ID: "https://example.com/f/3", Type: ap.PersonType}
		v, err := ap.ToActor(n)
		if err != nil {
			return ""
		}
		v.PreferredUsername = ap.NaturalLanguageValues{{Ref: ap.NilLangRef, Value: ap.Content("u")}}
		if len(n.PreferredUsername) != 1 {
			return "a write through the view of a pointer is not seen by the original (the view is a copy)"
		}
		return ""
	}},
	{"ToActivity(*foreign activity)", func() string {
		n := &c08FActivity{ID: "https://example.com/f/4", Type: ap.CreateType}
		v, err := ap.ToActivity(n)
		if err != nil {
			return ""
		}
		v.Object = ap.IRI("https://example.com/o")
		if n.Object == nil {
			return "a write through the view of a pointer is not seen by the original (the view is a copy)"
		}
		return ""
	}},
}

// whatever was converted before, a conversion to a larger struct is refused: the answer for one target type
// must not be replayed for another (state kept between calls)
func c08AfterSuccess(it ap.Item, size uintptr, first string) string {
	for round := 0; round < 2; round++ {
		if _, err := c08Fns[first](it); err != nil {
			return "" // refusing everything is allowed
		}
		for _, fn := range c08FnOrder {
			if fn == first {
				continue
			}
			var v interface{}
			var err error
			if p, msg := guard(func() { v, err = c08Fns[fn](it) }); p {
				return fn + " after " + first + ": panic: " + msg
			}
			if err != nil || v == nil {
				continue
			}
			rv := reflect.ValueOf(v)
			if rv.Kind() == reflect.Ptr && !rv.IsNil() && rv.Elem().Kind() == reflect.Struct && rv.Elem().Type().Size() > size {
				return fmt.Sprintf("%s after a successful %s hands out a %d-byte view of a %d-byte value", fn, first, rv.Elem().Type().Size(), size)
			}
		}
	}
	return ""
}

func init() {
	c08Foreign = append(c08Foreign,
		c08ForeignCase{"OnCollection / OnOrderedCollection on a list with room to spare", func() string {
			for _, on := range []string{"OnCollection", "OnOrderedCollection"} {
				l := make(ap.ItemCollection, 0, 8)
				_ = l.Append(ap.IRI("https://example.com/1"), ap.IRI("https://example.com/2"), ap.IRI("https://example.com/3"))
				added := ap.IRI("https://example.com/added")
				var err error
				if on == "OnCollection" {
					err = ap.OnCollection(&l, func(c *ap.Collection) error { return c.Append(added) })
				} else {
					err = ap.OnOrderedCollection(&l, func(c *ap.OrderedCollection) error { return c.Append(added) })
				}
				if err != nil {
					continue // refusing is allowed
				}
				if !l.Contains(added) || len(l) != 4 {
					return fmt.Sprintf("%s accepted a list and an item appended through the view is not in the list afterwards (%d members)", on, len(l))
				}
			}
			return ""
		}},
		c08ForeignCase{"refusals after ToObject(*foreign note)", func() string {
			n := &c08FNote{ID: "https://example.com/f/5", Type: ap.NoteType}
			return c08AfterSuccess(n, reflect.TypeOf(*n).Size(), "ToObject")
		}},
		c08ForeignCase{"refusals after ToActor(*foreign actor)", func() string {
			n := &c08FActor{ID: "https://example.com/f/6", Type: ap.PersonType}
			return c08AfterSuccess(n, reflect.TypeOf(*n).Size(), "ToActor")
		}},
		c08ForeignCase{"refusals after ToObject(*foreign actor)", func() string {
			n := &c08FActor{ID: "https://example.com/f/7", Type: ap.PersonType}
			return c08AfterSuccess(n, reflect.TypeOf(*n).Size(), "ToObject")
		}},
		c08ForeignCase{"refusals after ToActivity(*foreign activity)", func() string {
			n := &c08FActivity{ID: "https://example.com/f/8", Type: ap.CreateType}
			return c08AfterSuccess(n, reflect.TypeOf(*n).Size(), "ToActivity")
		}},
	)
}

type c08OnHelper struct {
	name string
	run  func(it ap.Item) reflect.Type
}

var c08OnHelpers = []c08OnHelper{
	{"OnObject", func(it ap.Item) (t reflect.Type) {
		_ = ap.OnObject(it, func(o *ap.Object) error { t = reflect.TypeOf(o); return nil })
		return
	}},
	{"OnActor", func(it ap.Item) (t reflect.Type) {
		_ = ap.OnActor(it, func(o *ap.Actor) error { t = reflect.TypeOf(o); return nil })
		return
	}},
	{"OnActivity", func(it ap.Item) (t reflect.Type) {
		_ = ap.OnActivity(it, func(o *ap.Activity) error { t = reflect.TypeOf(o); return nil })
		return
	}},
	{"OnIntransitiveActivity", func(it ap.Item) (t reflect.Type) {
		_ = ap.OnIntransitiveActivity(it, func(o *ap.IntransitiveActivity) error { t = reflect.TypeOf(o); return nil })
		return
	}},
	{"OnQuestion", func(it ap.Item) (t reflect.Type) {
		_ = ap.OnQuestion(it, func(o *ap.Question) error { t = reflect.TypeOf(o); return nil })
		return
	}},
	{"OnCollection", func(it ap.Item) (t reflect.Type) {
		_ = ap.OnCollection(it, func(o *ap.Collection) error { t = reflect.TypeOf(o); return nil })
		return
	}},
	{"OnOrderedCollection", func(it ap.Item) (t reflect.Type) {
		_ = ap.OnOrderedCollection(it, func(o *ap.OrderedCollection) error { t = reflect.TypeOf(o); return nil })
		return
	}},
	{"OnCollectionPage", func(it ap.Item) (t reflect.Type) {
		_ = ap.OnCollectionPage(it, func(o *ap.CollectionPage) error { t = reflect.TypeOf(o); return nil })
		return
	}},
	{"OnOrderedCollectionPage", func(it ap.Item) (t reflect.Type) {
		_ = ap.OnOrderedCollectionPage(it, func(o *ap.OrderedCollectionPage) error { t = reflect.TypeOf(o); return nil })
		return
	}},
	{"OnCollectionIntf", func(it ap.Item) (t reflect.Type) {
		_ = ap.OnCollectionIntf(it, func(o ap.CollectionInterface) error { t = reflect.TypeOf(o); return nil })
		return
	}},
	{"OnPlace", func(it ap.Item) (t reflect.Type) {
		_ = ap.OnPlace(it, func(o *ap.Place) error { t = reflect.TypeOf(o); return nil })
		return
	}},
	{"OnProfile", func(it ap.Item) (t reflect.Type) {
		_ = ap.OnProfile(it, func(o *ap.Profile) error { t = reflect.TypeOf(o); return nil })
		return
	}},
	{"OnRelationship", func(it ap.Item) (t reflect.Type) {
		_ = ap.OnRelationship(it, func(o *ap.Relationship) error { t = reflect.TypeOf(o); return nil })
		return
	}},
	{"OnTombstone", func(it ap.Item) (t reflect.Type) {
		_ = ap.OnTombstone(it, func(o *ap.Tombstone) error { t = reflect.TypeOf(o); return nil })
		return
	}},
	{"OnLink", func(it ap.Item) (t reflect.Type) {
		_ = ap.OnLink(it, func(o *ap.Link) error { t = reflect.TypeOf(o); return nil })
		return
	}},
}
