/-
C08 — Typed views (On*/To*) are field-faithful and never reach outside the value.
Memory model: `Model/Layout.lean`. Layouts and the 46 conversion sites: `Generated/Casts.lean`
(go/types with gc/amd64 sizes, regenerated on every run; cross-checked against `reflect` by the
correspondence run, exercised under the runtime's pointer checker in the thorough tier).
-/
import APModel.Model.Layout
import APModel.Generated.Casts

namespace APModel.Layout
open APModel.Generated

/-! ### the generic theorem -/

/-- If the view type is a field-for-field prefix of the source type, then for every field of the view
there is the corresponding field of the source such that, wherever the value is placed and whatever
memory holds: reading through the view reads exactly that field, writing through the view writes
exactly that field (so the original sees it), and the bytes touched lie inside the source value. -/
theorem view_faithful (src dst : Layout) (srcSize dstSize : Nat) (rho : Nat → Nat)
    (hc : prefixCompat src dst srcSize dstSize rho = true) (hw : wellFormed src srcSize = true)
    (f : Field) (hf : f ∈ dst) :
    ∃ g ∈ src, g.name = rho f.name ∧ g.cls = f.cls ∧
      (∀ (m : Mem) (base : Nat), readField m base f = readField m base g) ∧
      (∀ (m : Mem) (base : Nat) (bytes : Nat → UInt8), writeField m base f bytes = writeField m base g bytes) ∧
      f.off + f.size ≤ srcSize ∧ dstSize ≤ srcSize := by
  simp only [prefixCompat, Bool.and_eq_true, List.all_eq_true, decide_eq_true_eq] at hc
  have h1 := hc.1 f hf
  simp only [compatField, List.any_eq_true, Bool.and_eq_true, beq_iff_eq] at h1
  obtain ⟨g, hg, ⟨⟨⟨hn, hcl⟩, ho⟩, hs⟩⟩ := h1
  simp only [wellFormed, List.all_eq_true, decide_eq_true_eq] at hw
  have hin := hw g hg
  refine ⟨g, hg, hn, hcl, ?_, ?_, by omega, hc.2⟩
  · intro m base; simp [readField, ho, hs]
  · intro m base bytes; funext a; simp [writeField, ho, hs]

theorem mem_of_lookup {α β : Type} [BEq α] [LawfulBEq α] {l : List (α × β)} {k : α} {v : β}
    (h : l.lookup k = some v) : (k, v) ∈ l := by
  induction l with
  | nil => simp [List.lookup] at h
  | cons e r ih =>
    obtain ⟨k', v'⟩ := e
    by_cases hk : k = k'
    · subst hk; simp [List.lookup] at h; subst h; exact List.mem_cons_self
    · have : (k == k') = false := by simpa using hk
      simp only [List.lookup, this] at h
      exact List.mem_cons_of_mem _ (ih h)

/-! ### the regenerated layouts and sites -/

def toLayout (l : List (Nat × Nat × Nat × Nat)) : Layout := l.map (fun (n, c, o, s) => ⟨n, c, o, s⟩)

def layoutOf (t : String) : Option (Nat × Layout) := (layouts.lookup t).map (fun (sz, fs) => (sz, toLayout fs))

/-- members of an ordered collection appear as the items of its unordered view and vice versa -/
def rho (n : Nat) : Nat :=
  if n = fieldIdItems then fieldIdOrderedItems else if n = fieldIdOrderedItems then fieldIdItems else n

/-- identity renaming except items ↔ orderedItems, applied only when the two types differ in it -/
def siteOK (s : String × String × String × Bool) : Bool :=
  match layoutOf s.2.1, layoutOf s.2.2.1 with
  | some (ss, sl), some (ds, dl) => prefixCompat sl dl ss ds id || prefixCompat sl dl ss ds rho
  | _, _ => false

/-- the one conversion recorded as an open finding: `ToOrderedCollectionPage` widens a CollectionPage
(744 bytes) to an OrderedCollectionPage (752 bytes): its StartIndex field lies outside the value.
The pinned test-suite requires this conversion to succeed, so it cannot be refused. -/
def knownWidening (s : String × String × String × Bool) : Bool :=
  s.1 == "ToOrderedCollectionPage" && s.2.1 == "CollectionPage" && s.2.2.1 == "OrderedCollectionPage"

/-- every struct's fields lie inside it. -/
theorem C08_layouts_wellformed :
    layouts.all (fun (_, sz, fs) => wellFormed (toLayout fs) sz) = true := by decide

/-- Every pointer-reinterpreting conversion site of the package (all of them: each reference to
package unsafe is one of these sites) views a source struct through a type that is a field-for-field
prefix of it and not larger — except the recorded finding. -/
theorem C08_sites :
    castSites.all (fun s => siteOK s || knownWidening s) = true ∧ unsafeRefs = castSites.length := by
  decide

/-- the finding, as a decided fact about the layouts the compiler uses: the view is 8 bytes larger
than the value it is placed on. -/
theorem C08_finding_widening :
    (castSites.filter knownWidening).all (fun s => !siteOK s) = true ∧
    ((layouts.lookup "OrderedCollectionPage").map (·.1), (layouts.lookup "CollectionPage").map (·.1)) = (some 752, some 744) := by
  decide

/-- Put together: at every site other than the finding, every field of the view reads and writes
the like-named field of the original (items ↔ orderedItems), inside the original value. -/
theorem C08_views (s : String × String × String × Bool) (hs : s ∈ castSites) (hk : knownWidening s = false)
    (ss ds : Nat) (sl dl : Layout) (h1 : layoutOf s.2.1 = some (ss, sl)) (h2 : layoutOf s.2.2.1 = some (ds, dl))
    (f : Field) (hf : f ∈ dl) :
    ∃ r : Nat → Nat, (r = id ∨ r = rho) ∧ ∃ g ∈ sl, g.name = r f.name ∧ g.cls = f.cls ∧
      (∀ (m : Mem) (base : Nat), readField m base f = readField m base g) ∧
      (∀ (m : Mem) (base : Nat) (bytes : Nat → UInt8), writeField m base f bytes = writeField m base g bytes) ∧
      f.off + f.size ≤ ss ∧ ds ≤ ss := by
  have hall := C08_sites.1
  rw [List.all_eq_true] at hall
  have hsite := hall s hs
  simp only [hk, Bool.or_false] at hsite
  simp only [siteOK, h1, h2, Bool.or_eq_true] at hsite
  have hwf : wellFormed sl ss = true := by
    have := C08_layouts_wellformed
    rw [List.all_eq_true] at this
    simp only [layoutOf, Option.map_eq_some_iff] at h1
    obtain ⟨⟨sz, fs⟩, hl, he⟩ := h1
    cases he
    have hm := mem_of_lookup hl
    exact this _ hm
  rcases hsite with h | h
  · exact ⟨id, Or.inl rfl, view_faithful sl dl ss ds id h hwf f hf⟩
  · exact ⟨rho, Or.inr rfl, view_faithful sl dl ss ds rho h hwf f hf⟩

end APModel.Layout
