import APModel.Model.NLV
import APModel.Props.C19
