/-
Line-protocol interpreter of the model: one JSON request per line on stdin,
one JSON answer per line on stdout (`{"case":k,"r":…}` or `{"case":k,"bad":msg}`).
-/
import Driver.Util
import Driver.OpsNLV
import Driver.OpsOrder
import Driver.OpsIRI
import Driver.OpsColl
import Driver.OpsRecip
import Driver.Value
import Driver.OpsClean
import Driver.OpsFlatten
import Driver.OpsCopy
import Driver.OpsNil
import Driver.OpsRegistry
import Driver.OpsLayout
import Driver.OpsTyper
import Driver.OpsEqual
import Driver.OpsCodec
import Driver.OpsText
import Driver.OpsDeep
import Driver.OpsBytes
open Lean Driver

def dispatch (op : String) (j : Json) : R Json :=
  match op with
  | "nlv" => opNLV j
  | "nlvEquals" => opNLVEquals j
  | "order" => opOrder j
  | "orderSort" => opOrderSort j
  | "iriEquals" => opIriEquals j
  | "irisContains" => opIrisContains j
  | "coll" => opColl j
  | "recipients" => opRecipients j
  | "echo" => opEcho j
  | "clean" => opClean j
  | "flatten" => opFlatten j
  | "copy" => opCopy j
  | "nilcell" => opNilCell j
  | "isNil" => opIsNil j
  | "typeOf" => opTypeOf j
  | "layout" => opLayout j
  | "cast" => opCast j
  | "typer" => opTyper j
  | "itemsEqual" => opItemsEqual j
  | "jsonRoundTrip" => opJsonRoundTrip j
  | "gobRoundTrip" => opGobRoundTrip j
  | "docDecode" => opDocDecode j
  | "deepRoundTrip" => opDeepRoundTrip j
  | "deepWF" => opDeepWF j
  | "jsonBytes" => opJsonBytes j
  | "deepRead" => opDeepRead j
  | "deepGobRoundTrip" => opDeepGobRoundTrip j
  | "deepGobWF" => opDeepGobWF j
  | "textWrite" => opTextWrite j
  | "textRead" => opTextRead j
  | "unmarshalText" => opUnmarshalText j
  | _ => .error s!"unknown op {op}"

partial def loop (h : IO.FS.Stream) (out : IO.FS.Stream) : IO Unit := do
  let line ← h.getLine
  if line.isEmpty then return ()
  let ans : Json :=
    match Json.parse line with
    | .error e => Json.mkObj [("bad", Json.str s!"parse: {e}")]
    | .ok j =>
      let k := fldD j "case" Json.null
      match (do let op ← strF j "op"; dispatch op j : R Json) with
      | .ok r => Json.mkObj [("case", k), ("r", r)]
      | .error e => Json.mkObj [("case", k), ("bad", Json.str e)]
  out.putStrLn ans.compress
  loop h out

def main : IO Unit := do
  let out ← IO.getStdout
  loop (← IO.getStdin) out
  out.flush
