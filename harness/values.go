package main

// Canonical value trees ("dumps"): the harness' own, reflect-based view of vocabulary values.
// Never produced by the library's encoders. A tree is JSON-like:
//
//	nil item                         -> nil
//	IRI                              -> {"iri": "<string>"}
//	IRIs                             -> {"iris": ["<string>", …]}            ("nil": true for a nil slice)
//	ItemCollection                   -> {"items": [<tree>, …], "ptr": bool}   ("nil": true for a nil slice / nil pointer)
//	struct value / pointer           -> {"t": "<GoType>", "ptr": bool, "f": {"<Field>": <fieldtree>, …}}   unset fields omitted
//	nil pointer to struct            -> {"t": "<GoType>", "ptr": true, "nil": true}
//
// field trees are self-describing: Item -> item tree; ItemCollection -> {"list": [<tree>…]};
// NaturalLanguageValues -> {"nlv": [["tag","text"],…]} (nil omitted, empty = []); time.Time -> {"time": [unixSec, nsec, zoneOffsetSec]};
// Duration -> {"dur": ns}; string-like -> {"s": "<string>"}; float64 -> {"dec6": k} meaning k/10^6; int64 -> {"int": n};
// uint -> {"uint": n}; bool -> {"bool": b}; Source / PublicKey / *Endpoints -> {"rec": {"<Field>": fieldtree, …}}.

import (
	"fmt"
	"math"
	"reflect"
	"sort"
	"time"

	ap "github.com/go-ap/activitypub"
)

type T = map[string]interface{}

var goTypes = map[string]reflect.Type{
	"Object":                reflect.TypeOf(ap.Object{}),
	"Actor":                 reflect.TypeOf(ap.Actor{}),
	"Activity":              reflect.TypeOf(ap.Activity{}),
	"IntransitiveActivity":  reflect.TypeOf(ap.IntransitiveActivity{}),
	"Question":              reflect.TypeOf(ap.Question{}),
	"Collection":            reflect.TypeOf(ap.Collection{}),
	"OrderedCollection":     reflect.TypeOf(ap.OrderedCollection{}),
	"CollectionPage":        reflect.TypeOf(ap.CollectionPage{}),
	"OrderedCollectionPage": reflect.TypeOf(ap.OrderedCollectionPage{}),
	"Place":                 reflect.TypeOf(ap.Place{}),
	"Profile":               reflect.TypeOf(ap.Profile{}),
	"Relationship":          reflect.TypeOf(ap.Relationship{}),
	"Tombstone":             reflect.TypeOf(ap.Tombstone{}),
	"Link":                  reflect.TypeOf(ap.Link{}),
}

// objectGoTypes are the 13 struct types of the object family (everything but Link), in a fixed order.
var objectGoTypes = []string{"Object", "Actor", "Activity", "IntransitiveActivity", "Question", "Collection", "OrderedCollection",
	"CollectionPage", "OrderedCollectionPage", "Place", "Profile", "Relationship", "Tombstone"}
var allGoTypes = append(append([]string{}, objectGoTypes...), "Link")

var (
	tItem     = reflect.TypeOf((*ap.Item)(nil)).Elem()
	tItems    = reflect.TypeOf(ap.ItemCollection{})
	tNLV      = reflect.TypeOf(ap.NaturalLanguageValues{})
	tTime     = reflect.TypeOf(time.Time{})
	tDuration = reflect.TypeOf(time.Duration(0))
	tSource   = reflect.TypeOf(ap.Source{})
	tPubKey   = reflect.TypeOf(ap.PublicKey{})
	tEndp     = reflect.TypeOf((*ap.Endpoints)(nil))
)

func goTypeName(t reflect.Type) string {
	for n, rt := range goTypes {
		if rt == t {
			return n
		}
	}
	return ""
}

// fieldNames lists the fields of a Go struct type in declaration order.
func fieldNames(goType string) []string {
	t := goTypes[goType]
	out := make([]string, t.NumField())
	for i := range out {
		out[i] = t.Field(i).Name
	}
	return out
}

func fieldKind(goType, field string) string {
	t := goTypes[goType]
	f, ok := t.FieldByName(field)
	if !ok {
		return ""
	}
	return kindOfType(f.Type)
}

func kindOfType(ft reflect.Type) string {
	switch {
	case ft == tItem || (ft.Kind() == reflect.Interface && ft.NumMethod() == tItem.NumMethod() && ft.Implements(tItem)):
		return "item" // Item itself and defined interface types with its method set (CanReceiveActivities)
	case ft == tItems:
		return "items"
	case ft == tNLV:
		return "nlv"
	case ft == tTime:
		return "time"
	case ft == tDuration:
		return "duration"
	case ft == tSource:
		return "source"
	case ft == tPubKey:
		return "pubkey"
	case ft == tEndp:
		return "endpoints"
	case ft.Kind() == reflect.String:
		return "string"
	case ft.Kind() == reflect.Float64:
		return "float"
	case ft.Kind() == reflect.Int64:
		return "int"
	case ft.Kind() == reflect.Uint:
		return "uint"
	case ft.Kind() == reflect.Bool:
		return "bool"
	}
	return "?" + ft.String()
}

// ---------------------------------------------------------------- build: tree -> Go value

func buildItem(tr interface{}) ap.Item {
	if tr == nil {
		return nil
	}
	m := tr.(T)
	if s, ok := m["iri"]; ok {
		return ap.IRI(s.(string))
	}
	if l, ok := m["iris"]; ok {
		if m["nil"] == true {
			if m["ptr"] == true {
				return (*ap.IRIs)(nil)
			}
			return ap.IRIs(nil)
		}
		out := make(ap.IRIs, 0)
		for _, x := range asList(l) {
			out = append(out, ap.IRI(x.(string)))
		}
		if m["ptr"] == true {
			return &out
		}
		return out
	}
	if l, ok := m["items"]; ok {
		ptr := m["ptr"] == true
		if m["nil"] == true {
			if ptr {
				return (*ap.ItemCollection)(nil)
			}
			return ap.ItemCollection(nil)
		}
		col := buildItems(l)
		if ptr {
			return &col
		}
		return col
	}
	name := m["t"].(string)
	rt, ok := goTypes[name]
	if !ok {
		panic("unknown go type " + name)
	}
	ptr := m["ptr"] == true
	pv := reflect.New(rt)
	if m["nil"] == true {
		return reflect.Zero(reflect.PtrTo(rt)).Interface().(ap.Item)
	}
	if f, ok := m["f"]; ok && f != nil {
		fillStruct(pv.Elem(), f.(T))
	}
	if ptr {
		return pv.Interface().(ap.Item)
	}
	return pv.Elem().Interface().(ap.Item)
}

func asList(l interface{}) []interface{} {
	switch x := l.(type) {
	case []interface{}:
		return x
	case []T:
		out := make([]interface{}, len(x))
		for i := range x {
			out[i] = x[i]
		}
		return out
	case []string:
		out := make([]interface{}, len(x))
		for i := range x {
			out[i] = x[i]
		}
		return out
	case nil:
		return nil
	}
	rv := reflect.ValueOf(l)
	if rv.Kind() == reflect.Slice {
		out := make([]interface{}, rv.Len())
		for i := range out {
			out[i] = rv.Index(i).Interface()
		}
		return out
	}
	panic(fmt.Sprintf("not a list: %T", l))
}

func buildItems(l interface{}) ap.ItemCollection {
	col := make(ap.ItemCollection, 0)
	for _, x := range asList(l) {
		col = append(col, buildItem(x))
	}
	return col
}

func buildNLV(l interface{}) ap.NaturalLanguageValues {
	out := make(ap.NaturalLanguageValues, 0)
	for _, e := range asList(l) {
		p := asList(e)
		out = append(out, ap.LangRefValue{Ref: ap.LangRef(p[0].(string)), Value: ap.Content(p[1].(string))})
	}
	return out
}

func num(x interface{}) float64 {
	switch v := x.(type) {
	case float64:
		return v
	case int:
		return float64(v)
	case int64:
		return float64(v)
	case uint:
		return float64(v)
	case uint64:
		return float64(v)
	}
	panic(fmt.Sprintf("not a number: %T", x))
}

func buildTime(x interface{}) time.Time {
	p := asList(x)
	sec, nsec, off := int64(num(p[0])), int64(num(p[1])), int(num(p[2]))
	t := time.Unix(sec, nsec)
	if off == 0 {
		return t.UTC()
	}
	return t.In(time.FixedZone("", off))
}

func fillStruct(sv reflect.Value, f T) {
	st := sv.Type()
	for name, val := range f {
		sf, ok := st.FieldByName(name)
		if !ok {
			panic("no field " + name + " in " + st.String())
		}
		fv := sv.FieldByName(name)
		switch kindOfType(sf.Type) {
		case "item":
			it := buildItem(val)
			if it != nil {
				fv.Set(reflect.ValueOf(it))
			}
		case "items":
			fv.Set(reflect.ValueOf(buildItems(val.(T)["list"])))
		case "nlv":
			fv.Set(reflect.ValueOf(buildNLV(val.(T)["nlv"])))
		case "time":
			fv.Set(reflect.ValueOf(buildTime(val.(T)["time"])))
		case "duration":
			fv.SetInt(int64(num(val.(T)["dur"])))
		case "string":
			fv.SetString(val.(T)["s"].(string))
		case "float":
			fv.SetFloat(num(val.(T)["dec6"]) / 1e6)
		case "int":
			fv.SetInt(int64(num(val.(T)["int"])))
		case "uint":
			fv.SetUint(uint64(num(val.(T)["uint"])))
		case "bool":
			fv.SetBool(val.(T)["bool"].(bool))
		case "source", "pubkey":
			fillStruct(fv, val.(T)["rec"].(T))
		case "endpoints":
			e := &ap.Endpoints{}
			fillStruct(reflect.ValueOf(e).Elem(), val.(T)["rec"].(T))
			fv.Set(reflect.ValueOf(e))
		default:
			panic("unhandled field kind for " + name)
		}
	}
}

// ---------------------------------------------------------------- dump: Go value -> tree

func dumpItem(it ap.Item) interface{} {
	if it == nil {
		return nil
	}
	switch v := it.(type) {
	case ap.IRI:
		return T{"iri": string(v)}
	case *ap.IRI:
		if v == nil {
			return T{"iri": "", "ptr": true, "nil": true}
		}
		return T{"iri": string(*v), "ptr": true}
	case ap.IRIs:
		if v == nil {
			return T{"iris": []interface{}{}, "nil": true}
		}
		l := make([]interface{}, len(v))
		for i := range v {
			l[i] = string(v[i])
		}
		return T{"iris": l}
	case *ap.IRIs:
		if v == nil {
			return T{"iris": []interface{}{}, "nil": true, "ptr": true}
		}
		l := make([]interface{}, len(*v))
		for i := range *v {
			l[i] = string((*v)[i])
		}
		return T{"iris": l, "ptr": true}
	case ap.ItemCollection:
		if v == nil {
			return T{"items": []interface{}{}, "nil": true, "ptr": false}
		}
		return T{"items": dumpItems(v), "ptr": false}
	case *ap.ItemCollection:
		if v == nil {
			return T{"items": []interface{}{}, "nil": true, "ptr": true}
		}
		return T{"items": dumpItems(*v), "ptr": true}
	}
	rv := reflect.ValueOf(it)
	ptr := false
	if rv.Kind() == reflect.Ptr {
		ptr = true
		name := goTypeName(rv.Type().Elem())
		if name == "" {
			return T{"t": rv.Type().String(), "unknown": true}
		}
		if rv.IsNil() {
			return T{"t": name, "ptr": true, "nil": true}
		}
		rv = rv.Elem()
	}
	name := goTypeName(rv.Type())
	if name == "" {
		return T{"t": rv.Type().String(), "unknown": true}
	}
	return T{"t": name, "ptr": ptr, "f": dumpStruct(rv)}
}

func dumpItems(col ap.ItemCollection) []interface{} {
	l := make([]interface{}, len(col))
	for i := range col {
		l[i] = dumpItem(col[i])
	}
	return l
}

func dumpNLV(n ap.NaturalLanguageValues) []interface{} {
	l := make([]interface{}, len(n))
	for i, e := range n {
		l[i] = []interface{}{string(e.Ref), string(e.Value)}
	}
	return l
}

func dumpTime(t time.Time) []interface{} {
	_, off := t.Zone()
	return []interface{}{t.Unix(), t.Nanosecond(), off}
}

func dec6(f float64) interface{} {
	return T{"dec6": int64(math.Round(f * 1e6))}
}

func dumpStruct(sv reflect.Value) T {
	out := T{}
	st := sv.Type()
	for i := 0; i < st.NumField(); i++ {
		sf := st.Field(i)
		fv := sv.Field(i)
		switch kindOfType(sf.Type) {
		case "item":
			if !fv.IsNil() {
				out[sf.Name] = dumpItem(fv.Interface().(ap.Item))
			}
		case "items":
			if !fv.IsNil() {
				out[sf.Name] = T{"list": dumpItems(fv.Interface().(ap.ItemCollection))}
			}
		case "nlv":
			if !fv.IsNil() {
				out[sf.Name] = T{"nlv": dumpNLV(fv.Interface().(ap.NaturalLanguageValues))}
			}
		case "time":
			t := fv.Interface().(time.Time)
			if !t.IsZero() {
				out[sf.Name] = T{"time": dumpTime(t)}
			}
		case "duration":
			if fv.Int() != 0 {
				out[sf.Name] = T{"dur": fv.Int()}
			}
		case "string":
			if fv.Len() > 0 {
				out[sf.Name] = T{"s": fv.String()}
			}
		case "float":
			if fv.Float() != 0 {
				out[sf.Name] = dec6(fv.Float())
			}
		case "int":
			if fv.Int() != 0 {
				out[sf.Name] = T{"int": fv.Int()}
			}
		case "uint":
			if fv.Uint() != 0 {
				out[sf.Name] = T{"uint": fv.Uint()}
			}
		case "bool":
			if fv.Bool() {
				out[sf.Name] = T{"bool": true}
			}
		case "source", "pubkey":
			if m := dumpStruct(fv); len(m) > 0 {
				out[sf.Name] = T{"rec": m}
			}
		case "endpoints":
			if !fv.IsNil() {
				out[sf.Name] = T{"rec": dumpStruct(fv.Elem())}
			}
		default:
			out[sf.Name] = "?" + sf.Type.String()
		}
	}
	return out
}

// sortedKeys of a tree map.
func sortedKeys(m T) []string {
	ks := make([]string, 0, len(m))
	for k := range m {
		ks = append(ks, k)
	}
	sort.Strings(ks)
	return ks
}

// normTree round-trips a tree through JSON so that all numbers are float64 and all maps are T
// (makes trees produced by generators and by dumpItem comparable with reflect.DeepEqual).
func normTree(x interface{}) interface{} {
	switch v := x.(type) {
	case T:
		o := T{}
		for k, e := range v {
			o[k] = normTree(e)
		}
		return o
	case []interface{}:
		o := make([]interface{}, len(v))
		for i := range v {
			o[i] = normTree(v[i])
		}
		return o
	case nil, string, bool, float64:
		return v
	case int:
		return float64(v)
	case int64:
		return float64(v)
	case uint64:
		return float64(v)
	case uint:
		return float64(v)
	}
	rv := reflect.ValueOf(x)
	if rv.Kind() == reflect.Slice {
		o := make([]interface{}, rv.Len())
		for i := range o {
			o[i] = normTree(rv.Index(i).Interface())
		}
		return o
	}
	panic(fmt.Sprintf("normTree: %T", x))
}

func treeEqual(a, b interface{}) bool {
	return reflect.DeepEqual(normTree(a), normTree(b))
}

// parseTree converts the result of json.Unmarshal (map[string]interface{}) into T-based trees.
func parseTree(x interface{}) interface{} {
	switch v := x.(type) {
	case map[string]interface{}:
		o := T{}
		for k, e := range v {
			o[k] = parseTree(e)
		}
		return o
	case []interface{}:
		o := make([]interface{}, len(v))
		for i := range v {
			o[i] = parseTree(v[i])
		}
		return o
	}
	return x
}
