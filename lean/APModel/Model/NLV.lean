/-
Model of `NaturalLanguageValues` (natural_language_values.go): an ordered list of
(language tag, text) entries with Get / Set / Append / Add / Count / First / Equals.

Generic over the tag type `τ` and the text type `γ` (Go: byte strings); only decidable
equality is used, exactly as the Go code uses `==` on `LangRef` and `bytes.Equal` on `Content`.
-/
namespace APModel.NLV

abbrev NLV (τ γ : Type) := List (τ × γ)

variable {τ γ : Type} [DecidableEq τ] [DecidableEq γ]

/-- `NaturalLanguageValues.Get`: text of the first entry whose tag is `t`. -/
def get : NLV τ γ → τ → Option γ
  | [], _ => none
  | (t', v) :: r, t => if t' = t then some v else get r t

/-- the replacement loop of `Set`: every entry tagged `t` becomes `(t, v)`. -/
def replaceAll : NLV τ γ → τ → γ → NLV τ γ
  | [], _, _ => []
  | (t', v') :: r, t, v => (if t' = t then (t, v) else (t', v')) :: replaceAll r t v

def hasTag : NLV τ γ → τ → Bool
  | [], _ => false
  | (t', _) :: r, t => decide (t' = t) || hasTag r t

/-- `NaturalLanguageValues.Append` / `Add`. -/
def append (n : NLV τ γ) (t : τ) (v : γ) : NLV τ γ := n ++ [(t, v)]

/-- `NaturalLanguageValues.Set`. -/
def set (n : NLV τ γ) (t : τ) (v : γ) : NLV τ γ :=
  if hasTag n t then replaceAll n t v else append n t v

def count (n : NLV τ γ) : Nat := n.length

def first (n : NLV τ γ) : Option (τ × γ) := n.head?

/-- `NaturalLanguageValues.Equals` as repaired (fix: every entry of `w` is matched by some entry
of `n`, counts equal). -/
def equals (n w : NLV τ γ) : Bool :=
  decide (n.length = w.length) && w.all (fun e => n.any (fun e' => decide (e' = e)))

/-- `NaturalLanguageValues.Equals` as it was on the pinned tree (every entry of `w` must equal
every entry of `n`). Kept to state the finding that was repaired. -/
def equalsPinned (n w : NLV τ γ) : Bool :=
  decide (n.length = w.length) && w.all (fun e => n.all (fun e' => decide (e' = e)))

/-- Operations of a history. -/
inductive Op (τ γ : Type)
  | get (t : τ)
  | set (t : τ) (v : γ)
  | append (t : τ) (v : γ)
  | count
  | first
  deriving Repr

/-- Observable output of one operation. -/
inductive Out (τ γ : Type)
  | text (o : Option γ)
  | unit
  | nat (n : Nat)
  | entry (e : Option (τ × γ))
  deriving Repr, DecidableEq

def step (n : NLV τ γ) : Op τ γ → NLV τ γ × Out τ γ
  | .get t => (n, .text (get n t))
  | .set t v => (set n t v, .unit)
  | .append t v => (append n t v, .unit)
  | .count => (n, .nat (count n))
  | .first => (n, .entry (first n))

def run (n : NLV τ γ) : List (Op τ γ) → NLV τ γ
  | [] => n
  | op :: ops => run (step n op).1 ops

end APModel.NLV
