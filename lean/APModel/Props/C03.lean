/-
C03 — gob/binary encode -> decode round trip preserves every vocabulary property.

Same model as C01 (`Model/Codec.lean`, level theorem in `Props/C01.lean`), instantiated with the gob
property-map tables (map<T>Properties / unmap<T>Properties, <T>.GobEncode / <T>.GobDecode), which are
regenerated from /repo on every run.  The map keys are the codec's private affair: a field's key is
whatever its write row uses, and the obligation is that the read side uses the same one.  The
whole-tree normal form `normG` is tied to the code by the `gobRoundTrip` correspondence op.
-/
import APModel.Props.C01
import APModel.Theory.DeepGob
import APModel.Generated.GobFlags

namespace APModel.Codec
open APModel APModel.Generated

/-- For each struct: the regenerated gob write and read tables agree with each other and with the struct
definition (every declared field is written with an adequate guard and read back from the same key by
the paired decoder; no key serves two fields), and the extractor read every statement. -/
theorem C03_tables :
    gobEntries.all (fun e =>
      tablesAgree pairG (gobSchema e.1) (gobW e.1) (gobR e.1) &&
      !(schemaOf e.1).isEmpty &&
      (fnOther gobMap 5 e.2.1).isEmpty && (fnOther gobUnmap 5 e.2.2).isEmpty) = true := by
  decide +kernel

theorem gobEntries_names : ∀ name ∈ gobEntries.map (·.1),
    tablesAgree pairG (gobSchema name) (gobW name) (gobR name) = true := by
  decide +kernel

/-- C03, one level, for the code's own tables: for every vocabulary struct (and sub-record) and EVERY
well-formed assignment of values to its properties, decoding the property map the writer builds
restores each property with its value and sets no other property. -/
theorem C03_level (name : String) (hn : name ∈ gobEntries.map (·.1)) (fs : Fields)
    (hwf : wfLevel (gobSchema name) fs) :
    ∀ f, (decodeLevel (gobR name) (encodeLevel (gobW name) fs)).get? f = fs.get? f :=
  agree_roundtrip pairG _ _ _ (gobEntries_names name hn) fs hwf

/-- the two schemas declare the same fields with the same kinds, so well-formedness is the same notion -/
theorem gobSchema_fields (name : String) :
    (gobSchema name).map (fun r => (r.1, r.2.1)) = (schemaOf name).map (fun r => (r.1, r.2.1)) := by
  simp [gobSchema, List.map_map, Function.comp_def]

/-! what the obligation rejects: the pinned tree's gob defects as table shapes -/
example : tablesAgree pairG [("Origin", "item", "origin")] [] [⟨"Origin", "gobDecodeItem", "origin", ""⟩] = false := by
  decide +kernel
example : tablesAgree pairG [("Describes", "item", "Describes")]
    [⟨"Describes", "Describes", "gobEncodeItem", "nonNil"⟩] [⟨"Describes", "gobDecodeItem", "describes", ""⟩] = false := by
  decide +kernel

/-! non-vacuity -/
example : (decodeLevel (gobR "Place") (encodeLevel (gobW "Place")
      (.cons "Longitude" (.dec6 (-45500000)) .nil))).get? "Longitude" = some (.dec6 (-45500000)) := by
  apply C03_level "Place" (by decide +kernel)
  intro f v h
  simp only [Fields.get?] at h
  split at h
  · subst_vars; cases h
    exact ⟨("Longitude", "float", "longitude"), by decide +kernel, rfl, by decide +kernel, by decide⟩
  · cases h

end APModel.Codec

namespace APModel.DeepGob
open APModel APModel.Codec APModel.Generated

/-! ### the whole-tree theorem on the deep gob model -/

/-- every declared field of every struct and sub-record meets gob write and read rows that fit together in
the deep sense: an adequate guard, a read row for the same key that reads into the same field, and an
encoder/decoder pair whose composition the proof covers -/
theorem C03_deep_tables :
    gobEntries.all (fun e => (schemaOf e.1).all (fun f => coherentFieldG envGob e.1 f.1)) = true := by
  decide +kernel

/-- C03 on whole trees, for the code's own tables: for EVERY well-formed value tree — any struct, any
properties, IRIs, IRI lists, embedded objects and links by value or by pointer, item lists, language values
with any tags, instants with nanoseconds and zones, negative numbers, sub-records, nested to any depth —
GobDecode(GobEncode(x)) is x in C03's normal form (struct values as pointers, nothing else changed). -/
theorem C03_deep (x : Item) (h : wfItem envGob x = true) : roundTrip envGob x = normG x :=
  deep_roundtrip envGob x h

/-! non-vacuity: a Listen activity with a nanosecond instant in a zone, a negative duration, an IRI list and an
embedded Place (by value) with negative coordinates -/
def samplePlace : Item := .node .place false
  (.cons "ID" (.str (nm "https://example.com/p/1")) (.cons "Type" (.str (nm "Place"))
  (.cons "Latitude" (.dec6 (-45500000)) (.cons "Longitude" (.dec6 (-73600000)) (.cons "Units" (.str (nm "km")) .nil)))))
def sampleListen : Item := .node .activity true
  (.cons "ID" (.str (nm "https://example.com/l/1")) (.cons "Type" (.str (nm "Listen"))
  (.cons "Actor" (.item (.iris [nm "https://example.com/~a", nm "https://example.com/~b"]))
  (.cons "Object" (.item samplePlace) (.cons "Published" (.time 1700000000 123456789 (-18000))
  (.cons "Duration" (.dur (-90061000000000)) (.cons "Name" (.nlv [(nm "en", nm "x"), (nm "en", nm "y")]) .nil)))))))
theorem sampleListen_wf : wfItem envGob sampleListen = true := by decide +kernel
example : roundTrip envGob sampleListen = normG sampleListen := C03_deep _ sampleListen_wf

end APModel.DeepGob

namespace APModel.Codec
open APModel.Generated

/-- the `hasData` flag of a gob property mapper is monotone: taken over from at most one other mapper,
and only before anything of its own is recorded; afterwards it is only ever set to `true`.  (A mapper
that assigns an expression to the flag can switch it off again and encode a value that has data as no
bytes at all.) -/
def flagEventsOK : List String → Bool
  | [] => true
  | e :: r => (e == "true" || e.startsWith "del:") && r.all (· == "true")

theorem C03_flags : gobFlagEvents.all (fun e => flagEventsOK e.2) = true := by
  simp [gobFlagEvents, flagEventsOK]

end APModel.Codec
