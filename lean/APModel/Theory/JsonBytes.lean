/- proofs that the comma/flag bookkeeping of the JSON writer produces the canonical rendering -/
import APModel.Model.JsonBytes

namespace APModel.JBytes

theorem joinC_snoc (l : List Buf) (m : Buf) (hl : l ≠ []) : joinC (l ++ [m]) = joinC l ++ [44] ++ m := by
  induction l with
  | nil => exact absurd rfl hl
  | cons x r ih =>
    cases r with
    | nil => simp [joinC]
    | cons y r' =>
      have := ih (by simp)
      simp only [List.cons_append, joinC] at this ⊢
      rw [this]
      simp [List.append_assoc]

theorem getLast_append_ne (a v : Buf) (hv : v ≠ []) : (a ++ v).getLast? = v.getLast? := by
  cases v with
  | nil => exact absurd rfl hv
  | cons x r =>
    rw [List.getLast?_append]
    cases h : (x :: r).getLast? with
    | none => simp [List.getLast?_eq_none_iff] at h
    | some y => simp

/-- what has been written so far, as the fold sees it -/
structure Inv (written : List Buf) (s : Buf × Bool) : Prop where
  buf : s.1 = [123] ++ joinC written
  flag : s.2 = !written.isEmpty
  tail : written ≠ [] → s.1.getLast? ≠ some 44 ∧ s.1.length > 1

theorem inv_init : Inv [] ([123], false) := ⟨by simp [joinC], by simp, by simp⟩

/-- a member is appended: with a comma exactly when something was written before -/
theorem writeProp_inv (written : List Buf) (s : Buf × Bool) (h : Inv written s) (name val : Buf)
    (hn : name ≠ []) (hv : val ≠ []) (hlast : val.getLast? ≠ some 44) :
    (writeProp s.1 name val).2 = true ∧
    Inv (written ++ [[34] ++ name ++ [34, 58] ++ val]) ((writeProp s.1 name val).1, true) := by
  have hvE : val.isEmpty = false := by cases val <;> simp_all
  have hnE : name.isEmpty = false := by cases name <;> simp_all
  have hmem : ([34] ++ name ++ [34, 58] ++ val) ≠ [] := by simp
  have hml : ([34] ++ name ++ [34, 58] ++ val).getLast? = val.getLast? := getLast_append_ne _ val hv
  unfold writeProp
  simp only [hvE, hnE, Bool.false_eq_true, if_false]
  refine ⟨trivial, ?_⟩
  by_cases hw : written = []
  · subst hw
    have hb : s.1 = [123] := by simpa [joinC] using h.buf
    have hc : writeComma s.1 = [123] := by rw [hb]; simp [writeComma]
    refine ⟨?_, by simp, ?_⟩
    · simp only [hc, List.nil_append, joinC]
    · intro _
      simp only [hc]
      refine ⟨?_, by simp⟩
      rw [getLast_append_ne _ _ hmem, hml]; exact hlast
  · have ht := h.tail hw
    have hc : writeComma s.1 = s.1 ++ [44] := by
      unfold writeComma
      have h1 : (s.1.length > 1) = True := by simpa using ht.2
      have h2 : (s.1.getLast? != some 44) = true := by simpa using ht.1
      simp [ht.2, h2]
    refine ⟨?_, by simp, ?_⟩
    · show writeComma s.1 ++ _ = _
      rw [hc, h.buf, joinC_snoc written _ hw]
      simp [List.append_assoc]
    · intro _
      simp only [hc]
      refine ⟨?_, by simp; omega⟩
      rw [getLast_append_ne _ _ hmem, hml]; exact hlast

/-- a statement whose value is empty changes nothing -/
theorem writeProp_empty (b name : Buf) : writeProp b name [] = (b, false) := by simp [writeProp]

/-- the conditions under which a statement form is equivalent to "write it, remember that you did" -/
def formOK (a : Attempt) : Bool :=
  match a.form with
  | .orAfter => true
  | .assign => !a.val.isEmpty        -- a plain assignment loses the flag only when the helper answers false
  | .call => false
  | .orBefore => false

def written (as : List Attempt) : List Buf := (as.filter (fun a => !a.val.isEmpty)).map member

theorem step_inv (w : List Buf) (s : Buf × Bool) (h : Inv w s) (a : Attempt) (hf : formOK a = true)
    (hn : a.name ≠ []) (hl : a.val.getLast? ≠ some 44) : Inv (w ++ written [a]) (step s a) := by
  by_cases hv : a.val = []
  · have hw : written [a] = [] := by simp [written, hv]
    rw [hw, List.append_nil]
    unfold step
    cases hform : a.form with
    | orAfter => simp only [hv, writeProp_empty, Bool.false_or]; exact h
    | assign => simp [formOK, hform, hv] at hf
    | call => simp [formOK, hform] at hf
    | orBefore => simp [formOK, hform] at hf
  · have hw : written [a] = [member a] := by
      have : a.val.isEmpty = false := by cases hval : a.val <;> simp_all
      simp [written, this]
    obtain ⟨hr, hinv⟩ := writeProp_inv w s h a.name a.val hn hv hl
    rw [hw]
    unfold step member
    cases hform : a.form with
    | orAfter => simp only [hr, Bool.true_or]; exact hinv
    | assign =>
      have : writeProp s.1 a.name a.val = ((writeProp s.1 a.name a.val).1, true) := by
        rw [← hr]
      rw [this]; exact hinv
    | call => simp [formOK, hform] at hf
    | orBefore => simp [formOK, hform] at hf

theorem written_cons (a : Attempt) (r : List Attempt) : written (a :: r) = written [a] ++ written r := by
  simp only [written, List.filter_cons, List.filter_nil]
  split <;> simp

theorem fold_inv (as : List Attempt) : ∀ (w : List Buf) (s : Buf × Bool), Inv w s →
    (∀ a ∈ as, formOK a = true ∧ a.name ≠ [] ∧ a.val.getLast? ≠ some 44) →
    Inv (w ++ written as) (as.foldl step s) := by
  induction as with
  | nil => intro w s h _; simpa [written] using h
  | cons a r ih =>
    intro w s h hall
    have ha := hall a List.mem_cons_self
    have h1 := step_inv w s h a ha.1 ha.2.1 ha.2.2
    have := ih (w ++ written [a]) (step s a) h1 (fun x hx => hall x (List.mem_cons_of_mem _ hx))
    rw [written_cons, ← List.append_assoc]
    exact this

/-- **the struct writers produce the canonical object**: for any sequence of statements whose forms are
sound, whose names are not empty and whose rendered values do not end in a comma, the bytes are `{`, the
members that had something to say joined by single commas, `}` — or nothing at all when none had. -/
theorem writeObject_spec (as : List Attempt)
    (hall : ∀ a ∈ as, formOK a = true ∧ a.name ≠ [] ∧ a.val.getLast? ≠ some 44) :
    writeObject as = specObject as := by
  have h := fold_inv as [] ([123], false) inv_init hall
  simp only [List.nil_append] at h
  unfold writeObject specObject
  have hw : written as = (as.filter (fun a => !a.val.isEmpty)).map member := rfl
  rw [← hw]
  cases hws : written as with
  | nil =>
    rw [hws] at h
    have := h.flag
    simp only [List.isEmpty_nil, Bool.not_true] at this
    simp [this]
  | cons m r =>
    rw [hws] at h
    have hf := h.flag
    simp only [List.isEmpty_cons, Bool.not_false] at hf
    simp only [hf, if_true, h.buf]

/-! ### the array writers -/

def arrStep (s : Buf × Bool) (v : Buf) : Buf × Bool :=
  if v.isEmpty then s else ((if s.2 then s.1 else s.1 ++ [44]) ++ v, false)

theorem writeArray_eq (elems : List Buf) : writeArray elems = (elems.foldl arrStep ([91], true)).1 ++ [93] := rfl

theorem arr_fold (elems : List Buf) : ∀ (w : List Buf) (s : Buf × Bool),
    s.1 = [91] ++ joinC w → s.2 = w.isEmpty → (∀ m ∈ w, m ≠ []) →
    (elems.foldl arrStep s).1 = [91] ++ joinC (w ++ elems.filter (fun v => !v.isEmpty)) := by
  induction elems with
  | nil => intro w s hb _ _; simpa using hb
  | cons v r ih =>
    intro w s hb hf hne
    simp only [List.foldl_cons]
    by_cases hv : v = []
    · subst hv
      simp only [arrStep, List.isEmpty_nil, if_true, List.filter_cons, Bool.not_true, Bool.false_eq_true, if_false]
      exact ih w s hb hf hne
    · have hvE : v.isEmpty = false := by cases v <;> simp_all
      simp only [List.filter_cons, hvE, Bool.not_false, if_true]
      have := ih (w ++ [v]) (arrStep s v) (by
          simp only [arrStep, hvE, Bool.false_eq_true, if_false]
          by_cases hw : w = []
          · subst hw; simp [hf, hb, joinC] at *
          · have hwe : w.isEmpty = false := by cases w <;> simp_all
            simp only [hf, hwe, Bool.false_eq_true, if_false, hb, joinC_snoc w v hw]
            simp [List.append_assoc])
        (by simp [arrStep, hvE])
        (by
          intro m hm
          rcases List.mem_append.mp hm with h | h
          · exact hne m h
          · have : m = v := by simpa using h
            subst this; exact hv)
      simpa [List.append_assoc] using this

/-- **the array writer produces the canonical array**: the members that rendered to something, joined
by single commas, in brackets — `[]` when there is none -/
theorem writeArray_spec (elems : List Buf) : writeArray elems = specArray elems := by
  rw [writeArray_eq, arr_fold elems [] ([91], true) (by simp [joinC]) (by simp) (by simp)]
  simp [specArray]

def irisStep (s : Buf × Nat) (v : Buf) : Buf × Nat := ((if s.2 > 0 then s.1 ++ [44] else s.1) ++ v, s.2 + 1)

theorem iris_fold (elems : List Buf) : ∀ (w : List Buf) (s : Buf × Nat),
    s.1 = [91] ++ joinC w → s.2 = w.length →
    (elems.foldl irisStep s).1 = [91] ++ joinC (w ++ elems) := by
  induction elems with
  | nil => intro w s hb _; simpa using hb
  | cons v r ih =>
    intro w s hb hn
    simp only [List.foldl_cons]
    have := ih (w ++ [v]) (irisStep s v) (by
        simp only [irisStep]
        by_cases hw : w = []
        · subst hw; simp at hn; simp [hn, hb, joinC]
        · have : s.2 > 0 := by rw [hn]; exact List.length_pos_iff.mpr hw
          simp only [this, if_true, hb, joinC_snoc w v hw]
          simp [List.append_assoc])
      (by simp [irisStep, hn])
    simpa [List.append_assoc] using this

/-- the IRI list writer: every element, single commas -/
theorem writeIRIs_spec (elems : List Buf) : writeIRIs elems = [91] ++ joinC elems ++ [93] := by
  have := iris_fold elems [] ([91], 0) (by simp [joinC]) (by simp)
  simp only [List.nil_append] at this
  unfold writeIRIs
  exact congrArg (· ++ [93]) this

/-! ### the language map writer -/

def langStep (q : Buf → Buf) (s : Buf × Bool × List Buf) (e : Buf × Buf) : Buf × Bool × List Buf :=
  if e.1.isEmpty || e.2.isEmpty || s.2.2.contains e.1 then s
  else ((if s.2.1 then s.1 else s.1 ++ [44]) ++ (q e.1 ++ [58] ++ q e.2), false, e.1 :: s.2.2)

theorem lang_fold (q : Buf → Buf) (entries : List (Buf × Buf)) : ∀ (w : List Buf) (s : Buf × Bool × List Buf),
    s.1 = [123] ++ joinC w → s.2.1 = w.isEmpty →
    (entries.foldl (langStep q) s).1 =
      [123] ++ joinC (w ++ (firstOfTag entries s.2.2).map (fun e => q e.1 ++ [58] ++ q e.2)) ∧
    (entries.foldl (langStep q) s).2.1 = (w ++ (firstOfTag entries s.2.2).map (fun (e : Buf × Buf) => q e.1 ++ [58] ++ q e.2)).isEmpty := by
  induction entries with
  | nil => intro w s hb hf; simp [firstOfTag, hb, hf]
  | cons e r ih =>
    intro w s hb hf
    simp only [List.foldl_cons]
    by_cases h1 : (e.1.isEmpty || e.2.isEmpty || s.2.2.contains e.1) = true
    · simp only [langStep, h1, if_true, firstOfTag]
      exact ih w s hb hf
    · simp only [langStep, h1, Bool.false_eq_true, if_false, firstOfTag]
      have := ih (w ++ [q e.1 ++ [58] ++ q e.2])
        ((if s.2.1 then s.1 else s.1 ++ [44]) ++ (q e.1 ++ [58] ++ q e.2), false, e.1 :: s.2.2)
        (by
          by_cases hw : w = []
          · subst hw; simp at hf; simp [hf, hb, joinC]
          · have hwe : w.isEmpty = false := by cases w <;> simp_all
            simp only [hf, hwe, Bool.false_eq_true, if_false, hb, joinC_snoc w _ hw]
            simp [List.append_assoc])
        (by simp)
      simpa [List.append_assoc] using this

/-- **the language map writer produces the canonical map**: one member per language, the first value of
each, entries without tag or text left out; nothing at all when no entry qualifies -/
theorem writeLangMap_spec (q : Buf → Buf) (entries : List (Buf × Buf)) :
    writeLangMap q entries = specLangMap q entries := by
  have := lang_fold q entries [] ([123], true, []) (by simp [joinC]) (by simp)
  simp only [List.nil_append] at this
  unfold writeLangMap specLangMap
  show (if (entries.foldl (langStep q) ([123], true, [])).2.1 then [] else (entries.foldl (langStep q) ([123], true, [])).1 ++ [125]) = _
  rw [this.1, this.2]
  cases (firstOfTag entries []).map (fun e => q e.1 ++ [58] ++ q e.2) with
  | nil => simp
  | cons m r => simp

end APModel.JBytes
