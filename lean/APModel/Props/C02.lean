/-
C02 — Emitted JSON is valid, unambiguous, injection-free and correctly termed.

What is proved (Lean) and what is regenerated:
  * strings: every string the encoder writes goes through the escaper modelled in `Model/Text.lean`
    (tied per writing site by the `textWrite` correspondence of the C02 campaign: id, type, media type,
    IRI as item, IRI list member, units, hrefLang, former type, key owner/id, text, language-map value
    and tag, source media type, link href, url).  For EVERY byte string the written literal ends exactly
    at its own closing quote whatever follows (no injection, `C06_scan_esc`), contains no byte below 0x20
    (`C06_no_control`), and decodes back to the string when that is valid UTF-8 (`C06_unesc_esc`).
  * member names: `C02_terms` — on the write tables regenerated from the source, per struct: no term is
    written twice, no `<term>Map` form of a text property collides with another property's term, every
    row writes the property under the term the struct tag declares, with the helper that produces the
    prescribed JSON kind for the field's Go type.
  * the assembly of members into an object (commas, braces, the `notEmpty` flag), the array writers and
    the language map writer, at the byte level (`Model/JsonBytes.lean`, `Model/JsonRender.lean`):
    `C02_bytes` — for EVERY value tree the bytes the struct writers produce are exactly the canonical
    rendering of the JSON tree the deep model of C01 writes (one value: members between one pair of
    braces, separated by single commas, every member name a quoted plain term; or nothing at all), given
    the statement forms regenerated from the source (`Generated/WriteForms.lean`) and the obligations on
    them (`C02_forms`, `C02_delegations`, `C02_terms_plain`).
-/
import APModel.Props.C01
import APModel.Props.C06
import APModel.Theory.JsonRender
import APModel.Model.JsonEnv

namespace APModel.Codec
open APModel APModel.Generated

/-- the JSON kind a write helper produces -/
def helperJsonKind (h : String) : String :=
  if h == "JSONWriteBoolProp" then "bool"
  else if h == "JSONWriteIntProp" || h == "JSONWriteFloatProp" then "number"
  else if h == "JSONWriteTimeProp" then "string:rfc3339"
  else if h == "JSONWriteDurationProp" then "string:xsd-duration"
  else if h == "JSONWriteStringProp" || h == "JSONWriteIRIProp" then "string"
  else if h == "JSONWriteNaturalLanguageProp" then "string-or-language-map"
  else if h == "JSONWriteItemProp" || h == "JSONWriteItemCollectionProp" then "iri-object-or-array"
  else if h == "marshal" then "marshaler"
  else "?"

/-- the JSON kind ActivityStreams prescribes for a field of that Go kind -/
def prescribedKind (kind : String) : List String :=
  if kind == "bool" then ["bool"]
  else if kind == "int" || kind == "uint" || kind == "float" then ["number"]
  else if kind == "time" then ["string:rfc3339"]
  else if kind == "duration" then ["string:xsd-duration"]
  else if kind == "nlv" then ["string-or-language-map"]
  else if kind == "item" || kind == "items" then ["iri-object-or-array"]
  else if kind == "source" || kind == "pubkey" || kind == "endpoints" then ["marshaler"]
  else if kind.startsWith "string:" then ["string", "marshaler"]
  else []

/-- all member names a struct's writer can emit: the terms, plus `<term>Map` for text properties -/
def memberNames (S : Schema) (W : List WRow) : List String :=
  W.flatMap fun w =>
    if S.any (fun (f, kind, _) => f == w.field && kind == "nlv") then [w.term, w.term ++ "Map"] else [w.term]

/-- For each struct and sub-record: no member name can be written twice (terms are pairwise distinct,
also against the `Map` forms), every row writes a declared property under its declared term, with a
helper producing the prescribed JSON kind. -/
theorem C02_terms :
    jsonEntries.all (fun e =>
      let S := schemaOf e.1
      let W := wRows jsonWrite e.2.1
      decide ((memberNames S W).Nodup) &&
      W.all (fun w => S.any (fun (f, kind, term) =>
        f == w.field && term == w.term && (prescribedKind kind).contains (helperJsonKind w.helper)))) = true := by
  decide +kernel

/-- what the obligation rejects: the pinned tree wrote Link's preview under "url" next to the url
member, and Place wrote a coordinate twice -/
example : decide ((memberNames [("URL", "item", "url"), ("Preview", "item", "preview")]
    [⟨"url", "URL", "JSONWriteItemProp", "nonNil"⟩, ⟨"url", "Preview", "JSONWriteItemProp", "nonNil"⟩]).Nodup) = false := by
  decide +kernel
/-- … and a boolean or number written by the string helper (quoted) is rejected -/
example : (prescribedKind "bool").contains (helperJsonKind "JSONWriteStringProp") = false := by decide +kernel

end APModel.Codec

namespace APModel.Text

/-- C02, strings: whatever bytes a string-typed property holds and whatever the encoder writes after it,
a reader of the document finds the literal's end exactly where the writer closed it — the text can
never terminate its own string and add or override members. -/
theorem C02_no_injection (s rest : Bytes) : scan (esc s ++ quote :: rest) = some (esc s, rest) :=
  C06_scan_esc s rest

/-- … and the literal is made of bytes >= 0x20 only (JSON forbids raw control characters). -/
theorem C02_no_raw_control (s : Bytes) (hs : ∀ x ∈ s, x < 256) : ∀ x ∈ writeText s, 32 ≤ x := by
  intro x hx
  simp only [writeText, List.mem_cons, List.mem_append, List.not_mem_nil, or_false] at hx
  rcases hx with (rfl | hx) | rfl
  · simp [quote]
  · exact C06_no_control s hs x hx
  · simp [quote]

/-- … and it decodes back to exactly the bytes held, when they are valid UTF-8. -/
theorem C02_string_exact (s rest : Bytes) (hv : valid s = true) :
    readText (writeText s ++ rest) = some (s, rest) := C06_read_write s rest hv

/-- the escaper the theorems above speak of is the source's: its two tables, its `switch`, its digit string and
its only configuration (`escapeHTML = false` at every call), regenerated from natural_language_values.go -/
theorem C02_escape_tables :
    (∀ b, b < 128 → safe b = (APModel.Generated.htmlSafeTable.getD b false || APModel.Generated.safeSetTable.getD b false)) ∧
    (∀ b, b < 128 → escBySwitch APModel.Generated.escSwitch APModel.Generated.hexDigits b = some (escAscii b)) ∧
    APModel.Generated.stringBytesCalls.all (fun c => c.2 == "false") = true :=
  ⟨C06_safe_table.2.2.2, C06_switch_table, C06_callers.1⟩

/-- the injection attempt of the property text: an id holding  ","type":"Delete  is written with its
quotes escaped and reads back whole -/
example : readText (writeText [34, 44, 34, 116, 121, 112, 101, 34, 58, 34, 68, 101, 108, 101, 116, 101] ++ [34, 125]) =
    some ([34, 44, 34, 116, 121, 112, 101, 34, 58, 34, 68, 101, 108, 101, 116, 101], [34, 125]) := by decide

end APModel.Text

namespace APModel.JRender
open APModel APModel.Codec APModel.Deep APModel.JBytes APModel.Generated

/-! ### the byte level -/

theorem qText_ne (s : Str) : qText s ≠ [] := by simp [qText, Text.writeText]

theorem qText_last (s : Str) : (qText s).getLast? ≠ some 44 := by
  have : qText s = (Text.quote :: Text.esc (s.map (·.toNat))).map UInt8.ofNat ++ [UInt8.ofNat Text.quote] := by
    simp [qText, Text.writeText]
  rw [this, List.getLast?_append]
  simp [Text.quote]

/-- a write row of the model comes from the regenerated tables -/
theorem wrow_mem (sn n : String) (w : WRow) (h : envJson.wrow sn n = some w) : w ∈ allWRows := by
  have hm : w ∈ jsonW sn := List.mem_of_find?_eq_some h
  unfold allWRows
  rw [List.mem_flatMap]
  unfold jsonW at hm
  cases he : jsonEntries.find? (fun e => e.1 == sn) with
  | none => simp [he] at hm
  | some e =>
    have hes : e.1 = sn := by simpa using List.find?_some he
    refine ⟨e, List.mem_of_find?_eq_some he, ?_⟩
    rw [hes]
    unfold jsonW
    rw [he]
    simpa [he] using hm

/-- obligation on the regenerated tables: every term, and its `…Map` form, is plain — written by the
string writer it is itself between quotes (so `JSONWritePropName`, which does not escape, writes what a
JSON string writer would) -/
theorem C02_terms_plain : allWRows.all (fun w => plainTerm w.term && plainTerm (w.term ++ "Map")) = true := by
  decide +kernel

/-- obligation on the regenerated statement forms: every property statement of every struct writer is
`notEmpty = H(...) || notEmpty`, except these plain assignments (the first statement of a writer, and
the ones in front of helpers that cannot answer false: integer writers behind a `> 0` guard, the list
writer behind a non-empty guard); none is `notEmpty || H(...)`, none discards the answer -/
theorem C02_forms :
    writeEvents.all (fun e => e.2.all (fun ev =>
      ev.1 != "row" || ev.2.2 == "orAfter" ||
      (ev.2.2 == "assign" && [("JSONWriteObjectValue", "id"), ("JSONWriteLinkValue", "id"), ("JSONWriteLinkValue", "height"),
        ("JSONWriteLinkValue", "width"), ("Actor.MarshalJSON", "streams"), ("PublicKey.MarshalJSON", "id"),
        ("Source.MarshalJSON", "mediaType")].contains (e.1, ev.2.1)))) = true := by
  decide +kernel

/-- obligation on the delegations: a struct writer hands its buffer to another writer either as the
condition of its final `if` (the flag is that writer's answer), or as `D(...) || notEmpty`, or as a
plain assignment that is the FIRST statement (nothing written before can be forgotten) -/
theorem C02_delegations :
    (delEvents writeEvents).all (fun d =>
      d.2.2.2 == "cond" || d.2.2.2 == "orAfter" || (d.2.2.2 == "assign" && d.2.1 == 0)) = true := by
  decide +kernel

theorem hyp_envJson (leaf : FVal → Buf) (hl : ∀ v, leaf v ≠ [] ∧ (leaf v).getLast? ≠ some 44) :
    Hyp envJson ⟨qText, leaf⟩ := by
  refine ⟨⟨qText_ne, qText_last, fun v => (hl v).1, fun v => (hl v).2⟩, rfl, ?_⟩
  intro sn n w sfx hw hs
  have hmem := wrow_mem sn n w hw
  have hall := List.all_eq_true.mp C02_terms_plain w hmem
  simp only [Bool.and_eq_true, plainTerm, Bool.not_eq_true', beq_iff_eq] at hall
  rcases hs with rfl | rfl
  · simp only [String.append_empty]
    exact ⟨by intro e; simp [e] at hall, hall.1.2⟩
  · exact ⟨by intro e; simp [e] at hall, hall.2.2⟩

/-- **C02 at the byte level, for the code's own tables and statement forms.**  For EVERY value tree `x`
(any struct, any properties, nested to any depth) and any way of writing numbers, booleans, instants and
durations that writes something not ending in a comma: the bytes `<T>.MarshalJSON` produces — by
appending members to a buffer, deciding about each comma by looking at the buffer's last byte, and
threading the `notEmpty` flag through every statement in the form the source gives it — are exactly the
canonical rendering of the JSON tree the deep model writes for `x`, or no bytes at all when the tree
model writes nothing.  Precondition `okItem`: wherever a plain assignment statement met a value, its
helper had something to write (decidable; `C02_forms` lists those statements). -/
theorem C02_bytes (leaf : FVal → Buf) (hl : ∀ v, leaf v ≠ [] ∧ (leaf v).getLast? ≠ some 44) (x : Item)
    (hok : okItem envJson envForms ⟨qText, leaf⟩ x = true) :
    bItem envJson envForms ⟨qText, leaf⟩ x = renderOpt ⟨qText, leaf⟩ (writeItem envJson x) :=
  b_item envJson envForms ⟨qText, leaf⟩ (hyp_envJson leaf hl) x hok

/-- … for any tables, forms and scalar writers (the statement the instance above is drawn from) -/
theorem C02_bytes_generic (E : Env) (fm : Forms) (F : Fmt) (H : Hyp E F) (x : Item)
    (hok : okItem E fm F x = true) : bItem E fm F x = renderOpt F (writeItem E x) :=
  b_item E fm F H x hok

/-! why the forms matter: the two unsound forms on a two-member object (kernel-decided witnesses on the
bookkeeping itself) -/

/-- `notEmpty = notEmpty || H(...)`: the second member is never written -/
theorem C02_orBefore_drops :
    writeObject [⟨[97], [49], .orAfter⟩, ⟨[98], [50], .orBefore⟩] = specObject [⟨[97], [49], .orAfter⟩] := by
  decide +kernel

/-- a plain assignment in front of a helper that answers false forgets the member before it: nothing is
written at all (the defect repaired in `Source.MarshalJSON`) -/
theorem C02_assign_forgets :
    writeObject [⟨[97], [49], .orAfter⟩, ⟨[98], [], .assign⟩] = [] ∧
    specObject [⟨[97], [49], .orAfter⟩, ⟨[98], [], .assign⟩] ≠ [] := by
  decide +kernel

/-! non-vacuity: the sample Create of C01 (nested Note, language map, lists) meets the precondition -/
def leaf0 : FVal → Buf := fun _ => [48]
example : okItem envJson envForms ⟨qText, leaf0⟩ sampleCreate = true := by decide +kernel
example : bItem envJson envForms ⟨qText, leaf0⟩ sampleCreate = renderOpt ⟨qText, leaf0⟩ (writeItem envJson sampleCreate) :=
  C02_bytes leaf0 (by intro v; simp [leaf0]) sampleCreate (by decide +kernel)

end APModel.JRender
