package main

import (
	"encoding/json"
	"fmt"
	"strings"

	ap "github.com/go-ap/activitypub"
)

// C09 — item equality is reflexive, nil-correct and identity-sensitive.

// the object core without media type and source, and the activity properties
var c09Core = []string{"Name", "Summary", "Content", "Attachment", "AttributedTo", "Audience", "Context", "Generator", "Icon", "Image", "InReplyTo",
	"Location", "Preview", "Replies", "Tag", "URL", "To", "Bto", "CC", "BCC", "Published", "Updated", "StartTime", "EndTime", "Duration", "Likes", "Shares"}
var c09Activity = []string{"Actor", "Object", "Target", "Result", "Origin", "Instrument"}

func implEqual(a, b interface{}) (r bool, pan string) {
	x, y := buildItem(a), buildItem(b)
	p, msg := guard(func() { r = ap.ItemsEqual(x, y) })
	if p {
		return false, msg
	}
	return r, ""
}

func cloneTree(x interface{}) interface{} {
	b := mustJSON(x)
	var out interface{}
	json.Unmarshal(b, &out)
	return parseTree(out)
}

type c09Case struct {
	A    interface{} `json:"a"`
	B    interface{} `json:"b"`
	Want string      `json:"want"` // "true" | "false" | "" (correspondence only)
	Why  string      `json:"why"`
}

func c09Emit(c *Ctx, cs c09Case) {
	got, pan := implEqual(cs.A, cs.B)
	in := map[string]interface{}{"op": "itemsEqual", "a": cs.A, "b": cs.B, "want": cs.Want, "why": cs.Why}
	if pan != "" {
		c.Emit(in, "panic", true)
		c.Fail("C09/panic", "panic: "+pan, in)
		return
	}
	c.Emit(in, got, cs.A != nil || cs.B != nil)
	c.Tag(cs.Why)
	if cs.Want != "" && fmt.Sprint(got) != cs.Want {
		c.Fail("C09/"+strings.SplitN(cs.Why, "/", 2)[0], fmt.Sprintf("ItemsEqual = %v, expected %s (%s)", got, cs.Want, cs.Why), in)
	}
}

// c09EmitOneOrder: a property set on one side only must make the two values unequal in at least one
// argument order (which one depends on the type: the comparison is driven by the second argument for
// objects and by the receiver for the object core of collections).
func c09EmitOneOrder(c *Ctx, x, y interface{}, why string) {
	c09Emit(c, c09Case{A: x, B: y, Why: why + " (order 1)"})
	c09Emit(c, c09Case{A: y, B: x, Why: why + " (order 2)"})
	e1, p1 := implEqual(x, y)
	e2, p2 := implEqual(y, x)
	if p1 == "" && p2 == "" && e1 && e2 {
		c.Fail("C09/field", "a property set on one side only, yet ItemsEqual is true in both argument orders ("+why+")",
			map[string]interface{}{"op": "itemsEqual", "a": x, "b": y, "want": "one-order-false", "why": why})
	}
}

// a different value for a field of the given kind
func c09Other(g *GenCfg, r *RNG, goType, field string) interface{} {
	switch fieldKind(goType, field) {
	case "item":
		if field == "URL" {
			return T{"iri": g.nextID("other-url")}
		}
		if r.Bool() {
			return T{"iri": g.nextID("other")}
		}
		return T{"t": "Object", "ptr": true, "f": T{"ID": T{"s": g.nextID("other-obj")}, "Type": T{"s": "Note"}}}
	case "items":
		return T{"list": []interface{}{T{"iri": g.nextID("other-member")}}}
	case "nlv":
		return T{"nlv": []interface{}{[]interface{}{"en", "a different text " + g.nextID("t")}}}
	case "time":
		return T{"time": []interface{}{1900000000 + r.Intn(1000), 0, 0}}
	case "duration":
		return T{"dur": int64(7777+r.Intn(100)) * 1e9}
	}
	return nil
}

func init() {
	campaigns["C09"] = func(c *Ctx) {
		c.Rule = "items generated type-directed over the whole vocabulary (all 14 structs, by pointer and by value, IRIs, links, item lists and IRI lists, id-less embedded objects, 1-3 language values incl. repeated language references, nesting depth <= 2): (1) every item against itself (two independently built copies) -> true, also with a list that names one thing twice (same IRI, IRI next to the object of that id, an id-less object twice); (2) every nil kind against every nil kind -> true, and against non-nil items in both orders -> false; (3) a copy with a different id (host, path or query) or a type differing in more than case -> false, a type differing only in case -> true; (4) for every property of the object core other than media type and source, and actor/object/target/result/origin/instrument of activities: a copy with that property changed to a different value (both orders -> false) or removed / added (the order whose second argument carries the value -> false); (4b) systematically, on minimal values: every struct x every type name of its family (incl. the generic names Object, Activity, Actor, ...) x every listed property, changed and one-sided, a quarter of them with the type name in lower case and a quarter in upper case on both sides; (5) IRI vs object of the same id, value vs pointer, random unrelated pairs: correspondence only."
		cfg := &GenCfg{MaxDepth: 2, Density: 18, ValueNodes: true, Links: true, EmptyTypes: true, MultiLang: true, RepeatLang: true, Zones: true}
		// (1b) every struct carrying every type name of the vocabulary (a page name on a collection struct, an actor
		// name on an object struct, ...: values that can be built by hand although no decoder produces them), by
		// pointer and by value, against a copy of itself
		{
			seen := map[string]bool{}
			var names []string
			for _, fam := range []string{"Object", "Actor", "Activity", "IntransitiveActivity", "Question", "Collection", "OrderedCollection", "CollectionPage", "OrderedCollectionPage", "Place", "Profile", "Relationship", "Tombstone", "Link"} {
				for _, n := range vocab[fam] {
					if !seen[n] {
						seen[n] = true
						names = append(names, n)
					}
				}
			}
			k := 0
			for _, goType := range allGoTypes {
				for _, name := range names {
					for _, ptr := range []bool{true, false} {
						k++
						x := T{"t": goType, "ptr": ptr, "f": T{"ID": T{"s": fmt.Sprintf("https://example.com/mistyped/%d", k)}, "Type": T{"s": name}}}
						if k%3 == 0 {
							x["f"].(T)["Name"] = T{"nlv": []interface{}{[]interface{}{"en", "a name"}}}
						}
						c09Emit(c, c09Case{A: x, B: cloneTree(x), Want: "true", Why: "reflexive/any-struct-any-type-name"})
					}
				}
			}
		}
		n := c.N(700, 15000)
		for i := 0; i < n; i++ {
			var x interface{}
			var goType string
			switch p := c.R.Intn(100); {
			case p < 70:
				goType = allGoTypes[c.R.Intn(len(allGoTypes))]
				x = cfg.genNode(c.R, goType, cfg.MaxDepth, false)
			case p < 80:
				x = T{"iri": cfg.nextID("iri")}
			case p < 92:
				x = T{"items": cfg.genItemList(c.R, 1, 1+c.R.Intn(3)), "ptr": c.R.Bool()}
			default:
				l := []interface{}{}
				for k := 1 + c.R.Intn(3); k > 0; k-- {
					l = append(l, cfg.nextID("in-iris"))
				}
				x = T{"iris": l}
			}
			c09Emit(c, c09Case{A: x, B: cloneTree(x), Want: "true", Why: "reflexive/" + goType})
			// … and with a list that names one thing twice (the same IRI, an IRI next to the object of that id, an
			// id-less object twice): lists built by hand or decoded by other software are not de-duplicated
			if i%3 == 0 {
				dup := func(l []interface{}) []interface{} {
					if len(l) == 0 {
						id := cfg.nextID("twice")
						return []interface{}{T{"iri": id}, T{"iri": id}}
					}
					m := l[c.R.Intn(len(l))]
					extra := cloneTree(m)
					if mt, ok := m.(T); ok && c.R.Bool() {
						if ft, ok := mt["f"].(T); ok {
							if idv, ok := ft["ID"].(T); ok {
								extra = T{"iri": idv["s"]}
							}
						}
					}
					out := append([]interface{}{}, l...)
					pos := c.R.Intn(len(out) + 1)
					out = append(out[:pos], append([]interface{}{extra}, out[pos:]...)...)
					return out
				}
				// an IRI, then a short and a detailed copy of one object (the same id and type, fewer and more
				// properties), in every order: a list equals itself whatever the order of its members
				if i%9 == 0 {
					id := cfg.nextID("copies")
					stub := T{"t": "Object", "ptr": true, "f": T{"ID": T{"s": id}, "Type": T{"s": "Note"}}}
					full := T{"t": "Object", "ptr": true, "f": T{"ID": T{"s": id}, "Type": T{"s": "Note"}, "Name": T{"nlv": []interface{}{[]interface{}{"-", "detailed"}}},
						"Summary": T{"nlv": []interface{}{[]interface{}{"en", "more"}}}}}
					iri := T{"iri": cfg.nextID("first")}
					for _, l := range [][]interface{}{{iri, stub, full}, {iri, full, stub}, {stub, full, iri}, {stub, iri, full}, {full, stub, iri}, {stub, full}, {iri, stub, full, T{"iri": cfg.nextID("last")}}} {
						lt := T{"items": l, "ptr": false}
						c09Emit(c, c09Case{A: lt, B: cloneTree(lt), Want: "true", Why: "reflexive/short-and-detailed-copies"})
						holder := T{"t": "Object", "ptr": true, "f": T{"ID": T{"s": cfg.nextID("holder")}, "Type": T{"s": "Note"}, "Tag": T{"list": l}}}
						c09Emit(c, c09Case{A: holder, B: cloneTree(holder), Want: "true", Why: "reflexive/short-and-detailed-copies"})
					}
				}
				y := cloneTree(x)
				done := false
				if mt, ok := y.(T); ok {
					if l, ok := mt["items"]; ok {
						mt["items"] = dup(asList(l))
						done = true
					} else if ft, ok := mt["f"].(T); ok && goType != "Link" {
						name := []string{"To", "CC", "Tag", "Attachment", "Audience"}[c.R.Intn(5)]
						if fieldKind(goType, name) == "items" {
							lv, _ := ft[name].(T)
							if lv == nil {
								lv = T{"list": []interface{}{}}
							}
							lv["list"] = dup(asList(lv["list"]))
							ft[name] = lv
							done = true
						}
					}
				}
				if done {
					c09Emit(c, c09Case{A: y, B: cloneTree(y), Want: "true", Why: "reflexive/repeated-member"})
				}
			}
			for _, nk := range []string{"nil", "*Object", "*Activity", "ItemCollection(nil)"} {
				nt := dumpItem(mkNil(nk))
				if i%9 == 0 {
					c09Emit(c, c09Case{A: x, B: nt, Want: "false", Why: "nil/non-nil second"})
					c09Emit(c, c09Case{A: nt, B: x, Want: "false", Why: "nil/non-nil first"})
				}
			}
			m, isNode := x.(T)
			if !isNode || goType == "" || goType == "Link" {
				continue
			}
			f := m["f"].(T)
			// identity
			if id, ok := f["ID"].(T); ok {
				for _, variant := range []string{"/other-path", "?q=1"} {
					y := cloneTree(x).(T)
					y["f"].(T)["ID"] = T{"s": id["s"].(string) + variant}
					c09Emit(c, c09Case{A: x, B: y, Want: "false", Why: "identity/different id"})
					c09Emit(c, c09Case{A: y, B: x, Want: "false", Why: "identity/different id"})
				}
				if i%5 == 0 {
					// ids that consist of a fragment only (the parts of one document), and next to the empty id
					a, b, e := cloneTree(x).(T), cloneTree(x).(T), cloneTree(x).(T)
					a["f"].(T)["ID"] = T{"s": "#first-note"}
					b["f"].(T)["ID"] = T{"s": "#second-note"}
					delete(e["f"].(T), "ID")
					for _, pr := range [][2]T{{a, b}, {b, a}, {a, e}, {e, a}} {
						c09Emit(c, c09Case{A: pr[0], B: pr[1], Want: "false", Why: "identity/fragment-only ids"})
					}
					// a text whose language reference and words are cut differently ("en"+"glish…" / "eng"+"lish…")
					n1, n2 := cloneTree(x).(T), cloneTree(x).(T)
					n1["f"].(T)["Name"] = T{"nlv": []interface{}{[]interface{}{"en", "glish breakfast"}, []interface{}{"de", "utsch"}}}
					n2["f"].(T)["Name"] = T{"nlv": []interface{}{[]interface{}{"eng", "lish breakfast"}, []interface{}{"de", "utsch"}}}
					c09Emit(c, c09Case{A: n1, B: n2, Want: "false", Why: "field/reference and text cut differently"})
					c09Emit(c, c09Case{A: n2, B: n1, Want: "false", Why: "field/reference and text cut differently"})
				}
				y := cloneTree(x).(T)
				y["f"].(T)["ID"] = T{"s": strings.Replace(id["s"].(string), "example.com", "other.example.org", 1)}
				c09Emit(c, c09Case{A: x, B: y, Want: "false", Why: "identity/different host"})
				// ids of equal length that differ in one byte that is not a letter (the pairs a careless case fold
				// would identify: @ `, [ {, ] }, ^ ~), in the path and in the query
				if i%4 == 0 {
					for _, pr := range [][2]string{{"/@alice", "/`alice"}, {"/objects/[1]", "/objects/{1}"}, {"?q=a^b", "?q=a~b"}, {"/x@y", "/x`y"},
						// one key given twice, the values split differently (a value may hold a comma)
						{"?tag=a,b&tag=c", "?tag=a&tag=b,c"}, {"?t=x&t=y,z", "?t=x,y&t=z"}} {
						a, b := cloneTree(x).(T), cloneTree(x).(T)
						a["f"].(T)["ID"] = T{"s": id["s"].(string) + pr[0]}
						b["f"].(T)["ID"] = T{"s": id["s"].(string) + pr[1]}
						c09Emit(c, c09Case{A: a, B: b, Want: "false", Why: "identity/different punctuation"})
						c09Emit(c, c09Case{A: b, B: a, Want: "false", Why: "identity/different punctuation"})
					}
				}
				if c.R.Chance(30) {
					c09Emit(c, c09Case{A: T{"iri": id["s"]}, B: x, Why: "mixed/iri-vs-object"})
					c09Emit(c, c09Case{A: x, B: T{"iri": id["s"]}, Why: "mixed/object-vs-iri"})
				}
			}
			if typ, ok := f["Type"].(T); ok {
				y := cloneTree(x).(T)
				y["f"].(T)["Type"] = T{"s": strings.ToUpper(typ["s"].(string))}
				c09Emit(c, c09Case{A: x, B: y, Why: "type/case variant"})
				z := cloneTree(x).(T)
				other := "Note"
				if typ["s"] == "Note" {
					other = "Article"
				}
				z["f"].(T)["Type"] = T{"s": other}
				c09Emit(c, c09Case{A: x, B: z, Want: "false", Why: "type/different"})
				c09Emit(c, c09Case{A: z, B: x, Want: "false", Why: "type/different"})
			}
			// one property changed
			props := append([]string{}, c09Core...)
			if goType == "Activity" {
				props = append(props, c09Activity...)
			}
			field := props[c.R.Intn(len(props))]
			if fieldKind(goType, field) == "" {
				continue
			}
			other := c09Other(cfg, c.R, goType, field)
			if other == nil {
				continue
			}
			if cur, ok := f[field].(T); ok && fieldKind(goType, field) == "time" && c.R.Bool() {
				// an instant changed by less than a second, inside the same second
				if t := asList(cur["time"]); len(t) == 3 {
					ns := (int64(num(t[1])) + 1 + int64(c.R.Intn(999999998))) % 1000000000
					other = T{"time": []interface{}{t[0], ns, t[2]}}
				}
			}
			if cur, ok := f[field]; ok && treeEqual(cur, other) {
				continue // the "different" value happens to be the current one
			}
			y := cloneTree(x).(T)
			_, was := f[field]
			y["f"].(T)[field] = other
			if was {
				c09Emit(c, c09Case{A: x, B: y, Want: "false", Why: "field/changed " + field})
				c09Emit(c, c09Case{A: y, B: x, Want: "false", Why: "field/changed " + field})
				z := cloneTree(x).(T)
				delete(z["f"].(T), field)
				c09EmitOneOrder(c, x, z, "field/removed "+field)
			} else {
				c09EmitOneOrder(c, x, y, "field/added "+field)
			}
			if i%5 == 0 {
				c09Emit(c, c09Case{A: x, B: cfg.genNode(c.R, allGoTypes[c.R.Intn(len(allGoTypes))], 1, false), Why: "mixed/unrelated"})
			}
		}
		// systematic: every struct x every type name of its family x every listed property, on minimal values:
		// changed (both orders unequal), present on one side only (unequal in at least one order)
		for _, goType := range objectGoTypes {
			props := append([]string{}, c09Core...)
			if goType == "Activity" {
				props = append(props, c09Activity...)
			}
			for ti, tn := range vocab[goType] {
				for pi, field := range props {
					if !c.Thorough() && (ti+pi)%3 != int(c.Seed%3) && ti != 0 {
						continue // the quick tier takes the generic name of each family fully and a third of the rest
					}
					if fieldKind(goType, field) == "" {
						continue
					}
					v1 := c09Other(cfg, c.R, goType, field)
					v2 := c09Other(cfg, c.R, goType, field)
					for tries := 0; tries < 5 && v1 != nil && v2 != nil && treeEqual(v1, v2); tries++ {
						v2 = c09Other(cfg, c.R, goType, field) // the two values must differ
					}
					if v1 == nil || v2 == nil || treeEqual(v1, v2) {
						continue
					}
					id := cfg.nextID("sys")
					mk := func(v interface{}) T {
						f := T{"ID": T{"s": id}, "Type": T{"s": tn}}
						if v != nil {
							f[field] = v
						}
						return T{"t": goType, "ptr": true, "f": f}
					}
					if (ti+pi)%4 == 1 {
						tn = strings.ToLower(tn) // a type in a non-canonical spelling, the same on both sides
					} else if (ti+pi)%4 == 3 {
						tn = strings.ToUpper(tn)
					}
					x, y, z := mk(v1), mk(v2), mk(nil)
					c09Emit(c, c09Case{A: x, B: y, Want: "false", Why: "systematic/changed " + field})
					c09Emit(c, c09Case{A: y, B: x, Want: "false", Why: "systematic/changed " + field})
					c09EmitOneOrder(c, x, z, "systematic/one-sided "+field)
					c09Emit(c, c09Case{A: x, B: cloneTree(x), Want: "true", Why: "systematic/copy"})
				}
			}
		}
		for _, a := range nilKinds() {
			for _, b := range nilKinds() {
				c09Emit(c, c09Case{A: dumpItem(mkNil(a)), B: dumpItem(mkNil(b)), Want: "true", Why: "nil/nil"})
			}
		}
	}
	replayers["C09"] = func(class string, input []byte) string {
		var in map[string]interface{}
		if err := json.Unmarshal(input, &in); err != nil {
			return "bad replay input"
		}
		got, pan := implEqual(parseTree(in["a"]), parseTree(in["b"]))
		if pan != "" {
			return "panic: " + pan
		}
		if w, _ := in["want"].(string); w == "one-order-false" {
			rev, _ := implEqual(parseTree(in["b"]), parseTree(in["a"]))
			if got && rev {
				return "ItemsEqual is true in both argument orders"
			}
			return ""
		} else if w != "" && fmt.Sprint(got) != w {
			return fmt.Sprintf("ItemsEqual = %v, expected %s (%v)", got, w, in["why"])
		}
		return ""
	}
}
