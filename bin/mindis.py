#!/usr/bin/env python3
"""print the smallest model/implementation disagreements of the last correspondence run of a property"""
import json,sys
d='/verif/build/run/%s/'%sys.argv[1]
k=int(sys.argv[2]) if len(sys.argv)>2 else 2
dis=[]
for i,m,c in zip(open(d+'impl.jsonl'),open(d+'model.jsonl'),open(d+'cases.jsonl')):
    a,b=json.loads(i),json.loads(m)
    if b.get('r')=={'outside':True}: continue
    if a!=b: dis.append((len(c),json.loads(c),a.get('r'),b.get('r',b.get('bad'))))
dis.sort(key=lambda x:x[0])
print(len(dis),'disagreements')
for l,c,a,b in dis[:k]:
    print(json.dumps(c)[:2500]); print('   impl:',json.dumps(a)[:600]); print('   model:',json.dumps(b)[:600])
