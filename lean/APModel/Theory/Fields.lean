/- lemmas about the association-list operations on `Fields` (helpers, no property statements) -/
import APModel.Model.Value

namespace APModel

theorem get_set_other : ∀ (fs : Fields) (n m : String) (v : FVal), m ≠ n →
    (fs.set n v).get? m = fs.get? m
  | .nil, n, m, v, hne => by simp [Fields.set, Fields.get?, Ne.symm hne]
  | .cons k w r, n, m, v, hne => by
    by_cases hk : k = n
    · subst hk
      simp [Fields.set, Fields.get?, Ne.symm hne]
    · by_cases hkm : k = m
      · subst hkm; simp [Fields.set, hk, Fields.get?]
      · simp [Fields.set, hk, Fields.get?, hkm, get_set_other r n m v hne]

theorem get_erase_other : ∀ (fs : Fields) (n m : String), m ≠ n →
    (fs.erase n).get? m = fs.get? m
  | .nil, n, m, hne => by simp [Fields.erase, Fields.get?]
  | .cons k w r, n, m, hne => by
    by_cases hk : k = n
    · subst hk
      simp [Fields.erase, Fields.get?, Ne.symm hne, get_erase_other r k m hne]
    · by_cases hkm : k = m
      · subst hkm; simp [Fields.erase, hk, Fields.get?]
      · simp [Fields.erase, hk, Fields.get?, hkm, get_erase_other r n m hne]

theorem get_set_same : ∀ (fs : Fields) (n : String) (v : FVal), (fs.set n v).get? n = some v
  | .nil, n, v => by simp [Fields.set, Fields.get?]
  | .cons k w r, n, v => by
    by_cases hk : k = n
    · subst hk; simp [Fields.set, Fields.get?]
    · simp [Fields.set, hk, Fields.get?, get_set_same r n v]

theorem get_erase_same : ∀ (fs : Fields) (n : String), (fs.erase n).get? n = none
  | .nil, n => by simp [Fields.erase, Fields.get?]
  | .cons k w r, n => by
    by_cases hk : k = n
    · subst hk; simp [Fields.erase, get_erase_same r k]
    · simp [Fields.erase, hk, Fields.get?, get_erase_same r n]

/-- assign an optional value: set when present, erase when absent (Go: `to.F = from.F`). -/
def Fields.assign (fs : Fields) (n : String) (v : Option FVal) : Fields :=
  match v with
  | some x => fs.set n x
  | none => fs.erase n

theorem get_assign_same (fs : Fields) (n : String) (v : Option FVal) : (fs.assign n v).get? n = v := by
  cases v <;> simp [Fields.assign, get_set_same, get_erase_same]

theorem get_assign_other (fs : Fields) (n m : String) (v : Option FVal) (hne : m ≠ n) :
    (fs.assign n v).get? m = fs.get? m := by
  cases v <;> simp [Fields.assign, get_set_other _ _ _ _ hne, get_erase_other _ _ _ hne]

end APModel
