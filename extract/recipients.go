package main

import (
	"fmt"
	"go/ast"
	"sort"
	"strings"
)

// argument of ItemCollectionDeduplication:
//   &x.F                      -> "F"
//   &ItemCollection{x.F}      -> "[F]"
//   &v  with  v := x.F earlier -> "copy:F"
//   &v  otherwise              -> "local:v"
func (x *Extractor) dedupArg(e ast.Expr, locals map[string]string) string {
	u, ok := e.(*ast.UnaryExpr)
	if !ok || u.Op.String() != "&" {
		return "?unknown: " + x.src(e)
	}
	switch a := u.X.(type) {
	case *ast.SelectorExpr:
		if _, ok := a.X.(*ast.Ident); ok {
			return a.Sel.Name
		}
	case *ast.CompositeLit:
		if id, ok := a.Type.(*ast.Ident); ok && id.Name == "ItemCollection" && len(a.Elts) == 1 {
			if s, ok := a.Elts[0].(*ast.SelectorExpr); ok {
				return "[" + s.Sel.Name + "]"
			}
		}
	case *ast.Ident:
		if f, ok := locals[a.Name]; ok {
			return "copy:" + f
		}
		return "local:" + a.Name
	}
	return "?unknown: " + x.src(e)
}

func (x *Extractor) genRecipients() string {
	var sb strings.Builder
	sb.WriteString(header)
	sb.WriteString("namespace APModel.Generated\n\n")
	sb.WriteString("/-- per receiver type of a `Recipients()` method: the argument lists of every call of\n`ItemCollectionDeduplication` in its body, in source order. -/\n")
	sb.WriteString("def recipientsCalls : List (String × List (List String)) := [\n")
	var types []string
	calls := map[string][][]string{}
	block := map[string][]string{}
	for k, fd := range x.funcs {
		if !strings.HasSuffix(k, ".Recipients") || fd.Body == nil {
			continue
		}
		t := strings.TrimSuffix(k, ".Recipients")
		types = append(types, t)
		locals := map[string]string{}
		ast.Inspect(fd.Body, func(n ast.Node) bool {
			switch s := n.(type) {
			case *ast.AssignStmt:
				if len(s.Lhs) == 1 && len(s.Rhs) == 1 && s.Tok.String() == ":=" {
					if id, ok := s.Lhs[0].(*ast.Ident); ok {
						if sel, ok := s.Rhs[0].(*ast.SelectorExpr); ok {
							locals[id.Name] = sel.Sel.Name
						}
					}
				}
			case *ast.CallExpr:
				if id, ok := s.Fun.(*ast.Ident); ok {
					if id.Name == "ItemCollectionDeduplication" {
						var args []string
						for _, a := range s.Args {
							args = append(args, x.dedupArg(a, locals))
						}
						calls[t] = append(calls[t], args)
					}
					if id.Name == "removeFromAudience" {
						block[t] = append(block[t], x.src(s))
					}
				}
			}
			return true
		})
	}
	sort.Strings(types)
	for i, t := range types {
		var cs []string
		for _, c := range calls[t] {
			cs = append(cs, lstrList(c))
		}
		sep := ","
		if i == len(types)-1 {
			sep = ""
		}
		fmt.Fprintf(&sb, "  (%s, [%s])%s\n", lstr(t), strings.Join(cs, ", "), sep)
	}
	sb.WriteString("]\n\n/-- receiver types whose `Recipients()` calls `removeFromAudience` (the Block clause). -/\n")
	var bt []string
	for t := range block {
		bt = append(bt, t)
	}
	sort.Strings(bt)
	fmt.Fprintf(&sb, "def recipientsBlockTypes : List String := %s\n\n", lstrList(bt))
	// the fields removeFromAudience filters
	var raf []string
	if fd, ok := x.funcs["removeFromAudience"]; ok {
		ast.Inspect(fd.Body, func(n ast.Node) bool {
			if as, ok := n.(*ast.AssignStmt); ok && len(as.Lhs) == 1 && len(as.Rhs) == 1 {
				if l, ok := as.Lhs[0].(*ast.SelectorExpr); ok {
					if c, ok := as.Rhs[0].(*ast.CallExpr); ok {
						if id, ok := c.Fun.(*ast.Ident); ok && id.Name == "removeFromCollection" && len(c.Args) >= 1 {
							if r, ok := c.Args[0].(*ast.SelectorExpr); ok && r.Sel.Name == l.Sel.Name {
								raf = append(raf, l.Sel.Name)
							} else {
								raf = append(raf, "?unknown: "+x.src(as))
							}
						}
					}
				}
			}
			return true
		})
	}
	fmt.Fprintf(&sb, "/-- the fields `removeFromAudience` filters, in source order. -/\ndef removeFromAudienceFields : List String := %s\n\n", lstrList(raf))
	sb.WriteString("end APModel.Generated\n")
	x.facts["recipients_types"] = types
	return sb.String()
}
