/-
The byte level of the JSON writer (encoding_json.go, natural_language_values.go, iri.go): the comma and
flag bookkeeping the struct writers share.

  JSONWriteComma / JSONWriteProp          one `"name":value` member appended to a buffer
  the `notEmpty` protocol                 how each statement of a <T>.MarshalJSON / JSONWrite<T>Value
                                          combines the helper's answer with the flag (regenerated from the
                                          source per statement: `Generated/WriteForms.lean`)
  JSONWriteItemCollectionValue            the array writer with its `skipComma`
  NaturalLanguageValues.MarshalJSON       the language map writer with its `empty` flag and `written` set
  IRIs.MarshalJSON                        the IRI array writer

Values are byte strings already rendered (what the nested MarshalJSON returned); an empty byte string
is "nothing to write" (`nil, nil`).  The specification beside each writer is the canonical rendering:
members joined by single commas inside one pair of brackets.
-/
namespace APModel.JBytes

abbrev Buf := List UInt8

/-- `JSONWriteComma` -/
def writeComma (b : Buf) : Buf :=
  if b.length > 1 && b.getLast? != some 44 then b ++ [44] else b

/-- `JSONWriteProp` (`JSONWritePropName` fails on an empty name; the failure path drops one byte) -/
def writeProp (b name val : Buf) : Buf × Bool :=
  if val.isEmpty then (b, false)
  else
    let b1 := writeComma b
    if name.isEmpty then (b1.dropLast, false)
    else (b1 ++ ([34] ++ name ++ [34, 58] ++ val), true)

/-- how a statement combines the helper's answer with the flag:
`notEmpty = H(...)`, `notEmpty = H(...) || notEmpty`, `notEmpty = notEmpty || H(...)`, `H(...)` -/
inductive Form
  | assign | orAfter | orBefore | call
  deriving DecidableEq, Repr

def Form.parse (s : String) : Option Form :=
  if s == "assign" then some .assign else if s == "orAfter" then some .orAfter
  else if s == "orBefore" then some .orBefore else if s == "call" then some .call else none

/-- one statement whose guard passed: the member it tries to write -/
structure Attempt where
  name : Buf
  val : Buf
  form : Form

def step (s : Buf × Bool) (a : Attempt) : Buf × Bool :=
  match a.form with
  | .orAfter => let r := writeProp s.1 a.name a.val; (r.1, r.2 || s.2)
  | .assign => writeProp s.1 a.name a.val
  | .call => ((writeProp s.1 a.name a.val).1, s.2)
  | .orBefore => if s.2 then s else writeProp s.1 a.name a.val     -- `||` short-circuits: the helper does not run

/-- `<T>.MarshalJSON`: `{`, the statements, `}` when the flag says something was written, else nothing -/
def writeObject (as : List Attempt) : Buf :=
  let r := as.foldl step ([123], false)
  if r.2 then r.1 ++ [125] else []

/-! specification -/

def joinC : List Buf → Buf
  | [] => []
  | [x] => x
  | x :: y :: r => x ++ [44] ++ joinC (y :: r)

def member (a : Attempt) : Buf := [34] ++ a.name ++ [34, 58] ++ a.val

def specObject (as : List Attempt) : Buf :=
  match (as.filter (fun a => !a.val.isEmpty)).map member with
  | [] => []
  | ms => [123] ++ joinC ms ++ [125]

/-- `JSONWriteItemCollectionValue` on a list that is not written compactly: the rendered members
(an empty rendering is skipped) between brackets -/
def writeArray (elems : List Buf) : Buf :=
  (elems.foldl (fun (s : Buf × Bool) v =>
      if v.isEmpty then s else ((if s.2 then s.1 else s.1 ++ [44]) ++ v, false)) ([91], true)).1 ++ [93]

def specArray (elems : List Buf) : Buf := [91] ++ joinC (elems.filter (fun v => !v.isEmpty)) ++ [93]

/-- `IRIs.MarshalJSON` for a non-empty list: every element is written, a comma before all but the first -/
def writeIRIs (elems : List Buf) : Buf :=
  (elems.foldl (fun (s : Buf × Nat) v => ((if s.2 > 0 then s.1 ++ [44] else s.1) ++ v, s.2 + 1)) ([91], 0)).1 ++ [93]

/-- `NaturalLanguageValues.MarshalJSON` for two or more entries (or a single entry with an empty value):
entries with an empty tag or value are skipped, a tag is written once, `{…}` only when something was.
`q` is the string writer (`stringBytes`). -/
def writeLangMap (q : Buf → Buf) (entries : List (Buf × Buf)) : Buf :=
  let r := entries.foldl (fun (s : Buf × Bool × List Buf) e =>
      if e.1.isEmpty || e.2.isEmpty || s.2.2.contains e.1 then s
      else ((if s.2.1 then s.1 else s.1 ++ [44]) ++ (q e.1 ++ [58] ++ q e.2), false, e.1 :: s.2.2)) ([123], true, [])
  if r.2.1 then [] else r.1 ++ [125]

/-- the entries that are written: non-empty tag and value, first of their tag -/
def firstOfTag : List (Buf × Buf) → List Buf → List (Buf × Buf)
  | [], _ => []
  | e :: r, seen =>
    if e.1.isEmpty || e.2.isEmpty || seen.contains e.1 then firstOfTag r seen
    else e :: firstOfTag r (e.1 :: seen)

def specLangMap (q : Buf → Buf) (entries : List (Buf × Buf)) : Buf :=
  match (firstOfTag entries []).map (fun e => q e.1 ++ [58] ++ q e.2) with
  | [] => []
  | ms => [123] ++ joinC ms ++ [125]

end APModel.JBytes
