#!/usr/bin/env python3
"""Regenerates Part I of DESIGN.md from bin/design_part1.md, the seeded/ directory and KNOWN_FINDINGS.json."""
import json, re, glob, os
rows = []
for d in sorted(glob.glob('/verif/seeded/*')):
    mp = d + '/meta.json'
    if not os.path.exists(mp):
        continue
    m = json.load(open(mp))
    name = os.path.basename(d)
    prop = name.split('-')[0]
    desc = ''
    if os.path.exists(d + '/description.md'):
        desc = open(d + '/description.md').read()
    elif m.get('needs'):
        desc = m['needs']
    desc = re.sub(r'\s+', ' ', desc.strip()).replace('|', '/')[:230]
    checks = m.get('checks') or {}
    caught_by = []
    for p, c in checks.items():
        if c.get('exit') == 1:
            summ = ' '.join(c.get('summary') or [])
            mech = []
            pr = re.findall(r"\('proof', '([^ ']+)", summ)
            if pr: mech.append('proof obligation ' + pr[0])
            co = re.findall(r"\('correspondence', '([^']+)'", summ)
            if co: mech.append('correspondence ' + co[0])
            mo = re.search(r'oracle_failures=(\d+)', summ)
            if mo and int(mo.group(1)) > 0: mech.append('oracle')
            caught_by.append('%s: %s' % (p, ', '.join(mech) or 'check'))
    own = checks.get(prop, {})
    if own.get('exit') == 1:
        caught = 'yes'
    elif caught_by:
        caught = 'by ' + '/'.join(x.split(':')[0] for x in caught_by)
    else:
        caught = 'NO'
    by = '; '.join(caught_by) if caught_by else re.sub(r'\s+', ' ', (m.get('note') or ''))[:220]
    rows.append('| %s | %s | %s | %s |' % (name, desc, caught, by))
seedtbl = '\n'.join(rows)
kf = json.load(open('/verif/KNOWN_FINDINGS.json'))['findings']
fixed = [f for f in kf if f['status'] == 'fixed']; openf = [f for f in kf if f['status'] == 'open']
fixlines = '\n'.join('* `%s` — %s (%s)' % (f.get('commit', '?'), re.sub(r'^fixed: property=\S+ \S+ ', '', f['what']), f['property']) for f in fixed)
openlines = '\n'.join('* **%s** (%s): %s — class `%s`' % (f['id'], f['property'], f['what'], f['class']) for f in openf)
part = open('/verif/bin/design_part1.md').read()
part = part.replace('@SEEDTBL@', seedtbl).replace('@OPEN@', openlines).replace('@FIXED@', fixlines).replace('@NFIXED@', str(len(fixed))).replace('@NSEEDS@', str(len(rows)))
old = open('/verif/DESIGN.md').read()
i = old.index('Contents\n')
open('/verif/DESIGN.md', 'w').write(part + old[i:])
print(len(rows), 'seeds;', len(fixed), 'fixed;', len(openf), 'open')
