package main

import (
	"fmt"
)

// Type-directed generator of canonical value trees (see values.go). Built from reflection over
// the library's struct types, so a new field is generated automatically.

var vocab = map[string][]string{
	"Object":                {"Object", "Article", "Audio", "Document", "Event", "Image", "Note", "Page", "Video"},
	"Actor":                 {"Actor", "Application", "Group", "Organization", "Person", "Service"},
	"Activity":              {"Activity", "Accept", "Add", "Announce", "Block", "Create", "Delete", "Dislike", "Flag", "Follow", "Ignore", "Invite", "Join", "Leave", "Like", "Listen", "Move", "Offer", "Reject", "Read", "Remove", "TentativeReject", "TentativeAccept", "Undo", "Update", "View"},
	"IntransitiveActivity":  {"IntransitiveActivity", "Arrive", "Travel"},
	"Question":              {"Question"},
	"Collection":            {"Collection"},
	"OrderedCollection":     {"OrderedCollection"},
	"CollectionPage":        {"CollectionPage"},
	"OrderedCollectionPage": {"OrderedCollectionPage"},
	"Place":                 {"Place"},
	"Profile":               {"Profile"},
	"Relationship":          {"Relationship"},
	"Tombstone":             {"Tombstone"},
	"Link":                  {"Link", "Mention"},
}

type GenCfg struct {
	MaxDepth     int  // nesting depth of embedded objects
	Density      int  // percent chance that a field is set
	Zones        bool // instants with non-UTC zones
	GobZones     bool // … restricted to offsets encoding/gob (time.MarshalBinary) round-trips
	Nanos        bool // instants with nanoseconds
	ValueNodes   bool // embedded objects also by value (not only by pointer)
	NilMembers   bool // nil entries inside lists
	Links        bool // Link objects in item positions
	EmptyTypes   bool // embedded objects may lack type (and id)
	Negatives    bool // negative numbers / durations
	MultiLang    bool // more than one language value
	RepeatLang   bool // multi-language values may repeat a language reference (what a JSON array of strings decodes to)
	SubSecondDur bool
	Only         map[string]bool // when set: only these fields are ever generated
	Force        map[string]bool // fields generated with probability ForcePct (default 100) when the type has them
	ForcePct     int
	counter      int
}

func (g *GenCfg) nextID(kind string) string {
	g.counter++
	return fmt.Sprintf("https://example.com/%s/%d", kind, g.counter)
}

// iriID: an absolute IRI, one in ten with a query string (the characters & < > are what an independent
// JSON writer escapes as \u0026 … inside strings)
func (g *GenCfg) iriID(r *RNG) string {
	id := g.nextID("iri")
	if r.Chance(10) {
		id += r.Pick([]string{"?a=1&b=2", "?q=x&lang=en&p=3", "?tag=%3Cb%3E&x=<y>"})
	}
	return id
}

var langTags = []string{"en", "fr", "de", "ro", "pt-BR", "zh-Hant-TW", "deu"}
var texts = []string{"hello", "Ana are mere", "<p>some <b>html</b></p>", "x", "two words", "ünïcode ✓",
	// a paragraph: longer than any buffer, preview or cut-off a helper might apply (64, 128 bytes)
	"a line\u2028separator and a paragraph\u2029separator", "a replacement \ufffd character",
	"A longer paragraph of text, the kind a post usually holds: it runs past sixty-four bytes, past one hundred and twenty-eight bytes too, and ends with a full stop."}
var mimeTypes = []string{"text/html", "text/plain", "image/png", "text/markdown; charset=\"utf-8\"", "application/ld+json; profile=\"https://www.w3.org/ns/activitystreams\""}

func (g *GenCfg) genNLV(r *RNG) []interface{} {
	n := 1
	if g.MultiLang && r.Chance(40) {
		n = 2 + r.Intn(2)
	}
	if n == 1 {
		tag := "-"
		if r.Chance(30) {
			tag = r.Pick(langTags)
		}
		return []interface{}{[]interface{}{tag, r.Pick(texts)}}
	}
	out := []interface{}{}
	perm := make([]int, len(langTags))
	for i := range perm {
		perm[i] = i
	}
	for i := range perm {
		j := i + r.Intn(len(perm)-i)
		perm[i], perm[j] = perm[j], perm[i]
	}
	for i := 0; i < n; i++ {
		out = append(out, []interface{}{langTags[perm[i]], r.Pick(texts)})
	}
	if r.Chance(15) {
		out[r.Intn(n)].([]interface{})[0] = "-" // one value without a language among tagged ones
	}
	if g.RepeatLang && r.Chance(30) {
		tag := "-"
		if r.Bool() {
			tag = langTags[perm[0]]
		}
		for i := 0; i < n; i++ {
			if i == 0 || r.Bool() {
				out[i].([]interface{})[0] = tag
			}
		}
		out[n-1].([]interface{})[0] = tag
	}
	return out
}

func (g *GenCfg) genTime(r *RNG) []interface{} {
	sec := int64(946684800 + r.Intn(1500000000)) // 2000 .. 2047
	nsec := 0
	if g.Nanos && r.Chance(50) {
		nsec = r.Intn(1000000000)
	}
	off := 0
	if g.Zones && r.Chance(50) {
		off = (r.Intn(27) - 12) * 3600
		if r.Chance(20) {
			off += 1800
		}
		// local mean time: an offset with a seconds component (Amsterdam +00:19:32 until 1937, Monrovia
		// -00:44:30 until 1972; any date through a fixed zone) — RFC 3339 cannot spell it
		if r.Chance(15) {
			off += r.Intn(3599) - 1799
			// the standard library's time.UnmarshalBinary reads the seconds of a NEGATIVE offset as an unsigned
			// byte (-00:00:41 comes back as +00:03:35; the instant itself is kept): not the library's code, so
			// campaigns whose values travel through gob keep to offsets the standard library round-trips
			if g.GobZones && off < 0 && off%60 != 0 {
				off -= off % 60
			}
			// … and time.MarshalBinary refuses the offset of exactly minus one minute (its marker for UTC)
			if g.GobZones && off/60 == -1 {
				off = -120
			}
		}
	}
	return []interface{}{sec, nsec, off}
}

// genItem: an item for a single-item position.
func (g *GenCfg) genItem(r *RNG, depth int) interface{} {
	p := r.Intn(100)
	switch {
	case p < 45 || depth <= 0:
		return T{"iri": g.iriID(r)}
	case p < 49 && g.EmptyTypes:
		// an embedded object that carries nothing but its id (a reference spelled as an object)
		return T{"t": "Object", "ptr": true, "f": T{"ID": T{"s": g.nextID("id-only")}}}
	case p < 80:
		return g.genNode(r, objectGoTypes[r.Intn(len(objectGoTypes))], depth-1, true)
	case p < 88 && g.Links:
		return g.genNode(r, "Link", depth-1, true)
	default:
		return T{"items": g.genItemList(r, depth, 2+r.Intn(2)), "ptr": false}
	}
}

func (g *GenCfg) genItemList(r *RNG, depth int, n int) []interface{} {
	out := []interface{}{}
	for i := 0; i < n; i++ {
		p := r.Intn(100)
		switch {
		case g.NilMembers && p < 8:
			out = append(out, nil)
		case p < 55 || depth <= 0:
			out = append(out, T{"iri": g.iriID(r)})
		case p < 92 || !g.Links:
			out = append(out, g.withID(g.genNode(r, objectGoTypes[r.Intn(len(objectGoTypes))], depth-1, true)))
		default:
			out = append(out, g.withID(g.genNode(r, "Link", depth-1, true)))
		}
	}
	return out
}

// members of one list carry pairwise distinct ids (the quantifier of C01/C03/C05)
func (g *GenCfg) withID(n T) T {
	f := n["f"].(T)
	if _, ok := f["ID"]; !ok {
		f["ID"] = T{"s": g.nextID("member")}
	}
	return n
}

// genNode: a struct value of the given Go type. embedded tells whether it sits inside another value.
func (g *GenCfg) genNode(r *RNG, goType string, depth int, embedded bool) T {
	ptr := true
	if g.ValueNodes && r.Chance(20) {
		ptr = false
	}
	f := T{}
	for _, name := range fieldNames(goType) {
		kind := fieldKind(goType, name)
		if g.Only != nil && !g.Only[name] && name != "ID" && name != "Type" {
			continue
		}
		forced := g.Force != nil && g.Force[name] && (g.ForcePct == 0 || r.Chance(g.ForcePct))
		switch name {
		case "ID":
			if !(embedded && g.EmptyTypes && r.Chance(15)) {
				f[name] = T{"s": g.nextID(goType)}
			}
			continue
		case "Type":
			// only a plain Object can do without its type: the type is what tells the decoders which struct to build
			if !(embedded && g.EmptyTypes && goType == "Object" && r.Chance(25)) {
				if r.Chance(20) {
					f[name] = T{"s": vocab[goType][0]} // the generic name of the family (Activity, Actor, Object, Link, …)
				} else {
					f[name] = T{"s": r.Pick(vocab[goType])}
				}
			}
			continue
		}
		if !forced && !r.Chance(g.Density) {
			continue
		}
		switch kind {
		case "item":
			f[name] = g.genItem(r, depth)
		case "items":
			d := depth
			if forced || name == "Bto" || name == "BCC" || name == "To" || name == "CC" {
				d = 0 // addressing lists hold IRIs (keeps forced fields from exploding the tree)
				if depth > 0 && r.Chance(10) {
					d = 1
				}
			}
			f[name] = T{"list": g.genItemList(r, d, 1+r.Intn(3))}
		case "nlv":
			f[name] = T{"nlv": g.genNLV(r)}
		case "time":
			f[name] = T{"time": g.genTime(r)}
		case "duration":
			d := int64(1+r.Intn(100000)) * 1e9
			if r.Chance(35) {
				// calendar-sized spans: their xsd texts have no time part ("P1D"), or only one unit ("PT1H")
				day := int64(86400)
				// (below a year: the length of the "year" of an xsd:duration is a convention of the third-party
				// duration package - 356 days there - and not this library's to get right)
				d = []int64{day, 2 * day, 7 * day, 9 * day, 10 * day, 30 * day, 31 * day, 200 * day, 3600, 24 * 3600, 36 * 3600, 90 * 60, 60, 1, 59,
					100 * day, day + 1, 250*day + 3600}[r.Intn(18)] * 1e9
			}
			if g.SubSecondDur && r.Chance(30) {
				d += int64(r.Intn(1000)) * 1e6
			}
			if g.Negatives && r.Chance(30) {
				d = -d
			}
			f[name] = T{"dur": d}
		case "string":
			switch name {
			case "MediaType":
				f[name] = T{"s": r.Pick(mimeTypes)}
			case "Href", "Rel":
				f[name] = T{"s": g.nextID("href")}
			case "HrefLang":
				f[name] = T{"s": r.Pick(langTags)}
			case "FormerType":
				f[name] = T{"s": r.Pick(vocab["Object"])}
			case "Units":
				f[name] = T{"s": r.Pick([]string{"m", "km", "miles", "feet"})}
			default:
				f[name] = T{"s": r.Pick(texts)}
			}
		case "float":
			z := int64(r.Intn(180000000)) + 1
			if r.Chance(25) {
				// a whole number, often a round one (90, 1600, 40): the digits before the point end in zeros
				z = int64(1+r.Intn(180)) * 1000000
				if r.Chance(60) {
					z = int64(1+r.Intn(18)) * []int64{10, 100, 1000}[r.Intn(3)] * 1000000
				}
			}
			if r.Chance(12) {
				// one significant digit far from the point on either side (2000000, 0.00003): the numbers whose shortest
				// text is in exponent form
				z = int64(1+r.Intn(9)) * []int64{1, 10, 1000000 * 1000000, 1000000 * 10000000, 1000000 * 1000000000}[r.Intn(5)]
			}
			if g.Negatives && r.Chance(40) {
				z = -z
			}
			f[name] = T{"dec6": z}
		case "int":
			z := int64(r.Intn(100000)) + 1
			if g.Negatives && r.Chance(40) {
				z = -z
			}
			f[name] = T{"int": z}
		case "uint":
			f[name] = T{"uint": r.Intn(100000) + 1}
		case "bool":
			f[name] = T{"bool": true}
		case "source":
			m := T{}
			if r.Chance(80) {
				m["Content"] = T{"nlv": g.genNLV(r)}
			}
			if r.Chance(60) || len(m) == 0 {
				m["MediaType"] = T{"s": r.Pick(mimeTypes)}
			}
			f[name] = T{"rec": m}
		case "pubkey":
			m := T{"ID": T{"s": g.nextID("key")}}
			if r.Chance(70) {
				m["Owner"] = T{"s": g.nextID("owner")}
			}
			if r.Chance(70) {
				m["PublicKeyPem"] = T{"s": "-----BEGIN PUBLIC KEY-----\nMIIBIjANBg\n-----END PUBLIC KEY-----"}
			}
			f[name] = T{"rec": m}
		case "endpoints":
			m := T{}
			for _, en := range []string{"UploadMedia", "OauthAuthorizationEndpoint", "OauthTokenEndpoint", "ProvideClientKey", "SignClientKey", "SharedInbox"} {
				if r.Chance(40) {
					m[en] = T{"iri": g.nextID("endpoint")}
					// an endpoint given as an embedded object (a sharedInbox collection by value)
					if depth > 0 && r.Chance(15) {
						m[en] = g.genItem(r, depth-1)
					}
				}
			}
			f[name] = T{"rec": m}
		}
	}
	return T{"t": goType, "ptr": ptr, "f": f}
}
