package main

import (
	"encoding/json"
	"fmt"
	"sort"
	"strings"

	ap "github.com/go-ap/activitypub"
)

// C14 — IRI equivalence.

type gridURL struct {
	Scheme, Host, Path, Query, Frag string
}

func (g gridURL) String() string { return g.Scheme + "://" + g.Host + g.Path + g.Query + g.Frag }

// refClean: the harness' own lexical path cleaner for rooted paths ("" is the root).
func refClean(p string) string {
	var st []string
	for _, seg := range strings.Split(p, "/") {
		switch seg {
		case "", ".":
		case "..":
			if len(st) > 0 {
				st = st[:len(st)-1]
			}
		default:
			st = append(st, seg)
		}
	}
	return "/" + strings.Join(st, "/")
}

func asciiUpper(s string) string {
	b := []byte(s)
	for i, c := range b {
		if 'a' <= c && c <= 'z' {
			b[i] = c - 32
		}
	}
	return string(b)
}

func asciiLower(s string) string {
	b := []byte(s)
	for i, c := range b {
		if 'A' <= c && c <= 'Z' {
			b[i] = c + 32
		}
	}
	return string(b)
}

// key: what the property says equality depends on.
func (g gridURL) key(cs bool) string {
	var pairs []string
	if len(g.Query) > 1 {
		pairs = strings.Split(g.Query[1:], "&")
		sort.Strings(pairs)
	}
	k := asciiLower(g.Host) + "|" + asciiLower(refClean(g.Path)) + "|" + strings.Join(pairs, "&")
	if cs {
		k = asciiLower(g.Scheme) + "|" + k
	}
	return k
}

var (
	gSchemes  = []string{"http", "https", "HTTP"}
	gHosts    = []string{"example.com", "Example.COM", "example.com:8080", "other.org"}
	gPaths    = []string{"", "/", "/a", "/a/", "/A", "/a/b", "/a/./b", "/a/c/../b", "/c/..", "/a/b/", "/../a", "/a/../../b"}
	gQueries  = []string{"", "?x=1", "?x=1&y=2", "?y=2&x=1", "?x=1&x=2", "?x=2&x=1", "?x=1&x=1", "?x=2", "?x=2&y=1", "?a=1&b=2&c=3", "?a=2&b=3&c=1",
		// one key three times: the same distinct values in different multiplicities
		"?t=a&t=a&t=b", "?t=a&t=b&t=b", "?t=b&t=a&t=a", "?t=a&t=b",
		// a value that ends in a slash (an IRI as a parameter); an escaped separator inside a key or a value
		"?u=https://b.example/", "?u=https://b.example", "?q=x=1", "?q%3dx=1", "?a=1%26b=2", "?a=1&b=2"}
	gFrags    = []string{"", "#f"}
	subScheme = []string{"http", "HTTPS"}
	subHosts  = []string{"example.com", "EXAMPLE.com", "example.com:8080"}
	subPaths  = []string{"", "/", "/a", "/a/", "/A/.", "/b/../a"}
	subQuery  = []string{"", "?x=1", "?x=1&x=2", "?x=2&x=1", "?x=1&x=1"}
)

func gridOf(s, h, p, q, f []string) []gridURL {
	var out []gridURL
	for _, a := range s {
		for _, b := range h {
			for _, c := range p {
				for _, d := range q {
					for _, e := range f {
						out = append(out, gridURL{a, b, c, d, e})
					}
				}
			}
		}
	}
	return out
}

func implEquals(a, b string, cs bool) (r bool, pan string) {
	p, msg := guard(func() { r = ap.IRI(a).Equals(ap.IRI(b), cs) })
	if p {
		return false, msg
	}
	return r, ""
}

func c14GridPair(c *Ctx, a, b gridURL, cs bool) {
	as, bs := a.String(), b.String()
	got, pan := implEquals(as, bs, cs)
	in := map[string]interface{}{"op": "iriEquals", "a": hx([]byte(as)), "b": hx([]byte(bs)), "cs": cs, "as": as, "bs": bs}
	if pan != "" {
		c.Emit(in, "panic", true)
		c.Fail("C14/panic", pan, in)
		return
	}
	c.Emit(in, got, as != bs)
	want := a.key(cs) == b.key(cs)
	if want {
		c.Tag("grid/equivalent")
	} else {
		c.Tag("grid/different")
	}
	if got != want {
		c.Fail("C14/grid", fmt.Sprintf("Equals(%q, %q, %v) = %v but the keys (host, cleaned path, query multiset%s) %s", as, bs, cs, got,
			map[bool]string{true: ", scheme", false: ""}[cs], map[bool]string{true: "agree", false: "differ"}[want]), in)
		return
	}
	if rev, _ := implEquals(bs, as, cs); rev != got {
		c.Fail("C14/symmetry", fmt.Sprintf("Equals(%q, %q, %v) = %v but reversed = %v", as, bs, cs, got, rev), in)
	}
}

var c14Alphabet = []string{"a", "B", "/", ":", "//", "#", "?", "=", "&", ".", "..", " ", "%", "é", "http", "-", "x=1", "\x01", "\xff", "@", "[", "1"}

func c14RandString(r *RNG) string {
	var sb strings.Builder
	for k := r.Intn(7); k > 0; k-- {
		sb.WriteString(r.Pick(c14Alphabet))
	}
	return sb.String()
}

func c14StringPair(c *Ctx, as, bs string, cs bool) {
	got, pan := implEquals(as, bs, cs)
	in := map[string]interface{}{"op": "iriEquals", "a": hx([]byte(as)), "b": hx([]byte(bs)), "cs": cs}
	if pan != "" {
		c.Emit(in, "panic", true)
		c.Fail("C14/panic", pan, in)
		return
	}
	c.Emit(in, got, as != bs)
	c.Tag("strings")
	if rev, _ := implEquals(bs, as, cs); rev != got {
		c.Fail("C14/symmetry", fmt.Sprintf("Equals(%q, %q, %v) = %v but reversed = %v", as, bs, cs, got, rev), in)
	}
	if r, _ := implEquals(as, as, cs); !r {
		c.Fail("C14/reflexivity", fmt.Sprintf("Equals(%q, itself, %v) = false", as, cs), in)
	}
}

func c14Contains(c *Ctx, l []string, r string) {
	iris := make(ap.IRIs, len(l))
	hl := make([]string, len(l))
	for i, s := range l {
		iris[i] = ap.IRI(s)
		hl[i] = hx([]byte(s))
	}
	var got bool
	in := map[string]interface{}{"op": "irisContains", "l": hl, "r": hx([]byte(r)), "ls": l, "rs": r}
	if p, msg := guard(func() { got = iris.Contains(ap.IRI(r)) }); p {
		c.Emit(in, "panic", true)
		c.Fail("C14/panic", msg, in)
		return
	}
	c.Emit(in, got, len(l) > 0)
	c.Tag("contains")
	want := false
	for _, s := range l {
		if e, _ := implEquals(r, s, false); e {
			want = true
		}
	}
	if r == "" || r == "-" {
		want = false // the nil item is a member of nothing (the collections' nil rule)
	}
	if got != want {
		c.Fail("C14/contains", fmt.Sprintf("IRIs%q.Contains(%q) = %v but some member equal = %v", l, r, got, want), in)
	}
}

func init() {
	campaigns["C14"] = func(c *Ctx) {
		sub := gridOf(subScheme, subHosts, subPaths, subQuery, gFrags)
		full := gridOf(gSchemes, gHosts, gPaths, gQueries, gFrags)
		c.Rule = fmt.Sprintf("exhaustive: all %d ordered pairs of a %d-URL grid (2 scheme presentations x 3 host presentations x 6 paths with trailing slash/dot segments/case x 5 queries with reordered and repeated parameters x 2 fragments), checkScheme alternating (thorough: both); stratified random pairs from the %d-URL full grid; all pairs of the 85 strings of length <= 3 over {#, a, :, /}; random non-URL byte strings (controls, invalid UTF-8, partial URLs); IRIs.Contains on random lists. Non-trivial = the two strings differ.", len(sub)*len(sub), len(sub), len(full))
		n := 0
		for _, a := range sub {
			for _, b := range sub {
				n++
				if c.Thorough() {
					c14GridPair(c, a, b, true)
					c14GridPair(c, a, b, false)
				} else {
					c14GridPair(c, a, b, n%2 == 0)
				}
			}
		}
		for i := 0; i < c.N(30000, 600000); i++ {
			a := full[c.R.Intn(len(full))]
			b := full[c.R.Intn(len(full))]
			if c.R.Chance(40) { // bias towards equivalent pairs: same host/path class
				b.Host, b.Path = a.Host, a.Path
				if c.R.Bool() {
					b.Query = a.Query
				}
			}
			c14GridPair(c, a, b, c.R.Bool())
		}
		// every pair of queries on one host and path, both scheme settings
		for _, qa := range gQueries {
			for _, qb := range gQueries {
				for _, cs := range []bool{false, true} {
					c14GridPair(c, gridURL{"https", "example.com", "/a", qa, ""}, gridURL{"https", "EXAMPLE.com", "/a/", qb, "#f"}, cs)
				}
			}
		}
		// letters beyond ASCII in the path, in two letter cases, combined with a trailing slash / dot segment /
		// fragment (outside the model's URL grammar: judged by the oracle, which folds like strings.EqualFold)
		for _, base := range []string{"https://example.com/users/οδυσσέας", "https://example.gr/Νίκος", "https://example.com/straße/ñandú"} {
			up := strings.ToUpper(base[len("https://"):])
			variants := []string{base, base + "/", "https://" + up, "http://" + up + "/", base + "/.", base + "#f", "HTTPS://" + up + "/x/.."}
			for _, a := range variants {
				for _, b := range variants {
					for _, cs := range []bool{false, true} {
						want := iriEq(a, b) && (!cs || strings.EqualFold(a[:strings.Index(a, ":")], b[:strings.Index(b, ":")]))
						got, pan := implEquals(a, b, cs)
						in := map[string]interface{}{"op": "iriEquals", "a": hx([]byte(a)), "b": hx([]byte(b)), "cs": cs, "as": a, "bs": b, "oracleOnly": true}
						c.Count(in, a != b)
						c.Tag("non-ascii-path")
						if pan != "" {
							c.Fail("C14/panic", pan, in)
						} else if got != want {
							c.Fail("C14/grid", fmt.Sprintf("Equals(%q, %q, %v) = %v but host, cleaned path and query agree = %v (letters compared as strings.EqualFold does)", a, b, cs, got, want), in)
						}
					}
				}
			}
		}
		// hosts that are address literals (IPv6 in brackets, IPv4), with and without a port: equal exactly when host
		// and port agree; outside the model's host grammar (brackets, colons inside the host), judged by the oracle
		{
			hosts := []string{"[2001:db8::1]", "[2001:db8::2]", "[2001:DB8::1]", "[2001:db9::1]", "[::1]", "[::1]:8080", "[::1]:8081", "[::2]:8080",
				"[fe80::1%25eth0]", "192.0.2.1", "192.0.2.1:8080", "192.0.2.1:8081", "192.0.2.2:8080", "example.com:8080", "example.com:8081"}
			tails := []string{"", "/", "/a", "/a/", "/a?x=1", "/A#f"}
			var urls []string
			for _, h := range hosts {
				for _, t := range tails {
					urls = append(urls, "https://"+h+t)
				}
				urls = append(urls, "http://"+h+"/a")
			}
			for _, a := range urls {
				for _, b := range urls {
					for _, cs := range []bool{false, true} {
						want := iriEq(a, b) && (!cs || strings.EqualFold(a[:strings.Index(a, ":")], b[:strings.Index(b, ":")]))
						got, pan := implEquals(a, b, cs)
						in := map[string]interface{}{"op": "iriEquals", "a": hx([]byte(a)), "b": hx([]byte(b)), "cs": cs, "as": a, "bs": b, "oracleOnly": true}
						c.Count(in, a != b)
						c.Tag("address-literal-host")
						if pan != "" {
							c.Fail("C14/panic", pan, in)
						} else if got != want {
							c.Fail("C14/grid", fmt.Sprintf("Equals(%q, %q, %v) = %v but host (with port), cleaned path and query agree = %v", a, b, cs, got, want), in)
						}
					}
				}
			}
		}
		// every pair of short strings over the characters the textual fast path looks at
		var short []string
		short = append(short, "")
		alpha := []string{"#", "a", ":", "/"}
		for n, prev := 1, []string{""}; n <= 3; n++ {
			var cur []string
			for _, p := range prev {
				for _, ch := range alpha {
					cur = append(cur, p+ch)
				}
			}
			short = append(short, cur...)
			prev = cur
		}
		for i, a := range short {
			for j, b := range short {
				c14StringPair(c, a, b, (i+j)%2 == 0)
			}
		}
		for i := 0; i < c.N(8000, 150000); i++ {
			a := c14RandString(c.R)
			b := c14RandString(c.R)
			switch c.R.Intn(4) {
			case 0:
				b = a
			case 1:
				b = asciiUpper(a) // case variants are ASCII (Unicode folding is outside the model)
			}
			c14StringPair(c, a, b, c.R.Bool())
		}
		for i := 0; i < c.N(3000, 50000); i++ {
			var l []string
			for k := c.R.Intn(5); k > 0; k-- {
				if c.R.Chance(80) {
					l = append(l, full[c.R.Intn(len(full))].String())
				} else {
					l = append(l, c14RandString(c.R))
				}
			}
			r := full[c.R.Intn(len(full))].String()
			if len(l) > 0 && c.R.Bool() {
				g := full[c.R.Intn(len(full))]
				r = g.String()
				l[c.R.Intn(len(l))] = gridURL{"https", g.Host, g.Path + "/", g.Query, "#z"}.String()
			}
			c14Contains(c, l, r)
		}
		// membership among strings that are no absolute URLs (rooted, scheme-relative, scheme-less, opaque), with and
		// without a fragment: Contains agrees with Equals there too
		rel := []string{"/users/alice", "/users/alice#main-key", "/users/alice#other", "//example.com/a", "//example.com/a#f", "example.com/a", "example.com/a#x",
			"did:example:123", "did:example:123#key-1", "http:///x", "https:///x", "http:///x#f", "#a", "a#b", "a", "A", "urn:x:y", "urn:x:y#z", "URN:X:Y"}
		for _, m := range rel {
			for _, n := range rel {
				c14Contains(c, []string{m}, n)
			}
			c14Contains(c, []string{"https://example.com/z", m, "/other"}, m+"#frag")
		}
		for _, m := range short {
			for _, n := range short {
				c14Contains(c, []string{m}, n)
			}
		}
		c.Exhaust = true
	}
	replayers["C14"] = func(class string, input []byte) string {
		var in struct {
			Op string   `json:"op"`
			A  string   `json:"a"`
			B  string   `json:"b"`
			Cs bool     `json:"cs"`
			As string   `json:"as"`
			Ls []string `json:"ls"`
			Rs string   `json:"rs"`
		}
		if err := json.Unmarshal(input, &in); err != nil {
			return "bad replay input"
		}
		if in.Op == "irisContains" {
			iris := make(ap.IRIs, len(in.Ls))
			for i, s := range in.Ls {
				iris[i] = ap.IRI(s)
			}
			var got, want bool
			if p, msg := guard(func() { got = iris.Contains(ap.IRI(in.Rs)) }); p {
				return "panic: " + msg
			}
			for _, s := range in.Ls {
				if e, _ := implEquals(in.Rs, s, false); e {
					want = true
				}
			}
			if got != want {
				return "Contains disagrees with Equals"
			}
			return ""
		}
		a, b := unhx(in.A), unhx(in.B)
		got, pan := implEquals(a, b, in.Cs)
		if pan != "" {
			return "panic: " + pan
		}
		if rev, _ := implEquals(b, a, in.Cs); rev != got {
			return fmt.Sprintf("asymmetric: %v vs %v", got, rev)
		}
		if r, _ := implEquals(a, a, in.Cs); !r {
			return "not reflexive"
		}
		if ga, ok := parseGrid(a); ok {
			if gb, ok := parseGrid(b); ok {
				if want := ga.key(in.Cs) == gb.key(in.Cs); want != got {
					return fmt.Sprintf("Equals = %v, keys equal = %v", got, want)
				}
				return ""
			}
		}
		// outside the grid grammar (letters beyond ASCII): the oracle that folds like strings.EqualFold
		if ia, ib := strings.Index(a, ":"), strings.Index(b, ":"); ia > 0 && ib > 0 {
			if _, oka := refIRIKey(a); oka {
				if _, okb := refIRIKey(b); okb {
					want := iriEq(a, b) && (!in.Cs || strings.EqualFold(a[:ia], b[:ib]))
					if want != got {
						return fmt.Sprintf("Equals = %v, host/path/query agree = %v", got, want)
					}
				}
			}
		}
		return ""
	}
}

func unhx(s string) string {
	b := make([]byte, len(s)/2)
	fmt.Sscanf(s, "%x", &b)
	return string(b)
}

// parseGrid splits a string produced by gridURL.String back into its components.
func parseGrid(s string) (gridURL, bool) {
	i := strings.Index(s, "://")
	if i <= 0 {
		return gridURL{}, false
	}
	g := gridURL{Scheme: s[:i]}
	rest := s[i+3:]
	if j := strings.Index(rest, "#"); j >= 0 {
		g.Frag = rest[j:]
		rest = rest[:j]
	}
	if j := strings.Index(rest, "?"); j >= 0 {
		g.Query = rest[j:]
		rest = rest[:j]
	}
	if j := strings.Index(rest, "/"); j >= 0 {
		g.Path = rest[j:]
		rest = rest[:j]
	}
	g.Host = rest
	return g, g.Host != ""
}
