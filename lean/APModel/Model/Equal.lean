/-
Model of item equality (item.go:ItemsEqual, the Equals methods of object.go, activity.go,
intransitive_activity.go, actor.go, collection*.go, ordered_collection*.go, link.go,
item_collection.go, natural_language_values.go) on the shared value trees.

The comparison rows (field, guard, comparator) of every Equals method are regenerated from the source
(`Generated/Equals.lean`); the dispatch of ItemsEqual and the guards at the top of the methods are
transcribed by hand. The Go recursion is modelled with an explicit fuel argument (one unit per
nesting level of the compared values); `itemsEqual` supplies more fuel than any nesting depth needs.

Scope: pairs in which both sides are nil-like, IRIs, lists, links, or objects of the SAME Go struct
(the domain of the property: a value and a copy of it). Pairs of different object structs go through
the typed views of C08 and are answered `none` (outside the model).
-/
import APModel.Model.Value
import APModel.Model.Flatten
import APModel.Model.Copy
import APModel.Generated.Equals

namespace APModel.Equal
open APModel APModel.Generated

abbrev Str := IRI.Str

def iriEqv (a b : Str) : Bool := IRI.equals IRI.parseOpt a b false
def iriEqvCS (a b : Str) : Bool := IRI.equals IRI.parseOpt a b true

def isIRI : Item → Bool
  | .iri _ => true
  | _ => false
def isColl : Item → Bool           -- IsItemCollection: ItemCollection, *ItemCollection, IRIs
  | .coll _ _ => true
  | .iris _ => true
  | .collNil _ => true
  | .irisNil => true
  | _ => false
def isLinkNode : Item → Bool
  | .node .link _ _ => true
  | _ => false
def isObjectNode : Item → Bool
  | .node k _ _ => k != .link
  | _ => false

def typeOf : Item → Str
  | .iri _ => Flatten.ascii "IRI"
  | .node _ _ fs => Flatten.strOf fs "Type"
  | .coll _ _ => Flatten.ascii "ItemCollection"
  | .iris _ => Flatten.ascii "IRICollection"
  | _ => []

def activityTypesGo : List String :=
  ["Accept", "Add", "Announce", "Block", "Create", "Delete", "Dislike", "Flag", "Follow", "Ignore", "Invite", "Join",
   "Leave", "Like", "Listen", "Move", "Offer", "Reject", "Read", "Remove", "TentativeReject", "TentativeAccept",
   "Undo", "Update", "View"]
def actorTypesGo : List String := ["Application", "Group", "Organization", "Person", "Service"]

/-- the type-name tests in front of the activity and actor comparisons of ItemsEqual: the generic name
or a member of the family list, both compared ignoring case -/
def isActivityDispatch (wt : Str) : Bool := Flatten.typeIn ["Activity"] wt || Flatten.typeIn activityTypesGo wt
def isActorDispatch (wt : Str) : Bool := Flatten.typeIn ["Actor"] wt || Flatten.typeIn actorTypesGo wt

/-- `itemsNeedSwapping` -/
def needSwap (a b : Item) : Bool :=
  (isIRI a && !isIRI b) ||
  (Flatten.typeIn Flatten.objectTypesGo (typeOf b) && !Flatten.typeIn Flatten.objectTypesGo (typeOf a))

/-- members of a list-like item as items -/
def membersOf : Item → List Item
  | .coll _ l => l.toList
  | .iris l => l.map Item.iri
  | _ => []

/-- a field value seen as an Item (an ItemCollection-typed field is an item list value) -/
def itemOfField : Option FVal → Item
  | some (.item i) => i
  | some (.items l) => .coll false l
  | _ => .nil

def nlvOf : Option FVal → List (Str × Str)
  | some (.nlv n) => n
  | _ => []

/-- `NaturalLanguageValues.Equals` (as repaired) -/
def nlvEquals (n w : List (Str × Str)) : Bool :=
  n.length == w.length && w.all (fun e => n.any (fun e' => e' == e))

def guardHolds (g : String) (v : Option FVal) : Bool :=
  match g, v with
  | _, none => false
  | "lenPos", some (.nlv n) => !n.isEmpty
  | "lenPos", some (.items l) => l.length != 0
  | "notNilLike", some x => !(itemOfField (some x)).isNilLike
  | _, some _ => true

def instantOf : Option FVal → Option (Int × Int)
  | some (.time s n _) => some (s, n)
  | _ => none

/-- sequential conjunction / quantifiers over partial answers (`none` = outside the model); they stop
at the first decisive answer, as the Go loops do -/
def andO (a : Option Bool) (b : Unit → Option Bool) : Option Bool :=
  match a with
  | some true => b ()
  | some false => some false
  | none => none

def allO {α : Type} (f : α → Option Bool) : List α → Option Bool
  | [] => some true
  | x :: r => andO (f x) (fun _ => allO f r)

def anyO {α : Type} (f : α → Option Bool) : List α → Option Bool
  | [] => some false
  | x :: r =>
    match f x with
    | some true => some true
    | some false => anyO f r
    | none => none

abbrev Rec := Item → Item → Option Bool

/-- `ItemCollection.Equals` (receiver list `i`, argument `w`), as repaired -/
def listEquals (rec : Rec) (i : List Item) (w : Item) : Option Bool :=
  if w.isNilLike then some i.isEmpty
  else if !isColl w then some false
  else
    let ws := membersOf w
    if ws.length != i.length then some false
    else allO (fun it => anyO (fun m => rec m it) ws) i

/-- one comparison row; `o` = receiver's fields, `w` = the argument's fields -/
def rowHolds (rec : Rec) (o w : Fields) (row : String × String × String) : Option Bool :=
  let (f, g, c) := row
  if !guardHolds g (w.get? f) then some true
  else match c with
    | "items" => rec (itemOfField (o.get? f)) (itemOfField (w.get? f))
    | "equalsW" =>
      (match w.get? f with
       | some (.nlv wn) => some (nlvEquals wn (nlvOf (o.get? f)))
       | some (.items wl) => listEquals rec wl.toList (itemOfField (o.get? f))
       | _ => some (Copy.optBeq (o.get? f) (w.get? f)))
    | "equalsO" =>
      (match w.get? f with
       | some (.nlv wn) => some (nlvEquals (nlvOf (o.get? f)) wn)
       | some (.items wl) => listEquals rec (membersOf (itemOfField (o.get? f))) (.coll false wl)
       | _ => some (Copy.optBeq (o.get? f) (w.get? f)))
    | "time" => some (instantOf (o.get? f) == instantOf (w.get? f))
    | "value" => some (Copy.optBeq (o.get? f) (w.get? f))
    | "link" =>
      let oi := itemOfField (o.get? f)
      some (!oi.isNilLike && iriEqv (Flatten.linkOf (itemOfField (w.get? f))) (Flatten.linkOf oi))
    | "iri" => some (iriEqv (Flatten.strOf w f) (Flatten.strOf o f))
    | _ => some false

def rowsOf (T : List EqualsRow) (recv : String) : List (String × String × String) :=
  ((T.find? (fun r => r.recv == recv)).map (·.rows)).getD []

def rowsHold (T : List EqualsRow) (rec : Rec) (recv : String) (o w : Fields) : Option Bool :=
  allO (rowHolds rec o w) (rowsOf T recv)

/-- the guards at the top of `Object.Equals` -/
def objectGuards (o : Fields) (w : Item) : Bool :=
  !(w.isNilLike || isColl w) && iriEqvCS (Flatten.strOf o "ID") (Flatten.linkOf w) &&
  IRI.foldEq (Flatten.strOf o "Type") (typeOf w) &&
  !(Flatten.isLinkM w && !iriEqv (Flatten.linkOf w) (Flatten.strOf o "ID"))

/-- `Object.Equals` of a value with fields `o` against the item `w` -/
def objectEquals (T : List EqualsRow) (rec : Rec) (o : Fields) (w : Item) : Option Bool :=
  if !objectGuards o w then some false
  else match w with
    | .node k _ wf => if k == .link then some false else rowsHold T rec "Object" o wf
    | _ => some false      -- OnObject(with) fails for IRIs and links

/-- `Link.Equals` -/
def linkEquals (T : List EqualsRow) (rec : Rec) (l : Fields) (w : Item) : Option Bool :=
  match w with
  | .node .link _ wf =>
    if !(iriEqvCS (Flatten.strOf l "ID") (Flatten.strOf wf "ID") && IRI.foldEq (Flatten.strOf l "Type") (Flatten.strOf wf "Type")) then some false
    else rowsHold T rec "Link" l wf
  | _ => some false

def isCollKind (k : Kind) : Bool :=
  k == .collection || k == .orderedCollection || k == .collectionPage || k == .orderedCollectionPage

def collName : Kind → String
  | .collection => "Collection" | .orderedCollection => "OrderedCollection"
  | .collectionPage => "CollectionPage" | .orderedCollectionPage => "OrderedCollectionPage" | _ => ""

/-- rename Items ↔ OrderedItems (the unordered view of an ordered collection and vice versa) -/
def swapItems : Fields → Fields
  | .nil => .nil
  | .cons n v r => .cons (if n = "Items" then "OrderedItems" else if n = "OrderedItems" then "Items" else n) v (swapItems r)

/-- `Collection.Equals` with receiver fields `c` (of a struct of kind `ck`) and an argument whose fields,
seen as an unordered collection, are `wf`: first `wo.Equals(c)` — the argument's object part compared
against the receiver as `with` —, then the collection rows. -/
def collectionEquals (T : List EqualsRow) (rec : Rec) (c : Fields) (ck : Kind) (cp : Bool) (wf : Fields) : Option Bool :=
  andO (objectEquals T rec wf (.node ck cp c)) (fun _ => rowsHold T rec "Collection" c wf)

/-- the family step of ItemsEqual for two objects of the same struct kind `k` (`none`: outside the model) -/
def familyEquals (T : List EqualsRow) (rec : Rec) (k : Kind) (p : Bool) (o w : Fields) (r0 : Option Bool) : Option Bool :=
  let wt := Flatten.strOf w "Type"
  if isActivityDispatch wt then
    if k == .activity then
      -- Activity.Equals: IntransitiveActivity.Equals (Object.Equals + its rows), then the object row
      andO (andO (objectEquals T rec o (.node k p w)) (fun _ => rowsHold T rec "IntransitiveActivity" o w))
        (fun _ => rowsHold T rec "Activity" o w)
    else r0
  else if isActorDispatch wt then
    if k == .actor then andO (objectEquals T rec o (.node k p w)) (fun _ => rowsHold T rec "Actor" o w)
    else r0
  else if isCollKind k then
    let ot := Flatten.strOf o "Type"
    if ot == Flatten.ascii (collName k) then
      -- each Equals of the collection family hands the comparison over with receiver and argument
      -- exchanged (`wo.Equals(c)`), so the direction alternates with the depth of the family
      match k with
      | .collection => collectionEquals T rec o k p w
      | .orderedCollection =>
        andO (collectionEquals T rec (swapItems w) k p (swapItems o)) (fun _ => rowsHold T rec "OrderedCollection" o w)
      | .collectionPage =>
        andO (collectionEquals T rec w k p o) (fun _ => rowsHold T rec "CollectionPage" o w)
      | .orderedCollectionPage =>
        andO (andO (collectionEquals T rec (swapItems o) k p (swapItems w)) (fun _ => rowsHold T rec "OrderedCollection" w o))
          (fun _ => rowsHold T rec "OrderedCollectionPage" o w)
      | _ => r0
    else if [Kind.collection, .orderedCollection, .collectionPage, .orderedCollectionPage].any (fun k' => ot == Flatten.ascii (collName k')) then none
    else r0
  else r0

/-- the body of ItemsEqual after the nil checks and the swap -/
def core (T : List EqualsRow) (rec : Rec) (it w : Item) : Option Bool :=
  if isIRI w || isIRI it then some (iriEqv (Flatten.linkOf it) (Flatten.linkOf w))
  else if isColl it then
    if !isColl w then some false else listEquals rec (membersOf it) w
  else match it with
    | .node .link _ lf => linkEquals T rec lf w
    | .node k p o =>
      (match w with
       | .node k' _ wf =>
         if k' == .link then objectEquals T rec o w
         else if k == k' then familyEquals T rec k p o wf (objectEquals T rec o w)
         else none          -- two different object structs: typed views (C08), outside this model
       | _ => objectEquals T rec o w)
    | _ => some false

/-- ItemsEqual with fuel; `none` = outside the model (or out of fuel) -/
def eqF (T : List EqualsRow) : Nat → Item → Item → Option Bool
  | 0, _, _ => none
  | n + 1, a, b =>
    if a.isNilLike || b.isNilLike then some (a.isNilLike && b.isNilLike)
    else if needSwap a b then core T (eqF T n) b a else core T (eqF T n) a b

mutual
def depthItem : Item → Nat
  | .coll _ l => depthItems l + 1
  | .node _ _ fs => depthFields fs + 1
  | _ => 1
def depthItems : Items → Nat
  | .nil => 0
  | .cons i r => max (depthItem i) (depthItems r)
def depthFields : Fields → Nat
  | .nil => 0
  | .cons _ v r => max (depthFVal v) (depthFields r)
def depthFVal : FVal → Nat
  | .item i => depthItem i
  | .items l => depthItems l + 1
  | .record fs => depthFields fs + 1
  | _ => 0
end

/-- `ItemsEqual(a, b)` -/
def itemsEqual (T : List EqualsRow) (a b : Item) : Option Bool :=
  eqF T (depthItem a + depthItem b + 2) a b

end APModel.Equal
