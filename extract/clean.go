package main

import (
	"fmt"
	"go/ast"
	"sort"
	"strings"
)

// Clean(): per receiver type
//   trunc:     fields assigned `x.F = x.F[:0]`
//   walk:      fields passed to CleanRecipients(x.F)
//   delegate:  "Object" when the body calls OnObject(x, func(o *Object) error { o.Clean(); … })
//   other:     any other statement (reported as ?unknown)
func (x *Extractor) genClean() string {
	type row struct {
		recv            string
		ptrRecv         bool
		trunc, walk     []string
		delegate, other []string
	}
	var rows []row
	for k, fd := range x.funcs {
		if !strings.HasSuffix(k, ".Clean") || fd.Body == nil {
			continue
		}
		r := row{recv: strings.TrimSuffix(k, ".Clean")}
		_, r.ptrRecv = fd.Recv.List[0].Type.(*ast.StarExpr)
		for _, st := range fd.Body.List {
			switch s := st.(type) {
			case *ast.AssignStmt:
				ok := false
				if len(s.Lhs) == 1 && len(s.Rhs) == 1 {
					if l, lok := s.Lhs[0].(*ast.SelectorExpr); lok {
						if sl, sok := s.Rhs[0].(*ast.SliceExpr); sok && sl.Low == nil && sl.High != nil && x.src(sl.High) == "0" {
							if rr, rok := sl.X.(*ast.SelectorExpr); rok && rr.Sel.Name == l.Sel.Name {
								r.trunc = append(r.trunc, l.Sel.Name)
								ok = true
							}
						}
					}
					// _ = OnObject(...)
					if id, iok := s.Lhs[0].(*ast.Ident); iok && id.Name == "_" {
						if d := x.cleanDelegate(s.Rhs[0]); d != "" {
							r.delegate = append(r.delegate, d)
							ok = true
						}
					}
				}
				if !ok {
					r.other = append(r.other, "?unknown: "+x.src(s))
				}
			case *ast.ExprStmt:
				ok := false
				if c, cok := s.X.(*ast.CallExpr); cok {
					if id, iok := c.Fun.(*ast.Ident); iok && id.Name == "CleanRecipients" && len(c.Args) == 1 {
						if sel, sok := c.Args[0].(*ast.SelectorExpr); sok {
							r.walk = append(r.walk, sel.Sel.Name)
							ok = true
						}
					}
					if d := x.cleanDelegate(c); d != "" {
						r.delegate = append(r.delegate, d)
						ok = true
					}
				}
				if !ok {
					r.other = append(r.other, "?unknown: "+x.src(s))
				}
			case *ast.RangeStmt:
				// ItemCollection.Clean: for j, it := range i { i[j] = CleanRecipients(it) }
				if strings.Contains(x.src(s), "= CleanRecipients(it)") && len(s.Body.List) == 1 {
					r.walk = append(r.walk, "[members]")
				} else {
					r.other = append(r.other, "?unknown: "+x.src(s))
				}
			default:
				r.other = append(r.other, "?unknown: "+x.src(st))
			}
		}
		rows = append(rows, r)
	}
	sort.Slice(rows, func(i, j int) bool { return rows[i].recv < rows[j].recv })
	var sb strings.Builder
	sb.WriteString(header)
	sb.WriteString("namespace APModel.Generated\n\nstructure CleanRow where\n  recv : String\n  ptrRecv : Bool\n  trunc : List String\n  walk : List String\n  delegate : List String\n  other : List String\n  deriving Repr, DecidableEq\n\n")
	sb.WriteString("/-- one row per `Clean()` method in the source. -/\ndef cleanRows : List CleanRow := [\n")
	for i, r := range rows {
		sep := ","
		if i == len(rows)-1 {
			sep = ""
		}
		fmt.Fprintf(&sb, "  { recv := %s, ptrRecv := %v, trunc := %s, walk := %s, delegate := %s, other := %s }%s\n",
			lstr(r.recv), r.ptrRecv, lstrList(r.trunc), lstrList(r.walk), lstrList(r.delegate), lstrList(r.other), sep)
	}
	sb.WriteString("]\n\n")
	// CleanRecipients: the guard and the interface assertion
	cr := "?unknown"
	if fd, ok := x.funcs["CleanRecipients"]; ok {
		cr = x.src(fd.Body)
	}
	fmt.Fprintf(&sb, "/-- normalised source of `CleanRecipients` (compared with the text the model was written against). -/\ndef cleanRecipientsSrc : String := %s\n\n", lstr(cr))
	// method set of HasRecipients: types with pointer-or-value Recipients and Clean
	var has []string
	for k := range x.funcs {
		if strings.HasSuffix(k, ".Recipients") {
			t := strings.TrimSuffix(k, ".Recipients")
			if _, ok := x.funcs[t+".Clean"]; ok {
				has = append(has, t)
			}
		}
	}
	sort.Strings(has)
	fmt.Fprintf(&sb, "/-- types having both `Recipients()` and `Clean()` (the method set of `HasRecipients`). -/\ndef hasRecipientsTypes : List String := %s\n\nend APModel.Generated\n", lstrList(has))
	return sb.String()
}

// OnObject(x, func(o *Object) error { o.Clean(); return nil })  -> "Object"
func (x *Extractor) cleanDelegate(e ast.Expr) string {
	c, ok := e.(*ast.CallExpr)
	if !ok {
		return ""
	}
	id, ok := c.Fun.(*ast.Ident)
	if !ok || !strings.HasPrefix(id.Name, "On") || len(c.Args) != 2 {
		return ""
	}
	fl, ok := c.Args[1].(*ast.FuncLit)
	if !ok || len(fl.Body.List) != 2 {
		return ""
	}
	es, ok := fl.Body.List[0].(*ast.ExprStmt)
	if !ok {
		return ""
	}
	call, ok := es.X.(*ast.CallExpr)
	if !ok {
		return ""
	}
	sel, ok := call.Fun.(*ast.SelectorExpr)
	if !ok || sel.Sel.Name != "Clean" {
		return ""
	}
	if ret, ok := fl.Body.List[1].(*ast.ReturnStmt); !ok || len(ret.Results) != 1 || x.src(ret.Results[0]) != "nil" {
		return ""
	}
	return strings.TrimPrefix(id.Name, "On")
}

func init() {
	moreGens = append(moreGens, func(x *Extractor) map[string]func() string {
		return map[string]func() string{"Clean.lean": x.genClean}
	})
}
