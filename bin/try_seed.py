#!/usr/bin/env python3
"""try_seed.py <prop> <letter> [--props C01,C02] [--round r2]: confirm a seeded change (from /tmp/seeds/<prop>/<letter>.diff + demo test)
in a scratch worktree, then run the property's check (and optionally others) on /repo with the change applied, undo, and
store the confirmed seed under /verif/seeded/<prop>-<letter>/."""
import json, os, shutil, subprocess, sys, time
prop, letter = sys.argv[1], sys.argv[2]
also = []
if '--props' in sys.argv:
    also = sys.argv[sys.argv.index('--props') + 1].split(',')
env = dict(os.environ, GOFLAGS='-mod=mod', GOPROXY='off', GOSUMDB='off', GOTOOLCHAIN='local')
suffix = ''
if '--round' in sys.argv:
    suffix = sys.argv[sys.argv.index('--round') + 1]      # e.g. r2: reads /tmp/seeds/<prop>r2, stores seeded/<prop>-<letter>r2
sd = '/tmp/seeds/%s%s' % (prop, suffix)
diff = '%s/%s.diff' % (sd, letter)
demo = '%s/%s_demo_test.go' % (sd, letter)
wt = '/tmp/wt-%s' % prop
def sh(cmd, cwd=None, timeout=1800):
    p = subprocess.run(cmd, shell=True, cwd=cwd, env=env, stdout=subprocess.PIPE, stderr=subprocess.STDOUT, text=True, timeout=timeout)
    return p.returncode, p.stdout
meta = {'property': prop, 'seed': letter, 'confirmed': {}}
if not os.path.isdir(wt):
    sh('git -C /repo worktree add -q --detach %s HEAD' % wt)
sh('git checkout -q --detach main && git checkout -- . && git clean -fdq -e go.sum', cwd=wt)
sh('cp /repo/go.sum %s/' % wt)
rc, out = sh('git apply --check %s' % diff, cwd=wt)
if rc != 0:
    print('patch does not apply to current HEAD:', out); sys.exit(2)
shutil.copy(demo, os.path.join(wt, 'zz_seed_demo_test.go'))
import re
tests = re.findall(r'^func (Test\w+)\(', open(demo).read(), re.M)
RUN = '^(' + '|'.join(tests) + ')$' 
rc0, out0 = sh('go test -vet=off -count=1 -run "%s" . 2>&1 | tail -5' % RUN, cwd=wt)
meta['confirmed']['demo_passes_without_change'] = ('ok' in out0 and 'FAIL' not in out0)
sh('git apply %s' % diff, cwd=wt)
rc1, out1 = sh('go test -vet=off -count=1 -run "%s" . 2>&1 | tail -15' % RUN, cwd=wt)
meta['confirmed']['demo_fails_with_change'] = 'FAIL' in out1
os.remove(os.path.join(wt, 'zz_seed_demo_test.go'))
rc2, out2 = sh('go build ./... && go test -vet=off -count=1 ./... 2>&1 | grep -E "^(--- FAIL|FAIL|ok)"', cwd=wt)
fails = sorted(set(l for l in out2.splitlines() if l.startswith('--- FAIL')))
meta['confirmed']['suite_failures_with_change'] = fails
meta['confirmed']['suite_unchanged'] = all(('TestDoNotDeliverBlockToObject' in f or 'TestDoNotDeliverToActor' in f) for f in fails) and 'ok' in out2
sh('git checkout -- . && git clean -fdq -e go.sum', cwd=wt)
print(json.dumps(meta['confirmed'], indent=1))
ok = meta['confirmed']['demo_passes_without_change'] and meta['confirmed']['demo_fails_with_change'] and meta['confirmed']['suite_unchanged']
if not ok:
    print('NOT CONFIRMED'); print(out0[-600:], out1[-600:], out2[-600:])
    sys.exit(3)
# run the checks on /repo with the change applied
rc, out = sh('git -C /repo status --porcelain --untracked-files=no')
if out.strip():
    print('/repo is dirty, refusing'); sys.exit(2)
results = {}
# the evidence files describe the unchanged tree: keep them out of a run on a seeded tree
saved = {}
for p in [prop] + also:
    ep = '/verif/evidence/%s.json' % p
    if os.path.exists(ep):
        saved[ep] = open(ep).read()
try:
    sh('git -C /repo apply %s' % diff)
    for p in [prop] + also:
        t0 = time.time()
        rc, out = sh('bin/check %s --tier quick' % p, cwd='/verif', timeout=3600)
        viol = [l for l in out.splitlines() if l.startswith('VIOLATION')]
        results[p] = {'exit': rc, 'violation_line': viol[:1], 'wall_s': round(time.time() - t0, 1), 'summary': [l for l in out.splitlines() if ' quick: ' in l][-1:]}
        if viol and 'replay=' in viol[0]:
            rp = viol[0].split('replay=')[1].split()[0]
            try:
                results[p]['replay'] = json.load(open(rp))
            except Exception as e:
                results[p]['replay'] = str(e)
finally:
    sh('git -C /repo checkout -- .')
    for ep, txt in saved.items():
        open(ep, 'w').write(txt)
meta['checks'] = results
meta['needs'] = open('%s/%s.md' % (sd, letter)).read() if os.path.exists('%s/%s.md' % (sd, letter)) else ''
dst = '/verif/seeded/%s-%s%s' % (prop, letter, suffix)
os.makedirs(dst, exist_ok=True)
shutil.copy(diff, dst + '/patch.diff'); shutil.copy(demo, dst + '/demo_test.go')
meta['ran'] = ['scratch worktree %s: demo without change (pass), with change (fail), full suite with change (unchanged)' % wt,
               'git -C /repo apply patch.diff; bin/check %s --tier quick; git -C /repo checkout -- .' % ' / '.join([prop] + also)]
json.dump(meta, open(dst + '/meta.json', 'w'), indent=1)
for p, r in results.items():
    print(p, 'exit', r['exit'], r['violation_line'], r['summary'])
    if isinstance(r.get('replay'), dict):
        print('   replay:', r['replay'].get('kind'), r['replay'].get('class'), str(r['replay'].get('what') or r['replay'].get('detail'))[:300])
