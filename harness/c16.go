package main

import (
	"encoding/json"
	"fmt"
	"reflect"
	"sort"
	"strings"

	ap "github.com/go-ap/activitypub"
)

// C16 — flattening replaces embedded items by their own ids and nothing else.

var c16Single = map[string]bool{"Actor": true, "Object": true, "Target": true, "Result": true, "Origin": true, "Instrument": true,
	"AttributedTo": true, "Replies": true, "Likes": true, "Shares": true}
var c16Lists = map[string]bool{"To": true, "Bto": true, "CC": true, "BCC": true, "Audience": true}

// which positions a Go function flattens
func c16Positions(fn, goType, typ string) map[string]bool {
	obj := []string{"AttributedTo", "Replies", "Likes", "Shares", "To", "Bto", "CC", "BCC", "Audience"}
	intr := append([]string{"Actor", "Target", "Result", "Origin", "Instrument"}, obj...)
	act := append([]string{"Object"}, intr...)
	set := func(l []string) map[string]bool {
		m := map[string]bool{}
		for _, x := range l {
			m[x] = true
		}
		return m
	}
	switch fn {
	case "FlattenObjectProperties", "FlattenActorProperties":
		return set(obj)
	case "FlattenIntransitiveActivityProperties":
		return set(intr)
	case "FlattenActivityProperties":
		return set(act)
	case "FlattenProperties":
		in := func(l []string) bool {
			for _, x := range l {
				if strings.EqualFold(x, typ) {
					return true
				}
			}
			return false
		}
		switch {
		case in([]string{"Arrive", "Travel", "Question"}):
			return set(intr)
		case in(vocab["Activity"][1:]):
			return set(act)
		case in(vocab["Actor"][1:]), in([]string{"Article", "Audio", "Document", "Event", "Image", "Note", "Page", "Place", "Profile", "Relationship", "Tombstone", "Video"}):
			return set(obj)
		}
	}
	return map[string]bool{}
}

func isCollectionTree(tr interface{}) bool {
	m, ok := tr.(T)
	if !ok {
		return false
	}
	if _, ok := m["items"]; ok {
		return true
	}
	if _, ok := m["iris"]; ok {
		return true
	}
	if t, ok := m["t"].(string); ok {
		return strings.Contains(t, "Collection")
	}
	return false
}

func treeID(tr interface{}) string {
	m, ok := tr.(T)
	if !ok {
		return ""
	}
	if s, ok := m["iri"].(string); ok {
		return s
	}
	if f, ok := m["f"].(T); ok {
		if id, ok := f["ID"].(T); ok {
			return id["s"].(string)
		}
	}
	return ""
}

func isObjectTree(tr interface{}) bool {
	m, ok := tr.(T)
	if !ok {
		return false
	}
	t, ok := m["t"].(string)
	return ok && t != "Link" && m["nil"] != true
}

// collectIRIs gathers every IRI and every id occurring anywhere in a tree.
func collectIRIs(tr interface{}, out map[string]bool) {
	switch v := tr.(type) {
	case T:
		if s, ok := v["iri"].(string); ok {
			out[s] = true
		}
		if s, ok := v["s"].(string); ok {
			out[s] = true
		}
		for _, x := range v {
			collectIRIs(x, out)
		}
	case []interface{}:
		for _, x := range v {
			collectIRIs(x, out)
		}
	case string:
		out[v] = true
	}
}

// judgeFlatten states C16 on before/after trees of one struct value.
func judgeFlatten(before, after T, positions map[string]bool) string {
	bf, _ := before["f"].(T)
	af, _ := after["f"].(T)
	known := map[string]bool{}
	collectIRIs(before, known)
	for name, bv := range bf {
		av, present := af[name]
		if !positions[name] {
			if !present || !treeEqual(av, bv) {
				return fmt.Sprintf("property %s, which is not a flattened position, changed from %s to %s", name, mustJSONs(bv), mustJSONs(av))
			}
			continue
		}
		if c16Single[name] {
			if isCollectionTree(bv) {
				continue // collections in single positions are outside the statement
			}
			want := bv
			if isObjectTree(bv) && treeID(bv) != "" {
				want = T{"iri": treeID(bv)}
			}
			if nilLikeTree(bv) {
				if present && !nilLikeTree(av) {
					return fmt.Sprintf("%s was nil-like and became %s", name, mustJSONs(av))
				}
				continue
			}
			if !present || !treeEqual(av, want) {
				return fmt.Sprintf("%s: %s became %s, expected %s", name, mustJSONs(bv), mustJSONs(av), mustJSONs(want))
			}
			continue
		}
		if c16Lists[name] {
			bl := asList(bv.(T)["list"])
			var al []interface{}
			if present {
				al = asList(av.(T)["list"])
			}
			// every result entry: an IRI made of an original object's id, or an original IRI / link / id-less entry
			for _, e := range al {
				ok := false
				for _, o := range bl {
					if isObjectTree(o) && treeID(o) != "" {
						if treeEqual(e, T{"iri": treeID(o)}) {
							ok = true
						}
					} else if treeEqual(e, o) {
						ok = true
					}
				}
				if !ok {
					return fmt.Sprintf("%s: entry %s of the flattened list is neither an original entry nor the id of one (original %s)", name, mustJSONs(e), mustJSONs(bl))
				}
				if isObjectTree(e) && treeID(e) != "" {
					return fmt.Sprintf("%s: embedded object %s was not flattened", name, mustJSONs(e))
				}
			}
			// nobody lost: every original addressee with an id is represented; nil entries are kept
			nilsB, nilsA := 0, 0
			for _, o := range bl {
				if o == nil {
					nilsB++
					continue
				}
				id := treeID(o)
				if id == "" || isCollectionTree(o) {
					continue
				}
				found := false
				for _, e := range al {
					if e != nil && iriEq(treeID(e), id) {
						found = true
					}
				}
				if !found {
					return fmt.Sprintf("%s: addressee %q is not represented in the flattened list %s", name, id, mustJSONs(al))
				}
			}
			for _, e := range al {
				if e == nil {
					nilsA++
				}
			}
			if nilsA != nilsB {
				return fmt.Sprintf("%s: %d nil entries before, %d after", name, nilsB, nilsA)
			}
			// embedded objects (and links) without an id stay as they were: every one of them, in their order
			var keepB, keepA []interface{}
			for _, o := range bl {
				if o != nil && treeID(o) == "" && !isCollectionTree(o) {
					if m, ok := o.(T); !ok || m["iri"] == nil {
						keepB = append(keepB, o)
					}
				}
			}
			for _, e := range al {
				if e != nil && treeID(e) == "" && !isCollectionTree(e) {
					if m, ok := e.(T); !ok || m["iri"] == nil {
						keepA = append(keepA, e)
					}
				}
			}
			if !treeEqual(keepB, keepA) {
				return fmt.Sprintf("%s: the entries without an id were %s and are %s", name, mustJSONs(keepB), mustJSONs(keepA))
			}
		}
	}
	for name := range af {
		if _, ok := bf[name]; !ok {
			return fmt.Sprintf("property %s appeared", name)
		}
	}
	got := map[string]bool{}
	collectIRIs(after, got)
	for s := range got {
		if !known[s] {
			return fmt.Sprintf("string/IRI %q appears after flattening but was nowhere in the original", s)
		}
	}
	return ""
}

// what FlattenProperties handed back on the last call (its other siblings return their own argument type)
var c16Returned ap.Item

func callFlatten(fn string, it ap.Item) {
	c16Returned = it
	switch fn {
	case "FlattenActivityProperties":
		ap.FlattenActivityProperties(it.(*ap.Activity))
	case "FlattenIntransitiveActivityProperties":
		ap.FlattenIntransitiveActivityProperties(it.(*ap.IntransitiveActivity))
	case "FlattenActorProperties":
		ap.FlattenActorProperties(it.(*ap.Actor))
	case "FlattenObjectProperties":
		ap.FlattenObjectProperties(it.(*ap.Object))
	case "FlattenProperties":
		c16Returned = ap.FlattenProperties(it)
	default:
		panic("fn")
	}
}

func runFlatten(fn string, tr T) (res interface{}, viol string) {
	it := buildItem(tr)
	if p, msg := guard(func() { callFlatten(fn, it) }); p {
		return "panic", "panic: " + msg
	}
	after := dumpItem(it).(T)
	// the value handed back is the value that was given (same type, same properties): a pointer is flattened in place
	if fn == "FlattenProperties" && reflect.ValueOf(it).Kind() == reflect.Ptr {
		if reflect.TypeOf(c16Returned) != reflect.TypeOf(it) {
			return after, fmt.Sprintf("FlattenProperties was given a %T and handed back a %T", it, c16Returned)
		}
		if back := dumpItem(c16Returned); !treeEqual(back, after) {
			return after, "FlattenProperties handed back a value that differs from the flattened original: " + mustJSONs(back) + " vs " + mustJSONs(after)
		}
	}
	typ := ""
	if f, ok := tr["f"].(T); ok {
		if t, ok := f["Type"].(T); ok {
			typ = t["s"].(string)
		}
	}
	viol = judgeFlatten(tr, after, c16Positions(fn, tr["t"].(string), typ))
	if viol == "" {
		// flattening twice equals flattening once
		if p, msg := guard(func() { callFlatten(fn, it) }); p {
			return after, "panic on the second flattening: " + msg
		}
		if again := dumpItem(it); !treeEqual(again, after) {
			viol = "flattening twice differs from flattening once: " + mustJSONs(again) + " vs " + mustJSONs(after)
		}
	}
	return after, viol
}

// c16Spice adds duplicates / variants / nil entries to the addressing lists of a generated value.
func c16Spice(r *RNG, tr T) {
	f := tr["f"].(T)
	names := make([]string, 0, len(c16Lists))
	for name := range c16Lists {
		names = append(names, name)
	}
	sort.Strings(names) // map order must not steer the random stream
	for _, name := range names {
		lv, ok := f[name].(T)
		if !ok {
			continue
		}
		l := asList(lv["list"])
		if len(l) == 0 {
			continue
		}
		switch r.Intn(8) {
		case 0:
			l = append(l, l[r.Intn(len(l))])
		case 1:
			if id := treeID(l[r.Intn(len(l))]); strings.HasPrefix(id, "https://") {
				l = append(l, T{"iri": "http://" + id[8:]})
			}
		case 2:
			l = append([]interface{}{nil}, l...)
		case 6:
			// embedded objects and mentions that have no id of their own: each of them stays
			for k := 1 + r.Intn(2); k >= 0; k-- {
				var m interface{} = T{"t": "Object", "ptr": true, "f": T{"Type": T{"s": "Note"}, "Name": T{"nlv": []interface{}{[]interface{}{"-", fmt.Sprintf("no id %d", k)}}}}}
				if r.Chance(30) {
					m = T{"t": "Link", "ptr": true, "f": T{"Type": T{"s": "Mention"}, "Href": T{"s": fmt.Sprintf("https://example.com/href/%d", k)}}}
				}
				pos := r.Intn(len(l) + 1)
				l = append(l[:pos:pos], append([]interface{}{m}, l[pos:]...)...)
			}
		case 5:
			// addressees of the same document: ids that are only a fragment
			for _, fr := range []string{"#alice", "#bob", "#alice"}[:2+r.Intn(2)] {
				pos := r.Intn(len(l) + 1)
				l = append(l[:pos:pos], append([]interface{}{T{"iri": fr}}, l[pos:]...)...)
			}
		case 4:
			// a mention without an id of its own whose href is the id of another entry: two different things
			if id := treeID(l[r.Intn(len(l))]); id != "" {
				m := T{"t": "Link", "ptr": true, "f": T{"Type": T{"s": "Mention"}, "Href": T{"s": id}, "Rel": T{"s": "me"}}}
				pos := r.Intn(len(l) + 1)
				l = append(l[:pos:pos], append([]interface{}{m}, l[pos:]...)...)
			}
		case 3:
			// the same addressee in another addressing list as well (as its IRI or in the same form)
			other := names[r.Intn(len(names))]
			if ov, ok := f[other].(T); ok && other != name {
				m := l[r.Intn(len(l))]
				if id := treeID(m); id != "" && r.Bool() {
					m = T{"iri": id}
				}
				ov["list"] = append(asList(ov["list"]), cloneTree(m))
			}
		}
		lv["list"] = l
	}
	// a single-item position holding a list whose entries all carry the same id (an embedded object next to
	// its IRI, the same object by pointer and by value): de-duplication leaves one entry
	singles := make([]string, 0, len(c16Single))
	for name := range c16Single {
		singles = append(singles, name)
	}
	sort.Strings(singles)
	for _, name := range singles {
		v, ok := f[name].(T)
		if !ok || r.Intn(8) != 0 {
			continue
		}
		id := treeID(v)
		if id == "" || v["t"] == nil {
			continue
		}
		twin := cloneTree(v).(T)
		twin["ptr"] = !(v["ptr"] == true)
		l := []interface{}{v, T{"iri": id}}
		if r.Bool() {
			l = []interface{}{v, twin}
		}
		if r.Bool() {
			l = append(l, T{"iri": id})
		}
		f[name] = T{"items": l, "ptr": r.Bool()}
	}
}

func c16Case(c *Ctx, fn string, tr T) {
	res, viol := runFlatten(fn, tr)
	in := map[string]interface{}{"op": "flatten", "fn": fn, "v": tr}
	c.Emit(in, res, true)
	c.Tag("fn/" + fn)
	if viol != "" {
		cls := "C16/flatten"
		if strings.HasPrefix(viol, "panic") {
			cls = "C16/panic"
		}
		c.Fail(cls, viol, in)
	}
}

func init() {
	campaigns["C16"] = func(c *Ctx) {
		c.Rule = "activities / intransitive activities / questions / objects / actors (and the other object types through FlattenProperties) generated type-directed with the flattened positions set with probability 0.6: IRIs, embedded objects of every type with and without id, by pointer and by value, links, item lists; addressing lists spiced with duplicates, scheme variants of an id, nil entries and addressees shared between two lists; single positions holding lists whose entries all carry one id (object next to its IRI, pointer and value form); plus unrelated properties to judge the frame. Each value goes through its Flatten<T>Properties function and through FlattenProperties; also Flatten/FlattenToIRI/FlattenItemCollection on single items and lists. Oracle: positions, no-new-IRI, frame, nobody-lost, idempotence. Cases where the model declares the input outside its domain (collection objects in flattened single positions) are compared by the oracle only."
		force := map[string]bool{}
		for k := range c16Single {
			force[k] = true
		}
		for k := range c16Lists {
			force[k] = true
		}
		cfg := &GenCfg{MaxDepth: 2, Density: 12, ValueNodes: true, NilMembers: true, Links: true, EmptyTypes: true, Force: force, ForcePct: 60}
		fnOf := map[string]string{"Activity": "FlattenActivityProperties", "IntransitiveActivity": "FlattenIntransitiveActivityProperties", "Actor": "FlattenActorProperties", "Object": "FlattenObjectProperties"}
		for i := 0; i < c.N(3000, 80000); i++ {
			typ := []string{"Activity", "IntransitiveActivity", "Actor", "Object"}[c.R.Intn(4)]
			tr := cfg.genNode(c.R, typ, 2, false)
			tr["ptr"] = true
			c16Spice(c.R, tr)
			c16Case(c, fnOf[typ], tr)
		}
		for i := 0; i < c.N(2500, 60000); i++ {
			typ := objectGoTypes[c.R.Intn(len(objectGoTypes))]
			tr := cfg.genNode(c.R, typ, 2, false)
			tr["ptr"] = true
			c16Spice(c.R, tr)
			c16Case(c, "FlattenProperties", tr)
		}
		// single items and lists through the exported helpers
		for i := 0; i < c.N(1500, 30000); i++ {
			var it interface{}
			switch c.R.Intn(4) {
			case 0:
				it = cfg.genItem(c.R, 1)
			case 1:
				it = cfg.genNode(c.R, objectGoTypes[c.R.Intn(len(objectGoTypes))], 1, true)
			case 2:
				it = cfg.genNode(c.R, "Link", 0, true)
			default:
				it = T{"items": cfg.genItemList(c.R, 1, 1+c.R.Intn(4)), "ptr": false}
			}
			fn := []string{"Flatten", "FlattenToIRI"}[c.R.Intn(2)]
			goIt := buildItem(it)
			var out ap.Item
			in := map[string]interface{}{"op": "flatten", "fn": fn, "v": it}
			p, msg := guard(func() {
				if fn == "Flatten" {
					out = ap.Flatten(goIt)
				} else {
					out = ap.FlattenToIRI(goIt)
				}
			})
			if p {
				c.Emit(in, "panic", true)
				c.Fail("C16/panic", msg, in)
				continue
			}
			c.Emit(in, dumpItem(out), true)
			c.Tag("fn/" + fn)
		}
	}
	replayers["C16"] = func(class string, input []byte) string {
		var in map[string]interface{}
		if err := json.Unmarshal(input, &in); err != nil {
			return "bad replay input"
		}
		fn, _ := in["fn"].(string)
		if fn == "Flatten" || fn == "FlattenToIRI" {
			p, msg := guard(func() {
				if fn == "Flatten" {
					ap.Flatten(buildItem(parseTree(in["v"])))
				} else {
					ap.FlattenToIRI(buildItem(parseTree(in["v"])))
				}
			})
			if p {
				return "panic: " + msg
			}
			return ""
		}
		_, viol := runFlatten(fn, parseTree(in["v"]).(T))
		return viol
	}
}
