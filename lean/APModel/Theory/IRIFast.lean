/-
Helper lemmas for C14: the textual fast path of `IRI.Equals` (EqualFold on the strings stripped of
fragment and scheme) is sound with respect to the parsed comparison, on strings the splitter accepts and
whose query is in lower case.  Everything here is about how ASCII lowering commutes with the splitter
(separators are not letters) and with path cleaning.  No property statements.
-/
import APModel.Model.IRI

namespace APModel.IRI

theorem lowerB_toNat (b : UInt8) :
    (lowerB b).toNat = if 65 ≤ b.toNat ∧ b.toNat ≤ 90 then b.toNat + 32 else b.toNat := by
  unfold lowerB
  have hb := b.toNat_lt
  by_cases h : 65 ≤ b ∧ b ≤ 90
  · have h1 := UInt8.le_iff_toNat_le.mp h.1
    have h2 := UInt8.le_iff_toNat_le.mp h.2
    simp only [h, and_self, if_true]
    simp at h1 h2
    rw [UInt8.toNat_add]
    simp [h1, h2]
    omega
  · simp only [h, if_false]
    have : ¬ (65 ≤ b.toNat ∧ b.toNat ≤ 90) := by
      intro hc
      apply h
      exact ⟨UInt8.le_iff_toNat_le.mpr (by simpa using hc.1), UInt8.le_iff_toNat_le.mpr (by simpa using hc.2)⟩
    simp [this]

/-- a byte that is not an ASCII letter -/
def NonLetter (c : UInt8) : Prop := ¬ (65 ≤ c.toNat ∧ c.toNat ≤ 90) ∧ ¬ (97 ≤ c.toNat ∧ c.toNat ≤ 122)

theorem lowerB_eq_sep (c b : UInt8) (hc : NonLetter c) : lowerB b = c ↔ b = c := by
  rw [← UInt8.toNat_inj, ← UInt8.toNat_inj (a := b), lowerB_toNat]
  unfold NonLetter at hc
  split <;> omega

theorem lowerB_beq_sep (c b : UInt8) (hc : NonLetter c) : (lowerB b == c) = (b == c) := by
  have := lowerB_eq_sep c b hc
  by_cases h : b = c
  · rw [beq_iff_eq.mpr (this.mpr h), beq_iff_eq.mpr h]
  · have h' : lowerB b ≠ c := fun e => h (this.mp e)
    rw [beq_false_of_ne h', beq_false_of_ne h]

theorem lowerB_bne_sep (c b : UInt8) (hc : NonLetter c) : (lowerB b != c) = (b != c) := by
  simp only [bne, lowerB_beq_sep c b hc]

theorem takeWhile_lower (p : UInt8 → Bool) (hp : ∀ b, p (lowerB b) = p b) (s : Str) :
    (lower s).takeWhile p = lower (s.takeWhile p) := by
  induction s with
  | nil => rfl
  | cons c r ih =>
    simp only [lower, List.map_cons, List.takeWhile_cons, hp]
    split
    · simp only [List.map_cons]; congr 1
    · rfl

theorem dropWhile_lower (p : UInt8 → Bool) (hp : ∀ b, p (lowerB b) = p b) (s : Str) :
    (lower s).dropWhile p = lower (s.dropWhile p) := by
  induction s with
  | nil => rfl
  | cons c r ih =>
    simp only [lower, List.map_cons, List.dropWhile_cons, hp]
    split
    · exact ih
    · rfl

theorem takeWhile_congr_lower (p : UInt8 → Bool) (hp : ∀ b, p (lowerB b) = p b) (s t : Str)
    (h : lower s = lower t) : lower (s.takeWhile p) = lower (t.takeWhile p) := by
  rw [← takeWhile_lower p hp, ← takeWhile_lower p hp, h]

theorem dropWhile_congr_lower (p : UInt8 → Bool) (hp : ∀ b, p (lowerB b) = p b) (s t : Str)
    (h : lower s = lower t) : lower (s.dropWhile p) = lower (t.dropWhile p) := by
  rw [← dropWhile_lower p hp, ← dropWhile_lower p hp, h]

theorem drop_congr_lower (n : Nat) (s t : Str) (h : lower s = lower t) : lower (s.drop n) = lower (t.drop n) := by
  simp only [lower] at *
  rw [List.map_drop, List.map_drop, h]

theorem nl35 : NonLetter 35 := by unfold NonLetter; decide
theorem nl47 : NonLetter 47 := by unfold NonLetter; decide
theorem nl63 : NonLetter 63 := by unfold NonLetter; decide
theorem nl46 : NonLetter 46 := by unfold NonLetter; decide
theorem nl58 : NonLetter 58 := by unfold NonLetter; decide

theorem isAlpha_toNat (b : UInt8) :
    isAlpha b = decide ((65 ≤ b.toNat ∧ b.toNat ≤ 90) ∨ (97 ≤ b.toNat ∧ b.toNat ≤ 122)) := by
  unfold isAlpha
  simp [UInt8.le_iff_toNat_le]

theorem isDigit_toNat (b : UInt8) : isDigit b = decide (48 ≤ b.toNat ∧ b.toNat ≤ 57) := by
  unfold isDigit
  simp [UInt8.le_iff_toNat_le]

theorem beq_toNat (b c : UInt8) : (b == c) = decide (b.toNat = c.toNat) := by
  by_cases h : b = c
  · simp [h]
  · have : b.toNat ≠ c.toNat := fun e => h (UInt8.toNat_inj.mp e)
    simp [h, this]

theorem isAlpha_lowerB (b : UInt8) : isAlpha (lowerB b) = isAlpha b := by
  rw [isAlpha_toNat, isAlpha_toNat, lowerB_toNat]
  apply decide_eq_decide.mpr
  split <;> omega

theorem isDigit_lowerB (b : UInt8) : isDigit (lowerB b) = isDigit b := by
  rw [isDigit_toNat, isDigit_toNat, lowerB_toNat]
  apply decide_eq_decide.mpr
  split <;> omega

theorem isSchemeChar_lowerB (b : UInt8) : isSchemeChar (lowerB b) = isSchemeChar b := by
  unfold isSchemeChar
  rw [isAlpha_lowerB, isDigit_lowerB]
  rw [lowerB_beq_sep 43 b (by unfold NonLetter; decide), lowerB_beq_sep 45 b (by unfold NonLetter; decide),
    lowerB_beq_sep 46 b nl46]

/-! ### path cleaning commutes with lowering -/

theorem lower_eq_nil (s : Str) : lower s = [] ↔ s = [] := by simp [lower]

theorem lower_eq_dot (s : Str) : lower s = dot ↔ s = dot := by
  unfold dot lower
  match s with
  | [] => simp
  | [b] => simp [lowerB_eq_sep 46 b nl46]
  | _ :: _ :: _ => simp

theorem lower_eq_dotdot (s : Str) : lower s = dotdot ↔ s = dotdot := by
  unfold dotdot lower
  match s with
  | [] => simp
  | [_] => simp
  | [a, b] => simp [lowerB_eq_sep 46 a nl46, lowerB_eq_sep 46 b nl46]
  | _ :: _ :: _ :: _ => simp

theorem splitOn_lower (p : Str) : splitOn 47 (lower p) = (splitOn 47 p).map lower := by
  induction p with
  | nil => rfl
  | cons c r ih =>
    simp only [lower, List.map_cons, splitOn, lowerB_beq_sep 47 c nl47]
    split
    · simp only [List.map_cons, List.map_nil]
      exact congrArg _ ih
    · have ih' : splitOn 47 (List.map lowerB r) = (splitOn 47 r).map lower := ih
      rw [ih']
      cases splitOn 47 r with
      | nil => rfl
      | cons h t => simp [lower]

theorem cleanStep_lower (rooted : Bool) (stack : List Str) (seg : Str) :
    cleanStep rooted (stack.map lower) (lower seg) = (cleanStep rooted stack seg).map lower := by
  unfold cleanStep
  simp only [lower_eq_nil, lower_eq_dot, lower_eq_dotdot]
  split
  · rfl
  · split
    · cases stack with
      | nil => cases rooted <;> simp [lower, dotdot, lowerB]
      | cons top rest =>
        simp only [List.map_cons, lower_eq_dotdot]
        split
        · cases rooted <;> simp [lower, dotdot, lowerB]
        · rfl
    · rfl

theorem foldl_cleanStep_lower (rooted : Bool) (segs : List Str) (stack : List Str) :
    (segs.map lower).foldl (cleanStep rooted) (stack.map lower) = (segs.foldl (cleanStep rooted) stack).map lower := by
  induction segs generalizing stack with
  | nil => rfl
  | cons a r ih => simp only [List.map_cons, List.foldl_cons, cleanStep_lower, ih]

theorem cleanSegs_lower (rooted : Bool) (segs : List Str) :
    cleanSegs rooted (segs.map lower) = (cleanSegs rooted segs).map lower := by
  unfold cleanSegs
  have := foldl_cleanStep_lower rooted segs []
  simp only [List.map_nil] at this
  rw [this, List.map_reverse]

theorem joinSlash_lower : ∀ l : List Str, joinSlash (l.map lower) = lower (joinSlash l)
  | [] => rfl
  | [s] => rfl
  | s :: t :: r => by
    have ih := joinSlash_lower (t :: r)
    simp only [List.map_cons] at ih
    simp only [List.map_cons, joinSlash, ih]
    simp [lower, lowerB]

theorem clean_lower (p : Str) : clean (lower p) = lower (clean p) := by
  cases p with
  | nil => simp [clean, lower, dot, lowerB]
  | cons c r =>
    have hs := splitOn_lower (c :: r)
    simp only [lower, List.map_cons] at hs
    simp only [clean, lower, List.map_cons, lowerB_beq_sep 47 c nl47, hs]
    have hc := cleanSegs_lower (c == 47) (splitOn 47 (c :: r))
    rw [hc]
    have hj := joinSlash_lower (cleanSegs (c == 47) (splitOn 47 (c :: r)))
    simp only [lower] at hj
    split
    · simp [hj, lowerB]
    · split
      · rename_i h1 h2
        simp at h2
        simp [h2, dot, lowerB]
      · rename_i h1 h2
        simp at h2
        simp [h2, hj]

theorem clean_congr_lower (p q : Str) (h : lower p = lower q) : lower (clean p) = lower (clean q) := by
  rw [← clean_lower, ← clean_lower, h]

/-! ### the shape of a string the splitter accepts -/

def mainOf (s : Str) : Str := s.takeWhile (· != 35)
def schOf (s : Str) : Str := (mainOf s).takeWhile isSchemeChar
def authOf (s : Str) : Str := ((mainOf s).dropWhile isSchemeChar).drop 3
def beforeQ (s : Str) : Str := (authOf s).takeWhile (· != 63)
def queryStr (s : Str) : Str := ((authOf s).dropWhile (· != 63)).drop 1
def hostOf (s : Str) : Str := (beforeQ s).takeWhile (· != 47)
def pathOf (s : Str) : Str := (beforeQ s).dropWhile (· != 47)

structure Shape (s : Str) (u : URL) : Prop where
  rest : (mainOf s).dropWhile isSchemeChar = 58 :: 47 :: 47 :: authOf s
  sch : ∃ c r, schOf s = c :: r ∧ isAlpha c = true
  scheme : u.scheme = lower (schOf s)
  host : u.host = hostOf s
  path : u.path = pathOf s
  query : parseQuery (queryStr s) = some u.query

theorem parse_shape (s : Str) (u : URL) (h : parseOpt s = some u) : Shape s u := by
  unfold parseOpt at h
  split at h
  · rename_i u' hp
    cases h
    unfold parseURL at hp
    simp only at hp
    split at hp
    · rename_i c cr rest hsch hrest
      split at hp
      · cases hp
      · rename_i halpha
        split at hp
        · rename_i auth
          unfold parseAuthority at hp
          simp only at hp
          split at hp
          · unfold finishURL at hp
            split at hp
            · rename_i m hq
              cases hp
              have hrest' : (mainOf s).dropWhile isSchemeChar = 58 :: 47 :: 47 :: auth := hrest
              have hauth : authOf s = auth := by unfold authOf; rw [hrest']; rfl
              refine ⟨by rw [hauth]; exact hrest', ⟨c, cr, hsch, by simpa using halpha⟩, ?_, ?_, ?_, ?_⟩
              · show lower _ = lower (schOf s)
                unfold schOf mainOf; rw [hsch]
              · show _ = hostOf s
                unfold hostOf beforeQ; rw [hauth]
              · show _ = pathOf s
                unfold pathOf beforeQ; rw [hauth]
              · show parseQuery (queryStr s) = some m
                unfold queryStr; rw [hauth]; exact hq
            · cases hp
          · cases hp
        · cases hp
    · cases hp
  · cases h

/-! ### what the textual fast path compares, in terms of the parts -/

theorem isSchemeChar_58 : isSchemeChar 58 = false := by decide

theorem findSub_scheme (sch rest : Str) (h : ∀ b ∈ sch, isSchemeChar b = true) :
    findSub schemeSep (sch ++ 58 :: 47 :: 47 :: rest) = some (58 :: 47 :: 47 :: rest) := by
  induction sch with
  | nil => simp [findSub, schemeSep, List.isPrefixOf]
  | cons c r ih =>
    have hc : c ≠ 58 := by
      intro e; subst e
      have := h 58 List.mem_cons_self
      rw [isSchemeChar_58] at this; cases this
    have hp : schemeSep.isPrefixOf (c :: (r ++ 58 :: 47 :: 47 :: rest)) = false := by
      simp [schemeSep, List.isPrefixOf, Ne.symm hc]
    simp only [List.cons_append, findSub, hp, Bool.false_eq_true, if_false]
    exact ih (fun b hb => h b (List.mem_cons_of_mem _ hb))

theorem main_split (s : Str) (u : URL) (hs : Shape s u) :
    mainOf s = schOf s ++ 58 :: 47 :: 47 :: authOf s := by
  have := List.takeWhile_append_dropWhile (p := isSchemeChar) (l := mainOf s)
  rw [hs.rest] at this
  exact this.symm

theorem stripFragment_shape (s : Str) (u : URL) (hs : Shape s u) : stripFragment s = mainOf s := by
  obtain ⟨c, r, hsch, halpha⟩ := hs.sch
  have hm := main_split s u hs
  rw [hsch] at hm
  have hc : (c == 35) = false := by
    apply beq_false_of_ne
    intro e; subst e; revert halpha; decide
  cases s with
  | nil => simp [mainOf] at hm
  | cons a t =>
    unfold mainOf at hm ⊢
    simp only [List.takeWhile_cons] at hm ⊢
    by_cases ha : (a != 35) = true
    · simp only [ha, if_true] at hm ⊢
      have : (a == 35) = false := by simpa [bne] using ha
      simp [stripFragment, this]
    · simp only [ha] at hm
      simp at hm

theorem stripScheme_shape (s : Str) (u : URL) (hs : Shape s u) :
    stripScheme (mainOf s) = 58 :: 47 :: 47 :: authOf s := by
  unfold stripScheme
  rw [main_split s u hs, findSub_scheme]
  · rfl
  · intro b hb
    unfold schOf at hb
    exact List.all_eq_true.mp List.all_takeWhile b hb

theorem bne_lower (c : UInt8) (hc : NonLetter c) : ∀ b, (lowerB b != c) = (b != c) :=
  fun b => lowerB_bne_sep c b hc

/-- the parts of two accepted strings the fast path declares equal -/
theorem fast_components (i w : Str) (u v : URL) (cs : Bool) (hi : Shape i u) (hw : Shape w v)
    (hf : foldEq (if cs then stripFragment i else stripScheme (stripFragment i))
                 (if cs then stripFragment w else stripScheme (stripFragment w)) = true) :
    (cs = true → lower (schOf i) = lower (schOf w)) ∧ lower (hostOf i) = lower (hostOf w) ∧
    lower (pathOf i) = lower (pathOf w) ∧ lower (queryStr i) = lower (queryStr w) := by
  rw [stripFragment_shape i u hi, stripFragment_shape w v hw] at hf
  simp only [foldEq, beq_iff_eq] at hf
  have hauth : lower (authOf i) = lower (authOf w) ∧ (cs = true → lower (schOf i) = lower (schOf w)) := by
    cases cs with
    | false =>
      simp only [Bool.false_eq_true, if_false] at hf
      rw [stripScheme_shape i u hi, stripScheme_shape w v hw] at hf
      refine ⟨?_, by simp⟩
      simpa [lower] using hf
    | true =>
      simp only [if_true] at hf
      have h1 := takeWhile_congr_lower isSchemeChar isSchemeChar_lowerB _ _ hf
      have h2 := dropWhile_congr_lower isSchemeChar isSchemeChar_lowerB _ _ hf
      rw [hi.rest, hw.rest] at h2
      refine ⟨by simpa [lower] using h2, fun _ => h1⟩
  obtain ⟨ha, hsc⟩ := hauth
  have hb : lower (beforeQ i) = lower (beforeQ w) := takeWhile_congr_lower _ (bne_lower 63 nl63) _ _ ha
  refine ⟨hsc, ?_, ?_, ?_⟩
  · exact takeWhile_congr_lower _ (bne_lower 47 nl47) _ _ hb
  · exact dropWhile_congr_lower _ (bne_lower 47 nl47) _ _ hb
  · exact drop_congr_lower 1 _ _ (dropWhile_congr_lower _ (bne_lower 63 nl63) _ _ ha)

end APModel.IRI
