/-
C15 — Collection IRIs and their owners convert back and forth consistently.
Model: `Model/Typer.lean` (tied to typer.go / iri.go by the `typer` correspondence ops).

The theorems are stated on the path component of the owner (an absolute URL without query and
fragment is scheme://host + path, and `Split` re-renders scheme://host unchanged); the string-level
functions of the model are tied to these by `split` being defined through `pathSplit` /
`trimRightSlash`, and to the code by the correspondence over owners × names.
-/
import APModel.Model.Typer
import APModel.Props.C14

namespace APModel.Typer
open APModel.IRI

/-! ### list lemmas -/

theorem trimRightSlash_snoc (d : Str) : trimRightSlash (d ++ [sl]) = trimRightSlash d := by
  simp [trimRightSlash, List.dropWhile]

theorem pathSplit_join (d c : Str) (hc : ∀ b ∈ c, b ≠ sl) : pathSplit (d ++ sl :: c) = (d ++ [sl], c) := by
  have hfile : ((d ++ sl :: c).reverse.takeWhile (· != sl)).reverse = c := by
    simp only [List.reverse_append, List.reverse_cons, List.append_assoc, List.singleton_append]
    rw [List.takeWhile_append_of_pos]
    · simp [List.takeWhile]
    · intro b hb; simpa using hc b (List.mem_reverse.mp hb)
  simp only [pathSplit, hfile]
  have : (d ++ sl :: c).length - c.length = (d ++ [sl]).length := by simp; omega
  rw [this]
  have : d ++ sl :: c = (d ++ [sl]) ++ c := by simp
  rw [this, List.take_left']
  rfl

/-- `IRIf` always has the shape d ++ "/" ++ c, where d is the owner without one trailing slash. -/
theorem iriF_shape (o c : Str) : ∃ d, iriF o c = d ++ sl :: c ∧ trimRightSlash d = trimRightSlash o := by
  unfold iriF
  cases h : o.getLast? with
  | none =>
    have : o = [] := by simpa using h
    exact ⟨[], by simp [this], by simp [this]⟩
  | some b =>
    by_cases hb : (b == sl) = true
    · -- o = o.dropLast ++ [sl]
      have hne : o ≠ [] := by intro e; simp [e] at h
      have hlast : o.getLast hne = b := by
        have := List.getLast?_eq_some_getLast hne
        rw [this] at h; exact Option.some.inj h
      have ho : o = o.dropLast ++ [sl] := by
        have := (List.dropLast_concat_getLast hne).symm
        rw [hlast] at this
        have hbs : b = sl := by simpa using hb
        rw [hbs] at this; exact this
      refine ⟨o.dropLast, ?_, ?_⟩
      · simp only [hb, if_true]
        conv => lhs; rw [ho]
        simp
      · conv => rhs; rw [ho]
        exact (trimRightSlash_snoc _).symm
    · exact ⟨o, by simp [hb], rfl⟩

theorem takeWhile_all {α : Type} (p : α → Bool) (l : List α) : ∀ b ∈ l.takeWhile p, p b = true := by
  induction l with
  | nil => simp
  | cons a r ih =>
    intro b hb
    simp only [List.takeWhile] at hb
    split at hb
    · rcases List.mem_cons.mp hb with rfl | h
      · assumption
      · exact ih b h
    · simp at hb

theorem splitOn_ne_nil (sep : UInt8) (q : Str) : splitOn sep q ≠ [] := by
  induction q with
  | nil => simp [splitOn]
  | cons c r ih =>
    simp only [splitOn]
    split
    · simp
    · split <;> simp

theorem splitOn_snoc (sep : UInt8) (q : Str) : splitOn sep (q ++ [sep]) = splitOn sep q ++ [[]] := by
  induction q with
  | nil => simp [splitOn]
  | cons c r ih =>
    simp only [List.cons_append, splitOn]
    split
    · simp [ih]
    · rw [ih]
      cases h : splitOn sep r with
      | nil => exact absurd h (splitOn_ne_nil sep r)
      | cons hd tl => simp

theorem splitOn_append_seps (sep : UInt8) (q : Str) (k : Nat) :
    splitOn sep (q ++ List.replicate k sep) = splitOn sep q ++ List.replicate k [] := by
  induction k with
  | zero => simp
  | succ n ih =>
    rw [List.replicate_succ', ← List.append_assoc, splitOn_snoc, ih, List.replicate_succ', List.append_assoc]

theorem cleanSegs_append_empties (rooted : Bool) (segs : List Str) (k : Nat) :
    cleanSegs rooted (segs ++ List.replicate k []) = cleanSegs rooted segs := by
  induction k with
  | zero => simp
  | succ n ih =>
    rw [List.replicate_succ', ← List.append_assoc, C14_clean_trailing_slash, ih]

/-- a string is its right-trimmed part followed by the trailing slashes -/
theorem trim_decomp (p : Str) : ∃ k, p = trimRightSlash p ++ List.replicate k sl := by
  refine ⟨(p.reverse.takeWhile (· == sl)).length, ?_⟩
  have h := List.takeWhile_append_dropWhile (p := (· == sl)) (l := p.reverse)
  have hrep : p.reverse.takeWhile (· == sl) = List.replicate (p.reverse.takeWhile (· == sl)).length sl := by
    apply List.eq_replicate_iff.mpr
    refine ⟨rfl, ?_⟩
    intro b hb
    have := takeWhile_all (· == sl) p.reverse b hb
    simpa using this
  have : p = (p.reverse.dropWhile (· == sl)).reverse ++ (p.reverse.takeWhile (· == sl)).reverse := by
    rw [← List.reverse_append, h, List.reverse_reverse]
  rw [hrep, List.reverse_replicate] at this
  simpa [trimRightSlash] using this

theorem clean_rooted (q : Str) :
    clean (47 :: q) = 47 :: joinSlash (cleanSegs true (splitOn 47 (47 :: q))) := by
  simp [clean]

theorem clean_rooted_trailing (q : Str) (k : Nat) : clean (47 :: q ++ List.replicate k 47) = clean (47 :: q) := by
  have h : (47 : UInt8) :: q ++ List.replicate k 47 = 47 :: (q ++ List.replicate k 47) := rfl
  rw [h, clean_rooted, clean_rooted]
  have := splitOn_append_seps 47 (47 :: q) k
  simp only [List.cons_append] at this
  rw [this, cleanSegs_append_empties]

theorem clean_slashes (k : Nat) : clean (47 :: List.replicate k 47) = slash := by
  have := clean_rooted_trailing [] k
  have h0 : (47 : UInt8) :: [] ++ List.replicate k 47 = 47 :: List.replicate k 47 := rfl
  rw [h0] at this
  rw [this]
  decide

/-! ### property theorems -/

/-- Splitting a built collection path returns the collection name and the owner's path up to
trailing slashes: for EVERY owner path `p` and every name `c` without a slash. -/
theorem C15_split_join_path (p c : Str) (hc : ∀ b ∈ c, b ≠ sl) :
    (pathSplit (iriF p c)).2 = c ∧ trimRightSlash (pathSplit (iriF p c)).1 = trimRightSlash p := by
  obtain ⟨d, hd, ht⟩ := iriF_shape p c
  rw [hd, pathSplit_join d c hc]
  exact ⟨rfl, by rw [trimRightSlash_snoc, ht]⟩

/-- …and that path is equivalent to the owner's under the path comparison of IRI equality (C14):
trailing slashes are ignored and the empty path is the root path. For every rooted or empty path. -/
theorem C15_trim_equiv (p : Str) (hp : p = [] ∨ ∃ r, p = 47 :: r) : pathEq (trimRightSlash p) p = true := by
  obtain ⟨k, hk⟩ := trim_decomp p
  rcases hp with rfl | ⟨r, rfl⟩
  · simp [pathEq, trimRightSlash, foldEq_refl]
  · generalize ht : trimRightSlash (47 :: r) = t at hk
    cases t with
    | nil =>
      -- the path is all slashes
      simp only [List.nil_append] at hk
      cases k with
      | zero => simp at hk
      | succ n =>
        rw [List.replicate_succ] at hk
        have hr : r = List.replicate n 47 := by injection hk
        subst hr
        simp only [pathEq]
        have h1 : clean slash = slash := by decide
        have h2 := clean_slashes n
        simp [h1, h2, foldEq_refl]
    | cons c t' =>
      have hc : c = 47 := by
        have := congrArg List.head? hk
        simpa using this.symm
      subst hc
      simp only [pathEq, List.cons_ne_nil, if_false, reduceCtorEq]
      have hcl : clean (47 :: r) = clean (47 :: t') := by
        rw [hk]; exact clean_rooted_trailing t' k
      rw [hcl]; exact foldEq_refl _

/-- every well-known collection name is a valid collection, and none contains a slash. -/
theorem C15_names :
    collectionNames.all (fun n => containsName validActivityCollection (ascii n) || containsName validObjectCollection (ascii n)) = true ∧
    collectionNames.all (fun n => (ascii n).all (· != sl)) = true ∧
    (containsName validActivityCollection [] || containsName validObjectCollection []) = false := by
  decide +kernel

/-- The collection helper yields the explicitly set collection when present and the built IRI
otherwise — for the collections a value of that kind can have. -/
theorem C15_explicit (c id x : Str) (isActor : Bool)
    (hk : ((containsName ofActorNames c && isActor) || containsName ofObjectNames c) = true) :
    ofValue c isActor id (some x) = some x ∧
    ofValue c isActor id none = (if id.isEmpty then none else some (addPath id c)) := by
  simp [ofValue, hk]

/-- the built IRI of `Of` is the one `IRIf` builds whenever the owner id has at most one trailing slash
(AddPath trims all of them, IRIf adds a slash only when there is none). -/
theorem C15_addPath_iriF (id c : Str) (h : trimRightSlash id = id ∨ ∃ d, id = d ++ [sl] ∧ trimRightSlash d = d) :
    addPath id c = iriF id c := by
  rcases h with h | ⟨d, rfl, hd⟩
  · unfold addPath iriF
    rw [h]
    cases hl : id.getLast? with
    | none => have : id = [] := by simpa using hl
              simp [this]
    | some b =>
      by_cases hb : (b == sl) = true
      · -- a trimmed string does not end in a slash
        exfalso
        have hne : id ≠ [] := by intro e; simp [e] at hl
        have hbs : b = sl := by simpa using hb
        have hlast : id.getLast hne = sl := by
          have := List.getLast?_eq_some_getLast hne
          rw [this] at hl; rw [← hbs]; exact Option.some.inj hl
        have hdec : id = id.dropLast ++ [sl] := by
          have := (List.dropLast_concat_getLast hne).symm
          rw [hlast] at this; exact this
        have : trimRightSlash id = trimRightSlash id.dropLast := by
          conv => lhs; rw [hdec]
          exact trimRightSlash_snoc _
        rw [h] at this
        have hlen : (trimRightSlash id.dropLast).length ≤ id.dropLast.length := by
          simp only [trimRightSlash, List.length_reverse]
          exact Nat.le_trans (List.dropWhile_sublist _).length_le (by simp)
        rw [← this] at hlen
        simp at hlen
        have : id.length = 0 := by omega
        exact hne (List.length_eq_zero_iff.mp this)
      · simp [hb]
  · unfold addPath iriF
    rw [trimRightSlash_snoc, hd]
    simp [sl]

/-! non-vacuity -/
example : split collectionNames (iriF (ascii "https://example.com/~jane/") (ascii "inbox")) =
    some (ascii "https://example.com/~jane", ascii "inbox") := by decide +kernel
example : validCollectionIRI (ascii "https://example.com/~jane") = some false := by decide +kernel
example : validCollectionIRI (iriF (ascii "https://example.com/~jane") (ascii "followers")) = some true := by decide +kernel

end APModel.Typer
