/-
Shared-memory interleaving model for C12: threads are trees of primitive steps (read an address and
continue with the value, write an address, return), a schedule picks which thread takes its next step.
-/
namespace APModel.Interleave

abbrev Addr := Nat
abbrev Val := Nat
abbrev Mem := Addr → Val

inductive Prog (α : Type)
  | ret (a : α)
  | read (addr : Addr) (k : Val → Prog α)
  | write (addr : Addr) (v : Val) (k : Prog α)

variable {α : Type}

/-- a program that never writes, whatever it reads -/
def writeFree : Prog α → Prop
  | .ret _ => True
  | .read _ k => ∀ v, writeFree (k v)
  | .write _ _ _ => False

def upd (m : Mem) (a : Addr) (v : Val) : Mem := fun x => if x = a then v else m x

/-- the program run alone to the end -/
def run : Prog α → Mem → α × Mem
  | .ret a, m => (a, m)
  | .read addr k, m => run (k (m addr)) m
  | .write addr v k, m => run k (upd m addr v)

/-- one primitive step -/
def step : Prog α → Mem → Prog α × Mem
  | .ret a, m => (.ret a, m)
  | .read addr k, m => (k (m addr), m)
  | .write addr v k, m => (k, upd m addr v)

/-- thread `i` takes one step (nothing happens if there is no such thread) -/
def stepAt (ts : List (Prog α)) (m : Mem) (i : Nat) : List (Prog α) × Mem :=
  match ts[i]? with
  | none => (ts, m)
  | some p => ((ts.set i (step p m).1), (step p m).2)

/-- a whole schedule -/
def exec (ts : List (Prog α)) (m : Mem) : List Nat → List (Prog α) × Mem
  | [] => (ts, m)
  | i :: sched => exec (stepAt ts m i).1 (stepAt ts m i).2 sched

/-- what a thread is about to do -/
def nextAccess : Prog α → Option (Addr × Bool)   -- (address, isWrite)
  | .ret _ => none
  | .read a _ => some (a, false)
  | .write a _ _ => some (a, true)

/-- a data race: two different threads about to touch the same address, at least one of them writing -/
def raceNow (ts : List (Prog α)) : Prop :=
  ∃ i j : Nat, i ≠ j ∧ ∃ p q : Prog α, ts[i]? = some p ∧ ts[j]? = some q ∧
    ∃ (a : Addr) (w1 w2 : Bool), nextAccess p = some (a, w1) ∧ nextAccess q = some (a, w2) ∧ (w1 = true ∨ w2 = true)

end APModel.Interleave
