package main

import (
	"encoding/json"
	"reflect"
	"strings"

	ap "github.com/go-ap/activitypub"
)

// C03 — gob/binary encode -> decode round trip preserves every vocabulary property.

// normGob: only the unset/empty normal form (and struct values come back as pointers).
func normGob(tr interface{}) interface{} {
	if tr == nil {
		return nil
	}
	m, ok := tr.(T)
	if !ok {
		return tr
	}
	if s, ok := m["iri"]; ok {
		if s == "" {
			return nil
		}
		return T{"iri": s}
	}
	if l, ok := m["iris"]; ok {
		if len(asList(l)) == 0 {
			return nil
		}
		return T{"iris": l}
	}
	if l, ok := m["items"]; ok {
		if m["nil"] == true {
			return nil
		}
		var out []interface{}
		for _, x := range asList(l) {
			if n := normGob(x); n != nil {
				out = append(out, n)
			}
		}
		if len(out) == 0 {
			return nil
		}
		return T{"items": out, "ptr": false}
	}
	if m["nil"] == true {
		return nil
	}
	f, _ := m["f"].(T)
	nf := T{}
	for name, v := range f {
		if nv := normGobField(v); nv != nil {
			nf[name] = nv
		}
	}
	if len(nf) == 0 {
		return nil
	}
	return T{"t": m["t"], "ptr": true, "f": nf}
}

func normGobField(v interface{}) interface{} {
	m, ok := v.(T)
	if !ok {
		return v
	}
	switch {
	case m["list"] != nil:
		var out []interface{}
		for _, x := range asList(m["list"]) {
			if n := normGob(x); n != nil {
				out = append(out, n)
			}
		}
		if len(out) == 0 {
			return nil
		}
		return T{"list": out}
	case m["nlv"] != nil:
		if len(asList(m["nlv"])) == 0 {
			return nil
		}
		return v
	case m["rec"] != nil:
		r := T{}
		for k, x := range m["rec"].(T) {
			if nx := normGobField(x); nx != nil {
				r[k] = nx
			}
		}
		if len(r) == 0 {
			return nil
		}
		return T{"rec": r}
	case m["t"] != nil || m["iri"] != nil || m["items"] != nil || m["iris"] != nil:
		return normGob(v)
	}
	return v
}

func gobRoundTrip(tr interface{}) (after interface{}, viol string) {
	it := buildItem(tr)
	var b []byte
	var err error
	if p, msg := guard(func() { b, err = ap.GobEncode(it) }); p {
		return nil, "panic in GobEncode: " + msg
	}
	if err != nil {
		return nil, "GobEncode error: " + err.Error()
	}
	var back ap.Item
	if p, msg := guard(func() { back, err = ap.GobDecode(b) }); p {
		return nil, "panic in GobDecode: " + msg
	}
	if err != nil {
		return nil, "GobDecode error: " + err.Error()
	}
	after = dumpItem(back)
	want := normGob(tr)
	if d := firstDiff("", want, normGob(after)); d != "" {
		return after, "round trip differs at " + d + "   (left: expected, right: decoded)"
	}
	// the type's own GobEncode/GobDecode and MarshalBinary/UnmarshalBinary pairs
	if m, ok := tr.(T); ok && m["t"] != nil && m["nil"] != true {
		rt := goTypes[m["t"].(string)]
		for _, pair := range [][2]string{{"GobEncode", "GobDecode"}, {"MarshalBinary", "UnmarshalBinary"}} {
			pv := reflect.New(rt)
			var e error
			if p, msg := guard(func() {
				out := reflect.ValueOf(it).MethodByName(pair[0]).Call(nil)
				if !out[1].IsNil() {
					e = out[1].Interface().(error)
					return
				}
				res := pv.MethodByName(pair[1]).Call([]reflect.Value{out[0]})
				if !res[0].IsNil() {
					e = res[0].Interface().(error)
				}
			}); p {
				return after, "panic in " + pair[0] + "/" + pair[1] + ": " + msg
			}
			if e != nil {
				return after, pair[0] + "/" + pair[1] + " failed: " + e.Error()
			}
			if d := firstDiff("", want, normGob(dumpItem(pv.Interface().(ap.Item)))); d != "" {
				return after, "round trip through " + pair[0] + "/" + pair[1] + " differs at " + d + "   (left: expected, right: decoded)"
			}
		}
	}
	return after, ""
}

func c03Case(c *Ctx, tr interface{}, tag string) {
	after, viol := gobRoundTrip(tr)
	in := map[string]interface{}{"op": "gobRoundTrip", "v": tr}
	var shown interface{}
	if after != nil {
		shown = dropEmpties(after)
	}
	c.Emit(in, shown, true)
	c.Tag(tag)
	// the same value through the deep gob model (encoder and decoder on wire trees), and whether it lies in
	// the domain of the whole-tree theorem: no nil-like items, no empty lists, texts, strings or sub-records
	c.Emit(map[string]interface{}{"op": "deepGobRoundTrip", "v": tr}, shown, false)
	c.Emit(map[string]interface{}{"op": "deepGobWF", "v": tr}, gobWellFormed(tr), false)
	if viol != "" {
		cls := "C03/roundtrip"
		if strings.HasPrefix(viol, "panic") {
			cls = "C03/panic"
		}
		if i := strings.Index(viol, "round trip differs at "); i >= 0 {
			t := "?"
			if m, ok := tr.(T); ok {
				t, _ = m["t"].(string)
			}
			cls = "C03/" + t + "." + diffField(viol[i+len("round trip differs at "):])
		}
		c.Fail(cls, viol, in)
	}
}

func init() {
	campaigns["C03"] = func(c *Ctx) {
		c.Rule = "same covering set and generator as C01 (one value per struct x field x shape, then type-directed random values), plus instants with nanoseconds and non-UTC zones, negative numbers and durations, sub-second durations, top-level links, item lists and IRI lists. Each value goes through GobEncode / GobDecode and the decoded value's reflect dump is compared with the original under the unset/empty normal form only."
		c01Cover(c, c03Case)
		cfg := &GenCfg{MaxDepth: c.N(2, 3), Density: 18, Zones: true, GobZones: true, Nanos: true, ValueNodes: true, Links: true, EmptyTypes: true,
			Negatives: true, MultiLang: true, SubSecondDur: true}
		for i := 0; i < c.N(2500, 60000); i++ {
			switch p := c.R.Intn(100); {
			case p < 88:
				typ := allGoTypes[c.R.Intn(len(allGoTypes))]
				tr := cfg.genNode(c.R, typ, cfg.MaxDepth, false)
				tr["ptr"] = true
				c03Case(c, tr, "random/"+typ)
			case p < 94:
				c03Case(c, T{"items": cfg.genItemList(c.R, 1, 1+c.R.Intn(3)), "ptr": false}, "random/ItemCollection")
			default:
				l := []interface{}{}
				for k := 1 + c.R.Intn(3); k > 0; k-- {
					l = append(l, cfg.nextID("in-iris"))
				}
				c03Case(c, T{"iris": l}, "random/IRIs")
			}
		}
	}
	replayers["C03"] = func(class string, input []byte) string {
		var in map[string]interface{}
		if err := json.Unmarshal(input, &in); err != nil {
			return "bad replay input"
		}
		_, viol := gobRoundTrip(parseTree(in["v"]))
		return viol
	}
}

// gobWellFormed: the readable meaning of the model's wfItem for generated values
func gobWellFormed(x interface{}) bool {
	switch v := x.(type) {
	case nil:
		return false
	case T:
		if v["nil"] == true {
			return false
		}
		if s, ok := v["iri"]; ok {
			return s != ""
		}
		if l, ok := v["iris"]; ok {
			return len(asList(l)) > 0
		}
		for _, k := range []string{"items", "list"} {
			if l, ok := v[k]; ok {
				if len(asList(l)) == 0 {
					return false
				}
				for _, e := range asList(l) {
					if !gobWellFormed(e) {
						return false
					}
				}
				return true
			}
		}
		if l, ok := v["nlv"]; ok {
			return len(asList(l)) > 0
		}
		if r, ok := v["rec"].(T); ok {
			if len(r) == 0 {
				return false
			}
			for _, e := range r {
				if !gobWellFormed(e) {
					return false
				}
			}
			return true
		}
		if s, ok := v["s"]; ok {
			return s != ""
		}
		if f, ok := v["f"].(T); ok {
			if len(f) == 0 {
				return false
			}
			for _, e := range f {
				if !gobWellFormed(e) {
					return false
				}
			}
			return true
		}
		return true // scalars: set by construction
	}
	return true
}
