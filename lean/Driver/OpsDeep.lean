import Driver.Value
import APModel.Model.DeepEnv
import APModel.Theory.Deep
open Lean APModel APModel.Codec APModel.Deep

namespace Driver

def opDeepRoundTrip (j : Json) : R Json := do
  return renderItem (normG (roundTrip envJson (← parseItem (← fld j "v"))))

end Driver

namespace Driver
open APModel.Deep in
/-- is the value inside the domain of the whole-tree theorem? -/
def opDeepWF (j : Json) : R Json := do
  return Json.bool (wfItem envJson (← parseItem (← fld j "v")))
end Driver
