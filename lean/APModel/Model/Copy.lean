/-
Model of property copying (copy.go) on the shared value trees, driven by the table regenerated
from the source (`Generated/Copy.lean`: per function the assigned fields with their rule shape).
-/
import APModel.Model.Value
import APModel.Model.Flatten
import APModel.Theory.Fields
import APModel.Generated.Copy

namespace APModel.Copy
open APModel APModel.Generated

inductive Rule
  | always            -- to.F = from.F
  | ifFromSet         -- replaceIf…(to.F, from.F) / if <from.F set> { to.F = from.F }
  | ifToUnsetFromSet  -- if <to.F unset> && <from.F set> { to.F = from.F }
  | ifToUnset         -- if <to.F unset> { to.F = from.F }
  | source            -- replaceIfSource
  | bad (s : String)  -- any other guard: no obligation accepts it
  deriving Repr, DecidableEq

def parseRule : String → Rule
  | "always" => .always
  | "ifFromSet" => .ifFromSet
  | "if:fromSet" => .ifFromSet
  | "if:toUnset&fromSet" => .ifToUnsetFromSet
  | "if:fromSet&toUnset" => .ifToUnsetFromSet
  | "if:toUnset" => .ifToUnset
  | "source" => .source
  | s => .bad s

def optBeq : Option FVal → Option FVal → Bool
  | none, none => true
  | some a, some b => FVal.beq a b
  | _, _ => false

/-- `replaceIfSource(to.Source, from.Source)` as repaired; always returns one of its two arguments. -/
def sourceMerge (t f : Option FVal) : Option FVal :=
  match f with
  | none => t
  | some (.record ff) =>
    match t with
    | some (.record tf) =>
      if !optBeq (ff.get? "MediaType") (tf.get? "MediaType") then f
      else if (ff.get? "Content").isSome then f else t
    | _ => f
  | some _ => f

/-- the value a rule leaves in `to.F`, given what `to.F` and `from.F` held. -/
def ruleResult (r : Rule) (t f : Option FVal) : Option FVal :=
  match r with
  | .always => f
  | .ifFromSet => if f.isSome then f else t
  | .ifToUnsetFromSet => if t.isNone && f.isSome then f else t
  | .ifToUnset => if t.isNone then f else t
  | .source => sourceMerge t f
  | .bad _ => t

def applyRow (frm : Fields) (to : Fields) (row : String × String) : Fields :=
  to.assign row.1 (ruleResult (parseRule row.2) (to.get? row.1) (frm.get? row.1))

/-- rows of a function: its own, then those of the functions it delegates to. -/
def rowsOf (T : List CopyRow) : Nat → String → List (String × String)
  | 0, _ => []
  | n + 1, fn =>
    match T.find? (fun r => r.fn == fn) with
    | none => []
    | some r => r.rows ++ r.delegates.flatMap (rowsOf T n)

def copyFields (rows : List (String × String)) (to frm : Fields) : Fields :=
  rows.foldl (applyRow frm) to

inductive Res
  | ok (to' : Item)
  | err
  | outside

def typeOf : Item → IRI.Str
  | .iri _ => Flatten.ascii "IRI"
  | .node _ _ fs => Flatten.strOf fs "Type"
  | .coll _ _ => Flatten.ascii "ItemCollection"
  | .iris _ => Flatten.ascii "IRICollection"
  | _ => []

def actorTypesGo : List String := ["Application", "Group", "Organization", "Person", "Service"]

/-- `copyAllItemProperties`: which function handles a type name, and the Go kind both sides must have
for the conversion to be the identity (other combinations go through the typed views of C08 and are
outside this model). -/
def dispatch (t : IRI.Str) : Option (String × Kind) :=
  if t == Flatten.ascii "Collection" then some ("CopyCollectionProperties", .collection)
  else if t == Flatten.ascii "CollectionPage" then some ("CopyCollectionPageProperties", .collectionPage)
  else if t == Flatten.ascii "OrderedCollection" then some ("CopyOrderedCollectionProperties", .orderedCollection)
  else if t == Flatten.ascii "OrderedCollectionPage" then some ("CopyOrderedCollectionPageProperties", .orderedCollectionPage)
  else if Flatten.typeIn actorTypesGo t then some ("UpdatePersonProperties", .actor)
  else if Flatten.typeIn Flatten.objectTypesGo t || t.isEmpty then some ("CopyObjectProperties", .object)
  else none

/-- `CopyItemProperties(to, from)` for pointer values. -/
def copyItem (T : List CopyRow) (to frm : Item) : Res :=
  if to.isNilLike || frm.isNilLike then .err
  else if !Flatten.iriEqv (Flatten.linkOf to) (Flatten.linkOf frm) then .err
  else if !(typeOf to).isEmpty && typeOf to != typeOf frm then .err
  else match dispatch (typeOf to) with
    | none => .err
    | some (fn, k) =>
      match to, frm with
      | .node kt true tf, .node kf _ ff =>
        -- Place/Profile/Relationship/Tombstone typed objects are handled by CopyObjectProperties through ToObject
        let objectLike (x : Kind) : Bool := x == .object || x == .place || x == .profile || x == .relationship || x == .tombstone
        if (kt == k && kf == k) || (fn == "CopyObjectProperties" && objectLike kt && objectLike kf) then
          .ok (.node kt true (copyFields (rowsOf T 4 fn) tf ff))
        else .outside
      | _, _ => .outside

end APModel.Copy
