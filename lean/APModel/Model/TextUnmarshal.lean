/-
The hand-written text unmarshalers (natural_language_values.go), transcribed with Go's index and
slice operations made partial: an out-of-range access is the explicit outcome `panic`.
-/
import APModel.Model.Text

namespace APModel.TextUnmarshal
open APModel.Text (Bytes quote)

inductive Out
  | ok (vals : List Bytes)   -- the value(s) stored in the receiver
  | err
  | panic
  deriving DecidableEq, Repr

/-- d[i] -/
def idx (d : Bytes) (i : Int) : Option Nat :=
  if 0 ≤ i ∧ i < d.length then d[i.toNat]? else none

/-- d[a:b] -/
def slice (d : Bytes) (a b : Int) : Option Bytes :=
  if 0 ≤ a ∧ a ≤ b ∧ b ≤ d.length then some ((d.drop a.toNat).take (b.toNat - a.toNat)) else none

/-- Content.UnmarshalText and LangRef.UnmarshalText (the same body) -/
def scalarUnmarshalText (d : Bytes) : Out :=
  if d.length = 0 then .ok [[]]
  else if d.length > 2 then
    match idx d 0 with
    | none => .panic
    | some a =>
      if a = quote then
        match idx d (d.length - 1) with
        | none => .panic
        | some z =>
          if z = quote then
            match slice d 1 (d.length - 1) with
            | none => .panic
            | some s => .ok [s]
          else .ok [[]]
      else .ok [[]]
  else .ok [d]

/-- NaturalLanguageValues.UnmarshalText, current tree -/
def nlvUnmarshalText (d : Bytes) : Out :=
  if d.length = 0 then .ok []
  else
    match idx d 0 with
    | none => .panic
    | some a =>
      if a = quote then
        if d.length < 2 then .err
        else
          match idx d (d.length - 1) with
          | none => .panic
          | some z =>
            if z ≠ quote then .err
            else
              match slice d 1 (d.length - 1) with
              | none => .panic
              | some s => .ok [s]
      else .ok []

/-- NaturalLanguageValues.UnmarshalText as it was on the pinned tree (no length checks) -/
def nlvUnmarshalTextPinned (d : Bytes) : Out :=
  match idx d 0 with
  | none => .panic
  | some a =>
    if a = quote then
      match idx d (d.length - 1) with
      | none => .panic
      | some z =>
        if z ≠ quote then .err
        else
          match slice d 1 (d.length - 1) with
          | none => .panic
          | some s => .ok [s]
    else .ok []

end APModel.TextUnmarshal
