/-
C18 — Property copy/update merges without losing data and rejects mismatches.
Model: `Model/Copy.lean`; rule table `Generated/Copy.lean` regenerated from copy.go on every run;
tied to the code by the `copy` correspondence op.
-/
import APModel.Model.Copy

namespace APModel.Copy
open APModel APModel.Generated

/-! ### helper lemmas -/

theorem sourceMerge_cases (t f : Option FVal) : sourceMerge t f = t ∨ sourceMerge t f = f := by
  unfold sourceMerge
  split
  · exact Or.inl rfl
  · split
    · split
      · exact Or.inr rfl
      · split
        · exact Or.inr rfl
        · exact Or.inl rfl
    · exact Or.inr rfl
  · exact Or.inr rfl

theorem applyRow_same (frm to : Fields) (row : String × String) :
    (applyRow frm to row).get? row.1 = ruleResult (parseRule row.2) (to.get? row.1) (frm.get? row.1) := by
  simp [applyRow, get_assign_same]

theorem applyRow_other (frm to : Fields) (row : String × String) (m : String) (h : m ≠ row.1) :
    (applyRow frm to row).get? m = to.get? m := by
  simp [applyRow, get_assign_other _ _ _ _ h]

/-- With distinct fields, the sequential copy is the pointwise application of each field's rule. -/
theorem copyFields_get (rows : List (String × String)) (hn : (rows.map Prod.fst).Nodup) (to frm : Fields) :
    (∀ row ∈ rows, (copyFields rows to frm).get? row.1 =
        ruleResult (parseRule row.2) (to.get? row.1) (frm.get? row.1)) ∧
    (∀ m, (∀ row ∈ rows, m ≠ row.1) → (copyFields rows to frm).get? m = to.get? m) := by
  induction rows generalizing to with
  | nil => simp [copyFields]
  | cons r rs ih =>
    simp only [List.map_cons, List.nodup_cons] at hn
    have ih' := ih hn.2 (applyRow frm to r)
    simp only [copyFields, List.foldl_cons] at ih' ⊢
    refine ⟨?_, ?_⟩
    · intro row hrow
      rcases List.mem_cons.mp hrow with rfl | hrow
      · -- the head row: later rows assign other fields
        rw [ih'.2 row.1 (fun row' hr' hEq => hn.1 (List.mem_map.mpr ⟨row', hr', hEq.symm⟩))]
        exact applyRow_same frm to row
      · rw [ih'.1 row hrow]
        have hne : row.1 ≠ r.1 := fun hEq => hn.1 (List.mem_map.mpr ⟨row, hrow, hEq⟩)
        rw [applyRow_other frm to r row.1 hne]
    · intro m hm
      rw [ih'.2 m (fun row hr => hm row (List.mem_cons_of_mem _ hr))]
      exact applyRow_other frm to r m (hm r List.mem_cons_self)

/-- rules the property tolerates: the field ends up with the old or the new value, and an old value
survives when the new object has none. -/
def Rule.allowed : Rule → Bool
  | .bad _ => false
  | _ => true

theorem ruleResult_old_or_new (r : Rule) (t f : Option FVal) (_h : r.allowed = true) :
    ruleResult r t f = t ∨ ruleResult r t f = f := by
  cases r with
  | always => exact Or.inr rfl
  | ifFromSet => simp only [ruleResult]; split <;> simp
  | ifToUnsetFromSet => simp only [ruleResult]; split <;> simp
  | ifToUnset => simp only [ruleResult]; split <;> simp
  | source => exact sourceMerge_cases t f
  | bad s => exact Or.inl rfl

theorem ruleResult_nothing_lost (r : Rule) (t : Option FVal) (hr : r ≠ .always) :
    ruleResult r t none = t := by
  cases r with
  | always => exact absurd rfl hr
  | ifFromSet => simp [ruleResult]
  | ifToUnsetFromSet => simp [ruleResult]
  | ifToUnset => simp only [ruleResult]; split <;> simp_all
  | source => simp [ruleResult, sourceMerge]
  | bad s => rfl

/-! ### property theorems (for every rule table with distinct fields; instantiated below) -/

/-- After a merge every property of `to` holds either the value it had or the value `from` has;
properties no row mentions are untouched. -/
theorem C18_old_or_new (rows : List (String × String)) (hn : (rows.map Prod.fst).Nodup)
    (hall : ∀ row ∈ rows, (parseRule row.2).allowed = true) (to frm : Fields) (m : String) :
    (copyFields rows to frm).get? m = to.get? m ∨ (copyFields rows to frm).get? m = frm.get? m := by
  have h := copyFields_get rows hn to frm
  by_cases hm : ∃ row ∈ rows, m = row.1
  · obtain ⟨row, hrow, rfl⟩ := hm
    rw [h.1 row hrow]
    exact ruleResult_old_or_new _ _ _ (hall row hrow)
  · exact Or.inl (h.2 m (fun row hr hEq => hm ⟨row, hr, hEq⟩))

/-- No property that was set in `to` and is unset in `from` is lost (id and type aside, which are
taken from `from` — and are required to match before the merge starts). -/
theorem C18_nothing_lost (rows : List (String × String)) (hn : (rows.map Prod.fst).Nodup)
    (to frm : Fields) (m : String) (hfrom : frm.get? m = none)
    (hnot : ∀ row ∈ rows, row.1 = m → parseRule row.2 ≠ .always) :
    (copyFields rows to frm).get? m = to.get? m := by
  have h := copyFields_get rows hn to frm
  by_cases hm : ∃ row ∈ rows, m = row.1
  · obtain ⟨row, hrow, rfl⟩ := hm
    rw [h.1 row hrow, hfrom]
    exact ruleResult_nothing_lost _ _ (hnot row hrow rfl)
  · exact h.2 m (fun row hr hEq => hm ⟨row, hr, hEq⟩)

/-- Each merged property that is set in `from` has from's value afterwards; id and type are from's. -/
theorem C18_merged (rows : List (String × String)) (hn : (rows.map Prod.fst).Nodup)
    (to frm : Fields) (row : String × String) (hrow : row ∈ rows) :
    (parseRule row.2 = .ifFromSet → ∀ v, frm.get? row.1 = some v → (copyFields rows to frm).get? row.1 = some v) ∧
    (parseRule row.2 = .always → (copyFields rows to frm).get? row.1 = frm.get? row.1) := by
  have h := (copyFields_get rows hn to frm).1 row hrow
  refine ⟨?_, ?_⟩
  · intro hr v hv; rw [h, hr, hv]; simp [ruleResult]
  · intro hr; rw [h, hr]; simp [ruleResult]

/-! ### merging the same new object twice is merging it once -/

theorem sourceMerge_self (f : Option FVal) : sourceMerge f f = f := by
  unfold sourceMerge
  cases f with
  | none => rfl
  | some v =>
    cases v <;> simp only []
    split <;> (try split) <;> rfl

theorem sourceMerge_idem (t f : Option FVal) : sourceMerge (sourceMerge t f) f = sourceMerge t f := by
  rcases sourceMerge_cases t f with h | h
  · rw [h]; exact h
  · rw [h]; exact sourceMerge_self f

theorem ruleResult_idem (r : Rule) (t f : Option FVal) :
    ruleResult r (ruleResult r t f) f = ruleResult r t f := by
  cases r with
  | always => rfl
  | ifFromSet => simp only [ruleResult]; split <;> simp_all
  | ifToUnsetFromSet =>
    simp only [ruleResult]
    cases t <;> cases f <;> simp
  | ifToUnset =>
    simp only [ruleResult]
    cases t <;> cases f <;> simp
  | source => exact sourceMerge_idem t f
  | bad s => rfl

/-- Applying the same update a second time changes nothing: every property reads the same after
two merges of `frm` as after one (for every rule table with distinct fields, whatever its rules). -/
theorem C18_idempotent (rows : List (String × String)) (hn : (rows.map Prod.fst).Nodup)
    (to frm : Fields) (m : String) :
    (copyFields rows (copyFields rows to frm) frm).get? m = (copyFields rows to frm).get? m := by
  have h1 := copyFields_get rows hn to frm
  have h2 := copyFields_get rows hn (copyFields rows to frm) frm
  by_cases hm : ∃ row ∈ rows, m = row.1
  · obtain ⟨row, hrow, rfl⟩ := hm
    rw [h2.1 row hrow, h1.1 row hrow]
    exact ruleResult_idem _ _ _
  · exact h2.2 m (fun row hr hEq => hm ⟨row, hr, hEq⟩)

/-- The guards: a nil-like side, ids that are not equivalent, a type of `to` that differs from
`from`'s, or an unsupported type are refused with an error (a refusal returns no new value for `to`:
in the functional model `to` is untouched by construction, the correspondence checks it on the code). -/
theorem C18_refuse (T : List CopyRow) (to frm : Item) :
    (to.isNilLike = true ∨ frm.isNilLike = true → copyItem T to frm = .err) ∧
    (Flatten.iriEqv (Flatten.linkOf to) (Flatten.linkOf frm) = false → copyItem T to frm = .err) ∧
    ((typeOf to).isEmpty = false → (typeOf to != typeOf frm) = true → copyItem T to frm = .err) ∧
    (dispatch (typeOf to) = none → copyItem T to frm = .err) := by
  refine ⟨?_, ?_, ?_, ?_⟩
  · intro h
    unfold copyItem
    rcases h with h | h <;> simp [h]
  · intro h
    unfold copyItem
    by_cases h0 : (to.isNilLike || frm.isNilLike) = true
    · simp [h0]
    · simp [h0, h]
  · intro h1 h2
    unfold copyItem
    by_cases h0 : (to.isNilLike || frm.isNilLike) = true
    · simp [h0]
    · by_cases h3 : (!Flatten.iriEqv (Flatten.linkOf to) (Flatten.linkOf frm)) = true
      · simp [h0, h3]
      · simp [h0, h3, h1, h2]
  · intro h
    unfold copyItem
    by_cases h0 : (to.isNilLike || frm.isNilLike) = true
    · simp [h0]
    · by_cases h3 : (!Flatten.iriEqv (Flatten.linkOf to) (Flatten.linkOf frm)) = true
      · simp [h0, h3]
      · by_cases h4 : (!(typeOf to).isEmpty && typeOf to != typeOf frm) = true
        · simp [h0, h3, h4]
        · simp [h0, h3, h4, h]

/-! ### obligations on the regenerated table -/

def copyFns : List String :=
  ["CopyObjectProperties", "UpdatePersonProperties", "CopyCollectionProperties", "CopyOrderedCollectionProperties",
   "CopyCollectionPageProperties", "CopyOrderedCollectionPageProperties"]

def objectMerged : List String :=
  ["Name", "Summary", "Content", "MediaType", "Attachment", "AttributedTo", "Audience", "Context", "Generator", "Icon",
   "Image", "InReplyTo", "Location", "Preview", "Replies", "Tag", "URL", "To", "Bto", "CC", "BCC", "StartTime", "EndTime"]

def mergedOf (fn : String) : List String :=
  objectMerged ++
  (if fn == "UpdatePersonProperties" then ["Inbox", "Outbox", "Following", "Followers", "Liked", "PreferredUsername"] else []) ++
  (if fn == "CopyCollectionProperties" || fn == "CopyCollectionPageProperties" then ["First", "Last", "Items"] else []) ++
  (if fn == "CopyOrderedCollectionProperties" || fn == "CopyOrderedCollectionPageProperties" then ["First", "Last", "OrderedItems"] else []) ++
  (if fn == "CopyCollectionPageProperties" || fn == "CopyOrderedCollectionPageProperties" then ["PartOf", "Next", "Prev"] else [])

def ruleOf (rows : List (String × String)) (f : String) : Option Rule :=
  (rows.find? (fun r => r.1 == f)).map (fun r => parseRule r.2)

/-- For each of the six functions (rows include the delegated ones): every field is assigned once,
every rule is of a tolerated shape, only id and type are copied unconditionally, each merged property
listed in the property's quantifier has the replace-if-set rule, and no statement was left unrecognised. -/
theorem C18_table :
    copyFns.all (fun fn =>
      let rows := rowsOf copyRows 4 fn
      decide ((rows.map Prod.fst).Nodup) &&
      rows.all (fun r => (parseRule r.2).allowed) &&
      rows.all (fun r => parseRule r.2 != .always || r.1 == "ID" || r.1 == "Type") &&
      ruleOf rows "ID" == some .always && ruleOf rows "Type" == some .always &&
      (mergedOf fn).all (fun f => ruleOf rows f == some .ifFromSet)) = true ∧
    copyRows.all (fun r => r.other.isEmpty) = true := by
  decide

theorem objectMerged_rows : ∀ f ∈ objectMerged, ∃ row ∈ rowsOf copyRows 4 "CopyObjectProperties",
    row.1 = f ∧ parseRule row.2 = .ifFromSet := by decide

/-- the instance for objects, spelled out: after `CopyObjectProperties` every listed property set in
`from` has from's value, whatever the two objects hold. -/
theorem C18_object_merged (to frm : Fields) (f : String) (hf : f ∈ objectMerged) (v : FVal)
    (hv : frm.get? f = some v) :
    (copyFields (rowsOf copyRows 4 "CopyObjectProperties") to frm).get? f = some v := by
  have hn : ((rowsOf copyRows 4 "CopyObjectProperties").map Prod.fst).Nodup := by decide
  obtain ⟨row, hr, rfl, hrule⟩ := objectMerged_rows f hf
  exact (C18_merged _ hn to frm row hr).1 hrule v hv

/-- the defect of the pinned tree: its guard `from.Duration == 0` is extracted as the rule
"if:fromUnset", which is not of a tolerated shape (with it a duration set in `to` was reset whenever
`from` had none, and a duration set in `from` was never copied). -/
theorem C18_pinned_duration_rule_rejected : (parseRule "if:fromUnset").allowed = false := by decide

end APModel.Copy
