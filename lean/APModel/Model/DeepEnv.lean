/- the deep codec model instantiated with the tables regenerated from the source -/
import APModel.Model.Deep
import APModel.Model.DeepGob
import APModel.Model.Equal
import APModel.Spec.Vocabulary
import APModel.Generated.Equals

namespace APModel.Deep
open APModel APModel.Codec

def kindOfTypeName (t : Str) : Option Kind :=
  if t.isEmpty then some .object
  else (Spec.vocabulary.find? (fun e => nm e.name == t)).map (·.kind)

/-- url.ParseRequestURI succeeded with a scheme and a host (modelled on the grammar of the IRI model;
strings outside that grammar are taken to be absolute when they hold "://") -/
def validIRIString (s : Str) : Bool :=
  match IRI.parseURL s with
  | .abs u => !u.host.isEmpty
  | .notAbs => false
  | .outside => (IRI.findSub IRI.schemeSep s).isSome

def envJson : Env where
  wrow sn n := (jsonW sn).find? (fun w => w.field == n)
  rrow sn name := (jsonR sn).find? (fun r => nm r.term == name)
  rrowMap sn name := (jsonR sn).find? (fun r => r.helper == "JSONGetNaturalLanguageField" && nm (r.term ++ "Map") == name)
  fieldKind sn n := (((schemaOf sn).find? (fun r => r.1 == n)).map (fun r => r.2.1)).getD "?"
  kindOfType := kindOfTypeName
  validIRI := validIRIString
  eqv a b := (Equal.itemsEqual APModel.Generated.equalsRows a b).getD false

end APModel.Deep

namespace APModel.DeepGob
open APModel APModel.Codec

/-- GetItemByType followed by the decoder's switch: a vocabulary name selects its struct, any other name a plain object -/
def kindOfTypeName (t : Str) : Option Kind :=
  match Spec.vocabulary.find? (fun e => nm e.name == t) with
  | some e => some e.kind
  | none => some .object

def envGob : Env where
  wrow sn n := (gobW sn).find? (fun w => w.field == n)
  rrow sn key := (gobR sn).find? (fun r => nm r.term == key)
  fieldKind sn n := (((schemaOf sn).find? (fun r => r.1 == n)).map (fun r => r.2.1)).getD "?"
  kindOfType := kindOfTypeName

end APModel.DeepGob
