package main

import (
	"bufio"
	"crypto/sha256"
	"encoding/hex"
	"encoding/json"
	"fmt"
	"os"
	"path/filepath"
	"sort"
)

// RNG is splitmix64; every random choice of a run derives from VERIF_SEED through it.
type RNG struct{ s uint64 }

func NewRNG(seed uint64) *RNG { return &RNG{s: seed*0x9E3779B97F4A7C15 + 0x1234567} }
func (r *RNG) Next() uint64 {
	r.s += 0x9E3779B97F4A7C15
	z := r.s
	z = (z ^ (z >> 30)) * 0xBF58476D1CE4E5B9
	z = (z ^ (z >> 27)) * 0x94D049BB133111EB
	return z ^ (z >> 31)
}
func (r *RNG) Intn(n int) int {
	if n <= 0 {
		return 0
	}
	return int(r.Next() % uint64(n))
}
func (r *RNG) Bool() bool        { return r.Next()&1 == 1 }

// Perm: a permutation of 0..n-1
func (r *RNG) Perm(n int) []int {
	p := make([]int, n)
	for i := range p {
		p[i] = i
	}
	for i := range p {
		j := i + r.Intn(n-i)
		p[i], p[j] = p[j], p[i]
	}
	return p
}
func (r *RNG) Chance(p int) bool { return r.Intn(100) < p } // p in percent
func (r *RNG) Pick(l []string) string {
	return l[r.Intn(len(l))]
}

// Failure is one oracle failure: the property stated on the implementation alone is false on Input.
type Failure struct {
	Case  int         `json:"case"`
	Class string      `json:"class"`
	What  string      `json:"what"`
	Input interface{} `json:"input"`
}

// Ctx collects what a run of one property's campaign produced.
type Ctx struct {
	Prop     string
	Tier     string
	Seed     uint64
	R        *RNG
	dir      string
	cases    *bufio.Writer
	impl     *bufio.Writer
	casesF   *os.File
	implF    *os.File
	n        int
	evals    int
	distinct map[[32]byte]struct{}
	tags     map[string]int
	samples  []interface{}
	Failures []Failure
	Exhaust  bool
	Rule     string
	Notes    []string
	maxFail  int
}

func NewCtx(prop, tier string, seed uint64, dir string) (*Ctx, error) {
	if err := os.MkdirAll(dir, 0o755); err != nil {
		return nil, err
	}
	cf, err := os.Create(filepath.Join(dir, "cases.jsonl"))
	if err != nil {
		return nil, err
	}
	inf, err := os.Create(filepath.Join(dir, "impl.jsonl"))
	if err != nil {
		return nil, err
	}
	return &Ctx{Prop: prop, Tier: tier, Seed: seed, R: NewRNG(seed), dir: dir,
		cases: bufio.NewWriterSize(cf, 1<<20), impl: bufio.NewWriterSize(inf, 1<<20), casesF: cf, implF: inf,
		distinct: map[[32]byte]struct{}{}, tags: map[string]int{}, maxFail: 200, Failures: []Failure{}}, nil
}

func (c *Ctx) Thorough() bool { return c.Tier == "thorough" }

// Pick returns q in the quick tier and t in the thorough tier.
func (c *Ctx) N(q, t int) int {
	if c.Thorough() {
		return t
	}
	return q
}

func mustJSON(v interface{}) []byte {
	b, err := json.Marshal(v)
	if err != nil {
		panic(err)
	}
	return b
}

// Emit records one correspondence case: the request sent to the model and the implementation's answer.
// nontrivial says whether the case counts towards distinct_nontrivial. Returns the case number.
func (c *Ctx) Emit(req map[string]interface{}, implResult interface{}, nontrivial bool) int {
	c.n++
	c.evals++
	k := c.n
	req["case"] = k
	rb := mustJSON(req)
	c.cases.Write(rb)
	c.cases.WriteByte('\n')
	ib := mustJSON(map[string]interface{}{"case": k, "r": implResult})
	c.impl.Write(ib)
	c.impl.WriteByte('\n')
	if nontrivial {
		delete(req, "case")
		h := sha256.Sum256(mustJSON(req))
		c.distinct[h] = struct{}{}
		req["case"] = k
	}
	if len(c.samples) < 3 || (len(c.samples) < 6 && c.n%997 == 0) {
		var rq interface{}
		json.Unmarshal(rb, &rq)
		c.samples = append(c.samples, map[string]interface{}{"request": rq, "impl": json.RawMessage(ib)})
	}
	return k
}

// Attempt records, before an operation that can take the whole process down (a view laid over foreign memory: the
// garbage collector or a fault ends the process, nothing can be recovered), which case is about to run.  The
// driver reads the file when the harness dies and reports that case as the failing input.
func (c *Ctx) Attempt(class string, input interface{}) {
	_ = os.WriteFile(filepath.Join(c.dir, "current.json"), mustJSON(map[string]interface{}{"class": class, "input": input}), 0o644)
}

// Done: the campaign ended normally, no case is pending.
func (c *Ctx) Done() { _ = os.Remove(filepath.Join(c.dir, "current.json")) }

// Count records an oracle-only evaluation (no model line), for distribution and counts.
func (c *Ctx) Count(input interface{}, nontrivial bool) {
	c.evals++
	if nontrivial {
		h := sha256.Sum256(mustJSON(input))
		c.distinct[h] = struct{}{}
	}
	if len(c.samples) < 3 {
		c.samples = append(c.samples, input)
	}
}

func (c *Ctx) Tag(t string) { c.tags[t]++ }

func (c *Ctx) Fail(class, what string, input interface{}) {
	if len(c.Failures) >= c.maxFail {
		c.tags["failures-dropped"]++
		return
	}
	c.Failures = append(c.Failures, Failure{Case: c.n, Class: class, What: what, Input: input})
}

func (c *Ctx) Close() error {
	c.cases.Flush()
	c.impl.Flush()
	c.casesF.Close()
	c.implF.Close()
	keys := make([]string, 0, len(c.tags))
	for k := range c.tags {
		keys = append(keys, k)
	}
	sort.Strings(keys)
	dist := map[string]int{}
	for _, k := range keys {
		dist[k] = c.tags[k]
	}
	rep := map[string]interface{}{
		"property": c.Prop, "tier": c.Tier, "seed": c.Seed,
		"evaluations": c.evals, "correspondence_cases": c.n, "distinct_nontrivial": len(c.distinct),
		"rule": c.Rule, "samples": c.samples, "distribution": dist,
		"failures": c.Failures, "exhaustive": c.Exhaust, "notes": c.Notes,
	}
	b, _ := json.MarshalIndent(rep, "", " ")
	return os.WriteFile(filepath.Join(c.dir, "report.json"), b, 0o644)
}

// guard runs f and converts a panic into ("panic", message).
func guard(f func()) (panicked bool, msg string) {
	defer func() {
		if r := recover(); r != nil {
			panicked = true
			msg = fmt.Sprint(r)
		}
	}()
	f()
	return false, ""
}

func hx(b []byte) string { return hex.EncodeToString(b) }
