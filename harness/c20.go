package main

import (
	"bytes"
	"encoding/json"
	"fmt"
	"reflect"
	"sort"
	"strings"

	ap "github.com/go-ap/activitypub"
)

// C20 — nil and typed-nil items are 'nothing', never a crash.

// nilKinds: the untyped nil and a nil pointer to each of the 14 struct types (+ nil lists).
func nilKinds() []string {
	ks := []string{"nil"}
	for _, t := range allGoTypes {
		ks = append(ks, "*"+t)
	}
	return append(ks, "ItemCollection(nil)", "*ItemCollection(nil)", "IRIs(nil)")
}

func mkNil(kind string) ap.Item {
	switch kind {
	case "nil":
		return nil
	case "ItemCollection(nil)":
		return ap.ItemCollection(nil)
	case "*ItemCollection(nil)":
		return (*ap.ItemCollection)(nil)
	case "IRIs(nil)":
		return ap.IRIs(nil)
	}
	return reflect.Zero(reflect.PtrTo(goTypes[strings.TrimPrefix(kind, "*")])).Interface().(ap.Item)
}

// cbProbe records what a callback received.
type cbProbe struct {
	called int
	nonNil int
}

func (p *cbProbe) see(ptr interface{}) {
	p.called++
	rv := reflect.ValueOf(ptr)
	if rv.IsValid() && !(rv.Kind() == reflect.Ptr && rv.IsNil()) {
		p.nonNil++
	}
}

type helper struct {
	name string
	// run returns a short canonical description of the (neutral) result
	run func(it ap.Item, p *cbProbe) string
}

func errStr(err error) string {
	if err != nil {
		return "err"
	}
	return "nil-error"
}

func ptrStr(v interface{}, err error) string {
	rv := reflect.ValueOf(v)
	s := "nonnil"
	if !rv.IsValid() || (rv.Kind() == reflect.Ptr && rv.IsNil()) {
		s = "nilptr"
	}
	return s + "/" + errStr(err)
}

func c20Helpers() []helper {
	hs := []helper{
		{"IsNil", func(it ap.Item, _ *cbProbe) string { return fmt.Sprint(ap.IsNil(it)) }},
		{"NotEmpty", func(it ap.Item, _ *cbProbe) string { return fmt.Sprint(ap.NotEmpty(it)) }},
		{"IsObject", func(it ap.Item, _ *cbProbe) string { ap.IsObject(it); return "ok" }},
		{"IsLink", func(it ap.Item, _ *cbProbe) string { ap.IsLink(it); return "ok" }},
		{"IsIRI", func(it ap.Item, _ *cbProbe) string { return fmt.Sprint(ap.IsIRI(it)) }},
		{"IsIRIs", func(it ap.Item, _ *cbProbe) string { ap.IsIRIs(it); return "ok" }},
		{"IsItemCollection", func(it ap.Item, _ *cbProbe) string { ap.IsItemCollection(it); return "ok" }},
		{"ItemsEqual(x,x)", func(it ap.Item, _ *cbProbe) string { return fmt.Sprint(ap.ItemsEqual(it, it)) }},
		{"ItemsEqual(x,nil)", func(it ap.Item, _ *cbProbe) string { return fmt.Sprint(ap.ItemsEqual(it, nil)) }},
		{"ItemsEqual(nil,x)", func(it ap.Item, _ *cbProbe) string { return fmt.Sprint(ap.ItemsEqual(nil, it)) }},
		{"ItemsEqual(x,obj)", func(it ap.Item, _ *cbProbe) string {
			return fmt.Sprint(ap.ItemsEqual(it, &ap.Object{ID: "https://example.com/o"}))
		}},
		{"ItemsEqual(obj,x)", func(it ap.Item, _ *cbProbe) string {
			return fmt.Sprint(ap.ItemsEqual(&ap.Object{ID: "https://example.com/o"}, it))
		}},
		{"ItemsEqual(x,iri)", func(it ap.Item, _ *cbProbe) string {
			return fmt.Sprint(ap.ItemsEqual(it, ap.IRI("https://example.com/o")))
		}},
		{"ItemsEqual(iri,x)", func(it ap.Item, _ *cbProbe) string {
			return fmt.Sprint(ap.ItemsEqual(ap.IRI("https://example.com/o"), it))
		}},
		{"ToObject", func(it ap.Item, _ *cbProbe) string { return ptrStr(ap.ToObject(it)) }},
		{"ToActor", func(it ap.Item, _ *cbProbe) string { return ptrStr(ap.ToActor(it)) }},
		{"ToActivity", func(it ap.Item, _ *cbProbe) string { return ptrStr(ap.ToActivity(it)) }},
		{"ToIntransitiveActivity", func(it ap.Item, _ *cbProbe) string { return ptrStr(ap.ToIntransitiveActivity(it)) }},
		{"ToQuestion", func(it ap.Item, _ *cbProbe) string { return ptrStr(ap.ToQuestion(it)) }},
		{"ToCollection", func(it ap.Item, _ *cbProbe) string { return ptrStr(ap.ToCollection(it)) }},
		{"ToCollectionPage", func(it ap.Item, _ *cbProbe) string { return ptrStr(ap.ToCollectionPage(it)) }},
		{"ToOrderedCollection", func(it ap.Item, _ *cbProbe) string { return ptrStr(ap.ToOrderedCollection(it)) }},
		{"ToOrderedCollectionPage", func(it ap.Item, _ *cbProbe) string { return ptrStr(ap.ToOrderedCollectionPage(it)) }},
		{"ToPlace", func(it ap.Item, _ *cbProbe) string { return ptrStr(ap.ToPlace(it)) }},
		{"ToProfile", func(it ap.Item, _ *cbProbe) string { return ptrStr(ap.ToProfile(it)) }},
		{"ToRelationship", func(it ap.Item, _ *cbProbe) string { return ptrStr(ap.ToRelationship(it)) }},
		{"ToTombstone", func(it ap.Item, _ *cbProbe) string { return ptrStr(ap.ToTombstone(it)) }},
		{"ToLink", func(it ap.Item, _ *cbProbe) string { return ptrStr(ap.ToLink(it)) }},
		{"ToItemCollection", func(it ap.Item, _ *cbProbe) string { return ptrStr(ap.ToItemCollection(it)) }},
		{"ToIRIs", func(it ap.Item, _ *cbProbe) string { return ptrStr(ap.ToIRIs(it)) }},
		{"OnObject", func(it ap.Item, p *cbProbe) string {
			return errStr(ap.OnObject(it, func(o *ap.Object) error { p.see(o); return nil }))
		}},
		{"OnActor", func(it ap.Item, p *cbProbe) string {
			return errStr(ap.OnActor(it, func(o *ap.Actor) error { p.see(o); return nil }))
		}},
		{"OnActivity", func(it ap.Item, p *cbProbe) string {
			return errStr(ap.OnActivity(it, func(o *ap.Activity) error { p.see(o); return nil }))
		}},
		{"OnIntransitiveActivity", func(it ap.Item, p *cbProbe) string {
			return errStr(ap.OnIntransitiveActivity(it, func(o *ap.IntransitiveActivity) error { p.see(o); return nil }))
		}},
		{"OnQuestion", func(it ap.Item, p *cbProbe) string {
			return errStr(ap.OnQuestion(it, func(o *ap.Question) error { p.see(o); return nil }))
		}},
		{"OnCollection", func(it ap.Item, p *cbProbe) string {
			return errStr(ap.OnCollection(it, func(o *ap.Collection) error { p.see(o); return nil }))
		}},
		{"OnCollectionPage", func(it ap.Item, p *cbProbe) string {
			return errStr(ap.OnCollectionPage(it, func(o *ap.CollectionPage) error { p.see(o); return nil }))
		}},
		{"OnOrderedCollection", func(it ap.Item, p *cbProbe) string {
			return errStr(ap.OnOrderedCollection(it, func(o *ap.OrderedCollection) error { p.see(o); return nil }))
		}},
		{"OnOrderedCollectionPage", func(it ap.Item, p *cbProbe) string {
			return errStr(ap.OnOrderedCollectionPage(it, func(o *ap.OrderedCollectionPage) error { p.see(o); return nil }))
		}},
		{"OnPlace", func(it ap.Item, p *cbProbe) string {
			return errStr(ap.OnPlace(it, func(o *ap.Place) error { p.see(o); return nil }))
		}},
		{"OnProfile", func(it ap.Item, p *cbProbe) string {
			return errStr(ap.OnProfile(it, func(o *ap.Profile) error { p.see(o); return nil }))
		}},
		{"OnRelationship", func(it ap.Item, p *cbProbe) string {
			return errStr(ap.OnRelationship(it, func(o *ap.Relationship) error { p.see(o); return nil }))
		}},
		{"OnTombstone", func(it ap.Item, p *cbProbe) string {
			return errStr(ap.OnTombstone(it, func(o *ap.Tombstone) error { p.see(o); return nil }))
		}},
		{"OnLink", func(it ap.Item, p *cbProbe) string {
			return errStr(ap.OnLink(it, func(o *ap.Link) error { p.see(o); return nil }))
		}},
		{"OnItemCollection", func(it ap.Item, p *cbProbe) string {
			return errStr(ap.OnItemCollection(it, func(o *ap.ItemCollection) error { p.see(o); return nil }))
		}},
		{"OnIRIs", func(it ap.Item, p *cbProbe) string {
			return errStr(ap.OnIRIs(it, func(o *ap.IRIs) error { p.see(o); return nil }))
		}},
		{"OnCollectionIntf", func(it ap.Item, p *cbProbe) string {
			return errStr(ap.OnCollectionIntf(it, func(o ap.CollectionInterface) error { p.see(o); return nil }))
		}},
		{"OnItem", func(it ap.Item, p *cbProbe) string {
			return errStr(ap.OnItem(it, func(o ap.Item) error { p.called++; return nil }))
		}},
		{"Flatten", func(it ap.Item, _ *cbProbe) string { return fmt.Sprint(ap.IsNil(ap.Flatten(it))) }},
		{"FlattenToIRI", func(it ap.Item, _ *cbProbe) string { return fmt.Sprint(ap.IsNil(ap.FlattenToIRI(it))) }},
		{"FlattenProperties", func(it ap.Item, _ *cbProbe) string { return fmt.Sprint(ap.IsNil(ap.FlattenProperties(it))) }},
		{"CleanRecipients", func(it ap.Item, _ *cbProbe) string { return fmt.Sprint(ap.IsNil(ap.CleanRecipients(it))) }},
		{"DerefItem", func(it ap.Item, _ *cbProbe) string { return fmt.Sprint(len(ap.DerefItem(it))) }},
		{"ItemOrderTimestamp(x,x)", func(it ap.Item, _ *cbProbe) string { return fmt.Sprint(ap.ItemOrderTimestamp(it, it)) }},
		{"ItemOrderTimestamp(nil,x)", func(it ap.Item, _ *cbProbe) string { return fmt.Sprint(ap.ItemOrderTimestamp(nil, it)) }},
		{"ItemOrderTimestamp(x,nil)", func(it ap.Item, _ *cbProbe) string { return fmt.Sprint(ap.ItemOrderTimestamp(it, nil)) }},
		{"ItemOrderTimestamp(typed nil,x)", func(it ap.Item, _ *cbProbe) string {
			return fmt.Sprint(ap.ItemOrderTimestamp((*ap.Activity)(nil), it))
		}},
		{"ItemOrderTimestamp(x,typed nil)", func(it ap.Item, _ *cbProbe) string {
			return fmt.Sprint(ap.ItemOrderTimestamp(it, (*ap.Activity)(nil)))
		}},
		{"ItemOrderTimestamp(x,obj)", func(it ap.Item, _ *cbProbe) string {
			ap.ItemOrderTimestamp(it, &ap.Object{ID: "https://example.com/o"})
			return "ok"
		}},
		{"ItemOrderTimestamp(obj,x)", func(it ap.Item, _ *cbProbe) string {
			ap.ItemOrderTimestamp(&ap.Object{ID: "https://example.com/o"}, it)
			return "ok"
		}},
		{"ItemCollection.Contains", func(it ap.Item, _ *cbProbe) string {
			return fmt.Sprint(ap.ItemCollection{ap.IRI("https://example.com/a"), &ap.Object{ID: "https://example.com/b"}}.Contains(it))
		}},
		{"ItemCollection.Append", func(it ap.Item, _ *cbProbe) string {
			c := ap.ItemCollection{ap.IRI("https://example.com/a"), &ap.Object{ID: "https://example.com/b"}}
			_ = c.Append(it)
			return "ok"
		}},
		{"ItemCollection.Remove", func(it ap.Item, _ *cbProbe) string {
			c := ap.ItemCollection{ap.IRI("https://example.com/a"), &ap.Object{ID: "https://example.com/b"}}
			c.Remove(it)
			return fmt.Sprint(len(c))
		}},
		{"Collection.Contains", func(it ap.Item, _ *cbProbe) string {
			c := ap.Collection{Items: ap.ItemCollection{ap.IRI("https://example.com/a")}}
			return fmt.Sprint(c.Contains(it))
		}},
		{"OrderedCollection.Append", func(it ap.Item, _ *cbProbe) string {
			c := ap.OrderedCollection{OrderedItems: ap.ItemCollection{ap.IRI("https://example.com/a")}}
			_ = c.Append(it)
			return "ok"
		}},
		// a list whose only member is the nil kind, compared with something that is not a list
		{"ItemsEqual(obj,[x])", func(it ap.Item, _ *cbProbe) string {
			o := &ap.Object{ID: "https://example.com/o", Type: ap.NoteType}
			return fmt.Sprint(ap.ItemsEqual(o, ap.ItemCollection{it}), ap.ItemsEqual(ap.ItemCollection{it}, o), ap.ItemsEqual(ap.IRI("https://example.com/o"), &ap.ItemCollection{it}))
		}},
		{"Equals(obj{tag:[x]},obj{tag:o})", func(it ap.Item, _ *cbProbe) string {
			a := &ap.Object{ID: "https://example.com/o", Type: ap.NoteType, Context: ap.ItemCollection{it}}
			b := &ap.Object{ID: "https://example.com/o", Type: ap.NoteType, Context: &ap.Object{ID: "https://example.com/c"}}
			return fmt.Sprint(ap.ItemsEqual(a, b), ap.ItemsEqual(b, a))
		}},
		// a nil kind as a MEMBER of a list that is converted to its IRIs: nothing stands for it in the result
		{"[a,x,b].IRIs()", func(it ap.Item, _ *cbProbe) string {
			l := ap.ItemCollection{ap.IRI("https://example.com/a"), it, ap.IRI("https://example.com/b")}
			return fmt.Sprint(l.IRIs())
		}},
		{"ToIRIs([x])", func(it ap.Item, _ *cbProbe) string {
			r, err := ap.ToIRIs(ap.ItemCollection{it})
			if err != nil || r == nil {
				return "err"
			}
			return fmt.Sprint(*r)
		}},
		{"OnIRIs([x,a])", func(it ap.Item, _ *cbProbe) string {
			out := "not called"
			l := ap.ItemCollection{it, ap.IRI("https://example.com/a")}
			_ = ap.OnIRIs(&l, func(i *ap.IRIs) error { out = fmt.Sprint(*i); return nil })
			return out
		}},
		// the collections of an object whose property holds the nil kind: the id-derived IRI, as for an unset property
		{"Likes.IRI(obj{likes:x})", func(it ap.Item, _ *cbProbe) string {
			o := &ap.Object{ID: "https://example.com/o", Type: ap.NoteType, Likes: it, Shares: it, Replies: it}
			return fmt.Sprintf("%s %s %s", ap.Likes.IRI(o), ap.Shares.IRI(o), ap.Replies.IRI(o))
		}},
		{"Inbox.IRI(actor{inbox:x})", func(it ap.Item, _ *cbProbe) string {
			a := &ap.Actor{ID: "https://example.com/a", Type: ap.PersonType, Inbox: it, Outbox: it, Followers: it, Following: it, Liked: it}
			return fmt.Sprintf("%s %s %s %s %s", ap.Inbox.IRI(a), ap.Outbox.IRI(a), ap.Followers.IRI(a), ap.Following.IRI(a), ap.Liked.IRI(a))
		}},
		{"Likes.Of(obj{likes:x})", func(it ap.Item, _ *cbProbe) string {
			o := &ap.Object{ID: "https://example.com/o", Type: ap.NoteType, Likes: it}
			return fmt.Sprint(ap.IsNil(ap.Likes.Of(o)))
		}},
		{"IRIs.Contains", func(it ap.Item, _ *cbProbe) string {
			return fmt.Sprint(ap.IRIs{"https://example.com/a"}.Contains(it))
		}},
		// a list holding the nil kind against a list of the same length holding something in its place
		{"ItemsEqual([a,x],[a,b])", func(it ap.Item, _ *cbProbe) string {
			a, b := ap.IRI("https://example.com/a"), &ap.Object{ID: "https://example.com/b", Type: ap.NoteType}
			l1, l2 := ap.ItemCollection{a, it}, ap.ItemCollection{a, b}
			l3, l4 := ap.ItemCollection{it, a, it}, ap.ItemCollection{b, a, b}
			return fmt.Sprint(ap.ItemsEqual(l1, l2), ap.ItemsEqual(l2, l1), l1.Equals(l2), l2.Equals(l1), ap.ItemsEqual(l3, l4), ap.ItemsEqual(l4, l3))
		}},
		// the nil kind as the argument of Remove on a list that holds nil entries of several kinds next to a valid member:
		// the valid member stays, wherever the nil entries stand
		{"[x,obj,nil].Remove(x)", func(it ap.Item, _ *cbProbe) string {
			valid := &ap.Object{ID: "https://example.com/b"}
			out := ""
			for _, l := range []ap.ItemCollection{{it, valid, nil}, {nil, it, valid}, {valid, it, (*ap.Actor)(nil)}, {it, it, valid, it}} {
				l.Remove(it)
				l.Remove((*ap.Activity)(nil))
				out += fmt.Sprint(l.Contains(valid), " ")
			}
			return out
		}},
		// the nil kind as a MEMBER of each collection kind, standing before the member that is asked for (by IRI, by
		// object): found, and appended things still arrive
		{"kinds{act,x,iri}.Contains(iri)", func(it ap.Item, _ *cbProbe) string {
			act := &ap.Activity{ID: "https://example.com/act", Type: ap.CreateType}
			iri := ap.IRI("https://example.com/last")
			mk := func() ap.ItemCollection { return ap.ItemCollection{act, it, iri} }
			cols := []ap.CollectionInterface{&ap.Collection{Items: mk()}, &ap.OrderedCollection{OrderedItems: mk()}, &ap.CollectionPage{Items: mk()},
				&ap.OrderedCollectionPage{OrderedItems: mk()}}
			l := mk()
			cols = append(cols, &l)
			out := ""
			for _, c := range cols {
				out += fmt.Sprint(c.Contains(iri), c.Contains(&ap.Object{ID: "https://example.com/last"}), c.Contains(ap.IRI("https://example.com/absent")))
				_ = c.Append(ap.IRI("https://example.com/new"))
				out += fmt.Sprint(c.Contains(ap.IRI("https://example.com/new")), " ")
			}
			return out
		}},
		{"IRIs.Append", func(it ap.Item, _ *cbProbe) string {
			c := ap.IRIs{"https://example.com/a"}
			_ = c.Append(it)
			return fmt.Sprint(len(c))
		}},
		{"MarshalJSON", func(it ap.Item, _ *cbProbe) string { _, err := ap.MarshalJSON(it); return errStr(err) }},
		{"GobEncode", func(it ap.Item, _ *cbProbe) string { _, err := ap.GobEncode(it); return errStr(err) }},
		{"CopyItemProperties(x,obj)", func(it ap.Item, _ *cbProbe) string {
			_, err := ap.CopyItemProperties(it, &ap.Object{ID: "https://example.com/o"})
			return errStr(err)
		}},
		{"CopyItemProperties(obj,x)", func(it ap.Item, _ *cbProbe) string {
			_, err := ap.CopyItemProperties(&ap.Object{ID: "https://example.com/o"}, it)
			return errStr(err)
		}},
		{"CollectionPath.IRI", func(it ap.Item, _ *cbProbe) string { return string(ap.Inbox.IRI(it)) }},
		{"CollectionPath.Of", func(it ap.Item, _ *cbProbe) string { return fmt.Sprint(ap.IsNil(ap.Inbox.Of(it))) }},
		{"CollectionPath.AddTo", func(it ap.Item, _ *cbProbe) string { _, ok := ap.Likes.AddTo(it); return fmt.Sprint(ok) }},
		{"JSONWriteItemProp", func(it ap.Item, _ *cbProbe) string {
			b := []byte("{")
			return fmt.Sprint(ap.JSONWriteItemProp(&b, "x", it))
		}},
		{"fmt", func(it ap.Item, _ *cbProbe) string { _ = fmt.Sprintf("%v %s", it, it); return "ok" }},
	}
	return hs
}

// contexts: a nil-kind planted inside an otherwise valid value, then an operation applied to the whole.
type context struct {
	name  string
	build func(n ap.Item) ap.Item
}

// systematic contexts: the nil kind planted into every Item-typed and ItemCollection-typed field of every
// struct, directly, as the sole member of a list, and as one member of a longer list.
func c20FieldContexts() []context {
	var out []context
	for _, t := range allGoTypes {
		t := t
		rt := goTypes[t]
		for i := 0; i < rt.NumField(); i++ {
			f := rt.Field(i)
			kind := kindOfType(f.Type)
			if kind != "item" && kind != "items" {
				continue
			}
			name := f.Name
			mk := func(shape string) func(n ap.Item) ap.Item {
				return func(n ap.Item) ap.Item {
					pv := reflect.New(rt)
					sv := pv.Elem()
					sv.FieldByName("ID").SetString("https://example.com/" + t)
					sv.FieldByName("Type").SetString(vocab[t][len(vocab[t])-1])
					var val ap.Item
					switch shape {
					case "direct":
						val = n
					case "sole":
						val = ap.ItemCollection{n}
					default:
						val = ap.ItemCollection{ap.IRI("https://example.com/a"), n, &ap.Object{ID: "https://example.com/b"}}
					}
					fv := sv.FieldByName(name)
					if kind == "items" {
						if col, ok := val.(ap.ItemCollection); ok {
							fv.Set(reflect.ValueOf(col))
						} else {
							fv.Set(reflect.ValueOf(ap.ItemCollection{n}))
						}
					} else if val != nil {
						fv.Set(reflect.ValueOf(val))
					}
					return pv.Interface().(ap.Item)
				}
			}
			shapes := []string{"direct", "sole", "member"}
			if kind == "items" {
				shapes = []string{"sole", "member"}
			}
			for _, sh := range shapes {
				out = append(out, context{t + "." + name + "/" + sh, mk(sh)})
			}
		}
	}
	return out
}

var c20NestedKinds = []string{"nil", "*Object", "*Link", "*Actor", "*Activity", "*OrderedCollection", "ItemCollection(nil)", "*ItemCollection(nil)"}

func c20Contexts() []context {
	return append(c20FieldContexts(), c20HandContexts()...)
}

func c20HandContexts() []context {
	return []context{
		{"Object.Attachment", func(n ap.Item) ap.Item {
			return &ap.Object{ID: "https://example.com/o", Type: ap.NoteType, Attachment: n}
		}},
		{"Object.To[1]", func(n ap.Item) ap.Item {
			return &ap.Object{ID: "https://example.com/o", Type: ap.NoteType, To: ap.ItemCollection{ap.IRI("https://example.com/a"), n, ap.IRI("https://example.com/b")}}
		}},
		{"Object.Tag[0]", func(n ap.Item) ap.Item {
			return &ap.Object{ID: "https://example.com/o", Type: ap.NoteType, Tag: ap.ItemCollection{n}}
		}},
		{"Activity.Object", func(n ap.Item) ap.Item {
			return &ap.Activity{ID: "https://example.com/act", Type: ap.CreateType, Actor: ap.IRI("https://example.com/a"), Object: n}
		}},
		{"Activity.Actor", func(n ap.Item) ap.Item {
			return &ap.Activity{ID: "https://example.com/act", Type: ap.BlockType, Actor: n, Object: ap.IRI("https://example.com/a"), CC: ap.ItemCollection{ap.IRI("https://example.com/a")}}
		}},
		{"Question.Actor", func(n ap.Item) ap.Item {
			return &ap.Question{ID: "https://example.com/q", Type: ap.QuestionType, Actor: n, To: ap.ItemCollection{ap.IRI("https://example.com/a")}}
		}},
		{"Collection.Items[1]", func(n ap.Item) ap.Item {
			return &ap.OrderedCollection{ID: "https://example.com/c", Type: ap.OrderedCollectionType, OrderedItems: ap.ItemCollection{&ap.Object{ID: "https://example.com/x"}, n}}
		}},
		{"ItemCollection[0]", func(n ap.Item) ap.Item {
			return ap.ItemCollection{n, &ap.Object{ID: "https://example.com/x", Bto: ap.ItemCollection{ap.IRI("https://example.com/p")}}}
		}},
		{"Actor.Inbox", func(n ap.Item) ap.Item {
			return &ap.Actor{ID: "https://example.com/p", Type: ap.PersonType, Inbox: n, Streams: ap.ItemCollection{n}}
		}},
	}
}

type ctxOp struct {
	name  string
	run   func(v ap.Item)
	judge func(v ap.Item) string // optional: what the operation must still deliver for the value that holds the nil
}

func c20CtxOps() []ctxOp {
	return []ctxOp{
		// the encoders ignore the nil or report an error; the value that holds it does not vanish
		{"MarshalJSON", func(v ap.Item) { _, _ = ap.MarshalJSON(v) }, func(v ap.Item) string {
			if ap.IsNil(v) || len(v.GetLink()) == 0 {
				return ""
			}
			id := []byte(v.GetLink())
			if b, err := ap.MarshalJSON(v); err == nil && !bytes.Contains(b, id) {
				return fmt.Sprintf("MarshalJSON returned %q and no error: the value holding the nil (id %s) is gone", b, id)
			}
			if m, ok := v.(json.Marshaler); ok {
				if b, err := m.MarshalJSON(); err == nil && !bytes.Contains(b, id) {
					return fmt.Sprintf("%T.MarshalJSON returned %q and no error: the value holding the nil (id %s) is gone", v, b, id)
				}
			}
			outer := &ap.Activity{ID: "https://example.com/outer", Type: ap.CreateType, Object: v}
			if b, err := ap.MarshalJSON(outer); err == nil && !bytes.Contains(b, id) {
				return fmt.Sprintf("as the object of an activity, MarshalJSON returned %q and no error: the value holding the nil (id %s) is gone", b, id)
			}
			return ""
		}},
		{"GobEncode", func(v ap.Item) { _, _ = ap.GobEncode(v) }, func(v ap.Item) string {
			b, err := ap.GobEncode(v)
			if err == nil && !ap.IsNil(v) && len(v.GetLink()) > 0 && !bytes.Contains(b, []byte(v.GetLink())) {
				return fmt.Sprintf("GobEncode returned %d bytes and no error: the value holding the nil (id %s) is gone", len(b), v.GetLink())
			}
			return ""
		}},
		{"ItemsEqual(v,v)", func(v ap.Item) { ap.ItemsEqual(v, v) }, nil},
		{"FlattenProperties", func(v ap.Item) { ap.FlattenProperties(v) }, nil},
		{"Flatten", func(v ap.Item) { ap.Flatten(v) }, nil},
		{"Recipients", func(v ap.Item) {
			if r, ok := v.(ap.HasRecipients); ok {
				r.Recipients()
			}
		}, nil},
		{"Clean", func(v ap.Item) { ap.CleanRecipients(v) }, nil},
		{"DerefItem", func(v ap.Item) { ap.DerefItem(v) }, nil},
		{"NotEmpty", func(v ap.Item) { ap.NotEmpty(v) }, nil},
		{"OnObject", func(v ap.Item) { _ = ap.OnObject(v, func(o *ap.Object) error { return nil }) }, nil},
		{"OnItem", func(v ap.Item) { _ = ap.OnItem(v, func(i ap.Item) error { return nil }) }, nil},
		{"fmt", func(v ap.Item) { _ = fmt.Sprintf("%v", v) }, nil},
		{"ToIRIs", func(v ap.Item) { _, _ = ap.ToIRIs(v) }, nil},
		{"OnIRIs", func(v ap.Item) { _ = ap.OnIRIs(v, func(i *ap.IRIs) error { return nil }) }, nil},
		{"CopyItemProperties(v,v')", func(v ap.Item) {
			if o, ok := v.(*ap.Object); ok {
				cp := *o
				_, _ = ap.CopyItemProperties(&cp, v)
			}
		}, nil},
	}
}

// neutral: what the statement prescribes for a helper on a nil-kind ("" = only "no panic").
func c20Neutral(h string) string {
	switch h {
	case "IsNil":
		return "true"
	case "ItemOrderTimestamp(x,x)", "ItemOrderTimestamp(nil,x)", "ItemOrderTimestamp(x,nil)", "ItemOrderTimestamp(typed nil,x)", "ItemOrderTimestamp(x,typed nil)":
		return "false" // nothing is ranked before nothing
	case "NotEmpty", "ItemsEqual(x,obj)", "ItemsEqual(obj,x)", "ItemsEqual(x,iri)", "ItemsEqual(iri,x)", "ItemCollection.Contains", "Collection.Contains", "IRIs.Contains":
		return "false"
	case "ItemsEqual(x,x)", "ItemsEqual(x,nil)", "ItemsEqual(nil,x)", "Flatten", "FlattenProperties", "CleanRecipients":
		return "true"
	case "CopyItemProperties(x,obj)", "CopyItemProperties(obj,x)":
		return "err"
	case "ItemsEqual(obj,[x])":
		return "false false false"
	case "Equals(obj{tag:[x]},obj{tag:o})":
		return "false false"
	case "[a,x,b].IRIs()":
		return "[https://example.com/a https://example.com/b]"
	case "ToIRIs([x])":
		return "[]"
	case "OnIRIs([x,a])":
		return "[https://example.com/a]"
	case "Likes.IRI(obj{likes:x})":
		return "https://example.com/o/likes https://example.com/o/shares https://example.com/o/replies"
	case "Inbox.IRI(actor{inbox:x})":
		return "https://example.com/a/inbox https://example.com/a/outbox https://example.com/a/followers https://example.com/a/following https://example.com/a/liked"
	case "DerefItem":
		return "0"
	case "ItemsEqual([a,x],[a,b])":
		return "false false false false false false"
	case "[x,obj,nil].Remove(x)":
		return "true true true true "
	case "kinds{act,x,iri}.Contains(iri)":
		return strings.Repeat("true true falsetrue ", 5)
	}
	return ""
}

type c20Cell struct {
	Helper  string `json:"helper"`
	NilKind string `json:"nil"`
	Context string `json:"context,omitempty"`
}

func c20RunCell(cell c20Cell) (outcome string, viol string) {
	n := mkNil(cell.NilKind)
	if cell.Context == "" {
		var h *helper
		for _, x := range c20Helpers() {
			if x.name == cell.Helper {
				x := x
				h = &x
			}
		}
		if h == nil {
			return "?", "unknown helper"
		}
		p := &cbProbe{}
		var res string
		if pan, msg := guard(func() { res = h.run(n, p) }); pan {
			return "panic", "panic: " + msg
		}
		if p.nonNil > 0 && strings.HasPrefix(cell.NilKind, "*") && cell.NilKind != "*ItemCollection(nil)" {
			// a pointer to a fresh empty list for a nil list is harmless; a non-nil struct pointer for a nil struct pointer is not
			return res, fmt.Sprintf("the callback received a non-nil pointer for a %s item", cell.NilKind)
		}
		if want := c20Neutral(cell.Helper); want != "" && res != want {
			return res, fmt.Sprintf("%s on %s returned %q, the neutral result is %q", cell.Helper, cell.NilKind, res, want)
		}
		return res, ""
	}
	for _, cx := range c20Contexts() {
		if cx.name != cell.Context {
			continue
		}
		for _, op := range c20CtxOps() {
			if op.name != cell.Helper {
				continue
			}
			v := cx.build(n)
			if pan, msg := guard(func() { op.run(v) }); pan {
				return "panic", "panic: " + msg
			}
			if op.judge != nil {
				var verdict string
				if pan, msg := guard(func() { verdict = op.judge(cx.build(n)) }); pan {
					return "panic", "panic: " + msg
				} else if verdict != "" {
					return "lost", verdict
				}
			}
			return "ok", ""
		}
	}
	return "?", "unknown context cell"
}

func init() {
	campaigns["C20"] = func(c *Ctx) {
		hs := c20Helpers()
		ks := nilKinds()
		c.Rule = fmt.Sprintf("exhaustive matrix: %d exported helpers x %d nil kinds (untyped nil, nil pointers to the 14 struct types, nil ItemCollection / *ItemCollection / IRIs) at top level, and %d contexts (the nil kind planted into every Item / ItemCollection field of every struct - directly, as the sole member of a list, inside a longer list - plus hand-written ones) x %d operations x up to %d nil kinds. A cell is non-trivial when the nil is typed. Outcome classes: panic / neutral result / callback argument.", len(hs), len(ks), len(c20Contexts()), len(c20CtxOps()), len(ks))
		panics := map[string][]string{}
		for _, h := range hs {
			for _, k := range ks {
				cell := c20Cell{Helper: h.name, NilKind: k}
				out, viol := c20RunCell(cell)
				in := map[string]interface{}{"op": "nilcell", "helper": h.name, "nil": k}
				c.Emit(in, map[string]interface{}{"panic": out == "panic"}, k != "nil")
				c.Tag("top/" + map[bool]string{true: "panic", false: "ok"}[out == "panic"])
				if viol != "" {
					cls := "C20/neutral"
					if out == "panic" {
						cls = "C20/panic"
						panics[h.name] = append(panics[h.name], k)
					}
					c.Fail(cls, viol, cell)
				}
			}
		}
		for _, cx := range c20Contexts() {
			for _, op := range c20CtxOps() {
				kinds := ks
				if strings.Contains(cx.name, "/") {
					kinds = c20NestedKinds // the systematic per-field contexts use a representative subset of nil kinds
				}
				for _, k := range kinds {
					cell := c20Cell{Helper: op.name, NilKind: k, Context: cx.name}
					out, viol := c20RunCell(cell)
					in := map[string]interface{}{"op": "nilcell", "helper": op.name, "nil": k, "context": cx.name}
					c.Emit(in, map[string]interface{}{"panic": out == "panic"}, k != "nil")
					c.Tag("ctx/" + map[bool]string{true: "panic", false: "ok"}[out == "panic"])
					if viol != "" {
						c.Fail("C20/panic", viol, cell)
						panics[cx.name+"/"+op.name] = append(panics[cx.name+"/"+op.name], k)
					}
				}
			}
		}
		// IsNil against the model's isNilLike on generated values and every nil kind
		cfg := &GenCfg{MaxDepth: 1, Density: 10, Links: true, ValueNodes: true, EmptyTypes: true}
		isNilCase := func(tr interface{}) {
			var got bool
			in := map[string]interface{}{"op": "isNil", "v": tr}
			if pan, msg := guard(func() { got = ap.IsNil(buildItem(tr)) }); pan {
				c.Emit(in, "panic", true)
				c.Fail("C20/panic", "IsNil: "+msg, c20Cell{Helper: "IsNil", NilKind: mustJSONs(tr)})
				return
			}
			c.Emit(in, got, tr != nil)
			c.Tag("isNil")
		}
		for _, k := range ks {
			isNilCase(dumpItem(mkNil(k)))
		}
		for _, s := range []string{"", "-", "https://example.com/a", "x"} {
			isNilCase(T{"iri": s})
		}
		isNilCase(T{"items": []interface{}{}, "ptr": false})
		isNilCase(T{"items": []interface{}{}, "ptr": true})
		isNilCase(T{"iris": []interface{}{}})
		for i := 0; i < c.N(400, 5000); i++ {
			isNilCase(cfg.genItem(c.R, 1))
		}
		var keys []string
		for k := range panics {
			keys = append(keys, k)
		}
		sort.Strings(keys)
		for _, k := range keys {
			c.Notes = append(c.Notes, fmt.Sprintf("panic: %s on %d nil kinds (%s…)", k, len(panics[k]), panics[k][0]))
		}
		c.Exhaust = true
		c.maxFail = 2000
	}
	replayers["C20"] = func(class string, input []byte) string {
		var cell c20Cell
		if err := json.Unmarshal(input, &cell); err != nil {
			return "bad replay input"
		}
		_, viol := c20RunCell(cell)
		return viol
	}
}
