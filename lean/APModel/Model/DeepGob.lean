/-
The deep gob codec model (C03): the library's gob writer and reader as functions between value trees
and wire trees.

  writer : gobEncodeItem / gobEncodeItems / gobEncodeItemOrLink, <T>.GobEncode with map<T>Properties
           (driven by the regenerated tables), the scalar encoders, Source/PublicKey/Endpoints
  reader : gobDecodeItem (shape sniffing: item list, IRI list, property map, else an IRI), gobDecodeItems,
           unmap<T>Properties, the scalar decoders

A wire tree stands for the bytes: which Go type a gob stream carries ([][]byte, []IRI,
map[string][]byte, a scalar) is the constructor; bytes that are no gob stream (an IRI or a string written
as itself) are `raw`.  encoding/gob's own encoding of these types is not modelled.
-/
import APModel.Model.Deep

namespace APModel.DeepGob
open APModel APModel.Codec

abbrev Str := APModel.IRI.Str

mutual
inductive G
  | empty                       -- no bytes at all
  | raw (s : Str)               -- bytes written as themselves (IRI, type, id, units …)
  | leaf (v : FVal)             -- a gob stream of a number, boolean, instant, or of language values
  | list (l : GList)            -- a gob stream of [][]byte: the members, each encoded on its own
  | strs (l : List Str)         -- a gob stream of an IRI list
  | map (ms : GMembers)         -- a gob stream of map[string][]byte: the property map
inductive GList
  | nil
  | cons (g : G) (r : GList)
inductive GMembers
  | nil
  | cons (key : Str) (g : G) (r : GMembers)
end

def GList.ofList : List G → GList
  | [] => .nil
  | g :: r => .cons g (GList.ofList r)
def GMembers.get? : GMembers → Str → Option G
  | .nil, _ => none
  | .cons n g r, k => if n = k then some g else GMembers.get? r k

structure Env where
  wrow : String → String → Option WRow
  rrow : String → Str → Option RRow
  fieldKind : String → String → String
  /-- the struct ItemTyperFunc + the decoder's switch select for a type name (unknown names: a plain object) -/
  kindOfType : Str → Option Kind

def nm (s : String) : Str := s.toUTF8.toList

/-- the string under the "type" key of a property map -/
def typOf (ms : GMembers) : Str :=
  match GMembers.get? ms (nm "type") with
  | some (.raw t) => t
  | _ => []

def isStrKindG (kind : String) : Bool :=
  kind == "string:ID" || kind == "string:IRI" || kind == "string:ActivityVocabularyType" || kind == "string:MimeType" ||
  kind == "string:LangRef" || kind == "string:string"

def isItemEnc (h : String) : Bool := h == "gobEncodeItem" || h == "gobEncodeItemOrLink"
def isStrEnc (h : String) : Bool := h == ".GobEncode" || h == "bytes" || h == "gobEncodeItem"

mutual
/-- gobEncodeItem -/
def writeItem (E : Env) : Item → G
  | .nil => .empty
  | .typedNil _ => .empty
  | .collNil _ => .empty
  | .irisNil => .empty
  | .iri s => if s.isEmpty then .empty else .raw s
  | .iris l => .strs l
  | .coll _ l => .list (GList.ofList (writeItems E l))
  | .node k _ fs =>
    match writeFields E k.goName fs with
    | .nil => .empty                          -- !hasData
    | ms => .map ms
def writeItems (E : Env) : Items → List G
  | .nil => []
  | .cons i r => writeItem E i :: writeItems E r
/-- map<T>Properties: a row files its value under its key when the guard lets it through -/
def writeFields (E : Env) (sn : String) : Fields → GMembers
  | .nil => .nil
  | .cons n v r =>
    match E.wrow sn n with
    | none => writeFields E sn r
    | some w =>
      if guardPasses w.guard v then
        match writeVal E (E.fieldKind sn n) w.helper v with
        | none => writeFields E sn r
        | some g => .cons (nm w.term) g (writeFields E sn r)
      else writeFields E sn r
def writeVal (E : Env) (kind helper : String) : FVal → Option G
  | .item i => if isItemEnc helper then some (writeItem E i) else none
  | .items l =>
    if helper == "gobEncodeItem" || helper == "gobEncodeItems" then some (.list (GList.ofList (writeItems E l))) else none
  | .nlv n => if helper == ".GobEncode" then some (if n.isEmpty then .empty else .leaf (.nlv n)) else none
  | .time s ns o => if helper == ".GobEncode" then some (.leaf (.time s ns o)) else none
  | .dur d => if helper == "gobEncodeInt64" then some (.leaf (.dur d)) else none
  | .dec6 z => if helper == "gobEncodeFloat64" then some (.leaf (.dec6 z)) else none
  | .int z => if helper == "gobEncodeInt64" then some (.leaf (.int z)) else none
  | .uint n => if helper == "gobEncodeUint" then some (.leaf (.uint n)) else none
  | .bool b => if helper == "gobEncodeBool" then some (.leaf (.bool b)) else none
  | .str s => if isStrEnc helper then some (if s.isEmpty then .empty else .raw s) else none
  | .record fs =>
    if helper == ".GobEncode" then
      some (match writeFields E (Deep.recName kind) fs with
            | .nil => .empty
            | ms => .map ms)
    else none
end

mutual
/-- gobDecodeItem: try an item list, an IRI list, a property map; anything else is an IRI -/
def readItem (E : Env) : G → Item
  | .empty => .iris []                       -- IRIs.GobDecode accepts empty input: an empty IRI list
  | .raw s => .iri s
  | .leaf _ => .nil
  | .list l => .coll false (Items.ofList (readList E l))
  | .strs l => .iris l
  | .map ms =>
    match E.kindOfType (typOf ms) with
    | none => .nil
    | some k => .node k true (readFields E k.goName ms)
def readList (E : Env) : GList → List Item
  | .nil => []
  | .cons g r => readItem E g :: readList E r
/-- unmap<T>Properties -/
def readFields (E : Env) (sn : String) : GMembers → Fields
  | .nil => .nil
  | .cons key g r =>
    match E.rrow sn key with
    | some row =>
      (match readVal E (E.fieldKind sn row.field) row.helper g with
       | some v => .cons row.field v (readFields E sn r)
       | none => readFields E sn r)
    | none => readFields E sn r
def readVal (E : Env) (kind helper : String) : G → Option FVal
  | .empty =>
    if helper == "gobDecodeItem" then some (.item (.iris []))
    else if helper == "gobDecodeItems" then none           -- EOF: the decoder gives up (outside the writer's range)
    else if helper == ".GobDecode" && kind == "nlv" || helper == "gobDecodeNaturalLanguageValues" then some (.nlv [])
    else none
  | .raw s =>
    if helper == "gobDecodeItem" then some (.item (.iri s))
    else if (helper == ".GobDecode" || helper == "string") && isStrKindG kind then some (.str s)
    else none
  | .leaf v =>
    (match v with
     | .nlv n => if helper == "gobDecodeNaturalLanguageValues" || helper == ".GobDecode" then some (.nlv n) else none
     | .time s ns o => if helper == ".GobDecode" then some (.time s ns o) else none
     | .dur d => if helper == "gobDecodeDuration" then some (.dur d) else none
     | .dec6 z => if helper == "gobDecodeFloat64" then some (.dec6 z) else none
     | .int z => if helper == "gobDecodeInt64" then some (.int z) else none
     | .uint n => if helper == "gobDecodeUint" then some (.uint n) else none
     | .bool b => if helper == "gobDecodeBool" then some (.bool b) else none
     | _ => none)
  | .list l =>
    if helper == "gobDecodeItem" then some (.item (.coll false (Items.ofList (readList E l))))
    else if helper == "gobDecodeItems" then some (.items (Items.ofList (readList E l)))
    else none
  | .strs l => if helper == "gobDecodeItem" then some (.item (.iris l)) else none
  | .map ms =>
    if helper == "gobDecodeItem" then some (.item (readItem E (.map ms)))
    else if helper == ".GobDecode" && (kind == "source" || kind == "pubkey" || kind == "endpoints") then
      some (.record (readFields E (Deep.recName kind) ms))
    else none
end

/-- GobDecode(GobEncode(x)) in the model -/
def roundTrip (E : Env) (x : Item) : Item := readItem E (writeItem E x)

end APModel.DeepGob
