package main

import (
	"encoding/json"
	"fmt"
	"reflect"
	"strings"
	"time"

	ap "github.com/go-ap/activitypub"
)

// C18 — CopyItemProperties merges without losing data and rejects mismatches.

var c18Merged = map[string][]string{
	"Object": {"Name", "Summary", "Content", "MediaType", "Attachment", "AttributedTo", "Audience", "Context", "Generator", "Icon", "Image",
		"InReplyTo", "Location", "Preview", "Replies", "Tag", "URL", "To", "Bto", "CC", "BCC", "StartTime", "EndTime"},
	"Actor":                 {"Inbox", "Outbox", "Following", "Followers", "Liked", "PreferredUsername"},
	"Collection":            {"First", "Last", "Items"},
	"OrderedCollection":     {"First", "Last", "OrderedItems"},
	"CollectionPage":        {"First", "Last", "Items", "PartOf", "Next", "Prev"},
	"OrderedCollectionPage": {"First", "Last", "OrderedItems", "PartOf", "Next", "Prev"},
}

func c18Fields(tr interface{}) T {
	if m, ok := tr.(T); ok {
		if f, ok := m["f"].(T); ok {
			return f
		}
	}
	return T{}
}

// judgeCopy: the statement of C18 on (to, from) before and the outcome.
func judgeCopy(toB, fromB, toA, fromA interface{}, failed bool, supported bool) string {
	if !treeEqual(fromB, fromA) {
		return "`from` was modified: " + mustJSONs(fromB) + " -> " + mustJSONs(fromA)
	}
	if failed {
		if !treeEqual(toB, toA) {
			return "the copy was refused but `to` changed: " + mustJSONs(toB) + " -> " + mustJSONs(toA)
		}
		return ""
	}
	if !supported {
		return "the copy succeeded although it should have been refused"
	}
	tb, fb, ta := c18Fields(toB), c18Fields(fromB), c18Fields(toA)
	for _, n := range []string{"ID", "Type"} {
		if !treeEqual(ta[n], fb[n]) {
			return fmt.Sprintf("after the merge %s is %s, `from` has %s", n, mustJSONs(ta[n]), mustJSONs(fb[n]))
		}
	}
	names := map[string]bool{}
	for n := range tb {
		names[n] = true
	}
	for n := range fb {
		names[n] = true
	}
	for n := range ta {
		names[n] = true
	}
	for n := range names {
		if !treeEqual(ta[n], tb[n]) && !treeEqual(ta[n], fb[n]) {
			return fmt.Sprintf("property %s holds %s, neither the old value %s nor from's %s", n, mustJSONs(ta[n]), mustJSONs(tb[n]), mustJSONs(fb[n]))
		}
		if n != "ID" && n != "Type" {
			if _, setTo := tb[n]; setTo {
				if _, setFrom := fb[n]; !setFrom && !treeEqual(ta[n], tb[n]) {
					return fmt.Sprintf("property %s was set in `to` (%s), is unset in `from`, and was lost (now %s)", n, mustJSONs(tb[n]), mustJSONs(ta[n]))
				}
			}
		}
	}
	goType := toB.(T)["t"].(string)
	merged := append([]string{}, c18Merged["Object"]...)
	merged = append(merged, c18Merged[goType]...)
	for _, n := range merged {
		if fv, ok := fb[n]; ok && !treeEqual(ta[n], fv) {
			return fmt.Sprintf("merged property %s is set in `from` (%s) but `to` holds %s", n, mustJSONs(fv), mustJSONs(ta[n]))
		}
	}
	return ""
}

// shouldSucceed: the refusal conditions of the statement, judged independently.
func c18Supported(toB, fromB interface{}) (supported bool, determined bool) {
	if nilLikeTree(toB) || nilLikeTree(fromB) {
		return false, true
	}
	tm, ok1 := toB.(T)
	fm, ok2 := fromB.(T)
	if !ok1 || !ok2 {
		return false, false
	}
	if _, ok := tm["t"]; !ok {
		return false, true // IRIs and lists are not supported types
	}
	if _, ok := fm["t"]; !ok {
		return false, false
	}
	if !iriEq(treeID(toB), treeID(fromB)) {
		return false, true
	}
	typ := func(m T) string {
		if t, ok := c18Fields(m)["Type"].(T); ok {
			return t["s"].(string)
		}
		return ""
	}
	tt, ft := typ(tm), typ(fm)
	if tt != "" && tt != ft {
		return false, true
	}
	in := func(l []string, s string) bool {
		for _, x := range l {
			if strings.EqualFold(x, s) {
				return true
			}
		}
		return false
	}
	goT, goF := tm["t"].(string), fm["t"].(string)
	switch {
	case tt == "Collection" || tt == "CollectionPage" || tt == "OrderedCollection" || tt == "OrderedCollectionPage":
		return goT == tt && goF == tt, goT == tt && goF == tt
	case in(vocab["Actor"][1:], tt):
		return goT == "Actor" && goF == "Actor", goT == "Actor" && goF == "Actor"
	case tt == "" || in([]string{"Article", "Audio", "Document", "Event", "Image", "Note", "Page", "Place", "Profile", "Relationship", "Tombstone", "Video"}, tt):
		objLike := func(g string) bool {
			return g == "Object" || g == "Place" || g == "Profile" || g == "Relationship" || g == "Tombstone"
		}
		return objLike(goT) && objLike(goF), objLike(goT) && objLike(goF)
	}
	return false, true
}

// c18Share makes lists share storage the way ordinary code does: {"to": [A, B]} lets property B of `to`
// hold the very slice of property A (ob.To = rcpts; ob.Audience = rcpts); {"from": [X, k]} lets property X
// of `from` be the tail to.X[k:] (an update derived from the stored object by a struct copy).  The value
// trees already describe these contents; only the backing storage differs from separately built lists.
func c18Share(to, from ap.Item, alias interface{}) {
	a, _ := alias.(T)
	if a == nil {
		if m, ok := alias.(map[string]interface{}); ok {
			a = T(m)
		} else {
			return
		}
	}
	field := func(it ap.Item, name string) reflect.Value {
		v := reflect.ValueOf(it)
		if !v.IsValid() || v.Kind() != reflect.Ptr || v.IsNil() {
			return reflect.Value{}
		}
		f := v.Elem().FieldByName(name)
		if !f.IsValid() || f.Type() != reflect.TypeOf(ap.ItemCollection(nil)) || !f.CanSet() {
			return reflect.Value{}
		}
		return f
	}
	// {"zonedZero": true}: the instants that are unset in `from` are the zero instant seen in a zone (what
	// time.Time{}.In(zone) or .Local() gives, or a parse of 0001-01-01T01:00:00+01:00): still unset (IsZero)
	if a["zonedZero"] == true {
		if v := reflect.ValueOf(from); v.IsValid() && v.Kind() == reflect.Ptr && !v.IsNil() && v.Elem().Kind() == reflect.Struct {
			zz := time.Time{}.In(time.FixedZone("", 3600))
			for i := 0; i < v.Elem().NumField(); i++ {
				if f := v.Elem().Field(i); f.Type() == reflect.TypeOf(time.Time{}) && f.CanSet() && f.Interface().(time.Time).IsZero() {
					f.Set(reflect.ValueOf(zz))
				}
			}
		}
	}
	if l := asList(a["to"]); len(l) == 2 {
		fa, fb := field(to, l[0].(string)), field(to, l[1].(string))
		if fa.IsValid() && fb.IsValid() {
			fb.Set(fa)
		}
	}
	if l := asList(a["from"]); len(l) == 2 {
		ft, ff := field(to, l[0].(string)), field(from, l[0].(string))
		k := int(num(l[1]))
		if ft.IsValid() && ff.IsValid() && k <= ft.Len() {
			ff.Set(ft.Slice(k, ft.Len()))
		}
	}
}

func runCopy(toB, fromB interface{}, alias ...interface{}) (res interface{}, viol string) {
	to, from := buildItem(toB), buildItem(fromB)
	if len(alias) > 0 && alias[0] != nil {
		c18Share(to, from, alias[0])
	}
	var err error
	if p, msg := guard(func() { _, err = ap.CopyItemProperties(to, from) }); p {
		return "panic", "panic: " + msg
	}
	toA, fromA := dumpItem(to), dumpItem(from)
	supported, determined := c18Supported(toB, fromB)
	if determined || err != nil {
		viol = judgeCopy(toB, fromB, toA, fromA, err != nil, supported || !determined)
		if viol == "" && determined && supported && err != nil {
			viol = "a supported pair with matching id and type was refused: " + err.Error()
		}
	} else if !treeEqual(fromB, fromA) {
		viol = "`from` was modified"
	}
	if err != nil {
		return T{"err": true}, viol
	}
	return T{"to": toA}, viol
}

func c18Case(c *Ctx, toB, fromB interface{}, tag string, alias ...interface{}) {
	var al interface{}
	if len(alias) > 0 {
		al = alias[0]
	}
	res, viol := runCopy(toB, fromB, al)
	in := map[string]interface{}{"op": "copy", "to": toB, "from": fromB}
	if al != nil {
		in["alias"] = al
	}
	c.Emit(in, res, true)
	c.Tag(tag)
	if viol != "" {
		cls := "C18/copy"
		if strings.HasPrefix(viol, "panic") {
			cls = "C18/panic"
		}
		c.Fail(cls, viol, in)
	}
}

var c18Types = []string{"Object", "Actor", "Collection", "OrderedCollection", "CollectionPage", "OrderedCollectionPage", "Place", "Tombstone"}

func init() {
	campaigns["C18"] = func(c *Ctx) {
		c.Rule = "pairs (to, from) of the six supported Go types (+ Place/Tombstone as object types) generated type-directed with independent random subsets of properties on each side (each property set with probability 0.3 on either side, from a fresh value pool, so that a property is unset / set-on-one-side / set-to-different-values), same id and type, in a third of the pairs one recipient named in two addressing lists of `from`; then mismatching ids, differing/empty/unsupported types (activities, generic names), nil and typed-nil sides, IRIs. Oracle: from unchanged; refusal leaves to untouched; old-or-new per property; nothing lost; merged properties taken from `from`; id/type from `from`. Pairs the model declares outside its domain (conversions through typed views of another Go type) are judged by the oracle only."
		for i := 0; i < c.N(6000, 150000); i++ {
			goType := c18Types[c.R.Intn(len(c18Types))]
			g1 := &GenCfg{MaxDepth: 1, Density: 30, Links: true, MultiLang: true, Negatives: true, Zones: true, counter: 1000 * (2*i + 1)}
			g2 := &GenCfg{MaxDepth: 1, Density: 30, Links: true, MultiLang: true, Negatives: true, Zones: true, counter: 1000 * (2*i + 2)}
			to := g1.genNode(c.R, goType, 1, false)
			from := g2.genNode(c.R, goType, 1, false)
			to["ptr"], from["ptr"] = true, c.R.Chance(85)
			id := fmt.Sprintf("https://example.com/%s/%d", goType, i)
			typ := c.R.Pick(vocab[goType])
			tf, ff := to["f"].(T), from["f"].(T)
			tf["ID"], ff["ID"] = T{"s": id}, T{"s": id}
			tf["Type"], ff["Type"] = T{"s": typ}, T{"s": typ}
			tag := "same-id-type/" + goType
			// the same recipient named in two addressing lists of `from` (a public post: to Public, cc Public + followers)
			if c.R.Chance(35) {
				shared := T{"iri": g2.nextID("shared-recipient")}
				lists := []string{"To", "CC", "Bto", "BCC", "Audience"}
				a, b := lists[c.R.Intn(len(lists))], lists[c.R.Intn(len(lists))]
				for _, name := range []string{a, b} {
					if fieldKind(goType, name) != "items" {
						continue
					}
					lv, _ := ff[name].(T)
					if lv == nil {
						lv = T{"list": []interface{}{}}
					}
					l := asList(lv["list"])
					if c.R.Bool() {
						l = append(l, cloneTree(shared))
					} else {
						l = append([]interface{}{cloneTree(shared)}, l...)
					}
					lv["list"] = l
					ff[name] = lv
				}
			}
			// the update sets a single-item property to a value that has neither id nor type and carries only data of
			// its own kind (coordinates, an href, members): valid hand-built values no decoder would produce
			if c.R.Chance(20) {
				anon := []T{
					{"t": "Place", "ptr": true, "f": T{"Latitude": T{"dec6": 45500000}, "Longitude": T{"dec6": -73600000}}},
					{"t": "Link", "ptr": true, "f": T{"Href": T{"s": g2.nextID("href")}, "MediaType": T{"s": "image/png"}}},
					{"t": "OrderedCollection", "ptr": true, "f": T{"TotalItems": T{"uint": 2}, "OrderedItems": T{"list": []interface{}{T{"iri": g2.nextID("m")}, T{"iri": g2.nextID("m")}}}}},
					{"t": "OrderedCollectionPage", "ptr": true, "f": T{"OrderedItems": T{"list": []interface{}{T{"iri": g2.nextID("m")}}}}},
				}
				var cand []string
				for _, fams := range []string{"Object", goType} {
					for _, name := range c18Merged[fams] {
						if fieldKind(goType, name) == "item" {
							cand = append(cand, name)
						}
					}
				}
				if len(cand) > 0 {
					name := cand[c.R.Intn(len(cand))]
					ff[name] = cloneTree(anon[c.R.Intn(len(anon))])
					tag = "anonymous-typed-value-in-from/" + goType
				}
			}
			// a collection that reports a total smaller than the list the update brings (the update itself reports none)
			if strings.Contains(goType, "Collection") && c.R.Chance(25) {
				itemsField := "Items"
				if strings.HasPrefix(goType, "Ordered") {
					itemsField = "OrderedItems"
				}
				tf["TotalItems"] = T{"uint": 1 + c.R.Intn(3)}
				delete(ff, "TotalItems")
				l := []interface{}{}
				for k := 4 + c.R.Intn(3); k > 0; k-- {
					l = append(l, T{"iri": g2.nextID("member")})
				}
				ff[itemsField] = T{"list": l}
				tag = "total-and-longer-list/" + goType
			}
			// lists that share storage (the trees say what each holds; the sharing is applied to the built values)
			var alias interface{}
			if c.R.Chance(20) {
				lists := []string{"To", "CC", "Bto", "BCC", "Audience"}
				a, b := lists[c.R.Intn(len(lists))], lists[c.R.Intn(len(lists))]
				mk := func(n int) T {
					l := []interface{}{}
					for k := 0; k < n; k++ {
						l = append(l, T{"iri": g1.nextID("rcpt")})
					}
					return T{"list": l}
				}
				if c.R.Bool() && a != b {
					// two properties of `to` hold one list; the update sets at most one of them
					if lv, _ := tf[a].(T); lv == nil || len(asList(lv["list"])) == 0 {
						tf[a] = mk(2 + c.R.Intn(3))
					}
					tf[b] = cloneTree(tf[a])
					if c.R.Bool() {
						delete(ff, a)
					} else {
						delete(ff, b)
					}
					if c.R.Chance(30) {
						delete(ff, a)
						delete(ff, b)
					}
					alias = T{"to": []interface{}{a, b}}
					tag = "shared-list-in-to/" + goType
				} else if from["ptr"] == true {
					// `from` derived from `to`: its list is a tail of to's
					lv, _ := tf[a].(T)
					if lv == nil || len(asList(lv["list"])) < 2 {
						lv = mk(2 + c.R.Intn(3))
						tf[a] = lv
					}
					l := asList(lv["list"])
					k := 1 + c.R.Intn(len(l)-1)
					ff[a] = T{"list": asList(cloneTree(T{"list": l[k:]}).(T)["list"])}
					alias = T{"from": []interface{}{a, k}}
					tag = "from-list-is-tail-of-to/" + goType
				}
			}
			if alias != nil {
				c18Case(c, to, from, tag, alias)
				continue
			}
			switch p := c.R.Intn(100); {
			case p < 6:
				ff["ID"] = T{"s": id + "/other"}
				tag = "different-id"
			case p < 10:
				ff["ID"] = T{"s": "http://EXAMPLE.com" + id[len("https://example.com"):] + "/"}
				tag = "equivalent-id-variant"
			case p < 16:
				ff["Type"] = T{"s": c.R.Pick(vocab["Object"])}
				tag = "other-type-in-from"
			case p < 20:
				delete(tf, "Type")
				tag = "empty-type-in-to"
			case p < 24:
				t2 := c.R.Pick(vocab["Activity"])
				tf["Type"], ff["Type"] = T{"s": t2}, T{"s": t2}
				tag = "unsupported-type"
			case p < 27:
				c18Case(c, to, nil, "nil-from")
				continue
			case p < 30:
				c18Case(c, T{"t": goType, "ptr": true, "nil": true}, from, "typed-nil-to")
				continue
			case p < 32:
				c18Case(c, T{"iri": id}, T{"iri": id}, "iri-pair")
				continue
			}
			if from["ptr"] == true && c.R.Chance(25) {
				c18Case(c, to, from, tag+"+unset-instants-seen-in-a-zone", T{"zonedZero": true})
				continue
			}
			if tag == "same-id-type/"+goType && c.R.Chance(20) {
				// the stored value embeds an object where the update carries the IRI of that very object (and the reverse)
				var cand []string
				for _, fams := range []string{"Object", goType} {
					for _, name := range c18Merged[fams] {
						if fieldKind(goType, name) == "item" {
							cand = append(cand, name)
						}
					}
				}
				if len(cand) > 0 {
					name := cand[c.R.Intn(len(cand))]
					ref := g1.nextID("embedded-or-named")
					emb := T{"t": "Object", "ptr": true, "f": T{"ID": T{"s": ref}, "Type": T{"s": "Image"}, "Name": T{"nlv": []interface{}{[]interface{}{"-", "a name"}}}}}
					if name == "Inbox" || name == "Outbox" || name == "Followers" || name == "Following" || name == "Liked" || name == "First" || name == "Last" || name == "PartOf" || name == "Next" || name == "Prev" {
						emb = T{"t": "OrderedCollection", "ptr": true, "f": T{"ID": T{"s": ref}, "Type": T{"s": "OrderedCollection"}, "TotalItems": T{"uint": 3}}}
					}
					if c.R.Bool() {
						tf[name], ff[name] = emb, T{"iri": ref}
					} else {
						tf[name], ff[name] = T{"iri": ref}, emb
					}
					tag = "embedded-in-one-named-in-the-other/" + goType
				}
			}
			if tag == "same-id-type/"+goType && c.R.Chance(15) {
				// both sides have a source; the media types agree up to a parameter or letter case
				mts := [][2]string{{"text/markdown; variant=GFM", "text/markdown; variant=CommonMark"}, {"text/html", "TEXT/HTML"}, {"text/plain; charset=utf-8", "text/plain"}, {"text/markdown", "text/markdown"}}
				mt := mts[c.R.Intn(len(mts))]
				tf["Source"] = T{"rec": T{"Content": T{"nlv": []interface{}{[]interface{}{"-", "the stored source"}}}, "MediaType": T{"s": mt[0]}}}
				ff["Source"] = T{"rec": T{"Content": T{"nlv": []interface{}{[]interface{}{"-", "the update's source"}}}, "MediaType": T{"s": mt[1]}}}
				tag = "sources-with-near-equal-media-types/" + goType
			}
			c18Case(c, to, from, tag)
		}
	}
	replayers["C18"] = func(class string, input []byte) string {
		var in map[string]interface{}
		if err := json.Unmarshal(input, &in); err != nil {
			return "bad replay input"
		}
		_, viol := runCopy(parseTree(in["to"]), parseTree(in["from"]), in["alias"])
		return viol
	}
}
