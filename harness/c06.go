package main

import (
	"bytes"
	"encoding/json"
	"fmt"
	"unicode/utf8"

	ap "github.com/go-ap/activitypub"
)

// C06 — natural-language text survives both codecs byte for byte.

func bytesToInts(b []byte) []int {
	out := make([]int, len(b))
	for i, x := range b {
		out[i] = int(x)
	}
	return out
}

func intsToBytes(v interface{}) []byte {
	l := asList(v)
	out := make([]byte, len(l))
	for i, x := range l {
		out[i] = byte(num(x))
	}
	return out
}

var c06Fixed = []string{
	"a", "\\", "\"", "\n", "C:\\new", "C:\\\\new", "\\n", "\\\"", "\\u0041", "\\u00e9", "\\\\u0041", "42", "true", "null", "[1,2]", "{\"a\":1}",
	"\"quoted\"", "<p>Hello <b>world</b> &amp; co</p>", "<a href=\"https://example.com/?a=1&b=2\">x</a>", "line1\nline2\r\n\ttabbed",
	"\x00", "\x01\x02\x1f", "\x7f", "\b\f\v\a", "é", "ünïcode ✓", "日本語", "😀", "a😀b𝄞c", "\u2028", "x\u2028y\u2029z", "first line\u2028second line",
	// the neighbours of the two separators the writer escapes: general punctuation and the bidirectional controls
	"\u2026", "a\u2027b", "\u202a\u202b\u202c\u202d\u202e", "\u2066x\u2067y\u2068z\u2069", "\u2060\u200b\u200e\u200f", "\u2030\u203f",
	"\U00022028", "a\U0001f028b\U00012029c", "\U00022029\u2029", "\U0001f029", "\U00100028", "\U00012028\U00102029",
	"\ufffd", "\uffff", "\u0080", "\u07ff\u0800", "\U00010000\U0010ffff", "/", "\\/", "ends with backslash\\", "\\\\", "\\\\\\", "\"\\\"\\",
	" ", "  leading and trailing  ", "0", "-1.5e3", "\\t\\r\\b\\f", "\\x41", "\\u12", "\\ud83d\\ude00", "\\ud83d", "%22%5C", "&quot;", "'single'",
	"{\"type\":\"Delete\"}", "\",\"type\":\"Delete", "\\\",\\\"type\\\":\\\"Delete",
}

// genText: mostly valid UTF-8 of several flavours
func genText(r *RNG) []byte {
	if r.Chance(25) {
		return []byte(r.Pick(c06Fixed))
	}
	n := 1 + r.Intn(12)
	if r.Chance(10) {
		n = 40 + r.Intn(200)
	}
	var b []byte
	for i := 0; i < n; i++ {
		switch p := r.Intn(100); {
		case p < 35:
			b = append(b, byte(0x20+r.Intn(0x5f)))
		case p < 50:
			b = append(b, []byte{'\\', '"', '\n', '\r', '\t', '/', '\b', '\f', 0, 0x1f, 0x7f, '<', '>', '&', '\''}[r.Intn(15)])
		case p < 60:
			b = append(b, []byte(r.Pick([]string{"\\n", "\\\"", "\\\\", "\\u00", "\\u0041", "\\ud83d", "\\t", "\\x", "\\", "\\u", "u0041", "\\/"}))...)
		case p < 70:
			b = utf8.AppendRune(b, rune(0x80+r.Intn(0x780)))
		case p < 80:
			c := rune(0x800 + r.Intn(0xF800))
			if c >= 0xD800 && c < 0xE000 {
				c = 0x2028 + rune(r.Intn(2))
			}
			b = utf8.AppendRune(b, c)
		case p < 88:
			b = utf8.AppendRune(b, rune(0x10000+r.Intn(0x100000)))
		case p < 92:
			if r.Bool() {
				b = utf8.AppendRune(b, rune(0x2000+r.Intn(0x70))) // the whole General Punctuation block around U+2028/9
			} else {
				b = utf8.AppendRune(b, []rune{0x2028, 0x2029, 0xFFFD, 0xFFFF, 0x7FF, 0x800, 0xD7FF, 0xE000, 0x10FFFF}[r.Intn(9)])
			}
		default:
			b = append(b, []byte(r.Pick([]string{"true", "null", "42", "[", "]", "{", "}", ":", ",", "\"a\":1"}))...)
		}
	}
	return b
}

// genRawLiteral: the inside of a JSON string literal (no raw quote), with all kinds of escapes
func genRawLiteral(r *RNG) []byte {
	n := r.Intn(10)
	var b []byte
	for i := 0; i < n; i++ {
		switch p := r.Intn(100); {
		case p < 35:
			c := byte(0x20 + r.Intn(0x5f))
			if c == '"' || c == '\\' {
				c = 'x'
			}
			b = append(b, c)
		case p < 60:
			b = append(b, '\\', []byte{'"', '\\', '/', 'b', 'f', 'n', 'r', 't'}[r.Intn(8)])
		case p < 75:
			b = append(b, []byte(fmt.Sprintf("\\u%04x", []int{0x41, 0xe9, 0x0, 0x1f, 0x7f, 0x80, 0x7ff, 0x800, 0x2028, 0xfffd, 0xffff, 0xd7ff, 0xe000}[r.Intn(13)]))...)
		case p < 80:
			b = append(b, []byte(r.Pick([]string{"\\uD83D\\uDE00", "\\ud834\\udd1e", "\\ud83d", "\\ude00", "\\ud83dx", "\\ud83d\\n", "\\ud83d\\u0041", "\\uD83D\\uD83D"}))...)
		case p < 86:
			b = append(b, []byte(r.Pick([]string{"\\x", "\\a", "\\v", "\\0", "\\u12", "\\uzzzz", "\\u+123", "\\u00G0", "\\U0041"}))...)
		case p < 94:
			b = utf8.AppendRune(b, []rune{0xe9, 0x2713, 0x1F600, 0x2028}[r.Intn(4)])
		default:
			b = append(b, []byte{0x80, 0xff, 0xc3, 0x01, 0x1f, '\t'}[r.Intn(6)])
		}
	}
	return b
}

var c06Tags = []string{"en", "fr", "de", "ro", "en-US", "zh-Hant"}

type c06Prop struct {
	name string
	typ  string
	set  func(it ap.Item, n ap.NaturalLanguageValues)
	get  func(it ap.Item) ap.NaturalLanguageValues
}

var c06Props = []c06Prop{
	{"name", "Object", func(it ap.Item, n ap.NaturalLanguageValues) { it.(*ap.Object).Name = n }, func(it ap.Item) ap.NaturalLanguageValues { return it.(*ap.Object).Name }},
	{"summary", "Object", func(it ap.Item, n ap.NaturalLanguageValues) { it.(*ap.Object).Summary = n }, func(it ap.Item) ap.NaturalLanguageValues { return it.(*ap.Object).Summary }},
	{"content", "Object", func(it ap.Item, n ap.NaturalLanguageValues) { it.(*ap.Object).Content = n }, func(it ap.Item) ap.NaturalLanguageValues { return it.(*ap.Object).Content }},
	{"source.content", "Object", func(it ap.Item, n ap.NaturalLanguageValues) { it.(*ap.Object).Source.Content = n }, func(it ap.Item) ap.NaturalLanguageValues { return it.(*ap.Object).Source.Content }},
	{"preferredUsername", "Actor", func(it ap.Item, n ap.NaturalLanguageValues) { it.(*ap.Actor).PreferredUsername = n }, func(it ap.Item) ap.NaturalLanguageValues { return it.(*ap.Actor).PreferredUsername }},
	{"name", "Actor", func(it ap.Item, n ap.NaturalLanguageValues) { it.(*ap.Actor).Name = n }, func(it ap.Item) ap.NaturalLanguageValues { return it.(*ap.Actor).Name }},
	{"content", "Activity", func(it ap.Item, n ap.NaturalLanguageValues) { it.(*ap.Activity).Content = n }, func(it ap.Item) ap.NaturalLanguageValues { return it.(*ap.Activity).Content }},
	{"name", "Link", func(it ap.Item, n ap.NaturalLanguageValues) { it.(*ap.Link).Name = n }, func(it ap.Item) ap.NaturalLanguageValues { return it.(*ap.Link).Name }},
}

func c06New(typ string) ap.Item {
	switch typ {
	case "Actor":
		return &ap.Actor{ID: "https://example.com/~u", Type: ap.PersonType}
	case "Activity":
		return &ap.Activity{ID: "https://example.com/act/1", Type: ap.CreateType}
	case "Link":
		return &ap.Link{ID: "https://example.com/l/1", Type: ap.LinkType}
	}
	return &ap.Object{ID: "https://example.com/o/1", Type: ap.NoteType}
}

// values decoded by earlier round trips, kept alive: their text must still be what was written when
// later documents have been decoded (a decoder must not hand out text that a later decode overwrites)
type c06Kept struct {
	got   ap.NaturalLanguageValues
	want  [][2][]byte
	where string
}

var c06KeptRing []c06Kept

func c06CheckKept() string {
	for _, k := range c06KeptRing {
		for _, e := range k.want {
			ok := false
			for _, g := range k.got {
				if bytes.Equal(g.Value, e[1]) {
					ok = true
				}
			}
			if !ok {
				return fmt.Sprintf("%s: the text %q read back by an earlier round trip is no longer there after later decodes (now: %q)", k.where, e[1], k.got)
			}
		}
	}
	return ""
}

// c06RoundTrip: the direct oracle. pairs: [tag, text] entries ("-" = untagged). codec: json|gob.
func c06RoundTrip(propIdx int, pairs [][2][]byte, codec string) string {
	p := c06Props[propIdx]
	it := c06New(p.typ)
	n := ap.NaturalLanguageValues{}
	for _, e := range pairs {
		ref := ap.LangRef(e[0])
		if string(e[0]) == "-" {
			ref = ap.NilLangRef
		}
		n = append(n, ap.LangRefValue{Ref: ref, Value: append(ap.Content{}, e[1]...)})
	}
	p.set(it, n)
	var back ap.Item
	var err error
	var wire []byte
	if pan, msg := guard(func() {
		if codec == "json" {
			wire, err = ap.MarshalJSON(it)
			if err == nil {
				back, err = ap.UnmarshalJSON(wire)
			}
		} else {
			wire, err = ap.GobEncode(it)
			if err == nil {
				back, err = ap.GobDecode(wire)
			}
		}
	}); pan {
		return "panic: " + msg
	}
	if err != nil {
		return codec + " round trip error: " + err.Error()
	}
	var got ap.NaturalLanguageValues
	if pan, msg := guard(func() { got = p.get(back) }); pan {
		return fmt.Sprintf("decoded value has type %T: %s", back, msg)
	}
	show := ""
	if codec == "json" {
		show = "   document: " + string(wire)
	}
	if len(got) != len(pairs) {
		return fmt.Sprintf("%s.%s: %d language values written, %d read back%s", p.typ, p.name, len(pairs), len(got), show)
	}
	if v := c06CheckKept(); v != "" {
		return v
	}
	if codec == "json" {
		c06KeptRing = append(c06KeptRing, c06Kept{got, pairs, p.typ + "." + p.name})
		if len(c06KeptRing) > 6 {
			c06KeptRing = c06KeptRing[1:]
		}
	}
	for _, e := range pairs {
		tag := string(e[0])
		if len(pairs) == 1 && codec == "json" {
			tag = "-" // documented: a lone tagged value returns untagged
		}
		if tag == "" {
			tag = "-" // no reference at all and the nil reference both mean "no language"
		}
		found := false
		for _, g := range got {
			gt := string(g.Ref)
			if g.Ref == ap.NilLangRef || gt == "" {
				gt = "-"
			}
			if gt == tag {
				found = true
				if !bytes.Equal(g.Value, e[1]) {
					return fmt.Sprintf("%s.%s[%s] through %s: wrote %q, read %q%s", p.typ, p.name, tag, codec, e[1], []byte(g.Value), show)
				}
			}
		}
		if !found {
			return fmt.Sprintf("%s.%s through %s: language tag %q lost%s", p.typ, p.name, codec, tag, show)
		}
	}
	return ""
}

func c06TextWrite(s []byte) interface{} {
	var out []byte
	var err error
	if pan, msg := guard(func() {
		out, err = ap.NaturalLanguageValues{{Ref: ap.NilLangRef, Value: s}}.MarshalJSON()
	}); pan {
		return T{"panic": msg}
	}
	if err != nil {
		return T{"err": true}
	}
	return bytesToInts(out)
}

// c06TextRead: the implementation's reader on the document {"name":"<raw>"} — what it stores in Name.
func c06TextRead(raw []byte) interface{} {
	doc := append(append([]byte(`{"type":"Note","name":"`), raw...), '"', '}')
	var it ap.Item
	var err error
	if pan, msg := guard(func() { it, err = ap.UnmarshalJSON(doc) }); pan {
		return T{"panic": msg}
	}
	if err != nil {
		return T{"none": true}
	}
	ob, ok := it.(*ap.Object)
	if !ok {
		return T{"none": true}
	}
	if len(ob.Name) == 0 {
		return T{"text": []int{}}
	}
	return T{"text": bytesToInts(ob.Name[0].Value)}
}

func c06Pairs(r *RNG, n int) [][2][]byte {
	if n == 1 {
		tag := "-"
		if r.Chance(30) {
			tag = r.Pick(c06Tags)
		}
		return [][2][]byte{{[]byte(tag), genText(r)}}
	}
	perm := r.Intn(len(c06Tags))
	var out [][2][]byte
	for i := 0; i < n; i++ {
		out = append(out, [2][]byte{[]byte(c06Tags[(perm+i)%len(c06Tags)]), genText(r)})
	}
	if r.Chance(20) {
		out[r.Intn(n)][0] = []byte("-") // a value without a language among tagged ones
	}
	return out
}

// c06Members: the answers of a poll, embedded objects without ids whose multi-language names share their
// first entry and differ in a later one; after either round trip each answer still has its own texts
func c06Members(s []byte) string {
	mk := func(second string) *ap.Object {
		return &ap.Object{Type: ap.NoteType, Name: ap.NaturalLanguageValues{{Ref: "en", Value: append(ap.Content{}, s...)}, {Ref: "de", Value: ap.Content(second)}}}
	}
	q := &ap.Question{ID: "https://example.com/q", Type: ap.QuestionType, OneOf: ap.ItemCollection{mk("Andere"), mk("Sonstiges")}}
	q.Tag = ap.ItemCollection{mk("eins"), mk("zwei"), mk("drei")}
	check := func(back ap.Item, codec string) string {
		var viol string
		_ = ap.OnQuestion(back, func(b *ap.Question) error {
			for _, pr := range []struct {
				name string
				l    ap.Item
				want []string
			}{{"oneOf", b.OneOf, []string{"Andere", "Sonstiges"}}, {"tag", b.Tag, []string{"eins", "zwei", "drei"}}} {
				var got []string
				_ = ap.OnItemCollection(pr.l, func(col *ap.ItemCollection) error {
					for _, m := range *col {
						_ = ap.OnObject(m, func(o *ap.Object) error {
							if len(o.Name) == 2 && bytes.Equal(o.Name[0].Value, s) {
								got = append(got, string(o.Name[1].Value))
							} else {
								got = append(got, fmt.Sprintf("?%v", o.Name))
							}
							return nil
						})
					}
					return nil
				})
				if fmt.Sprint(got) != fmt.Sprint(pr.want) {
					viol = fmt.Sprintf("%s: the members without an id of %s came back as %q, written %q (shared first text %q)", codec, pr.name, got, pr.want, s)
				}
			}
			return nil
		})
		return viol
	}
	var viol string
	if p, msg := guard(func() {
		if b, err := ap.MarshalJSON(q); err == nil {
			if back, err := ap.UnmarshalJSON(b); err == nil {
				viol = check(back, "json")
			}
		}
		if viol == "" {
			if b, err := ap.GobEncode(q); err == nil {
				if back, err := ap.GobDecode(b); err == nil {
					viol = check(back, "gob")
				}
			}
		}
	}); p {
		return "panic: " + msg
	}
	return viol
}

func c06Oracle(c *Ctx, propIdx int, pairs [][2][]byte, codec string) {
	in := T{"prop": propIdx, "codec": codec}
	var pl []interface{}
	for _, e := range pairs {
		pl = append(pl, []interface{}{string(e[0]), bytesToInts(e[1])})
	}
	in["pairs"] = pl
	c.Count(in, true)
	c.Tag(fmt.Sprintf("oracle/%s/%d-values", codec, len(pairs)))
	if v := c06RoundTrip(propIdx, pairs, codec); v != "" {
		c.Fail("C06/"+codec, v, in)
	}
}

func init() {
	campaigns["C06"] = func(c *Ctx) {
		c.Rule = "byte strings: a fixed list of 60 hard texts (backslash-bearing, escape look-alikes, JSON look-alikes, control characters, U+2028/9, astral code points, injection attempts) plus generated valid UTF-8 (printable ASCII, JSON-special and control bytes, escape-looking fragments, 2/3/4-byte code points incl. boundary code points, JSON tokens; lengths 1-12 and 40-240). (1) textWrite: NaturalLanguageValues.MarshalJSON of a single value vs the model's writeText, byte for byte (also malformed UTF-8); (2) textRead: the document {\"type\":\"Note\",\"name\":\"<raw>\"} with generated raw JSON string bodies (all escapes, surrogate pairs, unknown and truncated escapes, raw non-ASCII and control bytes) decoded by UnmarshalJSON vs the model's scan+unescape; (3) oracle: every text in every text-bearing property (name, summary, content, source content, preferred username; object, actor, activity, link) as a single value and in 2-3-entry language maps through the JSON and the gob round trip, compared byte for byte, tags included; the last 6 decoded values are kept alive and their text re-read after every later decode."
		nw := c.N(1500, 40000)
		for i := 0; i < len(c06Fixed)+nw; i++ {
			var s []byte
			if i < len(c06Fixed) {
				s = []byte(c06Fixed[i])
			} else {
				s = genText(c.R)
				if c.R.Chance(8) { // malformed UTF-8: the writer must still produce what the model says
					s = append(s, []byte{0xff, 0xc3, 0x80, 0xe2, 0x80}[c.R.Intn(5)])
					c.Tag("textWrite/malformed")
				}
			}
			if len(s) == 0 {
				continue
			}
			c.Emit(map[string]interface{}{"op": "textWrite", "s": bytesToInts(s)}, c06TextWrite(s), true)
			c.Tag("textWrite")
			if !utf8.Valid(s) {
				continue
			}
			// the written literal read back (model and implementation), and the oracle on all properties
			lit := c06TextWrite(s)
			if l, ok := lit.([]int); ok && len(l) >= 2 {
				raw := make([]byte, 0, len(l))
				for _, x := range l[1 : len(l)-1] {
					raw = append(raw, byte(x))
				}
				c.Emit(map[string]interface{}{"op": "textRead", "raw": bytesToInts(raw)}, c06TextRead(raw), true)
				c.Tag("textRead/written")
			}
			pi := i % len(c06Props)
			c06Oracle(c, pi, [][2][]byte{{[]byte("-"), s}}, "json")
			c06Oracle(c, pi, [][2][]byte{{[]byte("-"), s}}, "gob")
			if i%3 == 0 {
				pairs := c06Pairs(c.R, 2+c.R.Intn(2))
				pairs[c.R.Intn(len(pairs))][1] = s
				c06Oracle(c, (pi+1)%len(c06Props), pairs, "json")
				c06Oracle(c, (pi+1)%len(c06Props), pairs, "gob")
			}
			if i%5 == 0 {
				// the same text under several entries: the value without a language equal to a translation, two
				// languages sharing one text
				pairs := c06Pairs(c.R, 2+c.R.Intn(2))
				for k := range pairs {
					pairs[k][1] = s
					pairs[k][0] = []byte(c06Tags[k%len(c06Tags)]) // pairwise distinct references
				}
				pairs[c.R.Intn(len(pairs))][0] = []byte("-")
				c06Oracle(c, (pi+3)%len(c06Props), pairs, "json")
				c06Oracle(c, (pi+3)%len(c06Props), pairs, "gob")
			}
			if i%11 == 0 {
				if v := c06Members(s); v != "" {
					c.Fail("C06/json", v, T{"members": bytesToInts(s)})
				}
				c.Count(T{"members": bytesToInts(s)}, true)
				c.Tag("oracle/list-members-without-id")
			}
			if i%4 == 0 {
				// a single value whose language reference is the zero value (LangRefValue{Value: ...}, no tag at all)
				c06Oracle(c, (pi+4)%len(c06Props), [][2][]byte{{[]byte(""), s}}, "json")
				c06Oracle(c, (pi+4)%len(c06Props), [][2][]byte{{[]byte(""), s}}, "gob")
			}
			if i%6 == 0 {
				// language references that differ only in letter case are different references
				pairs := [][2][]byte{{[]byte("sr-Latn"), s}, {[]byte("sr-latn"), []byte("drugi tekst")}, {[]byte("EN"), []byte("third")}, {[]byte("en"), s}}
				pairs = pairs[:2+c.R.Intn(3)]
				c06Oracle(c, (pi+5)%len(c06Props), pairs, "json")
				c06Oracle(c, (pi+5)%len(c06Props), pairs, "gob")
			}
			if i%7 == 0 {
				p1 := [][2][]byte{{[]byte(c.R.Pick(c06Tags)), s}}
				c06Oracle(c, (pi+2)%len(c06Props), p1, "json")
				c06Oracle(c, (pi+2)%len(c06Props), p1, "gob")
			}
		}
		for i := 0; i < c.N(1500, 40000); i++ {
			raw := genRawLiteral(c.R)
			c.Emit(map[string]interface{}{"op": "textRead", "raw": bytesToInts(raw)}, c06TextRead(raw), true)
			c.Tag("textRead/generated")
		}
	}
	replayers["C06"] = func(class string, input []byte) string {
		var in map[string]interface{}
		if err := json.Unmarshal(input, &in); err != nil {
			return "bad replay input"
		}
		if m, ok := in["members"]; ok {
			return c06Members(intsToBytes(m))
		}
		var pairs [][2][]byte
		for _, e := range asList(in["pairs"]) {
			l := asList(e)
			pairs = append(pairs, [2][]byte{[]byte(l[0].(string)), intsToBytes(l[1])})
		}
		return c06RoundTrip(int(num(in["prop"])), pairs, in["codec"].(string))
	}
}
