/-
C16 — Flattening replaces embedded items by their own ids and nothing else.
Model: `Model/Flatten.lean` (+ the de-duplication model of C10), table `Generated/Flatten.lean`
regenerated from flatten.go on every run; tied to the code by the `flatten` correspondence op.
-/
import APModel.Model.Flatten
import APModel.Props.C10
import APModel.Theory.Fields

namespace APModel.Flatten
open APModel APModel.Generated APModel.Recip

/-! ### single items -/

/-- An embedded object that has an id is replaced by an IRI equal to that id. -/
theorem C16_object_with_id (i : Item) (hn : i.isNilLike = false) (ho : isObjectM i = true)
    (hid : (linkOf i).isEmpty = false) : flattenToIRI i = .iri (linkOf i) := by
  simp [flattenToIRI, hn, ho, hid]

/-- Plain IRIs stay as they were. -/
theorem C16_iri_stays (s : Str) : flattenToIRI (.iri s) = .iri s := by
  simp [flattenToIRI, isObjectM]

/-- Links (a Link struct whose type is not an object type) stay as they were. -/
theorem C16_link_stays (p : Bool) (fs : Fields)
    (h : (strOf fs "Type" == ascii "Object" || typeIn objectTypesGo (strOf fs "Type")) = false) :
    flattenToIRI (.node .link p fs) = .node .link p fs := by
  simp only [flattenToIRI, isObjectM, h]; simp

/-- Embedded objects without an id stay as they were. -/
theorem C16_idless_stays (i : Item) (hid : (linkOf i).isEmpty = true) : flattenToIRI i = i := by
  simp [flattenToIRI, hid]

/-- No IRI is invented: the result is the item itself or the IRI made of its own id. -/
theorem C16_no_new_iri (i : Item) : flattenToIRI i = i ∨ flattenToIRI i = .iri (linkOf i) := by
  unfold flattenToIRI; split
  · exact Or.inr rfl
  · exact Or.inl rfl

theorem linkOf_flatten (i : Item) : linkOf (flattenToIRI i) = linkOf i := by
  unfold flattenToIRI; split <;> simp [linkOf]

/-- Flattening an item twice equals flattening it once. -/
theorem C16_idem_item (i : Item) : flattenToIRI (flattenToIRI i) = flattenToIRI i := by
  rcases C16_no_new_iri i with h | h
  · rw [h]; exact h
  · rw [h]; exact C16_iri_stays _

/-! ### lists (to, bto, cc, bcc, audience and list-valued attributedTo/replies/likes/shares) -/

/-- With IRI equality an equivalence (C14), the flattened list is: the first mentions that survive
de-duplication, each flattened — nothing else happens and there is no panic. -/
theorem C16_list (h : IsEquiv iriEqv) (l : List Item) :
    flattenList l = some ((specCol iriEqv dedupKey l []).2.map flattenToIRI) := by
  have := (dedupCol_refines iriEqv dedupKey h l [] List.Pairwise.nil).1
  simp [flattenList, this]

/-- every entry of a flattened list is an original entry or the IRI made of an original entry's id. -/
theorem C16_list_no_new_iri (h : IsEquiv iriEqv) (l r : List Item) (hr : flattenList l = some r) :
    ∀ x ∈ r, ∃ y ∈ l, x = y ∨ x = .iri (linkOf y) := by
  rw [C16_list h l] at hr
  cases hr
  intro x hx
  obtain ⟨y, hy, rfl⟩ := List.mem_map.mp hx
  exact ⟨y, (specCol_sublist iriEqv dedupKey l []).1.subset hy, C16_no_new_iri y⟩

/-- the de-duplication key of an entry is not changed by flattening it. -/
theorem dedupKey_flatten (i : Item) : dedupKey (flattenToIRI i) = dedupKey i := by
  unfold flattenToIRI
  split
  · rename_i hc
    simp only [Bool.and_eq_true, Bool.not_eq_true'] at hc
    obtain ⟨⟨hn, ho⟩, _⟩ := hc
    cases i <;> simp_all [dedupKey, isObjectM, isLinkM, linkOf, Item.isNilLike]
  · rfl

/-- a list whose keyed entries are pairwise inequivalent (and inequivalent to `rec`) is left alone. -/
theorem specCol_fixed (eqv : Str → Str → Bool) (h : IsEquiv eqv) (key : Item → Option Str) (l : List Item)
    (rec : List Str) (hi : Inequiv eqv (rec ++ l.filterMap key)) : (specCol eqv key l rec).2 = l := by
  induction l generalizing rec with
  | nil => simp [specCol]
  | cons e r ih =>
    cases hk : key e with
    | none =>
      simp only [specCol, hk]
      simp only [List.filterMap_cons, hk] at hi
      rw [ih rec hi]
    | some t =>
      simp only [List.filterMap_cons, hk] at hi
      have hany : rec.any (fun x => eqv t x) = false := by
        rw [List.any_eq_false]
        intro x hx htx
        unfold Inequiv at hi
        rw [List.pairwise_append] at hi
        have hxt := hi.2.2 x hx t (by simp)
        rw [h.symm t x htx] at hxt
        cases hxt
      simp only [specCol, hk, hany]
      have : Inequiv eqv ((rec ++ [t]) ++ r.filterMap key) := by simpa using hi
      simp [ih (rec ++ [t]) this]

/-- Flattening a list twice equals flattening it once. -/
theorem C16_idem_list (h : IsEquiv iriEqv) (l r : List Item) (hr : flattenList l = some r) :
    flattenList r = some r := by
  rw [C16_list h l] at hr
  cases hr
  rw [C16_list h]
  have hkeys : ((specCol iriEqv dedupKey l []).2.map flattenToIRI).filterMap dedupKey =
      (specCol iriEqv dedupKey l []).2.filterMap dedupKey := by
    rw [List.filterMap_map]
    congr 1
    funext i
    simp [dedupKey_flatten]
  have hin : Inequiv iriEqv ([] ++ ((specCol iriEqv dedupKey l []).2.map flattenToIRI).filterMap dedupKey) := by
    rw [List.nil_append, hkeys]
    have := C10_lists_dedup iriEqv dedupKey h [l]
    simpa [specCols] using this
  rw [specCol_fixed iriEqv h dedupKey _ [] hin]
  simp [List.map_map, Function.comp_def, C16_idem_item]

/-! ### every other property is unchanged -/

theorem applyRow_frame (fs fs' : Fields) (row : String × String) (m : String) (hne : m ≠ row.1)
    (h : applyRow fs row = .ok fs') : fs'.get? m = fs.get? m := by
  unfold applyRow at h
  split at h
  · cases h; rfl
  · split at h
    · cases h; exact get_erase_other _ _ _ hne
    · cases h; exact get_set_other _ _ _ _ hne
    · cases h
    · cases h

/-- Flattening the properties of a value changes no property outside the flattened positions. -/
theorem C16_frame (rows : List (String × String)) (fs fs' : Fields) (m : String)
    (hm : ∀ r ∈ rows, m ≠ r.1) (h : applyRows fs rows = .ok fs') : fs'.get? m = fs.get? m := by
  induction rows generalizing fs with
  | nil => simp [applyRows] at h; cases h; rfl
  | cons r rs ih =>
    simp only [applyRows] at h
    split at h
    · rename_i fs1 h1
      rw [ih fs1 (fun r' hr' => hm r' (List.mem_cons_of_mem _ hr')) h]
      exact applyRow_frame fs fs1 r m (hm r List.mem_cons_self) h1
    · cases h
    · cases h

/-! ### obligations on the regenerated table: the flattened positions are the prescribed ones -/

def expectedObjectRows : List (String × String) :=
  [("Replies", "Flatten"), ("Shares", "Flatten"), ("Likes", "Flatten"), ("AttributedTo", "Flatten"),
   ("To", "FlattenItemCollection"), ("Bto", "FlattenItemCollection"), ("CC", "FlattenItemCollection"),
   ("BCC", "FlattenItemCollection"), ("Audience", "FlattenItemCollection")]

def sameRows (a b : List (String × String)) : Bool :=
  a.all (fun r => b.contains r) && b.all (fun r => a.contains r)

/-- objects/actors: attributedTo, replies, likes, shares + the five addressing lists;
intransitive activities add actor, target, result, origin, instrument; activities add object —
and nothing else is touched; no statement of these functions was left unrecognised. -/
theorem C16_table :
    sameRows (rowsOf flattenRows 4 "FlattenObjectProperties") expectedObjectRows = true ∧
    sameRows (rowsOf flattenRows 4 "FlattenActorProperties") expectedObjectRows = true ∧
    sameRows (rowsOf flattenRows 4 "FlattenIntransitiveActivityProperties")
      (expectedObjectRows ++ [("Actor", "FlattenToIRI"), ("Target", "FlattenToIRI"), ("Result", "FlattenToIRI"),
        ("Origin", "FlattenToIRI"), ("Instrument", "FlattenToIRI")]) = true ∧
    sameRows (rowsOf flattenRows 4 "FlattenActivityProperties")
      (expectedObjectRows ++ [("Actor", "FlattenToIRI"), ("Target", "FlattenToIRI"), ("Result", "FlattenToIRI"),
        ("Origin", "FlattenToIRI"), ("Instrument", "FlattenToIRI"), ("Object", "FlattenToIRI")]) = true ∧
    flattenRows.all (fun r => r.other.isEmpty) = true := by
  decide

/-! non-vacuity -/
private def obj (id : String) : Item := .node .object true (.cons "ID" (.str (ascii id)) .nil)
example : (flattenToIRI (obj "https://e.com/a")).beq (.iri (ascii "https://e.com/a")) = true := by decide +kernel
example : ((flattenList [obj "https://e.com/a", .nil, .iri (ascii "http://e.com/a"), obj ""]).map Items.ofList).map
    (fun r => r.beq (Items.ofList [.iri (ascii "https://e.com/a"), .nil, obj ""])) = some true := by decide +kernel

end APModel.Flatten
