/-
C12 — Read-only operations never modify their arguments and are race-free.

Two parts.
  * a theorem about EVERY schedule of ANY number of threads (`Model/Interleave.lean`): if the threads
    never write the shared memory then, whatever the interleaving, the memory is unchanged, no data race
    is ever enabled, and each thread finishes with exactly the result it computes when run alone.
  * the premise for the library's read-only operations: write sets regenerated from the source on every
    run by a go/types translator (`Generated/WriteSets.lean`: through which parameters a function may
    write caller-visible memory, transitively over the package's call graph) and kernel-decided to be
    empty for every encoding, comparing, formatting, inspecting and viewing operation.
That a Go function with an empty write set behaves like a write-free program of the model is the
modelling step; it is checked on the running code by the deep-snapshot oracle, by comparing concurrent
with sequential results and (thorough tier) by the race detector.
-/
import APModel.Model.Interleave
import APModel.Generated.WriteSets
import APModel.Generated.GlobalWrites

namespace APModel.Interleave
variable {α : Type}

theorem step_writeFree (p : Prog α) (m : Mem) (h : writeFree p) :
    writeFree (step p m).1 ∧ (step p m).2 = m := by
  cases p with
  | ret a => exact ⟨h, rfl⟩
  | read addr k => exact ⟨h (m addr), rfl⟩
  | write addr v k => exact absurd h (by simp [writeFree])

theorem run_step (p : Prog α) (m : Mem) : run (step p m).1 (step p m).2 = run p m := by
  cases p <;> simp [step, run]

theorem run_writeFree (p : Prog α) (m : Mem) (h : writeFree p) : (run p m).2 = m := by
  induction p with
  | ret a => rfl
  | read addr k ih => exact ih (m addr) (h (m addr))
  | write addr v k _ => exact absurd h (by simp [writeFree])

def allWriteFree (ts : List (Prog α)) : Prop := ∀ p ∈ ts, writeFree p

theorem stepAt_inv (ts : List (Prog α)) (m : Mem) (i : Nat) (h : allWriteFree ts) :
    allWriteFree (stepAt ts m i).1 ∧ (stepAt ts m i).2 = m ∧
    (stepAt ts m i).1.length = ts.length ∧
    ∀ (j : Nat) (p : Prog α), (stepAt ts m i).1[j]? = some p → ∃ q, ts[j]? = some q ∧ run p m = run q m := by
  unfold stepAt
  cases hi : ts[i]? with
  | none =>
    refine ⟨h, rfl, rfl, ?_⟩
    intro j p hp; exact ⟨p, hp, rfl⟩
  | some q =>
    have hq : writeFree q := h q (List.mem_of_getElem? hi)
    obtain ⟨hwf, hm⟩ := step_writeFree q m hq
    refine ⟨?_, hm, by simp, ?_⟩
    · intro p hp
      rcases List.mem_or_eq_of_mem_set hp with hp | rfl
      · exact h p hp
      · exact hwf
    · intro j p hp
      simp only at hp
      by_cases hji : i = j
      · subst hji
        have hlt : i < ts.length := by
          rcases Nat.lt_or_ge i ts.length with h | h
          · exact h
          · simp [List.getElem?_eq_none h] at hi
        rw [List.getElem?_set_self hlt] at hp
        cases hp
        refine ⟨q, hi, ?_⟩
        have := run_step q m
        rw [hm] at this
        exact this
      · rw [List.getElem?_set_ne hji] at hp
        exact ⟨p, hp, rfl⟩

/-- C12, schedules: for EVERY schedule of ANY list of write-free threads, the shared memory is never
modified, the threads stay write-free, and the residual program of each thread still computes, run
alone on the original memory, the result of the original thread. -/
theorem C12_any_schedule (ts : List (Prog α)) (m : Mem) (h : allWriteFree ts) (sched : List Nat) :
    (exec ts m sched).2 = m ∧ allWriteFree (exec ts m sched).1 ∧
    ∀ (j : Nat) (p : Prog α), (exec ts m sched).1[j]? = some p → ∃ q, ts[j]? = some q ∧ run p m = run q m := by
  induction sched generalizing ts with
  | nil => exact ⟨rfl, h, fun j p hp => ⟨p, hp, rfl⟩⟩
  | cons i sched ih =>
    obtain ⟨h1, h2, _, h4⟩ := stepAt_inv ts m i h
    simp only [exec]
    rw [h2]
    obtain ⟨r1, r2, r3⟩ := ih (stepAt ts m i).1 h1
    refine ⟨r1, r2, ?_⟩
    intro j p hp
    obtain ⟨q, hq, hrun⟩ := r3 j p hp
    obtain ⟨q', hq', hrun'⟩ := h4 j q hq
    exact ⟨q', hq', hrun.trans hrun'⟩

/-- a thread that has finished under some schedule returned what it returns when run alone -/
theorem C12_result_is_sequential (ts : List (Prog α)) (m : Mem) (h : allWriteFree ts) (sched : List Nat)
    (j : Nat) (a : α) (hfin : (exec ts m sched).1[j]? = some (.ret a)) :
    ∃ q, ts[j]? = some q ∧ (run q m).1 = a := by
  obtain ⟨q, hq, hrun⟩ := (C12_any_schedule ts m h sched).2.2 j _ hfin
  exact ⟨q, hq, by rw [← hrun]; rfl⟩

/-- no data race is ever enabled: in every reachable configuration no thread is about to write -/
theorem C12_no_race (ts : List (Prog α)) (m : Mem) (h : allWriteFree ts) (sched : List Nat) :
    ¬ raceNow (exec ts m sched).1 := by
  have hwf := (C12_any_schedule ts m h sched).2.1
  rintro ⟨i, j, _, p, q, hp, hq, a, w1, w2, n1, n2, hw⟩
  have hpf := hwf p (List.mem_of_getElem? hp)
  have hqf := hwf q (List.mem_of_getElem? hq)
  rcases hw with rfl | rfl
  · cases p <;> simp [nextAccess, writeFree] at n1 hpf
  · cases q <;> simp [nextAccess, writeFree] at n2 hqf

/-- the premise is needed: one writer is enough for a race and for a changed memory -/
example : raceNow [(.write 0 1 (.ret 0) : Prog Nat), .read 0 (fun v => .ret v)] :=
  ⟨0, 1, by decide, _, _, rfl, rfl, 0, true, false, rfl, rfl, Or.inl rfl⟩

/-! non-vacuity: two readers of the same cell, any interleaving, both see the initial value -/
example : (exec [(.read 7 (fun v => .ret v) : Prog Nat), .read 7 (fun v => .ret (v + 1))] (fun _ => 5) [1, 0, 1]).1.length = 2 := by
  simp [exec, stepAt]

end APModel.Interleave

namespace APModel.C12
open APModel.Generated

/-- the read-only operations of the property: encoding, comparing, formatting, inspecting, viewing -/
def readOnlyMethods : List String :=
  ["MarshalJSON", "GobEncode", "MarshalBinary", "MarshalText", "Equals", "String", "GoString", "Format", "GetLink", "GetID", "GetType",
   "IsObject", "IsLink", "IsCollection", "Count", "Contains", "Collection", "IRIs", "First", "Get", "URL", "Split", "Of", "IRI",
   "IsValid", "Validate", "Matches", "Match"]

def readOnlyFuncs : List String :=
  ["ItemsEqual", "IsNil", "NotEmpty", "IsObject", "IsLink", "IsIRI", "IsIRIs", "IsItemCollection", "DerefItem", "MarshalJSON", "GobEncode",
   "ItemOrderTimestamp", "fmtObjectProps", "fmtActivityProps", "fmtIntransitiveActivityProps",
   "OnActivity", "OnActor", "OnCollection", "OnCollectionIntf", "OnCollectionPage", "OnIRIs", "OnIntransitiveActivity", "OnItem",
   "OnItemCollection", "OnLink", "OnObject", "OnOrderedCollection", "OnOrderedCollectionPage", "OnPlace", "OnProfile", "OnQuestion",
   "OnRelationship", "OnTombstone", "ToActivity", "ToActor", "ToCollection", "ToCollectionPage", "ToIRIs", "ToIntransitiveActivity",
   "ToItemCollection", "ToLink", "ToObject", "ToOrderedCollection", "ToOrderedCollectionPage", "ToPlace", "ToProfile", "ToQuestion",
   "ToRelationship", "ToTombstone"]

def isReadOnly (name method : String) : Bool :=
  if method == "" then readOnlyFuncs.contains name else readOnlyMethods.contains method

/-- functions outside the package that read-only operations hand their arguments to; none of them
writes through what it is given (standard library readers, formatters and encoders) -/
def allowedExternal : List String :=
  ["(*bytes.Buffer).Write", "(*bytes.Buffer).WriteByte", "(*bytes.Buffer).WriteRune", "(*bytes.Buffer).WriteString",
   "(*encoding/gob.Encoder).Encode", "(time.Time).Equal", "(time.Time).GobEncode", "(time.Time).IsZero", "(time.Time).UTC",
   "(time.Time).After", "(time.Time).Before", "(time.Time).Format", "(time.Time).String", "(time.Time).Unix",
   "bytes.Equal", "bytes.EqualFold", "bytes.Contains", "fmt.Errorf", "fmt.Fprintf", "fmt.Sprintf", "fmt.Fprint", "fmt.Sprint",
   "io.WriteString", "reflect.TypeOf", "reflect.ValueOf", "unicode/utf8.DecodeRune", "strings.EqualFold", "strings.Contains",
   "strings.Index", "strings.ToLower", "strings.Split", "strings.TrimRight", "encoding/json.Marshal", "net/url.Parse", "path/filepath.Clean",
   "path/filepath.Split", "path.Clean", "errors.Is", "errors.As"]

/-- calls of function values: the callback handed to a view (`fn`), the formatter closures (whose own
write sets are part of the obligation), and the JSON-LD wrapper of the package-level encoder -/
def allowedDynamic : List String :=
  ["fn", "OnItem:fn", "fmtObjectProps(s)", "fmtActivityProps(s)", "fmtIntransitiveActivityProps(s)", "jsonld.Marshal"]

/-- a call of a function value is accounted for: one of the listed ones, or the callback `fn` a view of the On*
family was handed, invoked inside that view on the converted value (the callback's own body is analysed where
it is written, as a function literal rooted at the data passed along) -/
def dynOK (d : String) : Bool :=
  allowedDynamic.contains d || (d.startsWith "On" && d.endsWith ":fn")

/-- Every read-only operation of the current source has an empty write set (it writes through none of
its parameters or receiver, directly or through the package's call graph), hands its arguments only to
allowed external functions, and the scan covered all of them. -/
theorem C12_write_sets :
    (writeSets.filter (fun r => isReadOnly r.1 r.2.1)).all (fun r =>
      r.2.2.1.isEmpty && r.2.2.2.1.all allowedExternal.contains && r.2.2.2.2.all dynOK) = true ∧
    readOnlyFuncs.all (fun f => writeSets.any (fun r => r.1 == f)) = true ∧
    ["Object", "Actor", "Activity", "IntransitiveActivity", "Question", "Collection", "OrderedCollection", "CollectionPage",
     "OrderedCollectionPage", "Place", "Profile", "Relationship", "Tombstone", "Link", "IRI", "IRIs", "ItemCollection",
     "NaturalLanguageValues"].all (fun t => writeSets.any (fun r => r.1 == t ++ ".MarshalJSON")) = true ∧
    (writeSets.any (fun r => r.1 == "?unknown")) = false := by
  decide +kernel

/-- the analysis is not blind: the operations that are meant to write are reported as writing -/
theorem C12_writers_seen :
    ["Object.Clean", "ItemCollection.Append", "Object.UnmarshalJSON", "CopyObjectProperties", "JSONWriteProp", "FlattenObjectProperties"].all
      (fun f => writeSets.any (fun r => r.1 == f && !r.2.2.1.isEmpty)) = true := by
  decide +kernel

/-- The library keeps no state between calls: no function or method stores into a package-level
variable, or calls a pointer-receiver method on one (a sync.Map, a pool, a lock, a counter) — regenerated
from the source by a go/types scan over every function body, function literals included.  Independent
inputs decoded concurrently therefore share nothing the library writes. -/
theorem C12_no_shared_state : APModel.Generated.globalWrites = [] := by decide

end APModel.C12
