/-
The JSON writer at the byte level (C02): `<T>.MarshalJSON` as a function from value trees to bytes, built
from the bookkeeping of `Model/JsonBytes.lean` — one `JSONWriteProp` per statement of the regenerated
write tables, with the statement's own way of combining the helper's answer with the `notEmpty` flag
(`Env.form`, regenerated from the source) — and the canonical rendering of the JSON trees of `Model/Deep`.

`Props/C02.lean` proves that the two coincide for EVERY value tree: the bytes the struct writers produce
are exactly the canonical rendering of the tree the deep model writes (hence one syntactically valid JSON
value, or nothing), provided the regenerated forms are sound.

Scalars are rendered by `Fmt`: `q` is the string writer (`Model/Text.writeText`), `leaf` the text of a
number, boolean, instant or duration (fmt, time.Format and xsd.Marshal are not the library's code).
-/
import APModel.Model.Deep
import APModel.Model.JsonBytes

namespace APModel.JRender
open APModel APModel.Codec APModel.Deep APModel.JBytes

abbrev Str := APModel.IRI.Str

structure Fmt where
  q : Str → Buf
  leaf : FVal → Buf

/-- what the proofs need to know about the scalar writers: they write something, and it does not end in a comma -/
structure FmtOK (F : Fmt) : Prop where
  q_ne : ∀ s, F.q s ≠ []
  q_last : ∀ s, (F.q s).getLast? ≠ some 44
  leaf_ne : ∀ v, F.leaf v ≠ []
  leaf_last : ∀ v, (F.leaf v).getLast? ≠ some 44

mutual
/-- the canonical rendering of a JSON tree -/
def render (F : Fmt) : J → Buf
  | .null => [110, 117, 108, 108]
  | .str s => F.q s
  | .leaf v => F.leaf v
  | .arr l => [91] ++ joinC (renderList F l) ++ [93]
  | .obj ms => [123] ++ joinC (renderMembers F ms) ++ [125]
def renderList (F : Fmt) : JList → List Buf
  | .nil => []
  | .cons j r => render F j :: renderList F r
def renderMembers (F : Fmt) : JMembers → List Buf
  | .nil => []
  | .cons n j r => (F.q n ++ [58] ++ render F j) :: renderMembers F r      -- member names are written as strings
end

def renderOpt (F : Fmt) : Option J → Buf
  | none => []
  | some j => render F j

/-- the statement form of a struct's write row (struct name, field name) -/
abbrev Forms := String → String → Form

/-- `ItemCollection.MarshalJSON` / `JSONWriteItemCollectionValue(compact)` on the rendered members -/
def bCompact (rawLen : Nat) (bs : List Buf) : Buf :=
  if rawLen = 0 then []
  else if rawLen = 1 then bs.head?.getD []
  else writeArray bs

/-- `JSONWriteNaturalLanguageProp`: the bytes `nl.MarshalJSON()` returns and the suffix of the member name -/
def bNLV (F : Fmt) (asMap : Bool) (n : List (Str × Str)) : Option (String × Buf) :=
  match n with
  | [] => none
  | [(t, v)] =>
    if v.isEmpty then none
    else if asMap && t != dash then some ("Map", writeLangMap F.q [(t, v)])
    else some ("", F.q v)
  | _ => some ("Map", writeLangMap F.q n)

mutual
/-- `<T>.MarshalJSON` — `[]` is "nothing" (`nil, nil`) -/
def bItem (E : Env) (fm : Forms) (F : Fmt) : Item → Buf
  | .nil => []
  | .typedNil _ => []
  | .collNil _ => []
  | .irisNil => []
  | .iri s => if s.isEmpty then [] else F.q s
  | .iris l => writeIRIs (l.map F.q)
  | .coll _ l => bCompact (Items.length l) (bItems E fm F l)
  | .node k _ fs => writeObject (bFields E fm F k.goName fs)
/-- the rendered members of a list, one per member (`[]` for a member that has nothing to say) -/
def bItems (E : Env) (fm : Forms) (F : Fmt) : Items → List Buf
  | .nil => []
  | .cons i r => bItem E fm F i :: bItems E fm F r
/-- the statements of a struct writer whose guard passes, in the order of the fields -/
def bFields (E : Env) (fm : Forms) (F : Fmt) (sn : String) : Fields → List Attempt
  | .nil => []
  | .cons n v r =>
    match E.wrow sn n with
    | none => bFields E fm F sn r
    | some w =>
      if guardPasses w.guard v then
        match bVal E fm F (E.fieldKind sn n) w.helper v with
        | none => { name := nm w.term, val := [], form := fm sn n } :: bFields E fm F sn r     -- the helper answers false without writing
        | some (sfx, bytes) => { name := nm (w.term ++ sfx), val := bytes, form := fm sn n } :: bFields E fm F sn r
      else bFields E fm F sn r
/-- the value a statement hands to `JSONWriteProp` (and the suffix of the member name); `none`: the helper
does not reach `JSONWriteProp` at all -/
def bVal (E : Env) (fm : Forms) (F : Fmt) (kind helper : String) : FVal → Option (String × Buf)
  | .item i => if helper == "JSONWriteItemProp" then some ("", bItem E fm F i) else none
  | .items l =>
    if helper == "JSONWriteItemCollectionProp" then
      (if Items.length l = 0 then none else some ("", writeArray (bItems E fm F l)))
    else if helper == "JSONWriteItemProp" then some ("", bCompact (Items.length l) (bItems E fm F l))
    else none
  | .nlv n => if helper == "JSONWriteNaturalLanguageProp" then bNLV F E.loneTagAsMap n else none
  | .time s _ _ => if helper == "JSONWriteTimeProp" then some ("", F.leaf (.time s 0 0)) else none
  | .dur d => if helper == "JSONWriteDurationProp" then some ("", F.leaf (.dur d)) else none
  | .dec6 z => if helper == "JSONWriteFloatProp" then some ("", F.leaf (.dec6 z)) else none
  | .int z => if helper == "JSONWriteIntProp" then some ("", F.leaf (.int z)) else none
  | .uint n => if helper == "JSONWriteIntProp" then some ("", F.leaf (.uint n)) else none
  | .bool b => if helper == "JSONWriteBoolProp" then some ("", F.leaf (.bool b)) else none
  | .str s =>
    if helper == "marshal" || helper == "JSONWriteStringProp" || helper == "JSONWriteIRIProp" then
      (if s.isEmpty then none else some ("", F.q s))
    else none
  | .record fs =>
    if helper == "marshal" then some ("", writeObject (bFields E fm F (recName kind) fs))
    else none
end

mutual
/-- C02's precondition on a value: the statement forms met along the tree are sound for the values they
meet — `H(...) || notEmpty` everywhere, or a plain assignment (`notEmpty = H(...)`, `empty = !H(...)`) whose
helper had something to write (a plain assignment in front of a helper that answers false forgets what
was written before it). -/
def okItem (E : Env) (fm : Forms) (F : Fmt) : Item → Bool
  | .coll _ l => okItems E fm F l
  | .node k _ fs => okFields E fm F k.goName fs
  | _ => true
def okItems (E : Env) (fm : Forms) (F : Fmt) : Items → Bool
  | .nil => true
  | .cons i r => okItem E fm F i && okItems E fm F r
def okFields (E : Env) (fm : Forms) (F : Fmt) (sn : String) : Fields → Bool
  | .nil => true
  | .cons n v r =>
    (match E.wrow sn n with
     | none => true
     | some w =>
       !guardPasses w.guard v ||
       (fm sn n == .orAfter ||
        (fm sn n == .assign &&
          (match bVal E fm F (E.fieldKind sn n) w.helper v with
           | some (_, b) => !b.isEmpty
           | none => false)))) &&
    okVal E fm F (E.fieldKind sn n) v && okFields E fm F sn r
def okVal (E : Env) (fm : Forms) (F : Fmt) (kind : String) : FVal → Bool
  | .item i => okItem E fm F i
  | .items l => okItems E fm F l
  | .record fs => okFields E fm F (recName kind) fs
  | _ => true
end

end APModel.JRender
