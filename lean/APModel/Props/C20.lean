/-
C20 — Nil and typed-nil items are handled as 'nothing', never as a crash.

What is proved here, and how it is tied to the code:

* `Generated/NilCheck.lean` is the result of a static scan (extract/nilcheck.go, go/types based) of
  EVERY function and method of the package, regenerated on every run: the list of method calls made
  on an interface-typed item expression that are not dominated by an `IsNil` check of that very
  expression. In Go a value-receiver method invoked through a nil pointer stored in an interface
  panics, and every `Item` method of the 14 struct types has a value receiver — so these calls are
  exactly the places where a typed nil can crash.
* `C20_nil_discipline` (kernel `decide`) states that every such call is one of the reviewed ones
  below, each of which is unreachable with a nil receiver for the reason given next to it.
  A dropped or weakened guard anywhere in the package makes this theorem false.
* `C20_scope` states that every helper the property names was covered by the scan.
* The dynamic half — neutral results, callback arguments, and the typed nil planted inside otherwise
  valid values — is the exhaustive helper × nil-kind matrix of the correspondence run
  (harness/c20.go), which also validates `Item.isNilLike` against `IsNil`.
-/
import APModel.Model.Value
import APModel.Generated.NilCheck

namespace APModel.Nil
open APModel APModel.Generated

/-- reviewed calls: (function, call) — why a nil receiver cannot reach it. -/
def reviewed : List (String × String) := [
  -- constructors taking the parent collection (not item helpers; a nil parent is a programming error)
  ("CollectionPageNew", "parent.GetLink()"), ("OrderedCollectionPageNew", "parent.GetLink()"),
  -- the property was assigned a fresh IRI on the line before
  ("CollectionPath.AddTo", "a.Inbox.GetLink()"), ("CollectionPath.AddTo", "a.Outbox.GetLink()"),
  ("CollectionPath.AddTo", "a.Liked.GetLink()"), ("CollectionPath.AddTo", "a.Following.GetLink()"),
  ("CollectionPath.AddTo", "a.Followers.GetLink()"), ("CollectionPath.AddTo", "o.Likes.GetLink()"),
  ("CollectionPath.AddTo", "o.Shares.GetLink()"), ("CollectionPath.AddTo", "o.Replies.GetLink()"),
  -- the callback parameter stands for the method's own value receiver, which cannot be nil
  ("Activity.Equals", "oi.Equals(w)"), ("Actor.Equals", "oa.Equals(w)"), ("IntransitiveActivity.Equals", "oa.Equals(w)"),
  -- only reached for a LinkOrIRI that is not an Item; every link type of the package is an Item and goes
  -- through gobEncodeItem (IsNil-guarded) instead. (The nested-nil matrix plants a nil *Link in url.)
  ("gobEncodeItemOrLink", "l.GobEncode()"),
  -- not an item helper of the property (path containment of IRIs)
  ("IRI.ItemsMatch", "it.GetLink()"),
  -- inside the `IsIRI(it)` branch: the receiver is an IRI value
  ("IsNil", "it.GetLink()"),
  -- `it` ranges over `rec`, which only ever holds IRIs appended by the function itself
  ("ItemCollectionDeduplication", "it.GetID()"),
  -- results of JSONGetURIItem compared with nil: decoders never produce typed nils
  ("JSONLoadLink", "href.GetLink()"), ("JSONLoadLink", "rel.GetLink()"),
  -- unexported, called by CopyItemProperties after its IsNil guards on both arguments
  ("copyAllItemProperties", "to.GetType()"),
  -- `it` was just created by ItemTyperFunc and its error checked
  ("gobDecodeItem", "it.GetType()"),
  -- unexported, called by ItemsEqual after its IsNil guards on both arguments
  ("itemsNeedSwapping", "i1.GetType()"), ("itemsNeedSwapping", "i2.GetType()")
]

/-- Every method call on an interface-typed item expression anywhere in the package is dominated by
an `IsNil` check of that expression, or is one of the reviewed calls. -/
theorem C20_nil_discipline :
    nilFindings.all (fun f => reviewed.contains (f.1, f.2.1)) = true := by decide

/-- the helpers the property names (On*/To* family incl. the collection-interface one, flattening,
recipient cleaning, dereferencing, ordering, collection Contains/Append/Remove, both encoders,
equality, emptiness, collection paths). -/
def inScope : List String := [
  "IsNil", "NotEmpty", "ItemsEqual", "IsObject", "IsLink", "IsIRI", "IsIRIs", "IsItemCollection",
  "OnLink", "OnObject", "OnActivity", "OnIntransitiveActivity", "OnQuestion", "OnActor", "OnItemCollection", "OnIRIs",
  "OnCollectionIntf", "OnCollection", "OnCollectionPage", "OnOrderedCollection", "OnOrderedCollectionPage",
  "OnPlace", "OnProfile", "OnRelationship", "OnTombstone", "OnItem",
  "ToLink", "ToObject", "ToActivity", "ToIntransitiveActivity", "ToQuestion", "ToActor", "ToItemCollection", "ToIRIs",
  "ToCollection", "ToCollectionPage", "ToOrderedCollection", "ToOrderedCollectionPage",
  "ToPlace", "ToProfile", "ToRelationship", "ToTombstone",
  "Flatten", "FlattenToIRI", "FlattenProperties", "FlattenItemCollection", "FlattenActivityProperties",
  "FlattenIntransitiveActivityProperties", "FlattenObjectProperties", "FlattenActorProperties",
  "CleanRecipients", "DerefItem", "ItemOrderTimestamp", "ItemCollectionDeduplication",
  "ItemCollection.Contains", "ItemCollection.Append", "ItemCollection.Remove", "IRIs.Contains", "IRIs.Append",
  "Collection.Contains", "Collection.Append", "OrderedCollection.Contains", "OrderedCollection.Append",
  "CollectionPage.Contains", "CollectionPage.Append", "OrderedCollectionPage.Contains", "OrderedCollectionPage.Append",
  "MarshalJSON", "GobEncode", "gobEncodeItem", "JSONWriteItemProp", "JSONWriteItemCollectionValue", "JSONWriteItemCollectionProp",
  "CopyItemProperties", "CollectionPath.IRI", "CollectionPath.Of", "CollectionPath.AddTo"
]

/-- every helper the property names was covered by the scan (none was renamed away from it). -/
theorem C20_scope : nilScannedInScope = inScope := by decide

/-- On the value model: the nil item, a nil pointer to any of the 14 struct types, a nil item list and
a nil IRI list are all nil-like; no struct value, list or non-empty IRI is. -/
theorem C20_isNilLike :
    Item.isNilLike .nil = true ∧ (∀ k, Item.isNilLike (.typedNil k) = true) ∧
    (∀ p, Item.isNilLike (.collNil p) = true) ∧ Item.isNilLike .irisNil = true ∧
    (∀ k p fs, Item.isNilLike (.node k p fs) = false) ∧ (∀ p l, Item.isNilLike (.coll p l) = false) ∧
    (∀ l, Item.isNilLike (.iris l) = false) := by
  simp [Item.isNilLike]

end APModel.Nil
