package main

import (
	"bytes"
	"encoding/json"
	"fmt"
	"os"
	"path/filepath"
	"reflect"
	"sort"
	"strings"
	"time"

	ap "github.com/go-ap/activitypub"
)

// C05 — decoding reads what the document says, and re-encoding is a fixpoint.
//
// Documents are written by THIS file from the value trees (struct tags give the terms), with
// presentation choices made by the RNG, and serialised by encoding/json: nothing of the library's
// encoder is involved in producing them.

func termOf(goType, field string) string {
	f, ok := goTypes[goType].FieldByName(field)
	if !ok {
		return ""
	}
	tag := f.Tag.Get("jsonld")
	return strings.Split(tag, ",")[0]
}

func subTerm(rt reflect.Type, field string) string {
	if rt.Kind() == reflect.Ptr {
		rt = rt.Elem()
	}
	f, ok := rt.FieldByName(field)
	if !ok {
		return ""
	}
	return strings.Split(f.Tag.Get("jsonld"), ",")[0]
}

// xsd:duration of a whole number of seconds, written independently of the library
func xsdDuration(ns int64) string {
	neg := ns < 0
	if neg {
		ns = -ns
	}
	s := ns / 1e9
	d, h, m, sec := s/86400, (s%86400)/3600, (s%3600)/60, s%60
	out := "P"
	if d > 0 {
		out += fmt.Sprintf("%dD", d)
	}
	if h > 0 || m > 0 || sec > 0 || d == 0 {
		out += "T"
		if h > 0 {
			out += fmt.Sprintf("%dH", h)
		}
		if m > 0 {
			out += fmt.Sprintf("%dM", m)
		}
		if sec > 0 || (h == 0 && m == 0) {
			out += fmt.Sprintf("%dS", sec)
		}
	}
	if neg {
		out = "-" + out
	}
	return out
}

// jLeaf: a scalar of the document that the deep model carries as a token (number, boolean, instant,
// duration): marshals as its text, and is sent to the model as the token.
type jLeaf struct {
	tok  T
	text interface{}
}

func (l jLeaf) MarshalJSON() ([]byte, error) { return json.Marshal(l.text) }

// toJ: the document as the JSON tree the deep model reads (members in encoding/json's order: sorted)
func toJ(x interface{}) interface{} {
	switch v := x.(type) {
	case nil:
		return T{"null": true}
	case string:
		return T{"str": v}
	case jLeaf:
		return T{"leaf": v.tok}
	case []interface{}:
		out := []interface{}{}
		for _, e := range v {
			out = append(out, toJ(e))
		}
		return T{"arr": out}
	case map[string]interface{}:
		keys := make([]string, 0, len(v))
		for k := range v {
			keys = append(keys, k)
		}
		sort.Strings(keys)
		out := []interface{}{}
		for _, k := range keys {
			out = append(out, []interface{}{k, toJ(v[k])})
		}
		return T{"obj": out}
	}
	return T{"null": true}
}

type presenter struct {
	r     *RNG
	stats map[string]int
}

func (p *presenter) count(k string) { p.stats[k]++ }

// item in a single-item or list-member position
func (p *presenter) item(tr interface{}) interface{} {
	m, ok := tr.(T)
	if !ok || tr == nil {
		return nil
	}
	if s, ok := m["iri"]; ok {
		p.count("item/iri-string")
		return s
	}
	if l, ok := m["iris"]; ok {
		out := []interface{}{}
		for _, s := range asList(l) {
			out = append(out, s)
		}
		p.count("item/array")
		return out
	}
	if l, ok := m["items"]; ok {
		out := []interface{}{}
		for _, x := range asList(l) {
			out = append(out, p.item(x))
		}
		p.count("item/array")
		return out
	}
	p.count("item/embedded-object")
	return p.object(m)
}

func (p *presenter) nlv(doc map[string]interface{}, term string, v interface{}) {
	l := asList(v)
	if len(l) == 0 {
		return
	}
	if len(l) == 1 {
		e := asList(l[0])
		if e[0].(string) == "-" {
			doc[term] = e[1]
			p.count("text/plain-string")
			return
		}
	}
	mp := map[string]interface{}{}
	for _, x := range l {
		e := asList(x)
		mp[e[0].(string)] = e[1]
	}
	doc[term+"Map"] = mp
	p.count(fmt.Sprintf("text/language-map-%d", len(l)))
}

func (p *presenter) field(doc map[string]interface{}, term string, kind string, v interface{}, rt reflect.Type) {
	m, _ := v.(T)
	switch kind {
	case "item":
		doc[term] = p.item(v)
	case "items":
		l := asList(m["list"])
		if len(l) == 1 && p.r.Chance(40) {
			doc[term] = p.item(l[0]) // a single value instead of a one-element array
			p.count("list/bare-single")
			return
		}
		out := []interface{}{}
		for _, x := range l {
			out = append(out, p.item(x))
		}
		doc[term] = out
		p.count("list/array")
	case "nlv":
		p.nlv(doc, term, m["nlv"])
	case "time":
		t := asList(m["time"])
		off := int(num(t[2]))
		off -= off % 60 // RFC 3339 spells offsets to the minute: an independent writer states the instant in such a zone
		tm := time.Unix(int64(num(t[0])), int64(num(t[1]))).In(time.FixedZone("", off))
		doc[term] = jLeaf{T{"time": []interface{}{int64(num(t[0])), 0, 0}}, tm.Format(time.RFC3339Nano)}
		if num(t[2]) != 0 {
			p.count("time/zoned")
		} else {
			p.count("time/utc")
		}
	case "duration":
		doc[term] = jLeaf{T{"dur": int64(num(m["dur"]))}, xsdDuration(int64(num(m["dur"])))}
	case "string":
		doc[term] = m["s"]
	case "float":
		doc[term] = jLeaf{T{"dec6": int64(num(m["dec6"]))}, json.Number(fmt.Sprintf("%.6f", num(m["dec6"])/1e6))}
	case "int":
		doc[term] = jLeaf{T{"int": int64(num(m["int"]))}, json.Number(fmt.Sprintf("%d", int64(num(m["int"]))))}
	case "uint":
		doc[term] = jLeaf{T{"uint": int64(num(m["uint"]))}, json.Number(fmt.Sprintf("%d", int64(num(m["uint"]))))}
	case "bool":
		doc[term] = jLeaf{T{"bool": m["bool"]}, m["bool"]}
	case "source", "pubkey", "endpoints":
		sub := map[string]interface{}{}
		rec := m["rec"].(T)
		for _, k := range sortedKeys(rec) {
			st := rt
			if st.Kind() == reflect.Ptr {
				st = st.Elem()
			}
			sf, _ := st.FieldByName(k)
			p.field(sub, subTerm(rt, k), kindOfType(sf.Type), rec[k], sf.Type)
		}
		doc[term] = sub
	}
}

func (p *presenter) object(m T) map[string]interface{} {
	doc := map[string]interface{}{}
	typ := m["t"].(string)
	f, _ := m["f"].(T)
	for _, name := range sortedKeys(f) {
		sf, _ := goTypes[typ].FieldByName(name)
		p.field(doc, termOf(typ, name), fieldKind(typ, name), f[name], sf.Type)
	}
	return doc
}

func c05Present(r *RNG, tr T, stats map[string]int) []byte {
	b, _ := c05PresentJ(r, tr, stats)
	return b
}

// c05PresentJ: the document as bytes and as the JSON tree for the deep model
func c05PresentJ(r *RNG, tr T, stats map[string]int) ([]byte, interface{}) {
	p := &presenter{r: r, stats: stats}
	doc := p.object(tr)
	if r.Chance(50) {
		doc["@context"] = "https://www.w3.org/ns/activitystreams"
	}
	b, err := json.Marshal(doc)
	if err != nil {
		panic(err)
	}
	return b, toJ(doc)
}

// c05Fixpoint: decode(doc) = v1; b1 = encode(v1); v2 = decode(b1); b2 = encode(v2):  v2 == normal form of v1, b2 == b1.
// values decoded earlier, kept alive: a later decode must not disturb them
type keptValue struct {
	it   ap.Item
	dump interface{}
	doc  string
}

var c05Kept []keptValue

func c05CheckKept() string {
	for _, k := range c05Kept {
		var now interface{}
		if pan, msg := guard(func() { now = dumpItem(k.it) }); pan {
			return "panic inspecting a value decoded earlier: " + msg
		}
		if d := firstDiff("", normTree(k.dump), normTree(now)); d != "" {
			return "a value decoded earlier changed after later decode/encode calls, at " + d + "   its document: " + k.doc
		}
	}
	return ""
}

func c05Fixpoint(doc []byte) (v1dump interface{}, viol string) {
	defer func() {
		if viol == "" {
			viol = c05CheckKept()
		}
	}()
	var v1, v2 ap.Item
	var b1, b2 []byte
	var err error
	if pan, msg := guard(func() { v1, err = ap.UnmarshalJSON(doc) }); pan {
		return nil, "panic in UnmarshalJSON: " + msg
	}
	if err != nil {
		return nil, "decode-error: " + err.Error()
	}
	v1dump = dumpItem(v1)
	c05Kept = append(c05Kept, keptValue{v1, v1dump, string(doc)})
	if len(c05Kept) > 8 {
		c05Kept = c05Kept[1:]
	}
	if pan, msg := guard(func() { b1, err = ap.MarshalJSON(v1) }); pan {
		return v1dump, "panic in MarshalJSON of the decoded value: " + msg
	}
	if err != nil {
		return v1dump, "MarshalJSON of the decoded value: " + err.Error()
	}
	if len(b1) == 0 {
		return v1dump, ""
	}
	if pan, msg := guard(func() { v2, err = ap.UnmarshalJSON(b1) }); pan {
		return v1dump, "panic decoding the re-encoded value: " + msg
	}
	if err != nil {
		return v1dump, "re-decode error: " + err.Error() + " on " + string(b1)
	}
	if d := firstDiff("", normJSON(v1dump), dropEmpties(dumpItem(v2))); d != "" {
		return v1dump, "decode(encode(v)) differs from the decoded value v at " + d + "   re-encoded: " + string(b1)
	}
	if pan, msg := guard(func() { b2, err = ap.MarshalJSON(v2) }); pan || err != nil {
		return v1dump, "second MarshalJSON failed: " + msg
	}
	if !bytes.Equal(b1, b2) {
		return v1dump, "the encoded bytes still change: " + string(b1) + "  then  " + string(b2)
	}
	return v1dump, ""
}

func c05Case(c *Ctx, tr T, doc []byte, tag string) {
	v1, viol := c05Fixpoint(doc)
	in := map[string]interface{}{"op": "docDecode", "v": tr, "doc": string(doc)}
	var shown interface{}
	if v1 != nil {
		shown = dropEmpties(v1)
	}
	c.Emit(in, shown, true)
	c.Tag(tag)
	if viol == "" && v1 != nil {
		if d := firstDiff("", normDoc(tr), dropEmpties(v1)); d != "" {
			viol = "decoded value differs from what the document says at " + d + "   (left: document's value, right: decoded)   document: " + string(doc)
		}
	}
	if viol != "" {
		cls := "C05/decode"
		if strings.HasPrefix(viol, "panic") {
			cls = "C05/panic"
		} else if strings.Contains(viol, "differs from what the document says at ") {
			i := strings.Index(viol, " at ")
			cls = "C05/" + tr["t"].(string) + "." + diffField(viol[i+4:])
		} else if strings.Contains(viol, "bytes still change") || strings.Contains(viol, "decode(encode(v))") {
			cls = "C05/fixpoint"
		}
		c.Fail(cls, viol, map[string]interface{}{"doc": string(doc), "v": tr})
	}
}

// structure-preserving mutations of a mock document: member order reversed, one member dropped,
// a single value wrapped into a one-element array
func c05Mutations(r *RNG, doc []byte) [][]byte {
	var m map[string]json.RawMessage
	if json.Unmarshal(doc, &m) != nil {
		return nil
	}
	keys := make([]string, 0, len(m))
	for k := range m {
		keys = append(keys, k)
	}
	sort.Strings(keys)
	var out [][]byte
	write := func(ks []string, repl map[string]json.RawMessage) {
		var b bytes.Buffer
		b.WriteByte('{')
		for i, k := range ks {
			if i > 0 {
				b.WriteByte(',')
			}
			kb, _ := json.Marshal(k)
			b.Write(kb)
			b.WriteByte(':')
			if v, ok := repl[k]; ok {
				b.Write(v)
			} else {
				b.Write(m[k])
			}
		}
		b.WriteByte('}')
		out = append(out, b.Bytes())
	}
	rev := make([]string, len(keys))
	for i, k := range keys {
		rev[len(keys)-1-i] = k
	}
	write(rev, nil)
	if len(keys) > 2 {
		drop := keys[r.Intn(len(keys))]
		if drop != "type" && drop != "id" {
			var ks []string
			for _, k := range keys {
				if k != drop {
					ks = append(ks, k)
				}
			}
			write(ks, nil)
		}
	}
	for _, k := range keys {
		if k == "to" || k == "cc" || k == "tag" || k == "attachment" || k == "inReplyTo" {
			v := bytes.TrimSpace(m[k])
			if len(v) > 0 && v[0] != '[' {
				write(keys, map[string]json.RawMessage{k: append(append([]byte{'['}, v...), ']')})
			}
		}
	}
	return out
}

func init() {
	campaigns["C05"] = func(c *Ctx) {
		c.Rule = "documents are produced by the harness from value trees generated type-directed over the whole vocabulary (same generator and covering set as C01: every struct x field x value shape, then random trees of depth <= 2/3), using the struct tags for the terms and RNG-chosen presentations (IRI string / embedded object / array; bare single value instead of a one-element array in list positions; plain string vs <term>Map language map, single-entry maps included; RFC 3339 instants with zones; xsd durations written by the harness; @context member present or not), serialised by encoding/json. (1) decoded value == the document's value under the normal form; (2) v2 = decode(encode(v1)) equals v1 under the normal form, encode(v2) == encode(v1) byte for byte; (3) the last 8 decoded values are kept alive and re-inspected after every later decode: they must not change. Plus every file of tests/mocks and structure-preserving mutations of it (member order, dropped member, single value wrapped in an array): clause (2) only, and the jsonRoundTrip correspondence on the decoded value."
		stats := map[string]int{}
		emit := func(c *Ctx, tr interface{}, tag string) {
			m := sortNLVs(tr).(T) // a language map is unordered; encoding/json writes it sorted by tag
			doc, jt := c05PresentJ(c.R, m, stats)
			c05Case(c, m, doc, tag)
			// the same document through the deep model's reader
			if v1, err := ap.UnmarshalJSON(doc); err == nil {
				var shown interface{}
				if d := dumpItem(v1); d != nil {
					shown = dropEmpties(d)
				}
				c.Emit(map[string]interface{}{"op": "deepRead", "j": jt}, shown, false)
			}
		}
		c01Cover(c, emit)
		cfg := c01Cfg(c.N(2, 3))
		for i := 0; i < c.N(2500, 60000); i++ {
			typ := allGoTypes[c.R.Intn(len(allGoTypes))]
			tr := cfg.genNode(c.R, typ, cfg.MaxDepth, false)
			tr["ptr"] = true
			emit(c, tr, "random/"+typ)
		}
		for k, v := range stats {
			c.tags["presentation/"+k] += v
		}
		// the repository's mock documents
		files, _ := filepath.Glob(filepath.Join(repoDir(), "tests", "mocks", "*.json"))
		sort.Strings(files)
		for _, f := range files {
			doc, err := os.ReadFile(f)
			if err != nil {
				continue
			}
			docs := append([][]byte{doc}, c05Mutations(c.R, doc)...)
			for i, d := range docs {
				v1, viol := c05Fixpoint(d)
				tag := "mock"
				if i > 0 {
					tag = "mock-mutation"
				}
				c.Tag(tag)
				if v1 != nil {
					// the decoded value through C01's correspondence op
					after, _, _ := jsonRoundTrip(v1)
					var shown interface{}
					if after != nil {
						shown = dropEmpties(after)
					}
					c.Emit(map[string]interface{}{"op": "jsonRoundTrip", "v": v1}, shown, true)
				} else {
					c.Count(map[string]interface{}{"doc": string(d)}, true)
				}
				if viol != "" && !strings.HasPrefix(viol, "decode-error") {
					c.Fail("C05/mock:"+filepath.Base(f), viol, map[string]interface{}{"doc": string(d)})
				}
			}
		}
	}
	replayers["C05"] = func(class string, input []byte) string {
		var in map[string]interface{}
		if err := json.Unmarshal(input, &in); err != nil {
			return "bad replay input"
		}
		doc := []byte(in["doc"].(string))
		v1, viol := c05Fixpoint(doc)
		if viol == "" && in["v"] != nil && v1 != nil {
			tr := parseTree(in["v"])
			if d := firstDiff("", normDoc(tr), dropEmpties(v1)); d != "" {
				viol = "decoded value differs from what the document says at " + d
			}
		}
		return viol
	}
}

func repoDir() string {
	if d := os.Getenv("VERIF_REPO"); d != "" {
		return d
	}
	return "/repo"
}

// normDoc: what a document says, as a value: the normal form of C01 except that nothing went through
// the encoder yet, so a lone language-tagged value keeps its tag.
func normDoc(tr interface{}) interface{} {
	keepLoneTag = true
	defer func() { keepLoneTag = false }()
	return normJSON(tr)
}

// sortNLVs returns the tree with every multi-language value sorted by tag.
func sortNLVs(x interface{}) interface{} {
	switch v := x.(type) {
	case T:
		out := T{}
		for k, e := range v {
			if k == "nlv" {
				l := append([]interface{}{}, asList(e)...)
				sort.SliceStable(l, func(i, j int) bool { return asList(l[i])[0].(string) < asList(l[j])[0].(string) })
				out[k] = l
			} else {
				out[k] = sortNLVs(e)
			}
		}
		return out
	case []interface{}:
		out := make([]interface{}, len(v))
		for i, e := range v {
			out[i] = sortNLVs(e)
		}
		return out
	}
	return x
}
