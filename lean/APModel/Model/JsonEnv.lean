/-
The byte-level JSON writer instantiated with what is regenerated from the source: the write tables
(`Generated/Codec.lean`) and the statement forms and statement order of every struct writer
(`Generated/WriteForms.lean`).
-/
import APModel.Model.JsonRender
import APModel.Model.DeepEnv
import APModel.Model.Text
import APModel.Generated.WriteForms

namespace APModel.JRender
open APModel APModel.Codec APModel.Deep APModel.JBytes APModel.Generated

/-- the statements of a writer with its delegations spliced in where they are called: (term, form) in
the order the code runs them -/
def flatEvents (T : List (String × List (String × String × String))) : Nat → String → List (String × String)
  | 0, _ => []
  | n + 1, fn =>
    match T.find? (fun e => e.1 == fn) with
    | none => []
    | some e => e.2.flatMap (fun ev => if ev.1 == "row" then [(ev.2.1, ev.2.2)] else flatEvents T n ev.2.1)

/-- the delegation statements reachable from a writer: (function, position in its body, delegate, form) -/
def delEvents (T : List (String × List (String × String × String))) : List (String × Nat × String × String) :=
  T.flatMap (fun e => (e.2.zipIdx.filter (fun p => p.1.1 == "del")).map (fun p => (e.1, p.2, p.1.2.1, p.1.2.2)))

def topFn (sn : String) : String := ((jsonEntries.find? (fun e => e.1 == sn)).map (·.2.1)).getD ""

def formOfTerm (sn term : String) : Form :=
  match (flatEvents writeEvents 5 (topFn sn)).find? (fun e => e.1 == term) with
  | some e => (Form.parse e.2).getD .call
  | none => .call

/-- the form of the statement that writes a field of a struct -/
def envForms : Forms := fun sn n =>
  match envJson.wrow sn n with
  | some w => formOfTerm sn w.term
  | none => .call

/-- the fields of a struct in the order its writer visits them -/
def fieldOrder (sn : String) : List String :=
  (flatEvents writeEvents 5 (topFn sn)).filterMap (fun e => ((jsonW sn).find? (fun w => w.term == e.1)).map (·.field))

/-- the string writer of the library (`stringBytes`, `Model/Text`) on bytes -/
def qText (s : Str) : Buf := (Text.writeText (s.map (·.toNat))).map UInt8.ofNat

/-- every write row of every struct -/
def allWRows : List WRow := jsonEntries.flatMap (fun e => jsonW e.1)

def plainTerm (t : String) : Bool :=
  !(nm t).isEmpty && qText (nm t) == [34] ++ nm t ++ [34]

end APModel.JRender
