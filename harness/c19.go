package main

import (
	"bytes"
	"encoding/json"
	"fmt"

	ap "github.com/go-ap/activitypub"
)

// C19 — language-value containers as ordered maps.

var c19Tags = []string{"en", "fr", "-", ""}
var c19Texts = []string{"a", "b", ""}

type nlvCase struct {
	Init [][2]string `json:"init"`
	Ops  [][]string  `json:"ops"`
}

func mkNLV(init [][2]string) ap.NaturalLanguageValues {
	n := make(ap.NaturalLanguageValues, 0, len(init))
	for _, e := range init {
		n = append(n, ap.LangRefValue{Ref: ap.LangRef(e[0]), Value: ap.Content(e[1])})
	}
	return n
}

func dumpNLVPairs(n ap.NaturalLanguageValues) [][2]string {
	out := make([][2]string, 0, len(n))
	for _, e := range n {
		out = append(out, [2]string{string(e.Ref), string(e.Value)})
	}
	return out
}

func cloneNLV(n ap.NaturalLanguageValues) ap.NaturalLanguageValues {
	c := make(ap.NaturalLanguageValues, len(n))
	for i, e := range n {
		c[i] = ap.LangRefValue{Ref: e.Ref, Value: append(ap.Content{}, e.Value...)}
	}
	return c
}

func firstWith(n ap.NaturalLanguageValues, tag string) (ap.Content, bool) {
	for _, e := range n {
		if string(e.Ref) == tag {
			return e.Value, true
		}
	}
	return nil, false
}

// runNLVCase runs the history on the implementation, returns the canonical result for the
// correspondence and the first violated clause of C19 ("" if none).
func runNLVCase(cs nlvCase) (res map[string]interface{}, violated string) {
	n := mkNLV(cs.Init)
	outs := make([]interface{}, 0, len(cs.Ops))
	pan, msg := guard(func() {
		for _, op := range cs.Ops {
			// comparing is an observation: asked between any two calls, in the order the list has and against
			// the reversed order, it says "equal" for the same pairs and leaves both lists as they were
			if violated == "" && len(n) > 0 {
				snap, other := cloneNLV(n), cloneNLV(n)
				rev := cloneNLV(n)
				for i, j := 0, len(rev)-1; i < j; i, j = i+1, j-1 {
					rev[i], rev[j] = rev[j], rev[i]
				}
				revSnap := cloneNLV(rev)
				eq1, eq2 := n.Equals(other), n.Equals(rev)
				switch {
				case !sameEntries(snap, n):
					violated = fmt.Sprintf("Equals changed the list it was called on: %v became %v", dumpNLVPairs(snap), dumpNLVPairs(n))
				case !sameEntries(snap, other) || !sameEntries(revSnap, rev):
					violated = "Equals changed its argument"
				case !eq1 || !eq2:
					violated = fmt.Sprintf("a list does not compare equal to a list of the same pairs (same order: %v, reversed: %v): %v", eq1, eq2, dumpNLVPairs(snap))
				}
			}
			before := cloneNLV(n)
			switch op[0] {
			case "get":
				got := n.Get(ap.LangRef(op[1]))
				want, found := firstWith(before, op[1])
				if found != (got != nil) || (found && !bytes.Equal(got, want)) {
					if violated == "" {
						violated = fmt.Sprintf("Get(%q) = %q, first entry with that tag is %q (found=%v)", op[1], got, want, found)
					}
				}
				if got == nil {
					outs = append(outs, nil)
				} else {
					outs = append(outs, string(got))
				}
			case "set":
				_ = n.Set(ap.LangRef(op[1]), ap.Content(op[2]))
				outs = append(outs, "ok")
				if violated == "" {
					violated = checkSet(before, n, op[1], op[2])
				}
			case "setget":
				// the text of one tag stored under another as well: Set(op[1], Get(op[2])) — the same bytes held twice
				v := n.Get(ap.LangRef(op[2]))
				if v == nil {
					outs = append(outs, "skip")
					break
				}
				want := string(v)
				_ = n.Set(ap.LangRef(op[1]), v)
				outs = append(outs, "ok")
				if violated == "" {
					violated = checkSet(before, n, op[1], want)
				}
			case "append":
				_ = n.Append(ap.LangRef(op[1]), ap.Content(op[2]))
				outs = append(outs, "ok")
				if violated == "" && (len(n) != len(before)+1 || string(n[len(n)-1].Ref) != op[1] || string(n[len(n)-1].Value) != op[2] || !sameEntries(before, n[:len(before)])) {
					violated = "Append did not add exactly one entry at the end"
				}
			case "add":
				n.Add(ap.LangRefValue{Ref: ap.LangRef(op[1]), Value: ap.Content(op[2])})
				outs = append(outs, "ok")
				if violated == "" && (len(n) != len(before)+1 || string(n[len(n)-1].Ref) != op[1] || string(n[len(n)-1].Value) != op[2] || !sameEntries(before, n[:len(before)])) {
					violated = "Add did not add exactly one entry at the end"
				}
			case "count":
				cnt := n.Count()
				outs = append(outs, cnt)
				if violated == "" && int(cnt) != len(n) {
					violated = fmt.Sprintf("Count() = %d with %d entries", cnt, len(n))
				}
			case "first":
				f := n.First()
				if f.Value == nil {
					outs = append(outs, []interface{}{string(f.Ref), nil})
				} else {
					outs = append(outs, []interface{}{string(f.Ref), string(f.Value)})
				}
				if violated == "" {
					if len(n) == 0 && (f.Ref != "" || f.Value != nil) {
						violated = "First() of an empty list is not the zero entry"
					}
					if len(n) > 0 && (f.Ref != n[0].Ref || !bytes.Equal(f.Value, n[0].Value)) {
						violated = "First() is not the first entry"
					}
				}
			}
		}
	})
	if pan {
		return map[string]interface{}{"panic": true}, "panic: " + msg
	}
	return map[string]interface{}{"outs": outs, "final": dumpNLVPairs(n)}, violated
}

func sameEntries(a, b ap.NaturalLanguageValues) bool {
	if len(a) != len(b) {
		return false
	}
	for i := range a {
		if a[i].Ref != b[i].Ref || !bytes.Equal(a[i].Value, b[i].Value) {
			return false
		}
	}
	return true
}

func checkSet(before, after ap.NaturalLanguageValues, tag, v string) string {
	if got := after.Get(ap.LangRef(tag)); got == nil || string(got) != v {
		return fmt.Sprintf("after Set(%q,%q) Get returns %q", tag, v, got)
	}
	if len(after) < len(before) || len(after) > len(before)+1 {
		return fmt.Sprintf("Set changed the length from %d to %d", len(before), len(after))
	}
	for i, e := range before {
		if after[i].Ref != e.Ref {
			return "Set changed the order of entries"
		}
		if string(e.Ref) != tag && !bytes.Equal(after[i].Value, e.Value) {
			return fmt.Sprintf("Set(%q) changed the text of tag %q", tag, e.Ref)
		}
	}
	for _, t := range c19Tags {
		if t == tag {
			continue
		}
		b, fb := firstWith(before, t)
		a, fa := firstWith(after, t)
		if fb != fa || !bytes.Equal(a, b) {
			return fmt.Sprintf("Set(%q) changed Get(%q)", tag, t)
		}
	}
	return ""
}

func nlvOpsAlphabet() [][]string {
	var ops [][]string
	for _, t := range c19Tags {
		ops = append(ops, []string{"get", t})
	}
	for _, t := range c19Tags {
		for _, v := range c19Texts {
			ops = append(ops, []string{"set", t, v})
		}
	}
	for _, t := range c19Tags {
		for _, v := range c19Texts {
			ops = append(ops, []string{"append", t, v})
		}
	}
	ops = append(ops, []string{"count"}, []string{"first"})
	return ops
}

func hasRepeatedTags(l [][2]string) bool {
	seen := map[string]bool{}
	for _, e := range l {
		if seen[e[0]] {
			return true
		}
		seen[e[0]] = true
	}
	return false
}

func samePairs(a, b [][2]string) bool {
	in := func(e [2]string, l [][2]string) bool {
		for _, x := range l {
			if x == e {
				return true
			}
		}
		return false
	}
	for _, e := range a {
		if !in(e, b) {
			return false
		}
	}
	for _, e := range b {
		if !in(e, a) {
			return false
		}
	}
	return true
}

func c19EqualsCase(c *Ctx, a, b [][2]string) {
	var got bool
	pan, msg := guard(func() { got = mkNLV(a).Equals(mkNLV(b)) })
	in := map[string]interface{}{"op": "nlvEquals", "a": a, "b": b}
	if pan {
		c.Emit(in, "panic", true)
		c.Fail("C19/equals-panic", msg, in)
		return
	}
	c.Emit(in, got, len(a)+len(b) > 0)
	if !hasRepeatedTags(a) && !hasRepeatedTags(b) {
		c.Tag("equals/no-repeats")
		if want := samePairs(a, b); got != want {
			cls := "C19/equals"
			c.Fail(cls, fmt.Sprintf("Equals = %v but same-pairs = %v", got, want), in)
		}
	} else {
		c.Tag("equals/repeats(correspondence only)")
	}
}

func c19History(c *Ctx, cs nlvCase) {
	res, viol := runNLVCase(cs)
	in := map[string]interface{}{"op": "nlv", "init": cs.Init, "ops": cs.Ops}
	c.Emit(in, res, len(cs.Ops) > 0)
	for _, op := range cs.Ops {
		c.Tag("op/" + op[0])
	}
	if viol != "" {
		c.Fail("C19/history", viol, in)
	}
}

func init() {
	campaigns["C19"] = func(c *Ctx) {
		ops := nlvOpsAlphabet()
		maxLen := c.N(3, 4)
		c.Rule = fmt.Sprintf("histories: all sequences of length <= %d over %d operations (3 tags incl. '-', 3 texts incl. empty) from the empty list, then random histories up to length 12 from random initial lists; equality: all ordered pairs of lists with <= 3 entries without repeated tags over the same alphabet, plus random pairs with repeated tags (correspondence only). Non-trivial = at least one operation / at least one entry; distinct = by request hash.", maxLen, len(ops))
		// exhaustive histories
		var rec func(prefix [][]string, depth int)
		rec = func(prefix [][]string, depth int) {
			c19History(c, nlvCase{Init: [][2]string{}, Ops: append([][]string{}, prefix...)})
			if depth == maxLen {
				return
			}
			for _, op := range ops {
				rec(append(prefix, op), depth+1)
			}
		}
		rec(nil, 0)
		// random longer histories, from random initial lists (possibly with repeated tags), incl. add
		for i := 0; i < c.N(3000, 60000); i++ {
			var init [][2]string
			for k := c.R.Intn(4); k > 0; k-- {
				init = append(init, [2]string{c.R.Pick(c19Tags), c.R.Pick(c19Texts)})
			}
			if init == nil {
				init = [][2]string{}
			}
			var h [][]string
			for k := 1 + c.R.Intn(12); k > 0; k-- {
				op := ops[c.R.Intn(len(ops))]
				if op[0] == "append" && c.R.Bool() {
					op = []string{"add", op[1], op[2]}
				}
				h = append(h, op)
			}
			c19History(c, nlvCase{Init: init, Ops: h})
		}
		// texts held twice (Set(t2, Get(t1))) and then replaced by longer and shorter ones: judged by the oracle only
		// (the model's operations carry their texts; which text a "setget" stores is known at run time)
		for i := 0; i < c.N(1500, 30000); i++ {
			var h [][]string
			texts := []string{"hello", "hi", "salut tout le monde", "x", ""}
			for k := 2 + c.R.Intn(10); k > 0; k-- {
				switch c.R.Intn(4) {
				case 0:
					h = append(h, []string{"setget", c.R.Pick(c19Tags), c.R.Pick(c19Tags)})
				case 1:
					h = append(h, []string{"get", c.R.Pick(c19Tags)})
				default:
					h = append(h, []string{"set", c.R.Pick(c19Tags), c.R.Pick(texts)})
				}
			}
			cs := nlvCase{Init: [][2]string{}, Ops: h}
			_, viol := runNLVCase(cs)
			in := map[string]interface{}{"op": "nlv", "init": cs.Init, "ops": cs.Ops}
			c.Count(in, true)
			c.Tag("op/setget-histories")
			if viol != "" {
				c.Fail("C19/history", viol, in)
			}
		}
		// equality: all pairs of lists without repeated tags, <= 3 entries
		var lists [][][2]string
		var gen func(cur [][2]string, used map[string]bool)
		gen = func(cur [][2]string, used map[string]bool) {
			lists = append(lists, append([][2]string{}, cur...))
			if len(cur) == 3 {
				return
			}
			for _, t := range c19Tags {
				if used[t] {
					continue
				}
				used[t] = true
				for _, v := range c19Texts {
					gen(append(cur, [2]string{t, v}), used)
				}
				used[t] = false
			}
		}
		gen([][2]string{}, map[string]bool{})
		for _, a := range lists {
			for _, b := range lists {
				c19EqualsCase(c, a, b)
			}
		}
		for i := 0; i < c.N(2000, 40000); i++ {
			mk := func() [][2]string {
				l := [][2]string{}
				for k := c.R.Intn(5); k > 0; k-- {
					l = append(l, [2]string{c.R.Pick(c19Tags), c.R.Pick(c19Texts)})
				}
				return l
			}
			c19EqualsCase(c, mk(), mk())
		}
		c.Exhaust = true
		c.Notes = append(c.Notes, fmt.Sprintf("exhaustive part: %d lists without repeated tags -> %d ordered pairs; histories to length %d", len(lists), len(lists)*len(lists), maxLen))
	}
	replayers["C19"] = func(class string, input []byte) string {
		var in struct {
			Op   string      `json:"op"`
			Init [][2]string `json:"init"`
			Ops  [][]string  `json:"ops"`
			A    [][2]string `json:"a"`
			B    [][2]string `json:"b"`
		}
		if err := json.Unmarshal(input, &in); err != nil {
			return "bad replay input: " + err.Error()
		}
		if in.Op == "nlvEquals" {
			var got bool
			if pan, msg := guard(func() { got = mkNLV(in.A).Equals(mkNLV(in.B)) }); pan {
				return "panic: " + msg
			}
			if !hasRepeatedTags(in.A) && !hasRepeatedTags(in.B) && got != samePairs(in.A, in.B) {
				return fmt.Sprintf("Equals = %v but same-pairs = %v", got, !got)
			}
			return ""
		}
		_, viol := runNLVCase(nlvCase{Init: in.Init, Ops: in.Ops})
		return viol
	}
}
