package main

import (
	"bytes"
	"encoding/json"
	"fmt"
	"os"
	"os/exec"
	"reflect"
	"regexp"
	"sort"
	"strings"
	"sync"

	ap "github.com/go-ap/activitypub"
)

// C12 — read-only operations never modify their arguments and are race-free.
//
// The oracle takes a deep snapshot of a value before an operation — every byte of every []byte and
// string reachable from it, every slice up to its CAPACITY (spare capacity is planted with sentinels, so
// an append into a shared backing array shows), slice headers and pointer identities — and compares it
// with the snapshot after. The same operations then run from several goroutines on one shared value
// while others decode unrelated documents; each result must equal the sequential one (the thorough tier
// runs this under the race detector).

var reAddr = regexp.MustCompile(`0x[0-9a-f]+`) // Format prints addresses of temporaries

type roOp struct {
	name string
	run  func(it ap.Item, other ap.Item) string // canonical result
}

func c12Ops() []roOp {
	str := func(b []byte, err error) string {
		if err != nil {
			return "err:" + err.Error()
		}
		return string(b)
	}
	// gob writes a Go map, whose iteration order is random: compare what the bytes decode to
	gobCanon := func(b []byte, err error) string {
		if err != nil {
			return "err:" + err.Error()
		}
		if len(b) == 0 {
			return ""
		}
		v, err := ap.GobDecode(b)
		if err != nil {
			return "undecodable:" + err.Error()
		}
		return string(mustJSON(dumpItem(v)))
	}
	ops := []roOp{
		{"MarshalJSON(pkg)", func(it, _ ap.Item) string { return str(ap.MarshalJSON(it)) }},
		{"MarshalJSON(method)", func(it, _ ap.Item) string {
			if m, ok := it.(json.Marshaler); ok {
				return str(m.MarshalJSON())
			}
			return "-"
		}},
		{"GobEncode(pkg)", func(it, _ ap.Item) string { return gobCanon(ap.GobEncode(it)) }},
		{"GobEncode(method)", func(it, _ ap.Item) string {
			if m, ok := it.(interface{ GobEncode() ([]byte, error) }); ok {
				return gobCanon(m.GobEncode())
			}
			return "-"
		}},
		{"MarshalBinary", func(it, _ ap.Item) string {
			if m, ok := it.(interface{ MarshalBinary() ([]byte, error) }); ok {
				return gobCanon(m.MarshalBinary())
			}
			return "-"
		}},
		{"ItemsEqual(x,x)", func(it, _ ap.Item) string { return fmt.Sprint(ap.ItemsEqual(it, it)) }},
		{"ItemsEqual(x,y)", func(it, o ap.Item) string { return fmt.Sprint(ap.ItemsEqual(it, o), ap.ItemsEqual(o, it)) }},
		{"Format", func(it, _ ap.Item) string {
			return reAddr.ReplaceAllString(fmt.Sprintf("%v|%s|%+v|%#v", it, it, it, it), "0xADDR")
		}},
		{"inspect", func(it, _ ap.Item) string {
			return fmt.Sprint(ap.IsNil(it), ap.NotEmpty(it), ap.IsObject(it), ap.IsLink(it), ap.IsIRI(it), ap.IsIRIs(it), ap.IsItemCollection(it),
				it.GetID(), it.GetType(), it.GetLink(), it.IsObject(), it.IsLink(), it.IsCollection())
		}},
		{"DerefItem", func(it, _ ap.Item) string { return fmt.Sprint(len(ap.DerefItem(it))) }},
		{"lists: DerefItem/IsNil/Contains/Count/IRIs/encoders", func(it, _ ap.Item) string {
			var b strings.Builder
			_ = ap.OnObject(it, func(o *ap.Object) error {
				if o == nil {
					return nil
				}
				for _, l := range []ap.ItemCollection{o.To, o.CC, o.Bto, o.BCC, o.Tag, o.Audience} {
					if l == nil {
						continue
					}
					j, _ := l.MarshalJSON()
					fmt.Fprint(&b, len(ap.DerefItem(l)), len(ap.DerefItem(&l)), ap.IsNil(l), ap.IsItemCollection(l), l.Contains(ap.PublicNS), l.Count(), len(l.IRIs()),
						string(j), ap.ItemsEqual(l, l), l.GetLink(), l.IsCollection(), ";")
					_ = ap.OnItemCollection(l, func(c *ap.ItemCollection) error { fmt.Fprint(&b, len(*c)); return nil })
					_ = ap.OnCollectionIntf(l, func(c ap.CollectionInterface) error { fmt.Fprint(&b, c.Count()); return nil })
				}
				return nil
			})
			return b.String()
		}},
		{"On*(read)", func(it, _ ap.Item) string {
			var b strings.Builder
			_ = ap.OnObject(it, func(o *ap.Object) error {
				if o != nil { // a nil-like member of a list reaches the callback as a nil pointer
					fmt.Fprint(&b, "O:", o.ID, len(o.Name), len(o.To))
				}
				return nil
			})
			_ = ap.OnActor(it, func(a *ap.Actor) error {
				if a != nil {
					fmt.Fprint(&b, "A:", a.ID, len(a.PreferredUsername))
				}
				return nil
			})
			_ = ap.OnActivity(it, func(a *ap.Activity) error {
				if a != nil {
					fmt.Fprint(&b, "Act:", a.ID, ap.IsNil(a.Object))
				}
				return nil
			})
			_ = ap.OnIntransitiveActivity(it, func(a *ap.IntransitiveActivity) error {
				if a != nil {
					fmt.Fprint(&b, "I:", a.ID)
				}
				return nil
			})
			_ = ap.OnCollectionIntf(it, func(c ap.CollectionInterface) error { fmt.Fprint(&b, "C:", c.Count(), len(c.Collection())); return nil })
			_ = ap.OnLink(it, func(l *ap.Link) error {
				if l != nil {
					fmt.Fprint(&b, "L:", l.Href)
				}
				return nil
			})
			_ = ap.OnItemCollection(it, func(c *ap.ItemCollection) error { fmt.Fprint(&b, "IC:", len(*c)); return nil })
			return b.String()
		}},
		{"To*", func(it, _ ap.Item) string {
			var b strings.Builder
			if o, err := ap.ToObject(it); err == nil {
				fmt.Fprint(&b, "O:", o.ID)
			}
			if o, err := ap.ToActor(it); err == nil {
				fmt.Fprint(&b, "A:", o.ID)
			}
			if o, err := ap.ToActivity(it); err == nil {
				fmt.Fprint(&b, "Act:", o.ID)
			}
			if o, err := ap.ToLink(it); err == nil {
				fmt.Fprint(&b, "L:", o.ID)
			}
			if o, err := ap.ToOrderedCollection(it); err == nil {
				fmt.Fprint(&b, "OC:", o.ID)
			}
			return b.String()
		}},
		{"NaturalLanguageValues", func(it, _ ap.Item) string {
			var b strings.Builder
			_ = ap.OnObject(it, func(o *ap.Object) error {
				if o == nil {
					return nil
				}
				for _, n := range []ap.NaturalLanguageValues{o.Name, o.Summary, o.Content} {
					j, _ := n.MarshalJSON()
					t, _ := n.MarshalText()
					g, _ := n.GobEncode()
					fmt.Fprint(&b, string(j), string(t), len(g), n.String(), n.Count(), n.First().String(), n.Get("en"), n.Equals(n))
					for _, e := range n {
						ej, _ := e.MarshalJSON()
						et, _ := e.MarshalText()
						fmt.Fprint(&b, e.String(), string(ej), string(et), e.Equals(e), fmt.Sprintf("%s|%v|%q", e, e, e))
					}
				}
				return nil
			})
			return b.String()
		}},
		{"Recipients-free helpers", func(it, _ ap.Item) string {
			var b strings.Builder
			_ = ap.OnObject(it, func(o *ap.Object) error {
				if o == nil {
					return nil
				}
				fmt.Fprint(&b, o.To.Contains(ap.PublicNS), o.To.Count(), len(o.To.IRIs()), o.Tag.First() == nil)
				return nil
			})
			return b.String()
		}},
	}
	return ops
}

// ---------------------------------------------------------------- deep snapshot

type snapshot struct {
	lines []string
}

func (s *snapshot) add(path, what string) { s.lines = append(s.lines, path+" = "+what) }

func snap(v interface{}) *snapshot {
	s := &snapshot{}
	seen := map[uintptr]bool{}
	var walk func(path string, rv reflect.Value, depth int)
	walk = func(path string, rv reflect.Value, depth int) {
		if depth > 40 || !rv.IsValid() {
			return
		}
		switch rv.Kind() {
		case reflect.Interface:
			if rv.IsNil() {
				s.add(path, "nil-interface")
				return
			}
			s.add(path, "iface:"+rv.Elem().Type().String())
			walk(path, rv.Elem(), depth+1)
		case reflect.Ptr:
			if rv.IsNil() {
				s.add(path, "nil-ptr:"+rv.Type().String())
				return
			}
			s.add(path, fmt.Sprintf("ptr:%x", rv.Pointer()))
			if seen[rv.Pointer()] {
				return
			}
			seen[rv.Pointer()] = true
			walk(path+"*", rv.Elem(), depth+1)
		case reflect.Struct:
			if rv.Type().String() == "time.Time" {
				s.add(path, fmt.Sprint(rv.Interface()))
				return
			}
			for i := 0; i < rv.NumField(); i++ {
				if rv.Type().Field(i).PkgPath != "" {
					continue
				}
				walk(path+"."+rv.Type().Field(i).Name, rv.Field(i), depth+1)
			}
		case reflect.Slice:
			if rv.IsNil() {
				s.add(path, "nil-slice")
				return
			}
			s.add(path, fmt.Sprintf("slice:%x len=%d cap=%d", rv.Pointer(), rv.Len(), rv.Cap()))
			full := rv.Slice(0, rv.Cap()) // the whole backing array from this slice's start
			if rv.Type().Elem().Kind() == reflect.Uint8 {
				s.add(path+"[:cap]", hx(full.Bytes()))
				return
			}
			for i := 0; i < full.Len(); i++ {
				walk(fmt.Sprintf("%s[%d]", path, i), full.Index(i), depth+1)
			}
		case reflect.String:
			s.add(path, fmt.Sprintf("%q", rv.String()))
		case reflect.Map:
			keys := rv.MapKeys()
			sort.Slice(keys, func(i, j int) bool { return fmt.Sprint(keys[i]) < fmt.Sprint(keys[j]) })
			for _, k := range keys {
				walk(fmt.Sprintf("%s[%v]", path, k), rv.MapIndex(k), depth+1)
			}
		default:
			s.add(path, fmt.Sprint(rv.Interface()))
		}
	}
	walk("$", reflect.ValueOf(&v).Elem(), 0)
	return s
}

func (s *snapshot) diff(t *snapshot) string {
	for i := range s.lines {
		if i >= len(t.lines) {
			return "after the call the value is smaller: missing " + s.lines[i]
		}
		if s.lines[i] != t.lines[i] {
			return "before: " + s.lines[i] + "   after: " + t.lines[i]
		}
	}
	if len(t.lines) > len(s.lines) {
		return "after the call the value is larger: " + t.lines[len(s.lines)]
	}
	return ""
}

// plant spare capacity with sentinels in every slice of the value
func plantCapacity(it ap.Item) {
	sentinelItem := ap.IRI("https://sentinel.example/spare-capacity")
	var walk func(rv reflect.Value, depth int)
	walk = func(rv reflect.Value, depth int) {
		if depth > 40 || !rv.IsValid() {
			return
		}
		switch rv.Kind() {
		case reflect.Interface, reflect.Ptr:
			if !rv.IsNil() {
				walk(rv.Elem(), depth+1)
			}
		case reflect.Struct:
			if rv.Type().String() == "time.Time" {
				return
			}
			for i := 0; i < rv.NumField(); i++ {
				if rv.Type().Field(i).PkgPath == "" {
					walk(rv.Field(i), depth+1)
				}
			}
		case reflect.Slice:
			if rv.IsNil() || !rv.CanSet() {
				for i := 0; i < rv.Len(); i++ {
					walk(rv.Index(i), depth+1)
				}
				return
			}
			n := rv.Len()
			grown := reflect.MakeSlice(rv.Type(), n+3, n+3)
			reflect.Copy(grown, rv)
			for i := n; i < n+3; i++ {
				switch rv.Type().Elem().Kind() {
				case reflect.Uint8:
					grown.Index(i).SetUint(0xA5)
				case reflect.Interface:
					grown.Index(i).Set(reflect.ValueOf(sentinelItem))
				case reflect.String:
					grown.Index(i).SetString(string(sentinelItem))
				}
			}
			rv.Set(grown.Slice(0, n))
			for i := 0; i < n; i++ {
				walk(rv.Index(i), depth+1)
			}
		}
	}
	walk(reflect.ValueOf(&it).Elem(), 0)
}

func c12Value(c *Ctx, cfg *GenCfg) (T, ap.Item) {
	// a list as the shared value itself: an IRI list or an item list, by value or by pointer (a pointer to an IRI
	// list is what a caller holds who wants to append through the collection interface), with the nil-like
	// entries "" and "-" among the members
	if c.R.Chance(12) {
		var l []interface{}
		for k := c.R.Intn(5); k > 0; k-- {
			switch c.R.Intn(5) {
			case 0:
				l = append(l, "-")
			case 1:
				l = append(l, "")
			default:
				l = append(l, cfg.nextID("member"))
			}
		}
		var tr T
		if c.R.Bool() {
			tr = T{"iris": l, "ptr": c.R.Chance(70)}
		} else {
			var il []interface{}
			for _, s := range l {
				il = append(il, T{"iri": s})
			}
			tr = T{"items": il, "ptr": c.R.Chance(70)}
		}
		it := buildItem(tr)
		plantCapacity(it)
		return tr, it
	}
	// a collection whose first/last/current page is embedded by pointer, the page naming its parent by an embedded
	// object (a cached collection as a server holds it)
	if c.R.Chance(6) {
		kinds := []string{"Collection", "OrderedCollection", "CollectionPage", "OrderedCollectionPage"}
		k := kinds[c.R.Intn(len(kinds))]
		pageKind := "CollectionPage"
		if strings.HasPrefix(k, "Ordered") {
			pageKind = "OrderedCollectionPage"
		}
		parent := T{"t": "Collection", "ptr": true, "f": T{"ID": T{"s": cfg.nextID("parent")}, "Type": T{"s": "Collection"}, "Name": T{"nlv": []interface{}{[]interface{}{"en", "the parent"}}}}}
		page := func() T {
			return T{"t": pageKind, "ptr": true, "f": T{"ID": T{"s": cfg.nextID("page")}, "Type": T{"s": pageKind}, "PartOf": cloneTree(parent),
				"Next": T{"t": pageKind, "ptr": true, "f": T{"ID": T{"s": cfg.nextID("next")}, "Type": T{"s": pageKind}, "PartOf": cloneTree(parent)}}}}
		}
		f := T{"ID": T{"s": cfg.nextID("cached")}, "Type": T{"s": k}}
		for _, name := range []string{"First", "Last", "Current"} {
			if c.R.Chance(70) {
				f[name] = page()
			}
		}
		tr := T{"t": k, "ptr": true, "f": f}
		it := buildItem(tr)
		plantCapacity(it)
		return tr, it
	}
	typ := allGoTypes[c.R.Intn(len(allGoTypes))]
	tr := cfg.genNode(c.R, typ, cfg.MaxDepth, false)
	tr["ptr"] = true
	// nil-like members of other kinds in the lists: the empty IRI and the "-" IRI
	if f, ok := tr["f"].(T); ok {
		for _, name := range []string{"To", "Tag", "CC"} {
			if lm, ok := f[name].(T); ok && c.R.Chance(50) {
				l := asList(lm["list"])
				pos := c.R.Intn(len(l) + 1)
				blank := T{"iri": []string{"", "-"}[c.R.Intn(2)]}
				l = append(l[:pos], append([]interface{}{blank}, l[pos:]...)...)
				lm["list"] = l
			}
		}
	}
	// a value without any language reference ("" rather than "-") among several language values
	if f, ok := tr["f"].(T); ok {
		for _, name := range []string{"Name", "Summary", "Content"} {
			if nm, ok := f[name].(T); ok && c.R.Chance(40) {
				l := asList(nm["nlv"])
				if len(l) >= 2 {
					l2 := append([]interface{}{}, l...)
					e := asList(l2[c.R.Intn(len(l2))])
					l2[c.R.Intn(len(l2))] = []interface{}{"", e[1]}
					nm["nlv"] = l2
				}
			}
		}
	}
	it := buildItem(tr)
	plantCapacity(it)
	return tr, it
}

var c12Docs = [][]byte{
	[]byte(`{"type":"Note","id":"https://example.com/n/1","name":"one","content":"first \"text\"\n","to":["https://example.com/a","https://example.com/b"]}`),
	[]byte(`{"type":"Create","id":"https://example.com/c/1","actor":"https://example.com/~u","object":{"type":"Note","summaryMap":{"en":"x","fr":"y"}}}`),
	[]byte(`{"type":"Person","id":"https://example.com/~u","preferredUsername":"u","inbox":"https://example.com/~u/inbox"}`),
}

// c12FreshChild: many goroutines decode independent documents that name languages, types, terms and ids the
// process has never seen before (whatever the decoders remember between calls is written for the first
// time, concurrently).  A fatal runtime error (concurrent map writes) cannot be recovered: hence a child.
func c12FreshChild() {
	var wg sync.WaitGroup
	bad := make(chan string, 64)
	for g := 0; g < 8; g++ {
		wg.Add(1)
		go func(g int) {
			defer wg.Done()
			for i := 0; i < 300; i++ {
				tag := fmt.Sprintf("x%dq%d", g, i)
				doc := fmt.Sprintf(`{"id":"https://example.com/%s","type":"Note","nameMap":{"%s":"hello","%s-ZZ":"salut"},"url":{"type":"Link","href":"https://example.com/l","hrefLang":"%s"},"tag":[{"type":"Mention","name":"@%s"}]}`, tag, tag, tag, tag, tag)
				it, err := ap.UnmarshalJSON([]byte(doc))
				if err != nil {
					bad <- "error: " + err.Error()
					return
				}
				ok := false
				_ = ap.OnObject(it, func(o *ap.Object) error {
					if o == nil {
						return nil
					}
					ok = len(o.Name) == 2 && (string(o.Name[0].Ref) == tag || string(o.Name[1].Ref) == tag)
					return nil
				})
				if !ok {
					bad <- "a document decoded concurrently lost its language tags: " + doc
					return
				}
				if b, err := ap.GobEncode(it); err == nil {
					_, _ = ap.GobDecode(b)
				}
			}
		}(g)
	}
	wg.Wait()
	select {
	case m := <-bad:
		fmt.Println(m)
		os.Exit(3)
	default:
	}
}

func c12RunFresh() string {
	exe, err := os.Executable()
	if err != nil {
		return ""
	}
	for round := 0; round < 3; round++ {
		cmd := exec.Command(exe, "c12fresh")
		cmd.Env = append(os.Environ(), "GOMAXPROCS=8")
		out, err := cmd.CombinedOutput()
		if err != nil {
			msg := string(out)
			if i := strings.Index(msg, "\n\n"); i > 0 && i < 400 {
				msg = msg[:i]
			}
			if len(msg) > 400 {
				msg = msg[:400]
			}
			return "decoding independent documents in languages not seen before from 8 goroutines: " + err.Error() + ": " + msg
		}
	}
	return ""
}

func init() {
	campaigns["C12"] = func(c *Ctx) {
		ops := c12Ops()
		// (0) first-time decodes from several goroutines, in a child process
		c.Count(map[string]interface{}{"fresh": true}, true)
		c.Tag("fresh-concurrent-decodes")
		if v := c12RunFresh(); v != "" {
			c.Fail("C12/concurrent-decode", v, map[string]interface{}{"fresh": true})
		}
		c.Rule = fmt.Sprintf("values generated type-directed over the whole vocabulary (depth <= 2, text with escapes, multi-language values, lists, sub-records), rebuilt so that EVERY slice (item lists, byte strings, language-value lists, IRI lists) has 3 spare slots of capacity planted with sentinels. (1) For each of %d read-only operations (package and method encoders in both codecs, MarshalBinary, ItemsEqual with itself and with another value in both orders, Format with four verbs, all inspectors, DerefItem, On* views that only read, To* conversions, the language-value readers, Contains/Count/IRIs/First): a deep snapshot before and after — every byte of every byte string up to its capacity, every slice header (pointer, len, cap), every element up to capacity, pointer identities — must be identical, and a second call must return the same result. (2) The same operations from 8 goroutines on one shared value, while 2 more decode unrelated documents: every result equals the sequential one and the value is unchanged afterwards; the thorough tier runs this under the Go race detector in a separate -race build.", len(ops))
		cfg := &GenCfg{MaxDepth: 2, Density: 20, Zones: true, GobZones: true, Nanos: true, ValueNodes: false, Links: true, EmptyTypes: true, Negatives: true, MultiLang: true, RepeatLang: true,
			NilMembers: true, Force: map[string]bool{"To": true, "Tag": true}, ForcePct: 60}
		texts = append(texts, "C:\\new \"q\" \n\t<b>&</b> \u2028 😀", "\\u0041\\n") // escapes exercise the escaper's copy paths
		n := c.N(250, 6000)
		for i := 0; i < n; i++ {
			tr, it := c12Value(c, cfg)
			_, other := c12Value(c, cfg)
			for _, op := range ops {
				before := snap(it)
				var r1, r2 string
				pan, msg := guard(func() { r1 = op.run(it, other) })
				after := snap(it)
				c.Count(map[string]interface{}{"op": op.name, "i": i}, true)
				c.Tag("snapshot/" + op.name)
				if pan {
					c.Fail("C12/panic:"+op.name, op.name+" panics: "+msg, map[string]interface{}{"v": tr, "op": op.name})
					continue
				}
				if d := before.diff(after); d != "" {
					c.Fail("C12/modified:"+op.name, op.name+" modified its argument: "+d, map[string]interface{}{"v": tr, "op": op.name})
					continue
				}
				guard(func() { r2 = op.run(it, other) })
				if r1 != r2 && op.name != "Format" { // %#v prints addresses of nested pointers only through Format; identical anyway for the same value
					c.Fail("C12/second-call:"+op.name, op.name+" returns a different result on the second call", map[string]interface{}{"v": tr, "op": op.name})
				} else if r1 != r2 {
					c.Fail("C12/second-call:"+op.name, "Format returns a different result on the second call: "+r1+"  ///  "+r2, map[string]interface{}{"v": tr, "op": op.name})
				}
			}
			if i%5 == 0 {
				if v := c12Concurrent(it, other, ops); v != "" {
					c.Fail("C12/concurrent", v, map[string]interface{}{"v": tr})
				}
				c.Tag("concurrent")
			}
		}
	}
	replayers["C12"] = func(class string, input []byte) string {
		var in map[string]interface{}
		if err := json.Unmarshal(input, &in); err != nil {
			return "bad replay input"
		}
		if in["fresh"] == true {
			return c12RunFresh()
		}
		it := buildItem(parseTree(in["v"]))
		plantCapacity(it)
		other := ap.Item(&ap.Object{ID: "https://example.com/other", Type: ap.NoteType})
		for _, op := range c12Ops() {
			if n, ok := in["op"].(string); ok && n != op.name {
				continue
			}
			before := snap(it)
			if pan, msg := guard(func() { op.run(it, other) }); pan {
				return op.name + " panics: " + msg
			}
			if d := before.diff(snap(it)); d != "" {
				return op.name + " modified its argument: " + d
			}
		}
		if in["op"] == nil {
			return c12Concurrent(it, other, c12Ops())
		}
		return ""
	}
}

// c12Cached: a value DECODED from a document is kept (as a server caches an actor) while unrelated documents
// are decoded, sequentially and from several goroutines; it must not change.
func c12Cached() string {
	cached, err := ap.UnmarshalJSON([]byte(`{"type":"Person","id":"https://example.com/~alice","name":"Alice","summary":"a cached actor with some text","preferredUsername":"alice","contentMap":{"en":"hello","fr":"bonjour"}}`))
	if err != nil || cached == nil {
		return ""
	}
	before := snap(cached)
	j0, _ := ap.MarshalJSON(cached)
	for _, d := range c12Docs {
		_, _ = ap.UnmarshalJSON(d)
	}
	if d := before.diff(snap(cached)); d != "" {
		return "a decoded value kept alive changed when unrelated documents were decoded afterwards: " + d
	}
	var wg sync.WaitGroup
	for g := 0; g < 6; g++ {
		wg.Add(1)
		go func(g int) {
			defer wg.Done()
			for k := 0; k < 10; k++ {
				if g%2 == 0 {
					_, _ = ap.UnmarshalJSON(c12Docs[(k+g)%len(c12Docs)])
				} else {
					_, _ = ap.MarshalJSON(cached)
				}
			}
		}(g)
	}
	wg.Wait()
	if d := before.diff(snap(cached)); d != "" {
		return "a decoded value kept alive changed while unrelated documents were decoded concurrently: " + d
	}
	if j1, _ := ap.MarshalJSON(cached); string(j0) != string(j1) {
		return "a decoded value kept alive encodes differently after unrelated documents were decoded"
	}
	return ""
}

func c12Concurrent(it, other ap.Item, ops []roOp) string {
	if v := c12Cached(); v != "" {
		return v
	}
	seq := make([]string, len(ops))
	for i, op := range ops {
		guard(func() { seq[i] = op.run(it, other) })
	}
	before := snap(it)
	var wg sync.WaitGroup
	var mu sync.Mutex
	var viol string
	for g := 0; g < 8; g++ {
		wg.Add(1)
		go func(g int) {
			defer wg.Done()
			for k := 0; k < len(ops); k++ {
				i := (k + g*3) % len(ops)
				var r string
				pan, msg := guard(func() { r = ops[i].run(it, other) })
				if pan || r != seq[i] {
					mu.Lock()
					if viol == "" {
						viol = fmt.Sprintf("%s run concurrently: result differs from the sequential one (%s)", ops[i].name, msg)
					}
					mu.Unlock()
				}
			}
		}(g)
	}
	for g := 0; g < 2; g++ {
		wg.Add(1)
		go func(g int) {
			defer wg.Done()
			for k := 0; k < 6; k++ {
				doc := c12Docs[(k+g)%len(c12Docs)]
				v, err := ap.UnmarshalJSON(doc)
				if err == nil {
					b, _ := ap.MarshalJSON(v)
					v2, _ := ap.UnmarshalJSON(b)
					b2, _ := ap.MarshalJSON(v2)
					if !bytes.Equal(b, b2) {
						mu.Lock()
						viol = "a concurrent decode of an unrelated document gave an unstable value"
						mu.Unlock()
					}
				}
			}
		}(g)
	}
	wg.Wait()
	if viol != "" {
		return viol
	}
	if d := before.diff(snap(it)); d != "" {
		return "the shared value changed during concurrent read-only use: " + d
	}
	return ""
}
