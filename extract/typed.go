package main

import (
	"fmt"
	"go/ast"
	"go/importer"
	"go/token"
	"go/types"
	"sort"
)

// typecheck type-checks the parsed package with go/types (source importer, gc/amd64 sizes).
func (x *Extractor) typecheck() error {
	if x.info != nil {
		return nil
	}
	var files []*ast.File
	var names []string
	for n := range x.files {
		names = append(names, n)
	}
	sort.Strings(names)
	for _, n := range names {
		files = append(files, x.files[n])
	}
	conf := types.Config{Importer: importer.ForCompiler(x.fset, "source", nil), Sizes: types.SizesFor("gc", "amd64"),
		Error: func(err error) {}}
	x.info = &types.Info{Types: map[ast.Expr]types.TypeAndValue{}, Defs: map[*ast.Ident]types.Object{}, Uses: map[*ast.Ident]types.Object{},
		Selections: map[*ast.SelectorExpr]*types.Selection{}, Implicits: map[ast.Node]types.Object{}}
	pkg, err := conf.Check("github.com/go-ap/activitypub", x.fset, files, x.info)
	if pkg == nil {
		return fmt.Errorf("type-check failed: %v", err)
	}
	x.pkg = pkg
	x.sizes = conf.Sizes
	return nil
}

var _ = token.NoPos
