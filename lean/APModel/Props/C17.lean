/-
C17 — Timestamp ordering is a strict weak order consistent with publication time.
Model: `Model/Order.lean`, tied to helpers.go:ItemOrderTimestamp by the `order` correspondence op.
-/
import APModel.Model.Order

namespace APModel.Order
open List

/-- The ranking key: `none` for nil (ranks before every object), otherwise the later of the
published / updated instants. -/
def key : OItem → Option Int
  | .nil => none
  | .obj p u => some (max p u)

/-- "x ranks at or before y" in newest-first order on keys. -/
def kle : Option Int → Option Int → Prop
  | none, _ => True
  | some _, none => False
  | some a, some b => b ≤ a

/-- the specification of "ranks strictly before". -/
def before (a b : OItem) : Prop :=
  match key a, key b with
  | none, none => False
  | none, some _ => True
  | some _, none => False
  | some x, some y => x > y

/-- ItemOrderTimestamp ranks an item before another exactly when the later of its
published/updated instants is after the other's, and ranks nil before any object. -/
theorem C17_agrees (a b : OItem) : itemOrder a b = true ↔ before a b := by
  cases a <;> cases b <;> simp [itemOrder, before, key] <;> (try split <;> split) <;> omega

theorem C17_nil_first (p u : Int) : itemOrder .nil (.obj p u) = true ∧ itemOrder (.obj p u) .nil = false := by
  simp [itemOrder]

theorem C17_irreflexive (a : OItem) : itemOrder a a = false := by
  cases a <;> simp [itemOrder]

theorem C17_asymmetric (a b : OItem) (h : itemOrder a b = true) : itemOrder b a = false := by
  cases a <;> cases b <;> simp_all [itemOrder] <;> (repeat' split) <;> omega

theorem C17_transitive (a b c : OItem) (h1 : itemOrder a b = true) (h2 : itemOrder b c = true) :
    itemOrder a c = true := by
  cases a <;> cases b <;> cases c <;> simp_all [itemOrder] <;> (repeat' split at *) <;> omega

/-- incomparability (neither before the other) is transitive: together with the three theorems
above this makes the comparator a strict weak order. -/
theorem C17_incomparability_transitive (a b c : OItem)
    (hab : itemOrder a b = false) (hba : itemOrder b a = false)
    (hbc : itemOrder b c = false) (hcb : itemOrder c b = false) :
    itemOrder a c = false ∧ itemOrder c a = false := by
  cases a <;> cases b <;> cases c <;> simp_all [itemOrder] <;> (repeat' split at *) <;> omega

theorem not_before_iff_kle (a b : OItem) : itemOrder b a = false ↔ kle (key a) (key b) := by
  cases a <;> cases b <;> simp [itemOrder, kle, key] <;> (repeat' split) <;> omega

theorem kle_antisymm (x y : Option Int) (h1 : kle x y) (h2 : kle y x) : x = y := by
  cases x <;> cases y <;> simp_all [kle] ; omega

/-- A list is sorted by the comparator when no later element ranks strictly before an earlier one
(what `sort.Slice`/`sort.SliceStable` guarantee for a strict weak order). -/
def SortedBy (l : List OItem) : Prop := l.Pairwise (fun a b => itemOrder b a = false)

/-- A sorted list is newest-first: nil entries first, then keys non-increasing. -/
theorem C17_sorted_newest_first (l : List OItem) (h : SortedBy l) : (l.map key).Pairwise kle := by
  rw [List.pairwise_map]
  exact h.imp (fun {a b} hab => (not_before_iff_kle a b).mp hab)

/-- …regardless of the initial permutation: any two sorted arrangements of the same items show the
same sequence of keys. -/
theorem C17_sort_permutation_independent (l₁ l₂ : List OItem) (hp : l₁ ~ l₂)
    (h₁ : SortedBy l₁) (h₂ : SortedBy l₂) : l₁.map key = l₂.map key :=
  List.Perm.eq_of_pairwise (fun a b _ _ hab hba => kle_antisymm a b hab hba)
    (C17_sorted_newest_first l₁ h₁) (C17_sorted_newest_first l₂ h₂) (hp.map key)

/-! non-vacuity -/
example : SortedBy [.nil, .obj 5 9, .obj 7 0, .obj 1 2] := by unfold SortedBy; decide
example : itemOrder (.obj 5 9) (.obj 7 0) = true := by decide

end APModel.Order
