/-
C04 — Decoders are total: no input makes them panic, hang or blow the stack.

What a theorem can carry here, and what it cannot:
  * the three hand-written text unmarshalers are transcribed with partial index/slice operations
    (`Model/TextUnmarshal.lean`) and proved panic-free for EVERY byte string; the pinned tree's version
    is kept with kernel-decided panicking witnesses.  Tied to the code by the `unmarshalText`
    correspondence (exhaustive on short strings over {quote, backslash, a}, plus random).
  * index discipline: every index/slice expression of the package, with the facts that dominate it, is
    regenerated from the source on every run (`Generated/IndexSites.lean`); `C04_index_discipline`
    decides that each site is one of the expected ones and still has the facts that make it safe.
  * the JSON parser (fastjson), encoding/gob and the Go runtime (stack depth, allocation) are not
    modelled: panics, hangs and blow-ups there are searched by the child-process campaign only.
-/
import APModel.Model.TextUnmarshal
import APModel.Generated.IndexSites
import APModel.Model.EqCost

namespace APModel.TextUnmarshal
open APModel.Text (Bytes quote)

theorem idx_some (d : Bytes) (i : Int) (h0 : 0 ≤ i) (h1 : i < d.length) : ∃ v, idx d i = some v := by
  unfold idx
  have hlt : i.toNat < d.length := by omega
  simp only [h0, h1, and_self, if_true]
  exact ⟨d[i.toNat], by simp [hlt]⟩

theorem slice_some (d : Bytes) (a b : Int) (h : 0 ≤ a ∧ a ≤ b ∧ b ≤ d.length) : ∃ s, slice d a b = some s := by
  unfold slice; simp [h]

/-- Content.UnmarshalText / LangRef.UnmarshalText never panic, whatever the input. -/
theorem C04_scalar_total (d : Bytes) : scalarUnmarshalText d ≠ .panic := by
  unfold scalarUnmarshalText
  by_cases h0 : d.length = 0
  · simp [h0]
  · by_cases h2 : d.length > 2
    · simp only [h0, h2, if_false, if_true]
      obtain ⟨a, ha⟩ := idx_some d 0 (by omega) (by omega)
      obtain ⟨z, hz⟩ := idx_some d (d.length - 1) (by omega) (by omega)
      obtain ⟨s, hs⟩ := slice_some d 1 (d.length - 1) (by omega)
      rw [ha]
      by_cases hq : a = quote
      · simp only [hq, if_true]
        rw [hz]
        by_cases hq2 : z = quote
        · simp [hq2, hs]
        · simp [hq2]
      · simp [hq]
    · simp [h0, h2]

/-- NaturalLanguageValues.UnmarshalText never panics, whatever the input. -/
theorem C04_nlv_total (d : Bytes) : nlvUnmarshalText d ≠ .panic := by
  unfold nlvUnmarshalText
  by_cases h0 : d.length = 0
  · simp [h0]
  · simp only [h0, if_false]
    obtain ⟨a, ha⟩ := idx_some d 0 (by omega) (by omega)
    rw [ha]
    by_cases hq : a = quote
    · simp only [hq, if_true]
      by_cases h2 : d.length < 2
      · simp [h2]
      · simp only [h2, if_false]
        obtain ⟨z, hz⟩ := idx_some d (d.length - 1) (by omega) (by omega)
        obtain ⟨s, hs⟩ := slice_some d 1 (d.length - 1) (by omega)
        rw [hz]
        by_cases hq2 : z = quote
        · simp [hq2, hs]
        · simp [hq2]
    · simp [hq]

/-- the pinned tree's version panics on the empty input and on the single byte `"` -/
theorem C04_pinned_nlv_panics : nlvUnmarshalTextPinned [] = .panic ∧ nlvUnmarshalTextPinned [34] = .panic := by
  decide

/-! non-vacuity: the quoted and the unquoted path -/
example : nlvUnmarshalText [34, 97, 98, 34] = .ok [[97, 98]] ∧ nlvUnmarshalText [34] = .err ∧
    scalarUnmarshalText [34, 97, 34] = .ok [[97]] ∧ scalarUnmarshalText [34, 34] = .ok [[34, 34]] := by decide

end APModel.TextUnmarshal

namespace APModel.C04
open APModel.Generated

/-- The index and slice expressions the package is expected to contain, each with the dominating facts
that make it safe (the reason is next to each group). -/
def expectedSites : List (String × String × List String) := [
  -- index is the key of a range over the same (or an equally long, freshly made) sequence
  ("CollectionPath.ofItemCollection", "iriCol[i]", ["range i:col"]),
  ("FlattenItemCollection", "col[k]", ["range k:col"]),
  ("IRIs.Collection", "res[k]", ["range k:*i"]),
  ("ItemCollection.Clean", "i[j]", ["range j:i"]),
  ("NaturalLanguageValues.GobEncode", "mm[i]", ["range i:n"]),
  ("NaturalLanguageValues.Set", "(*n)[k]", ["range k:*n"]),
  ("NaturalLanguageValuesNew", "n[i]", ["range i:values"]),
  ("ToItemCollection", "iris[j]", ["range j:i"]),
  ("ToItemCollection", "iris[j]", ["range j:*i"]),
  ("irisEqual", "uwqv[j]", ["!(len(uqv) != len(uwqv))"]),
  -- a constant or last index under a length guard
  ("Content.UnmarshalText", "data[0]", ["len(data) > 2"]),
  ("Content.UnmarshalText", "data[len(data)-1]", ["len(data) > 2"]),
  ("Content.UnmarshalText", "data[1 : len(data)-1]", ["len(data) > 2"]),
  ("LangRef.UnmarshalText", "data[0]", ["len(data) > 2"]),
  ("LangRef.UnmarshalText", "data[len(data)-1]", ["len(data) > 2"]),
  ("LangRef.UnmarshalText", "data[1 : len(data)-1]", ["len(data) > 2"]),
  ("NaturalLanguageValues.UnmarshalText", "data[0]", ["!(len(data) == 0)"]),
  ("NaturalLanguageValues.UnmarshalText", "data[len(data)-1]", ["!(len(data) == 0)"]),
  ("NaturalLanguageValues.UnmarshalText", "data[1 : len(data)-1]", ["!(len(data) < 2 || data[len(data)-1] != '\"')"]),
  ("IRIf", "si[l-1]", ["!(l == 0)"]),
  ("ItemCollection.First", "i[0]", ["!(len(i) == 0)"]),
  ("ItemCollection.Normalize", "i[0]", ["len(i) == 1"]),
  ("JSONWriteComma", "(*b)[len(*b)-1]", ["len(*b) > 1"]),
  ("JSONWriteItemCollectionValue", "col[0]", ["!(len(col) == 0)"]),
  ("NaturalLanguageValues.MarshalJSON", "n[0]", ["l == 1"]),
  ("NaturalLanguageValues.String", "n[0]", ["cnt == 1"]),
  ("hostSplit", "pieces[0]", ["!(len(pieces) == 0)"]),
  ("hostSplit", "pieces[0]", ["!(len(pieces) == 0)"]),
  ("hostSplit", "pieces[1]", ["!(len(pieces) == 0)", "!(len(pieces) == 1)"]),
  -- an index clamped into range just before
  ("stripFragment", "u[:p]", ["clamp(p <= 0 => p = len(u))"]),
  ("stripScheme", "u[p:]", ["clamp(p < 0 => p = 0)"]),
  -- removal by a found index (C13), the de-duplication loop (C10: proved panic-free by refinement)
  ("ItemCollection.Remove", "(*i)[:remIdx]", ["!(remIdx == -1)"]),
  ("ItemCollection.Remove", "(*i)[remIdx+1:]", ["!(remIdx == -1)", "remIdx < li-1"]),
  ("ItemCollection.Remove", "(*i)[:remIdx]", ["!(remIdx == -1)"]),
  ("ItemCollectionDeduplication", "(*recCol)[:idx]", ["range _:toRemove"]),
  ("ItemCollectionDeduplication", "(*recCol)[idx+1:]", ["range _:toRemove"]),
  -- encoder internals: truncation of a buffer that just received a comma; [:0]; the escapers' loops
  ("JSONWriteItemCollectionProp", "(*b)[:len(*b)-1]", ["!success"]),
  ("JSONWriteProp", "(*b)[:len(*b)-1]", ["!success"]),
  ("Object.Clean", "o.BCC[:0]", []),
  ("Object.Clean", "o.Bto[:0]", []),
  ("byteInsertAt", "raw[:p]", []),
  ("byteInsertAt", "raw[p:]", []),
  ("escapeQuote", "raw[i]", ["for:i < end"]),
  ("escapeQuote", "raw[i-1]", ["for:i < end", "i > 0"]),
  ("stringBytes", "s[i]", ["for:i < len(s)"]),
  ("stringBytes", "htmlSafeSet[b]", ["b < utf8.RuneSelf"]),
  ("stringBytes", "safeSet[b]", ["b < utf8.RuneSelf"]),
  ("stringBytes", "s[start:i]", ["for:i < len(s)", "start < i"]),
  ("stringBytes", "hex[b>>4]", ["b < utf8.RuneSelf"]),
  ("stringBytes", "hex[b&0xF]", []),
  ("stringBytes", "s[i:]", ["for:i < len(s)"]),
  ("stringBytes", "hex[c&0xF]", []),
  ("stringBytes", "s[start:]", ["start < len(s)"])]

/-- does an expected entry cover a regenerated site? same function, same expression, every needed fact
still among the facts that dominate the site -/
def covers (e s : String × String × List String) : Bool :=
  e.1 == s.1 && e.2.1 == s.2.1 && e.2.2.all (fun f => s.2.2.contains f)

/-- Every index and slice expression of the current source is an expected one and is still dominated
by the facts that make it safe; and none of the expected sites of the decoders has disappeared into
something the extractor could not read. -/
theorem C04_index_discipline :
    indexSites.all (fun s => expectedSites.any (fun e => covers e s)) = true ∧
    (indexSites.any (fun s => s.1 == "?unknown")) = false := by
  decide +kernel

/-- what the obligation rejects: the pinned tree's `data[0]` without a length fact -/
example : expectedSites.any (fun e => covers e ("NaturalLanguageValues.UnmarshalText", "data[0]", [])) = false := by
  decide +kernel

end APModel.C04

namespace APModel.EqCost
open APModel.Generated

/-! ### the time clause: how often a comparison visits a property

Decoding de-duplicates every list it loads with ItemsEqual, so the cost of a comparison is part of the
cost of decoding.  `cost` counts ItemsEqual invocations on a skeleton of nested values; the two theorems
say what the multiplicities mean, the obligations say what they are in the current source. -/

mutual
theorem cost_le_size (m : Nat → Nat → Nat) (hm : ∀ k p, m k p ≤ 1) : ∀ t : Sk, cost m t ≤ size t
  | .node k cs => by
    simp only [cost, size]
    exact Nat.add_le_add_left (costL_le_sizeL m hm k cs) 1
theorem costL_le_sizeL (m : Nat → Nat → Nat) (hm : ∀ k p, m k p ≤ 1) (k : Nat) : ∀ l : SkList, costL m k l ≤ sizeL l
  | .nil => by simp [costL, sizeL]
  | .cons p c r => by
    simp only [costL, sizeL]
    have h1 := cost_le_size m hm c
    have h2 := costL_le_sizeL m hm k r
    have h3 : m k p * cost m c ≤ cost m c := by
      have := Nat.mul_le_mul_right (cost m c) (hm k p)
      simpa using this
    omega
end

/-- **no property visited twice ⇒ proportional work**: when every multiplicity is at most one, a
comparison invokes ItemsEqual at most once per nested value -/
theorem C04_linear (m : Nat → Nat → Nat) (hm : ∀ k p, m k p ≤ 1) (t : Sk) : cost m t ≤ size t :=
  cost_le_size m hm t

/-- **a property visited twice ⇒ the work doubles per level**: on a chain of `d` values nested through
a property with multiplicity two, a comparison invokes ItemsEqual `2^(d+1) - 1` times for `d + 1` values -/
theorem C04_doubling (m : Nat → Nat → Nat) (k p : Nat) (h2 : m k p = 2) :
    ∀ d, cost m (chain k p d) + 1 = 2 ^ (d + 1)
  | 0 => by simp [chain, cost, costL]
  | d + 1 => by
    have ih := C04_doubling m k p h2 d
    simp only [chain, cost, costL, h2, Nat.add_zero]
    rw [Nat.pow_succ]
    omega

def structs : List String :=
  ["Object", "Actor", "Activity", "IntransitiveActivity", "Question", "Collection", "OrderedCollection",
   "CollectionPage", "OrderedCollectionPage", "Place", "Profile", "Relationship", "Tombstone", "Link"]

/-- obligation on the regenerated comparison tables: which item-valued properties an Equals method
compares more than once (through the Equals methods it hands over to; `items` and `orderedItems` are one
storage).  Everything is compared once, except the eight places recorded as open findings F-C04-4…11:
the members of ordered collections and the paging links of pages. -/
theorem C04_compared_once :
    structs.map (fun r => (r, twice (reach equalsRows equalsDelegations 5 r))) =
      structs.map (fun r => (r,
        if r == "OrderedCollection" then ["Items"]
        else if r == "CollectionPage" then ["Current", "First", "Last"]
        else if r == "OrderedCollectionPage" then ["Current", "First", "Last", "Items"]
        else [])) := by
  decide +kernel

/-- obligation on ItemsEqual's own dispatch (regenerated): in the branch for objects every comparison
stands under a further condition, and the generic Object comparison runs only when no specific one did —
no comparison is run on top of another (the defect repaired in ebeeb38) -/
theorem C04_dispatch_once :
    (itemsEqualCalls.filter (fun c => c.2.contains "IsObject(it)")).all (fun c =>
      c.2.length ≥ 2 && (c.1 != "OnObject" || c.2.contains "!compared")) = true ∧
    (itemsEqualCalls.filter (fun c => c.1 == "OnObject")).length = 1 := by
  decide +kernel

end APModel.EqCost
