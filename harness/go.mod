module verif/harness

go 1.18

require (
	git.sr.ht/~mariusor/go-xsd-duration v0.0.0-20220703122237-02e73435a078
	github.com/go-ap/activitypub v0.0.0
	github.com/valyala/fastjson v1.6.4
)

require (
	github.com/go-ap/errors v0.0.0-20240910140019-1e9d33cc1568 // indirect
	github.com/go-ap/jsonld v0.0.0-20221030091449-f2a191312c73 // indirect
)

replace github.com/go-ap/activitypub => /repo
