package main

import (
	"encoding/json"
	"fmt"
	"math"
	"reflect"
	"sort"
	"strconv"
	"strings"

	ap "github.com/go-ap/activitypub"
)

// C01 — JSON encode -> decode round trip preserves every vocabulary property.

// normJSON: the documented normal form of a value tree after a JSON round trip.
//
//	instants: UTC whole seconds; unset/empty absent; a one-element list in a single-item position is the
//	element; a lone language-tagged string comes back untagged; struct values come back as pointers.
func normJSON(tr interface{}) interface{} {
	if tr == nil {
		return nil
	}
	m, ok := tr.(T)
	if !ok {
		return tr
	}
	if s, ok := m["iri"]; ok {
		if s == "" {
			return nil // the empty IRI writes nothing
		}
		return T{"iri": s}
	}
	if l, ok := m["iris"]; ok {
		out := []interface{}{}
		for _, s := range asList(l) {
			out = append(out, T{"iri": s})
		}
		return normItemList(out)
	}
	if l, ok := m["items"]; ok {
		if m["nil"] == true {
			return nil
		}
		return normItemList(asList(l))
	}
	if m["nil"] == true {
		return nil
	}
	f, _ := m["f"].(T)
	nf := T{}
	for name, v := range f {
		if nv := normField(v); nv != nil {
			nf[name] = nv
		}
	}
	if len(nf) == 0 {
		return nil // an object with nothing to say is not written
	}
	return T{"t": m["t"], "ptr": true, "f": nf}
}

// an item list in a single-item position
var keepLoneTag bool

func normItemList(l []interface{}) interface{} {
	var out []interface{}
	for _, x := range l {
		if n := normJSON(x); n != nil {
			out = append(out, n)
		}
	}
	switch len(out) {
	case 0:
		return nil
	case 1:
		return out[0]
	}
	return T{"items": out, "ptr": false}
}

func normField(v interface{}) interface{} {
	m, ok := v.(T)
	if !ok {
		return v
	}
	switch {
	case m["list"] != nil:
		var out []interface{}
		for _, x := range asList(m["list"]) {
			if n := normJSON(x); n != nil {
				out = append(out, n)
			}
		}
		if len(out) == 0 {
			return nil
		}
		return T{"list": out}
	case m["nlv"] != nil:
		var l []interface{}
		for _, e := range asList(m["nlv"]) {
			if p := asList(e); len(p) == 2 && p[1] != "" {
				l = append(l, e) // an entry with an empty text has nothing to say: unset and empty are the same
			}
		}
		if len(l) == 0 {
			return nil
		}
		if len(l) == 1 && !keepLoneTag {
			e := asList(l[0])
			return T{"nlv": []interface{}{[]interface{}{"-", e[1]}}}
		}
		return T{"nlv": l}
	case m["time"] != nil:
		t := asList(m["time"])
		return T{"time": []interface{}{num(t[0]), 0, 0}}
	case m["rec"] != nil:
		r := T{}
		for k, x := range m["rec"].(T) {
			if nx := normField(x); nx != nil {
				r[k] = nx
			}
		}
		if len(r) == 0 {
			return nil
		}
		return T{"rec": r}
	case m["t"] != nil || m["iri"] != nil || m["items"] != nil || m["iris"] != nil:
		return normJSON(v)
	}
	return v
}

// firstDiff: a human-readable path to the first difference between two trees ("" if equal).
func firstDiff(path string, a, b interface{}) string {
	a, b = normTree(a), normTree(b)
	am, aok := a.(T)
	bm, bok := b.(T)
	if aok && bok {
		keys := map[string]bool{}
		for k := range am {
			keys[k] = true
		}
		for k := range bm {
			keys[k] = true
		}
		var ks []string
		for k := range keys {
			ks = append(ks, k)
		}
		sort.Strings(ks)
		for _, k := range ks {
			av, ain := am[k]
			bv, bin := bm[k]
			if !ain {
				return fmt.Sprintf("%s.%s: absent vs %s", path, k, mustJSONs(bv))
			}
			if !bin {
				return fmt.Sprintf("%s.%s: %s vs absent", path, k, mustJSONs(av))
			}
			if d := firstDiff(path+"."+k, av, bv); d != "" {
				return d
			}
		}
		return ""
	}
	al, aok := a.([]interface{})
	bl, bok := b.([]interface{})
	if aok && bok {
		if len(al) != len(bl) {
			return fmt.Sprintf("%s: %d entries vs %d (%s vs %s)", path, len(al), len(bl), mustJSONs(al), mustJSONs(bl))
		}
		for i := range al {
			if d := firstDiff(fmt.Sprintf("%s[%d]", path, i), al[i], bl[i]); d != "" {
				return d
			}
		}
		return ""
	}
	if !treeEqual(a, b) {
		return fmt.Sprintf("%s: %s vs %s", path, mustJSONs(a), mustJSONs(b))
	}
	return ""
}

// simplify the path of a difference to (field) for classification
func diffField(d string) string {
	i := strings.Index(d, ":")
	if i < 0 {
		return d
	}
	p := d[:i]
	parts := strings.Split(p, ".")
	for j := len(parts) - 1; j >= 0; j-- {
		s := parts[j]
		if s != "f" && s != "list" && s != "nlv" && s != "rec" && s != "time" && s != "" && !strings.HasPrefix(s, "[") {
			if k := strings.Index(s, "["); k > 0 {
				s = s[:k]
			}
			return s
		}
	}
	return p
}

// jsonRoundTripRaw: decode(encode(x)) only, no judgement
func jsonRoundTripRaw(tr interface{}) (after interface{}, bytes []byte, err error) {
	it := buildItem(tr)
	if p, _ := guard(func() { bytes, err = ap.MarshalJSON(it) }); p || err != nil {
		return nil, nil, err
	}
	var back ap.Item
	if p, _ := guard(func() { back, err = ap.UnmarshalJSON(bytes) }); p || err != nil {
		return nil, bytes, err
	}
	return dumpItem(back), bytes, nil
}

func jsonRoundTrip(tr interface{}) (after interface{}, bytes []byte, viol string) {
	it := buildItem(tr)
	var err error
	if p, msg := guard(func() { bytes, err = ap.MarshalJSON(it) }); p {
		return nil, nil, "panic in MarshalJSON: " + msg
	}
	if err != nil {
		return nil, bytes, "MarshalJSON error: " + err.Error()
	}
	var back ap.Item
	if p, msg := guard(func() { back, err = ap.UnmarshalJSON(bytes) }); p {
		return nil, bytes, "panic in UnmarshalJSON: " + msg
	}
	if err != nil {
		return nil, bytes, "UnmarshalJSON error: " + err.Error() + " on " + string(bytes)
	}
	after = dumpItem(back)
	want := normJSON(tr)
	if d := firstDiff("", want, dropEmpties(after)); d != "" {
		return after, bytes, "round trip differs at " + d + "   (left: expected normal form, right: decoded)   bytes: " + string(bytes)
	}
	// the type's own MarshalJSON / UnmarshalJSON pair
	if m, ok := tr.(T); ok && m["t"] != nil && m["nil"] != true {
		rt := goTypes[m["t"].(string)]
		pv := reflect.New(rt)
		var b2 []byte
		if p, msg := guard(func() {
			b2, err = it.(json.Marshaler).MarshalJSON()
			if err == nil {
				err = pv.Interface().(json.Unmarshaler).UnmarshalJSON(b2)
			}
		}); p {
			return after, bytes, "panic in the type's own MarshalJSON/UnmarshalJSON: " + msg
		}
		if err != nil {
			return after, bytes, "the type's own MarshalJSON/UnmarshalJSON failed: " + err.Error()
		}
		if d := firstDiff("", want, dropEmpties(dumpItem(pv.Interface().(ap.Item)))); d != "" {
			return after, bytes, "round trip through the type's own MarshalJSON/UnmarshalJSON differs at " + d + "   (left: expected normal form, right: decoded)   bytes: " + string(b2)
		}
	}
	return after, bytes, ""
}

// dropEmpties removes empty (non-nil) lists and language-value lists from a decoded dump: unset and
// empty are the same thing in the normal form.
func dropEmpties(tr interface{}) interface{} { return normGob(tr) }

// c01OracleCase: a value outside the domain of the models (a text entry with an empty text): judged by the
// oracle only — what the neighbours of the silent property become
func c01OracleCase(c *Ctx, tr interface{}, tag string) {
	_, _, viol := jsonRoundTrip(tr)
	c.Count(map[string]interface{}{"op": "jsonRoundTrip", "v": tr}, true)
	c.Tag(tag)
	if viol != "" {
		cls := "C01/roundtrip"
		if i := strings.Index(viol, "round trip differs at "); i >= 0 {
			t := "?"
			if m, ok := tr.(T); ok {
				t, _ = m["t"].(string)
			}
			cls = "C01/" + t + "." + diffField(viol[i+len("round trip differs at "):])
		}
		c.Fail(cls, viol, map[string]interface{}{"op": "jsonRoundTrip", "v": tr})
	}
}

func c01Case(c *Ctx, tr interface{}, tag string) {
	after, _, viol := jsonRoundTrip(tr)
	in := map[string]interface{}{"op": "jsonRoundTrip", "v": tr}
	var shown interface{}
	if after != nil {
		shown = dropEmpties(after)
	}
	c.Emit(in, shown, true)
	c.Tag(tag)
	// the same value through the deep model (writer and reader on JSON trees)
	c.Emit(map[string]interface{}{"op": "deepRoundTrip", "v": tr}, shown, false)
	// … and every value of the property's domain must lie inside the domain of the whole-tree theorem
	c.Emit(map[string]interface{}{"op": "deepWF", "v": tr}, true, false)
	if viol != "" {
		cls := "C01/roundtrip"
		if strings.HasPrefix(viol, "panic") {
			cls = "C01/panic"
		}
		if i := strings.Index(viol, "round trip differs at "); i >= 0 {
			t := "?"
			if m, ok := tr.(T); ok {
				t, _ = m["t"].(string)
			}
			cls = "C01/" + t + "." + diffField(viol[i+len("round trip differs at "):])
		}
		c.Fail(cls, viol, in)
	}
}

func c01Cfg(depth int) *GenCfg {
	return &GenCfg{MaxDepth: depth, Density: 18, Zones: true, Nanos: false, ValueNodes: true, Links: true, EmptyTypes: true,
		Negatives: true, MultiLang: true}
}

// covering set: one value per (Go type, field, shape)
// twins: for every struct, two embedded values that agree in every property except their ids, as
// neighbours in a list (the decoders compare list members; distinct ids must never be merged), and every
// list-typed property set but empty next to other properties (the empty list must not disturb the rest)
func c01Twins(c *Ctx, emit func(*Ctx, interface{}, string)) {
	g := &GenCfg{MaxDepth: 1, Density: 35, Links: true, Negatives: true, MultiLang: true, counter: 900000}
	for _, typ := range allGoTypes {
		for k := 0; k < 3; k++ {
			a := g.genNode(c.R, typ, 1, true)
			a["ptr"] = true
			af := a["f"].(T)
			af["ID"] = T{"s": g.nextID("twin")}
			if _, ok := af["Type"]; !ok {
				af["Type"] = T{"s": vocab[typ][0]}
			}
			if fieldKind(typ, "TotalItems") != "" {
				af["TotalItems"] = T{"uint": 3 + k}
			}
			b := cloneTree(a).(T)
			b["f"].(T)["ID"] = T{"s": g.nextID("twin")}
			l := []interface{}{a, b}
			emit(c, T{"t": "Object", "ptr": true, "f": T{"ID": T{"s": g.nextID("holder")}, "Type": T{"s": "Note"}, "Tag": T{"list": l}}}, "cover/twins/tag")
			emit(c, T{"t": "OrderedCollection", "ptr": true, "f": T{"ID": T{"s": g.nextID("holder")}, "Type": T{"s": "OrderedCollection"}, "OrderedItems": T{"list": cloneTree(l)}}}, "cover/twins/orderedItems")
			emit(c, T{"t": "Activity", "ptr": true, "f": T{"ID": T{"s": g.nextID("holder")}, "Type": T{"s": "Add"}, "Object": T{"items": cloneTree(l), "ptr": false}}}, "cover/twins/item-list")
		}
	}
	for _, typ := range allGoTypes {
		for _, fld := range fieldNames(typ) {
			if fieldKind(typ, fld) != "items" {
				continue
			}
			f := T{"ID": T{"s": g.nextID(typ)}, "Type": T{"s": vocab[typ][len(vocab[typ])-1]}, fld: T{"list": []interface{}{}}}
			if fieldKind(typ, "Name") != "" {
				f["Name"] = T{"nlv": []interface{}{[]interface{}{"-", "next to an empty list"}}}
			}
			if fieldKind(typ, "Summary") != "" {
				f["Summary"] = T{"nlv": []interface{}{[]interface{}{"-", "summary"}}}
			}
			if fieldKind(typ, "URL") != "" {
				f["URL"] = T{"iri": g.nextID("url")}
			}
			emit(c, T{"t": typ, "ptr": true, "f": f}, "cover/empty-list")
		}
	}
}

func c01Cover(c *Ctx, emit func(*Ctx, interface{}, string)) {
	c01Twins(c, emit)
	g := c01Cfg(1)
	for _, typ := range allGoTypes {
		for _, fld := range fieldNames(typ) {
			if fld == "ID" || fld == "Type" {
				continue
			}
			kind := fieldKind(typ, fld)
			shapes := []string{"one"}
			if kind == "item" {
				shapes = []string{"iri", "object", "link", "list", "typeless"}
			} else if kind == "items" {
				shapes = []string{"iris", "mixed", "single-object"}
			} else if kind == "nlv" {
				shapes = []string{"plain", "tagged", "multi"}
			} else if kind == "float" || kind == "int" || kind == "duration" {
				shapes = []string{"positive", "negative"}
			}
			for _, sh := range shapes {
				f := T{"ID": T{"s": g.nextID(typ)}, "Type": T{"s": vocab[typ][len(vocab[typ])-1]}}
				obj := func() T {
					return T{"t": "Object", "ptr": true, "f": T{"ID": T{"s": g.nextID("emb")}, "Type": T{"s": "Note"}, "Name": T{"nlv": []interface{}{[]interface{}{"-", "embedded"}}}}}
				}
				switch kind {
				case "item":
					switch sh {
					case "iri":
						f[fld] = T{"iri": g.nextID("iri")}
					case "object":
						f[fld] = obj()
					case "link":
						f[fld] = T{"t": "Link", "ptr": true, "f": T{"ID": T{"s": g.nextID("lnk")}, "Type": T{"s": "Mention"}, "Href": T{"s": g.nextID("href")}}}
					case "list":
						f[fld] = T{"items": []interface{}{T{"iri": g.nextID("iri")}, obj()}, "ptr": false}
					case "typeless":
						f[fld] = T{"t": "Object", "ptr": true, "f": T{"Name": T{"nlv": []interface{}{[]interface{}{"-", "no id, no type"}}}}}
					}
				case "items":
					switch sh {
					case "iris":
						f[fld] = T{"list": []interface{}{T{"iri": g.nextID("iri")}, T{"iri": g.nextID("iri")}}}
					case "mixed":
						f[fld] = T{"list": []interface{}{T{"iri": g.nextID("iri")}, obj(), T{"t": "Actor", "ptr": true, "f": T{"ID": T{"s": g.nextID("act")}, "Type": T{"s": "Person"}}}}}
					case "single-object":
						f[fld] = T{"list": []interface{}{obj()}}
					}
				case "nlv":
					switch sh {
					case "plain":
						f[fld] = T{"nlv": []interface{}{[]interface{}{"-", "plain text"}}}
					case "tagged":
						f[fld] = T{"nlv": []interface{}{[]interface{}{"en", "tagged text"}}}
					case "multi":
						f[fld] = T{"nlv": []interface{}{[]interface{}{"en", "hello"}, []interface{}{"fr", "bonjour"}}}
					}
				case "time":
					f[fld] = T{"time": []interface{}{1700000000, 0, 7200}}
				case "duration":
					f[fld] = T{"dur": int64(90061) * 1e9 * map[string]int64{"positive": 1, "negative": -1}[sh]}
				case "float":
					f[fld] = T{"dec6": int64(12345678) * map[string]int64{"positive": 1, "negative": -1}[sh]}
				case "int":
					f[fld] = T{"int": int64(42) * map[string]int64{"positive": 1, "negative": -1}[sh]}
				case "uint":
					f[fld] = T{"uint": 7}
				case "bool":
					f[fld] = T{"bool": true}
				case "string":
					f[fld] = g.genNode(c.R, typ, 0, false)["f"].(T)[fld]
					if f[fld] == nil {
						switch fld {
						case "MediaType":
							f[fld] = T{"s": "text/html"}
						case "Href", "Rel":
							f[fld] = T{"s": g.nextID("href")}
						case "HrefLang":
							f[fld] = T{"s": "en"}
						case "FormerType":
							f[fld] = T{"s": "Note"}
						default:
							f[fld] = T{"s": "m"}
						}
					}
				case "source":
					f[fld] = T{"rec": T{"Content": T{"nlv": []interface{}{[]interface{}{"-", "the *source*"}}}, "MediaType": T{"s": "text/markdown"}}}
				case "pubkey":
					f[fld] = T{"rec": T{"ID": T{"s": g.nextID("key")}, "Owner": T{"s": g.nextID("owner")}, "PublicKeyPem": T{"s": "-----BEGIN PUBLIC KEY-----\nMIIB\n-----END PUBLIC KEY-----"}}}
				case "endpoints":
					f[fld] = T{"rec": T{"SharedInbox": T{"iri": g.nextID("shared")}, "UploadMedia": T{"iri": g.nextID("upload")}}}
				}
				emit(c, T{"t": typ, "ptr": true, "f": f}, "cover/"+kind+"/"+sh)
				if typ == "Object" && fld != "ID" && fld != "Type" {
					// the same property as the ONLY content of an embedded object without id and type
					// (admissible by the quantifier), in a single-item position and as a list member
					bare := func() T { return T{"t": "Object", "ptr": true, "f": T{fld: cloneTree(f[fld])}} }
					emit(c, T{"t": "Object", "ptr": true, "f": T{"ID": T{"s": g.nextID("holder")}, "Type": T{"s": "Note"}, "Location": bare()}}, "cover/bare-embedded/item")
					emit(c, T{"t": "Activity", "ptr": true, "f": T{"ID": T{"s": g.nextID("holder")}, "Type": T{"s": "Create"}, "Object": bare(),
						"Tag": T{"list": []interface{}{T{"iri": g.nextID("iri")}, bare()}}}}, "cover/bare-embedded/list")
				}
			}
		}
	}
}

func init() {
	campaigns["C01"] = func(c *Ctx) {
		c.Rule = "covering set: one value per (Go struct, field, admissible shape: IRI / embedded object / link / list / type-less object; IRI list / mixed list / single embedded object; plain / tagged / multi-language text; +/- numbers; zoned instants; durations; sub-records; for every struct, twins that differ only in their ids as list neighbours; every list-typed property set but empty next to other properties; and every Object property as the only content of an embedded object without id and type, in a single-item position and as a list member), then values generated type-directed from the struct definitions (depth <= 2 quick / 3 thorough, each field set with probability 0.18, embedded objects by pointer and value, links, empty types on embedded objects, negative numbers, zones, multi-language text, distinct ids). Each value is encoded with MarshalJSON, decoded with UnmarshalJSON, and the decoded value's reflect dump is compared with the documented normal form of the original."
		c01Cover(c, c01Case)
		cfg := c01Cfg(c.N(2, 3))
		for i := 0; i < c.N(2500, 60000); i++ {
			typ := allGoTypes[c.R.Intn(len(allGoTypes))]
			tr := cfg.genNode(c.R, typ, cfg.MaxDepth, false)
			tr["ptr"] = true
			c01Case(c, tr, "random/"+typ)
		}
	}
	corner := campaigns["C01"]
	campaigns["C01"] = func(c *Ctx) {
		corner(c)
		// outside the property's quantifier, for the deep model only: lists with nil-like members in every
		// position, one-element IRI lists, empty lists, empty strings, repeated language references
		cfg := c01Cfg(2)
		cfg.NilMembers = true
		cfg.RepeatLang = true
		deep := func(tr T, tag string) {
			after, _, _ := jsonRoundTripRaw(tr)
			var shown interface{}
			if after != nil {
				shown = dropEmpties(after)
			}
			c.Emit(map[string]interface{}{"op": "deepRoundTrip", "v": tr}, shown, true)
			c.Tag(tag)
		}
		for i := 0; i < c.N(600, 15000); i++ {
			typ := allGoTypes[c.R.Intn(len(allGoTypes))]
			tr := cfg.genNode(c.R, typ, cfg.MaxDepth, false)
			tr["ptr"] = true
			deep(tr, "deep-corner/random")
		}
		silent := []interface{}{nil, T{"t": "Object", "nil": true}, T{"iri": ""}, T{"t": "Object", "ptr": true, "f": T{}}}
		for _, sv := range silent {
			for pos := 0; pos < 3; pos++ {
				for n := 0; n < 3; n++ {
					l := []interface{}{}
					for k := 0; k < n; k++ {
						l = append(l, T{"iri": fmt.Sprintf("https://example.com/m%d", k)})
					}
					if pos > len(l) {
						continue
					}
					l = append(l[:pos:pos], append([]interface{}{sv}, l[pos:]...)...)
					deep(T{"t": "Object", "ptr": true, "f": T{"ID": T{"s": "https://example.com/h"}, "Type": T{"s": "Note"}, "To": T{"list": l}, "Audience": T{"list": l},
						"Context": T{"items": l, "ptr": false}, "URL": T{"items": l, "ptr": true}}}, "deep-corner/silent-members")
				}
			}
		}
		// integers no float64 can hold exactly (beyond 2^53): written and read as integers, digit for digit.
		// These are compared in Go directly: the value trees of the harness travel as JSON numbers.
		for _, big := range []int64{1<<53 + 1, 1<<53 + 3, 1<<62 + 1, math.MaxInt64} {
			for _, sign := range []int64{1, -1} {
				z := sign * big
				var viol string
				pan, msg := guard(func() {
					p := &ap.Place{ID: "https://example.com/p", Type: ap.PlaceType, Radius: z}
					b, err := ap.MarshalJSON(p)
					if err != nil {
						viol = "MarshalJSON error: " + err.Error()
						return
					}
					back, err := ap.UnmarshalJSON(b)
					if err != nil {
						viol = "UnmarshalJSON error: " + err.Error()
						return
					}
					if q, ok := back.(*ap.Place); !ok || q.Radius != z {
						viol = fmt.Sprintf("Place.radius %d comes back as %v   bytes: %s", z, back, b)
					}
					if z > 0 {
						oc := &ap.OrderedCollectionPage{ID: "https://example.com/c", Type: ap.OrderedCollectionPageType, TotalItems: uint(z), StartIndex: uint(z)}
						b, err = ap.MarshalJSON(oc)
						if err == nil {
							back, err = ap.UnmarshalJSON(b)
						}
						if q, ok := back.(*ap.OrderedCollectionPage); err != nil || !ok || q.TotalItems != uint(z) || q.StartIndex != uint(z) {
							viol = fmt.Sprintf("totalItems/startIndex %d come back as %v (%v)   bytes: %s", z, back, err, b)
						}
						l := &ap.Link{ID: "https://example.com/l", Type: ap.LinkType, Width: uint(z), Height: uint(z)}
						b, err = ap.MarshalJSON(l)
						if err == nil {
							back, err = ap.UnmarshalJSON(b)
						}
						if q, ok := back.(*ap.Link); err != nil || !ok || q.Width != uint(z) || q.Height != uint(z) {
							viol = fmt.Sprintf("Link width/height %d come back as %v (%v)   bytes: %s", z, back, err, b)
						}
					}
				})
				if pan {
					viol = "panic: " + msg
				}
				if viol == "" && sign == 1 {
					// unsigned counters in the upper half of their range (beyond every int64)
					for _, u := range []uint{1 << 63, 1<<63 + uint(big), math.MaxUint64} {
						pan, msg := guard(func() {
							oc := &ap.OrderedCollectionPage{ID: "https://example.com/c", Type: ap.OrderedCollectionPageType, TotalItems: u, StartIndex: u}
							b, err := ap.MarshalJSON(oc)
							var back ap.Item
							if err == nil {
								back, err = ap.UnmarshalJSON(b)
							}
							if q, ok := back.(*ap.OrderedCollectionPage); err != nil || !ok || q.TotalItems != u || q.StartIndex != u {
								viol = fmt.Sprintf("totalItems/startIndex %d come back as %v (%v)   bytes: %s", u, back, err, b)
							}
							l := &ap.Link{ID: "https://example.com/l", Type: ap.LinkType, Width: u, Height: u}
							b, err = ap.MarshalJSON(l)
							if err == nil {
								back, err = ap.UnmarshalJSON(b)
							}
							if q, ok := back.(*ap.Link); err != nil || !ok || q.Width != u || q.Height != u {
								viol = fmt.Sprintf("Link width/height %d come back as %v (%v)   bytes: %s", u, back, err, b)
							}
						})
						if pan {
							viol = "panic: " + msg
						}
					}
				}
				in := map[string]interface{}{"bigint": fmt.Sprint(z)}
				c.Count(in, true)
				c.Tag("deep-corner/big-integers")
				if viol != "" {
					c.Fail("C01/big-integer", viol, in)
				}
			}
		}
		// a text property whose entries have nothing to write (empty text), inside a sub-record and on the object
		// itself, next to properties that do: the neighbours survive
		for _, texts := range [][]interface{}{{[]interface{}{"en", ""}}, {[]interface{}{"en", ""}, []interface{}{"fr", ""}}, {[]interface{}{"-", ""}}} {
			c01OracleCase(c, T{"t": "Object", "ptr": true, "f": T{"ID": T{"s": "https://example.com/h"}, "Type": T{"s": "Note"},
				"Source": T{"rec": T{"MediaType": T{"s": "text/markdown"}, "Content": T{"nlv": texts}}}}}, "deep-corner/silent-text")
			c01OracleCase(c, T{"t": "Object", "ptr": true, "f": T{"ID": T{"s": "https://example.com/h"}, "Type": T{"s": "Note"},
				"Name": T{"nlv": texts}, "Summary": T{"nlv": []interface{}{[]interface{}{"-", "kept"}}}}}, "deep-corner/silent-text")
			c01OracleCase(c, T{"t": "Actor", "ptr": true, "f": T{"ID": T{"s": "https://example.com/a"}, "Type": T{"s": "Person"},
				"PreferredUsername": T{"nlv": texts}, "Inbox": T{"iri": "https://example.com/a/inbox"}}}, "deep-corner/silent-text")
		}
		for n := 0; n < 3; n++ {
			l := []interface{}{}
			for k := 0; k < n; k++ {
				l = append(l, fmt.Sprintf("https://example.com/i%d", k))
			}
			deep(T{"t": "Object", "ptr": true, "f": T{"ID": T{"s": "https://example.com/h"}, "Type": T{"s": "Note"}, "Context": T{"iris": l}, "URL": T{"iris": l}}}, "deep-corner/iris")
		}
	}
	replayers["C01"] = func(class string, input []byte) string {
		var in map[string]interface{}
		if err := json.Unmarshal(input, &in); err != nil {
			return "bad replay input"
		}
		if bs, ok := in["bigint"].(string); ok {
			z, _ := strconv.ParseInt(bs, 10, 64)
			p := &ap.Place{ID: "https://example.com/p", Type: ap.PlaceType, Radius: z}
			b, err := ap.MarshalJSON(p)
			if err != nil {
				return err.Error()
			}
			back, err := ap.UnmarshalJSON(b)
			if q, ok := back.(*ap.Place); err != nil || !ok || q.Radius != z {
				return fmt.Sprintf("Place.radius %d comes back as %v", z, back)
			}
			if z > 0 {
				for _, u := range []uint{uint(z), 1 << 63, 1<<63 + uint(z), math.MaxUint64} {
					l := &ap.Link{ID: "https://example.com/l", Type: ap.LinkType, Width: u}
					b, _ = ap.MarshalJSON(l)
					back, err = ap.UnmarshalJSON(b)
					if q, ok := back.(*ap.Link); err != nil || !ok || q.Width != u {
						return fmt.Sprintf("Link width %d comes back as %v", u, back)
					}
				}
			}
			return ""
		}
		_, _, viol := jsonRoundTrip(parseTree(in["v"]))
		return viol
	}
}
