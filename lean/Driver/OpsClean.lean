import Driver.Value
import APModel.Model.Clean
open Lean APModel APModel.Clean

namespace Driver

def opClean (j : Json) : R Json := do
  let v ← parseItem (← fld j "v")
  return renderItem (cleanItem generatedCfg v)

end Driver
