package main

import (
	"fmt"
	"go/ast"
	"go/token"
	"go/types"
	"sort"
	"strings"
)

// Write sets (C12): for every function and method of the package, through which of its parameters
// (receiver included) it may write memory that the caller can see — directly (a store through a
// pointer, slice element or map entry rooted at the parameter, an append to a slice rooted at it) or
// through a callee of the package (fixed point over the call graph; interface method calls resolve to
// every method of the package with that name; a function literal passed along with a parameter-rooted
// argument is analysed as if called on it).  Calls that hand parameter-rooted data to functions outside
// the package are listed, for an allow-list kept on the Lean side.
//
// A local variable assigned from a parameter-rooted expression is rooted at the same parameter.  A store
// into a direct field of a struct COPY (value receiver, `x := *p`) is local; a store that goes through a
// pointer, a slice element or a map entry reachable from the copy is not.

type fnSummary struct {
	name    string
	params  []string          // receiver first
	writes  map[string]string // param -> first reason
	ext     map[string]bool   // external callees that receive parameter-rooted reference data
	dynamic map[string]bool   // calls of function values (not literals) with parameter-rooted data
	// parameters whose memory a result may point into (a `return` of a parameter-rooted reference: the To* views
	// hand back the pointer they were given)
	retAlias map[string]bool
}

type purity struct {
	x    *Extractor
	sums map[string]*fnSummary
	// methods by name, for interface dispatch
	byMethod map[string][]string
	changed  bool
}

type scope struct {
	fn   *fnSummary
	root map[types.Object]string // local object -> parameter it is rooted at
}

func (p *purity) objOf(id *ast.Ident) types.Object {
	if o := p.x.info.Uses[id]; o != nil {
		return o
	}
	return p.x.info.Defs[id]
}

func isRefType(t types.Type) bool {
	if t == nil {
		return true
	}
	switch u := t.Underlying().(type) {
	case *types.Pointer, *types.Slice, *types.Map, *types.Interface, *types.Signature, *types.Chan:
		return true
	case *types.Struct:
		for i := 0; i < u.NumFields(); i++ {
			if isRefType(u.Field(i).Type()) {
				return true
			}
		}
		return false
	case *types.Array:
		return isRefType(u.Elem())
	case *types.Basic:
		return false
	}
	return true
}

// rootOf: the parameter an expression is rooted at ("" if none), and whether reaching the denoted
// location from the root variable crosses a reference (pointer deref, slice/map element).
func (p *purity) rootOf(sc *scope, e ast.Expr) (param string, viaRef bool) {
	switch v := e.(type) {
	case *ast.Ident:
		if o := p.objOf(v); o != nil {
			if r, ok := sc.root[o]; ok {
				return r, false
			}
		}
		return "", false
	case *ast.ParenExpr:
		return p.rootOf(sc, v.X)
	case *ast.StarExpr:
		r, _ := p.rootOf(sc, v.X)
		return r, true
	case *ast.SelectorExpr:
		r, via := p.rootOf(sc, v.X)
		if r == "" {
			return "", false
		}
		if tv, ok := p.x.info.Types[v.X]; ok {
			if _, isPtr := tv.Type.Underlying().(*types.Pointer); isPtr {
				via = true
			}
		}
		return r, via
	case *ast.IndexExpr:
		r, via := p.rootOf(sc, v.X)
		if r == "" {
			return "", false
		}
		if tv, ok := p.x.info.Types[v.X]; ok {
			switch tv.Type.Underlying().(type) {
			case *types.Slice, *types.Map, *types.Pointer:
				via = true
			}
		}
		return r, via
	case *ast.SliceExpr:
		r, _ := p.rootOf(sc, v.X)
		return r, true
	case *ast.TypeAssertExpr:
		return p.rootOf(sc, v.X)
	case *ast.UnaryExpr:
		if v.Op == token.AND {
			r, _ := p.rootOf(sc, v.X)
			return r, true
		}
		return "", false
	case *ast.CallExpr:
		// conversions T(x) keep the root; results of real calls are treated as fresh unless the callee is a
		// known accessor that returns its argument's own memory
		if tv, ok := p.x.info.Types[v.Fun]; ok && tv.IsType() && len(v.Args) == 1 {
			return p.rootOf(sc, v.Args[0])
		}
		if sel, ok := v.Fun.(*ast.SelectorExpr); ok {
			switch sel.Sel.Name {
			case "Collection", "GetLink", "GetID", "GetType", "First", "Bytes":
				if r, _ := p.rootOf(sc, sel.X); r != "" {
					return r, true
				}
			}
		}
		// a function of the package whose result may point into one of its parameters
		if names, recv, _, _ := p.calleeName(v); len(names) > 0 {
			var roots []string
			if recv != nil {
				r, _ := p.rootOf(sc, recv)
				roots = append(roots, r)
			}
			for _, a := range v.Args {
				r, _ := p.rootOf(sc, a)
				if tv, ok := p.x.info.Types[a]; ok && !isRefType(tv.Type) {
					r = ""
				}
				roots = append(roots, r)
			}
			for _, n := range names {
				cs := p.sums[n]
				if cs == nil || len(cs.retAlias) == 0 {
					continue
				}
				cparams := cs.params
				if recv == nil && len(cparams) > len(v.Args) {
					cparams = cparams[len(cparams)-len(v.Args):]
				}
				for i, cp := range cparams {
					j := i
					if j >= len(roots) {
						j = len(roots) - 1
					}
					if j >= 0 && cs.retAlias[cp] && roots[j] != "" {
						return roots[j], true
					}
				}
			}
		}
		return "", false
	case *ast.CompositeLit, *ast.BasicLit, *ast.FuncLit, *ast.BinaryExpr:
		return "", false
	}
	return "", false
}

func (p *purity) markWrite(sc *scope, param, why string) {
	if _, ok := sc.fn.writes[param]; !ok {
		sc.fn.writes[param] = why
		p.changed = true
	}
}

func (p *purity) bind(sc *scope, lhs ast.Expr, rhs ast.Expr) {
	id, ok := lhs.(*ast.Ident)
	if !ok || id.Name == "_" {
		return
	}
	o := p.objOf(id)
	if o == nil {
		return
	}
	if r, _ := p.rootOf(sc, rhs); r != "" && isRefType(o.Type()) {
		if sc.root[o] != r {
			sc.root[o] = r
			p.changed = true
		}
	}
}

func (p *purity) calleeName(call *ast.CallExpr) (names []string, recv ast.Expr, external string, dynamic bool) {
	switch f := call.Fun.(type) {
	case *ast.Ident:
		o := p.objOf(f)
		switch ob := o.(type) {
		case *types.Func:
			if ob.Pkg() == p.x.pkg {
				return []string{f.Name}, nil, "", false
			}
			return nil, nil, ob.FullName(), false
		case *types.Builtin:
			return nil, nil, "builtin." + f.Name, false
		case *types.Var:
			return nil, nil, "", true
		}
		return nil, nil, "", false
	case *ast.SelectorExpr:
		if sel := p.x.info.Selections[f]; sel != nil {
			fn, _ := sel.Obj().(*types.Func)
			if fn == nil {
				return nil, f.X, "", true // field of function type
			}
			recvT := sel.Recv()
			if _, isIface := recvT.Underlying().(*types.Interface); isIface {
				if ms := p.byMethod[fn.Name()]; len(ms) > 0 {
					return ms, f.X, "", false
				}
				return nil, f.X, "iface." + fn.Name(), false
			}
			if fn.Pkg() == p.x.pkg {
				t := recvT
				if pt, ok := t.(*types.Pointer); ok {
					t = pt.Elem()
				}
				if n, ok := t.(*types.Named); ok {
					return []string{n.Obj().Name() + "." + fn.Name()}, f.X, "", false
				}
			}
			return nil, f.X, fn.FullName(), false
		}
		// package-qualified function
		if o, ok := p.x.info.Uses[f.Sel].(*types.Func); ok {
			if o.Pkg() == p.x.pkg {
				return []string{f.Sel.Name}, nil, "", false
			}
			return nil, nil, o.FullName(), false
		}
	case *ast.IndexExpr: // generic instantiation f[T](…)
		if id, ok := f.X.(*ast.Ident); ok {
			if o, ok := p.objOf(id).(*types.Func); ok && o.Pkg() == p.x.pkg {
				return []string{id.Name}, nil, "", false
			}
		}
	case *ast.FuncLit:
		return nil, nil, "", false
	}
	return nil, nil, "", true
}

func (p *purity) call(sc *scope, call *ast.CallExpr) {
	if tv, ok := p.x.info.Types[call.Fun]; ok && tv.IsType() {
		for _, a := range call.Args {
			p.expr(sc, a)
		}
		return
	}
	names, recv, external, dynamic := p.calleeName(call)
	// argument roots (receiver first)
	type arg struct {
		e    ast.Expr
		root string
	}
	var args []arg
	if recv != nil {
		r, _ := p.rootOf(sc, recv)
		args = append(args, arg{recv, r})
	}
	for _, a := range call.Args {
		r, _ := p.rootOf(sc, a)
		if tv, ok := p.x.info.Types[a]; ok && !isRefType(tv.Type) {
			r = "" // a scalar copy cannot be written through
		}
		args = append(args, arg{a, r})
	}
	anyRoot := ""
	for _, a := range args {
		if a.root != "" {
			anyRoot = a.root
		}
	}
	// function literals among the arguments: analysed in place, their parameters rooted at the data passed along
	for _, a := range call.Args {
		if fl, ok := a.(*ast.FuncLit); ok {
			for _, fld := range fl.Type.Params.List {
				for _, n := range fld.Names {
					if o := p.x.info.Defs[n]; o != nil && anyRoot != "" && isRefType(o.Type()) {
						if sc.root[o] != anyRoot {
							sc.root[o] = anyRoot
							p.changed = true
						}
					}
				}
			}
			p.block(sc, fl.Body.List)
		} else {
			p.expr(sc, a)
		}
	}
	if recv != nil {
		p.expr(sc, recv)
	}
	switch {
	case external == "builtin.append":
		if len(call.Args) > 0 {
			if r, _ := p.rootOf(sc, call.Args[0]); r != "" {
				p.markWrite(sc, r, "append to a slice rooted at it: "+p.x.src(call))
			}
		}
	case external == "builtin.copy":
		if len(call.Args) > 0 {
			if r, _ := p.rootOf(sc, call.Args[0]); r != "" {
				p.markWrite(sc, r, "copy into it: "+p.x.src(call))
			}
		}
	case external == "builtin.delete" || external == "builtin.clear":
		if len(call.Args) > 0 {
			if r, _ := p.rootOf(sc, call.Args[0]); r != "" {
				p.markWrite(sc, r, p.x.src(call))
			}
		}
	case strings.HasPrefix(external, "builtin."):
	case external != "":
		if anyRoot != "" {
			if !sc.fn.ext[external] {
				sc.fn.ext[external] = true
				p.changed = true
			}
		}
	case dynamic:
		if anyRoot != "" {
			k := p.x.src(call.Fun)
			if !sc.fn.dynamic[k] {
				sc.fn.dynamic[k] = true
				p.changed = true
			}
		}
	default:
		for _, n := range names {
			cs := p.sums[n]
			if cs == nil {
				continue
			}
			// map callee parameters to our argument roots
			cparams := cs.params
			as := args
			if recv == nil && len(cparams) > len(call.Args) {
				cparams = cparams[len(cparams)-len(call.Args):]
			}
			for i, cp := range cparams {
				j := i
				if j >= len(as) {
					j = len(as) - 1 // variadic tail
				}
				if j < 0 {
					continue
				}
				if why, w := cs.writes[cp]; w && as[j].root != "" {
					p.markWrite(sc, as[j].root, "via "+n+"("+cp+"): "+why)
				}
			}
			for e := range cs.ext {
				if anyRoot != "" && !sc.fn.ext[e] {
					sc.fn.ext[e] = true
					p.changed = true
				}
			}
			for d := range cs.dynamic {
				if anyRoot != "" && !sc.fn.dynamic[n+":"+d] && !strings.Contains(d, ":") {
					sc.fn.dynamic[n+":"+d] = true
					p.changed = true
				}
			}
		}
	}
}

func (p *purity) expr(sc *scope, e ast.Expr) {
	ast.Inspect(e, func(n ast.Node) bool {
		switch v := n.(type) {
		case *ast.CallExpr:
			p.call(sc, v)
			return false
		case *ast.FuncLit:
			// a function literal that is not an argument of a call (returned, stored): its parameters
			// become pseudo-parameters "closure:<name>" of the enclosing function
			for _, fld := range v.Type.Params.List {
				for _, n := range fld.Names {
					if o := p.x.info.Defs[n]; o != nil && isRefType(o.Type()) {
						if _, ok := sc.root[o]; !ok {
							pn := "closure:" + n.Name
							sc.root[o] = pn
							found := false
							for _, q := range sc.fn.params {
								found = found || q == pn
							}
							if !found {
								sc.fn.params = append(sc.fn.params, pn)
							}
							p.changed = true
						}
					}
				}
			}
			p.block(sc, v.Body.List)
			return false
		}
		return true
	})
}

func (p *purity) store(sc *scope, lhs ast.Expr, what string) {
	if id, ok := lhs.(*ast.Ident); ok {
		_ = id
		return // assigning a variable itself is local
	}
	r, via := p.rootOf(sc, lhs)
	if r != "" && via {
		p.markWrite(sc, r, what)
	}
}

func (p *purity) stmt(sc *scope, st ast.Stmt) {
	switch v := st.(type) {
	case nil:
	case *ast.AssignStmt:
		for _, r := range v.Rhs {
			p.expr(sc, r)
		}
		for i, l := range v.Lhs {
			if v.Tok == token.DEFINE || isIdent(l) {
				if len(v.Rhs) == len(v.Lhs) {
					p.bind(sc, l, v.Rhs[i])
				} else if len(v.Rhs) == 1 {
					p.bind(sc, l, v.Rhs[0])
				}
			}
			if !isIdent(l) {
				p.expr(sc, l)
				p.store(sc, l, "store: "+p.x.src(v))
			}
		}
	case *ast.IncDecStmt:
		p.store(sc, v.X, "store: "+p.x.src(v))
	case *ast.ExprStmt:
		p.expr(sc, v.X)
	case *ast.ReturnStmt:
		for _, e := range v.Results {
			p.expr(sc, e)
			if r, _ := p.rootOf(sc, e); r != "" {
				if tv, ok := p.x.info.Types[e]; ok && isRefType(tv.Type) && !sc.fn.retAlias[r] {
					sc.fn.retAlias[r] = true
					p.changed = true
				}
			}
		}
	case *ast.DeclStmt:
		if gd, ok := v.Decl.(*ast.GenDecl); ok {
			for _, sp := range gd.Specs {
				if vs, ok := sp.(*ast.ValueSpec); ok {
					for i, e := range vs.Values {
						p.expr(sc, e)
						if i < len(vs.Names) {
							p.bind(sc, vs.Names[i], e)
						}
					}
				}
			}
		}
	case *ast.BlockStmt:
		p.block(sc, v.List)
	case *ast.IfStmt:
		p.stmt(sc, v.Init)
		p.expr(sc, v.Cond)
		p.block(sc, v.Body.List)
		p.stmt(sc, v.Else)
	case *ast.ForStmt:
		p.stmt(sc, v.Init)
		if v.Cond != nil {
			p.expr(sc, v.Cond)
		}
		p.stmt(sc, v.Post)
		p.block(sc, v.Body.List)
	case *ast.RangeStmt:
		p.expr(sc, v.X)
		if v.Value != nil {
			p.bind(sc, v.Value, v.X)
		}
		p.block(sc, v.Body.List)
	case *ast.SwitchStmt:
		p.stmt(sc, v.Init)
		if v.Tag != nil {
			p.expr(sc, v.Tag)
		}
		for _, cc := range v.Body.List {
			cl := cc.(*ast.CaseClause)
			for _, e := range cl.List {
				p.expr(sc, e)
			}
			p.block(sc, cl.Body)
		}
	case *ast.TypeSwitchStmt:
		p.stmt(sc, v.Init)
		var subject ast.Expr
		switch a := v.Assign.(type) {
		case *ast.AssignStmt:
			if ta, ok := a.Rhs[0].(*ast.TypeAssertExpr); ok {
				subject = ta.X
			}
		case *ast.ExprStmt:
			if ta, ok := a.X.(*ast.TypeAssertExpr); ok {
				subject = ta.X
			}
		}
		for _, cc := range v.Body.List {
			cl := cc.(*ast.CaseClause)
			if o := p.x.info.Implicits[cl]; o != nil && subject != nil {
				if r, _ := p.rootOf(sc, subject); r != "" && sc.root[o] != r {
					sc.root[o] = r
					p.changed = true
				}
			}
			p.block(sc, cl.Body)
		}
	case *ast.DeferStmt:
		p.call(sc, v.Call)
	case *ast.GoStmt:
		p.call(sc, v.Call)
	case *ast.LabeledStmt:
		p.stmt(sc, v.Stmt)
	}
}

func isIdent(e ast.Expr) bool {
	_, ok := e.(*ast.Ident)
	return ok
}

func (p *purity) block(sc *scope, list []ast.Stmt) {
	for _, st := range list {
		p.stmt(sc, st)
	}
}

func (x *Extractor) genPurity() string {
	var sb strings.Builder
	sb.WriteString(header)
	sb.WriteString("namespace APModel.Generated\n\n")
	if err := x.typecheck(); err != nil {
		sb.WriteString("def writeSets : List (String × List String × List String × List String) := [(\"?unknown\", [" + lstr(err.Error()) + "], [], [])]\n\nend APModel.Generated\n")
		return sb.String()
	}
	p := &purity{x: x, sums: map[string]*fnSummary{}, byMethod: map[string][]string{}}
	var keys []string
	for k, fd := range x.funcs {
		if fd.Body == nil {
			continue
		}
		keys = append(keys, k)
		s := &fnSummary{name: k, writes: map[string]string{}, ext: map[string]bool{}, dynamic: map[string]bool{}, retAlias: map[string]bool{}}
		if fd.Recv != nil {
			for _, f := range fd.Recv.List {
				for _, n := range f.Names {
					s.params = append(s.params, n.Name)
				}
				if len(f.Names) == 0 {
					s.params = append(s.params, "_recv")
				}
			}
		}
		for _, f := range fd.Type.Params.List {
			for _, n := range f.Names {
				s.params = append(s.params, n.Name)
			}
			if len(f.Names) == 0 {
				s.params = append(s.params, "_")
			}
		}
		p.sums[k] = s
		if i := strings.IndexByte(k, '.'); i > 0 {
			p.byMethod[k[i+1:]] = append(p.byMethod[k[i+1:]], k)
		}
	}
	sort.Strings(keys)
	for m := range p.byMethod {
		sort.Strings(p.byMethod[m])
	}
	scopes := map[string]*scope{}
	for _, k := range keys {
		fd := x.funcs[k]
		sc := &scope{fn: p.sums[k], root: map[types.Object]string{}}
		add := func(fl *ast.FieldList) {
			if fl == nil {
				return
			}
			for _, f := range fl.List {
				for _, n := range f.Names {
					if o := x.info.Defs[n]; o != nil && isRefType(o.Type()) {
						sc.root[o] = n.Name
					}
				}
			}
		}
		add(fd.Recv)
		add(fd.Type.Params)
		scopes[k] = sc
	}
	for round := 0; round < 12; round++ {
		p.changed = false
		for _, k := range keys {
			p.block(scopes[k], x.funcs[k].Body.List)
		}
		if !p.changed {
			break
		}
	}
	sb.WriteString("/-- (function, its method name or \"\" for a plain function, parameters written through, external callees handed parameter-rooted data, calls of function values) -/\ndef writeSets : List (String × String × List String × List String × List String) := [\n")
	for i, k := range keys {
		s := p.sums[k]
		var ws, es, ds []string
		for _, prm := range s.params {
			if _, ok := s.writes[prm]; ok {
				ws = append(ws, prm)
			}
		}
		for e := range s.ext {
			es = append(es, e)
		}
		for d := range s.dynamic {
			ds = append(ds, d)
		}
		sort.Strings(es)
		sort.Strings(ds)
		sep := ","
		if i == len(keys)-1 {
			sep = ""
		}
		method := ""
		if i := strings.IndexByte(k, '.'); i > 0 {
			method = k[i+1:]
		}
		fmt.Fprintf(&sb, "  (%s, %s, %s, %s, %s)%s\n", lstr(k), lstr(method), lstrList(ws), lstrList(es), lstrList(ds), sep)
	}
	sb.WriteString("]\n\n/-- why: the first reason found for each written parameter (documentation only) -/\ndef writeReasons : List (String × String × String) := [\n")
	var rs []string
	for _, k := range keys {
		s := p.sums[k]
		for _, prm := range s.params {
			if why, ok := s.writes[prm]; ok {
				rs = append(rs, fmt.Sprintf("  (%s, %s, %s)", lstr(k), lstr(prm), lstr(why)))
			}
		}
	}
	sb.WriteString(strings.Join(rs, ",\n"))
	sb.WriteString("\n]\n\nend APModel.Generated\n")
	return sb.String()
}

func init() {
	moreGens = append(moreGens, func(x *Extractor) map[string]func() string {
		return map[string]func() string{"WriteSets.lean": x.genPurity}
	})
}

// Stores into package-level variables (C12): every assignment, increment, map or slice element store,
// or append whose target is rooted at a variable declared at package level, in any function or method
// (also inside function literals).  A package whose functions keep no state between calls has none,
// apart from the ones that install defaults.
func (x *Extractor) genGlobalWrites() string {
	if err := x.typecheck(); err != nil {
		return header + "-- typecheck failed: " + err.Error() + "\n#check (APModel.Generated.typecheckFailed : Nat)\n"
	}
	pkgVar := func(e ast.Expr) *types.Var {
		for {
			switch v := e.(type) {
			case *ast.Ident:
				o := x.info.Uses[v]
				if o == nil {
					o = x.info.Defs[v]
				}
				if vr, ok := o.(*types.Var); ok && vr.Parent() == vr.Pkg().Scope() {
					return vr
				}
				return nil
			case *ast.SelectorExpr:
				e = v.X
			case *ast.IndexExpr:
				e = v.X
			case *ast.StarExpr:
				e = v.X
			case *ast.ParenExpr:
				e = v.X
			default:
				return nil
			}
		}
	}
	var keys []string
	for k := range x.funcs {
		keys = append(keys, k)
	}
	sort.Strings(keys)
	seen := map[string]bool{}
	var lines []string
	for _, k := range keys {
		fd := x.funcs[k]
		if fd.Body == nil {
			continue
		}
		add := func(v *types.Var, how string) {
			if v == nil {
				return
			}
			key := k + "|" + v.Name() + "|" + how
			if !seen[key] {
				seen[key] = true
				lines = append(lines, fmt.Sprintf("  (%s, %s, %s)", lstr(k), lstr(v.Name()), lstr(how)))
			}
		}
		ast.Inspect(fd.Body, func(n ast.Node) bool {
			switch s := n.(type) {
			case *ast.AssignStmt:
				for _, l := range s.Lhs {
					add(pkgVar(l), "assign")
				}
			case *ast.IncDecStmt:
				add(pkgVar(s.X), "incdec")
			case *ast.CallExpr:
				if id, ok := s.Fun.(*ast.Ident); ok && (id.Name == "delete" || id.Name == "clear") && len(s.Args) > 0 {
					add(pkgVar(s.Args[0]), id.Name)
				}
				// a method with a pointer receiver called on a package-level variable (Store, Put, Lock, Do…)
				if sel, ok := s.Fun.(*ast.SelectorExpr); ok {
					if v := pkgVar(sel.X); v != nil {
						if selInfo := x.info.Selections[sel]; selInfo != nil && selInfo.Kind() == types.MethodVal {
							if fn, ok := selInfo.Obj().(*types.Func); ok {
								if sig, ok := fn.Type().(*types.Signature); ok && sig.Recv() != nil {
									if _, ptr := sig.Recv().Type().(*types.Pointer); ptr {
										add(v, "call:"+sel.Sel.Name)
									}
								}
							}
						}
					}
				}
			}
			return true
		})
	}
	var sb strings.Builder
	sb.WriteString(header)
	sb.WriteString("namespace APModel.Generated\n\n/-- every store into (or method call on) a package-level variable: (function, variable, how) -/\ndef globalWrites : List (String × String × String) := [\n")
	sb.WriteString(strings.Join(lines, ",\n"))
	sb.WriteString("\n]\n\nend APModel.Generated\n")
	return sb.String()
}

func rootIdent(e ast.Expr) *ast.Ident {
	for {
		switch v := e.(type) {
		case *ast.Ident:
			return v
		case *ast.SelectorExpr:
			e = v.X
		case *ast.IndexExpr:
			e = v.X
		case *ast.StarExpr:
			e = v.X
		case *ast.ParenExpr:
			e = v.X
		default:
			return nil
		}
	}
}

func init() {
	moreGens = append(moreGens, func(x *Extractor) map[string]func() string {
		return map[string]func() string{"GlobalWrites.lean": x.genGlobalWrites}
	})
}
