import Driver.Value
import APModel.Model.Equal
open Lean APModel APModel.Equal

namespace Driver

def opItemsEqual (j : Json) : R Json := do
  let a ← parseItem (← fld j "a")
  let b ← parseItem (← fld j "b")
  match itemsEqual APModel.Generated.equalsRows a b with
  | some r => return Json.bool r
  | none => return Json.mkObj [("outside", Json.bool true)]

end Driver
