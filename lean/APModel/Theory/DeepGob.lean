/-
The whole-tree theorem of the deep gob codec model: for every well-formed value tree, decoding what
the encoder writes gives the value in C03's normal form (struct values come back as pointers; nothing
else changes: instants keep nanoseconds and zone, numbers their sign).
Well-formed (computable `wfItem`): no nil-like items, no empty lists / texts / strings / sub-records,
set scalars, the "type" entry selecting the struct, and per field coherent write and read rows.
-/
import APModel.Model.DeepGob
import APModel.Theory.Deep
import APModel.Theory.Codec

namespace APModel.DeepGob
open APModel APModel.Codec
open APModel.Deep (kindMatches isStrKind)

/-! ### well-formedness -/

def isStrDec (h : String) : Bool := h == ".GobDecode" || h == "string"

/-- pairs of encoder and decoder whose composition the theorem covers, per declared kind of field -/
def deepPairG (kind hw hr : String) : Bool :=
  if isStrKind kind then isStrEnc hw && isStrDec hr
  else if kind == "item" then isItemEnc hw && hr == "gobDecodeItem"
  else if kind == "items" then (hw == "gobEncodeItem" || hw == "gobEncodeItems") && hr == "gobDecodeItems"
  else if kind == "nlv" then hw == ".GobEncode" && (hr == "gobDecodeNaturalLanguageValues" || hr == ".GobDecode")
  else if kind == "time" then hw == ".GobEncode" && hr == ".GobDecode"
  else if kind == "duration" then hw == "gobEncodeInt64" && hr == "gobDecodeDuration"
  else if kind == "float" then hw == "gobEncodeFloat64" && hr == "gobDecodeFloat64"
  else if kind == "int" then hw == "gobEncodeInt64" && hr == "gobDecodeInt64"
  else if kind == "uint" then hw == "gobEncodeUint" && hr == "gobDecodeUint"
  else if kind == "bool" then hw == "gobEncodeBool" && hr == "gobDecodeBool"
  else if kind == "source" || kind == "pubkey" || kind == "endpoints" then hw == ".GobEncode" && hr == ".GobDecode"
  else false

def coherentFieldG (E : Env) (sn n : String) : Bool :=
  match E.wrow sn n with
  | none => false
  | some w =>
    guardFits w.guard (E.fieldKind sn n) &&
    (match E.rrow sn (nm w.term) with
     | some r => r.field == n && deepPairG (E.fieldKind sn n) w.helper r.helper
     | none => false)

def membersNil : GMembers → Bool
  | .nil => true
  | _ => false

mutual
def wfItem (E : Env) : Item → Bool
  | .nil => false
  | .typedNil _ => false
  | .collNil _ => false
  | .irisNil => false
  | .iri s => !s.isEmpty
  | .iris l => !l.isEmpty
  | .coll _ l => Items.length l != 0 && wfMembers E l
  | .node k _ fs =>
    wfFields E k.goName fs && !membersNil (writeFields E k.goName fs) &&
    E.kindOfType (typOf (writeFields E k.goName fs)) == some k
def wfMembers (E : Env) : Items → Bool
  | .nil => true
  | .cons i r => wfItem E i && wfMembers E r
def wfFields (E : Env) (sn : String) : Fields → Bool
  | .nil => true
  | .cons n v r => coherentFieldG E sn n && kindMatches (E.fieldKind sn n) v && wfVal E (E.fieldKind sn n) v && wfFields E sn r
def wfVal (E : Env) (kind : String) : FVal → Bool
  | .item i => wfItem E i
  | .items l => Items.length l != 0 && wfMembers E l
  | .nlv n => !n.isEmpty
  | .time _ _ _ => true
  | .dur d => d != 0
  | .dec6 z => z != 0
  | .int z => z != 0
  | .uint n => n != 0
  | .bool b => b
  | .str s => !s.isEmpty
  | .record fs => wfFields E (Deep.recName kind) fs && !membersNil (writeFields E (Deep.recName kind) fs)
end



def ItemOK (E : Env) (x : Item) : Prop :=
  readItem E (writeItem E x) = normG x ∧ isNilItem (normG x) = false

def MembersOK (E : Env) (l : Items) : Prop :=
  readList E (GList.ofList (writeItems E l)) = normGItems l ∧ (normGItems l).length = Items.length l

def FieldsOK (E : Env) (sn : String) (fs : Fields) : Prop :=
  readFields E sn (writeFields E sn fs) = normGFields fs ∧
  (membersNil (writeFields E sn fs) = false → ∃ n v r, normGFields fs = .cons n v r)

def ValOK (E : Env) (kind hw hr : String) (v : FVal) : Prop :=
  ∃ g v', writeVal E kind hw v = some g ∧ readVal E kind hr g = some v' ∧ normGVal v = some v'

theorem members_cons (E : Env) (i : Item) (r : Items) (hi : ItemOK E i) (hr : MembersOK E r) : MembersOK E (.cons i r) := by
  obtain ⟨h1, h2⟩ := hi
  obtain ⟨r1, r2⟩ := hr
  refine ⟨?_, ?_⟩
  · simp only [writeItems, GList.ofList, readList, h1, r1, normGItems, h2]
    simp
  · simp [normGItems, h2, Items.length, r2]

theorem item_coll (E : Env) (p : Bool) (l : Items) (hne : Items.length l ≠ 0) (hm : MembersOK E l) : ItemOK E (.coll p l) := by
  obtain ⟨h1, h2⟩ := hm
  have hlen : (normGItems l).length ≠ 0 := by rw [h2]; exact hne
  refine ⟨?_, ?_⟩
  · simp only [writeItem, readItem, h1, normG]
    cases hl : normGItems l with
    | nil => rw [hl] at hlen; simp at hlen
    | cons a t => rfl
  · simp only [normG]
    cases hl : normGItems l with
    | nil => rw [hl] at hlen; simp at hlen
    | cons a t => simp [isNilItem]

theorem item_node (E : Env) (k : Kind) (p : Bool) (fs : Fields)
    (hnn : membersNil (writeFields E k.goName fs) = false)
    (hty : (E.kindOfType (typOf (writeFields E k.goName fs)) == some k) = true)
    (hf : FieldsOK E k.goName fs) : ItemOK E (.node k p fs) := by
  have hk : E.kindOfType (typOf (writeFields E k.goName fs)) = some k := by simpa using hty
  obtain ⟨h1, h2⟩ := hf
  obtain ⟨n, v, r, hcons⟩ := h2 hnn
  refine ⟨?_, ?_⟩
  · simp only [writeItem]
    cases hms : writeFields E k.goName fs with
    | nil => rw [hms] at hnn; simp [membersNil] at hnn
    | cons key g rest =>
      simp only [readItem]
      rw [← hms, hk]
      simp only [h1, normG, hcons]
  · simp [normG, hcons, isNilItem]




/-- every well-formed value is "set" in the sense of the guards -/
theorem wf_isSet (E : Env) (kind : String) (v : FVal) (h : wfVal E kind v = true) : isSet v = true := by
  cases v with
  | item i => rfl
  | items l => simp only [wfVal, Bool.and_eq_true] at h; simpa [isSet] using h.1
  | nlv n => simpa [wfVal, isSet] using h
  | time s n o => rfl
  | dur d => simpa [wfVal, isSet] using h
  | str s => simpa [wfVal, isSet] using h
  | dec6 z => simpa [wfVal, isSet] using h
  | int z => simpa [wfVal, isSet] using h
  | uint n => simpa [wfVal, isSet] using h
  | bool b => simpa [wfVal, isSet] using h
  | record fs =>
    simp only [wfVal, Bool.and_eq_true, Bool.not_eq_true'] at h
    cases fs with
    | nil => simp [writeFields, membersNil] at h
    | cons n v r => rfl

theorem kind_hasKind (kind : String) (v : FVal) (hk : kindMatches kind v = true) : hasKind (FKind.parse kind) v = true := by
  cases v with
  | str s =>
    simp only [kindMatches, isStrKind, Bool.or_eq_true, beq_iff_eq] at hk
    rcases hk with ((((rfl | rfl) | rfl) | rfl) | rfl) | rfl <;> simp [FKind.parse, hasKind]
  | record fs =>
    simp only [kindMatches, Bool.or_eq_true, beq_iff_eq] at hk
    rcases hk with (rfl | rfl) | rfl <;> simp [FKind.parse, hasKind]
  | item i => have : kind = "item" := by simpa [kindMatches] using hk
              subst this; simp [FKind.parse, hasKind]
  | items l => have : kind = "items" := by simpa [kindMatches] using hk
               subst this; simp [FKind.parse, hasKind]
  | nlv n => have : kind = "nlv" := by simpa [kindMatches] using hk
             subst this; simp [FKind.parse, hasKind]
  | time s n o => have : kind = "time" := by simpa [kindMatches] using hk
                  subst this; simp [FKind.parse, hasKind]
  | dur d => have : kind = "duration" := by simpa [kindMatches] using hk
             subst this; simp [FKind.parse, hasKind]
  | dec6 z => have : kind = "float" := by simpa [kindMatches] using hk
              subst this; simp [FKind.parse, hasKind]
  | int z => have : kind = "int" := by simpa [kindMatches] using hk
             subst this; simp [FKind.parse, hasKind]
  | uint n => have : kind = "uint" := by simpa [kindMatches] using hk
              subst this; simp [FKind.parse, hasKind]
  | bool b => have : kind = "bool" := by simpa [kindMatches] using hk
              subst this; simp [FKind.parse, hasKind]


/-! ### what `deepPairG` says per kind -/

theorem dpg_item (hw hr : String) (h : deepPairG "item" hw hr = true) : isItemEnc hw = true ∧ hr = "gobDecodeItem" := by
  simpa [deepPairG, isStrKind] using h
theorem dpg_items (hw hr : String) (h : deepPairG "items" hw hr = true) :
    (hw = "gobEncodeItem" ∨ hw = "gobEncodeItems") ∧ hr = "gobDecodeItems" := by
  simpa [deepPairG, isStrKind] using h
theorem dpg_nlv (hw hr : String) (h : deepPairG "nlv" hw hr = true) :
    hw = ".GobEncode" ∧ (hr = "gobDecodeNaturalLanguageValues" ∨ hr = ".GobDecode") := by
  simpa [deepPairG, isStrKind] using h
theorem dpg_time (hw hr : String) (h : deepPairG "time" hw hr = true) : hw = ".GobEncode" ∧ hr = ".GobDecode" := by
  simpa [deepPairG, isStrKind] using h
theorem dpg_duration (hw hr : String) (h : deepPairG "duration" hw hr = true) : hw = "gobEncodeInt64" ∧ hr = "gobDecodeDuration" := by
  simpa [deepPairG, isStrKind] using h
theorem dpg_float (hw hr : String) (h : deepPairG "float" hw hr = true) : hw = "gobEncodeFloat64" ∧ hr = "gobDecodeFloat64" := by
  simpa [deepPairG, isStrKind] using h
theorem dpg_int (hw hr : String) (h : deepPairG "int" hw hr = true) : hw = "gobEncodeInt64" ∧ hr = "gobDecodeInt64" := by
  simpa [deepPairG, isStrKind] using h
theorem dpg_uint (hw hr : String) (h : deepPairG "uint" hw hr = true) : hw = "gobEncodeUint" ∧ hr = "gobDecodeUint" := by
  simpa [deepPairG, isStrKind] using h
theorem dpg_bool (hw hr : String) (h : deepPairG "bool" hw hr = true) : hw = "gobEncodeBool" ∧ hr = "gobDecodeBool" := by
  simpa [deepPairG, isStrKind] using h
theorem dpg_source (hw hr : String) (h : deepPairG "source" hw hr = true) : hw = ".GobEncode" ∧ hr = ".GobDecode" := by
  simpa [deepPairG, isStrKind] using h
theorem dpg_pubkey (hw hr : String) (h : deepPairG "pubkey" hw hr = true) : hw = ".GobEncode" ∧ hr = ".GobDecode" := by
  simpa [deepPairG, isStrKind] using h
theorem dpg_endpoints (hw hr : String) (h : deepPairG "endpoints" hw hr = true) : hw = ".GobEncode" ∧ hr = ".GobDecode" := by
  simpa [deepPairG, isStrKind] using h

/-! ### values -/

theorem val_item (E : Env) (i : Item) (hi : ItemOK E i) (hw : String) (hhw : isItemEnc hw = true) :
    ValOK E "item" hw "gobDecodeItem" (.item i) := by
  obtain ⟨h1, h2⟩ := hi
  refine ⟨writeItem E i, .item (normG i), by simp [writeVal, hhw], ?_, by simp [normGVal, h2]⟩
  -- reading an item position is readItem, wrapped
  have key : ∀ g, readVal E "item" "gobDecodeItem" g = some (.item (readItem E g)) ∨ (∃ v, g = .leaf v) := by
    intro g
    cases g with
    | leaf v => exact Or.inr ⟨v, rfl⟩
    | _ => left; simp [readVal, readItem]
  rcases key (writeItem E i) with hk | ⟨v, hv⟩
  · rw [hk, h1]
  · -- the encoder never writes a scalar token for an item
    exfalso
    cases i <;> simp [writeItem] at hv
    · split at hv <;> cases hv
    · split at hv <;> cases hv

theorem val_items (E : Env) (l : Items) (hne : Items.length l ≠ 0) (hm : MembersOK E l) (hw : String)
    (hhw : hw = "gobEncodeItem" ∨ hw = "gobEncodeItems") : ValOK E "items" hw "gobDecodeItems" (.items l) := by
  obtain ⟨h1, h2⟩ := hm
  have hlen : (normGItems l).length ≠ 0 := by rw [h2]; exact hne
  cases hl : normGItems l with
  | nil => rw [hl] at hlen; simp at hlen
  | cons a t =>
    refine ⟨.list (GList.ofList (writeItems E l)), .items (Items.ofList (a :: t)), ?_, ?_, ?_⟩
    · rcases hhw with rfl | rfl <;> simp [writeVal]
    · simp [readVal, h1, hl]
    · simp [normGVal, hl]

theorem val_record (E : Env) (kind : String) (fs : Fields)
    (hk : kind = "source" ∨ kind = "pubkey" ∨ kind = "endpoints")
    (hnn : membersNil (writeFields E (Deep.recName kind) fs) = false)
    (hf : FieldsOK E (Deep.recName kind) fs) : ValOK E kind ".GobEncode" ".GobDecode" (.record fs) := by
  obtain ⟨h1, h2⟩ := hf
  obtain ⟨n, v, r, hcons⟩ := h2 hnn
  cases hms : writeFields E (Deep.recName kind) fs with
  | nil => rw [hms] at hnn; simp [membersNil] at hnn
  | cons key g rest =>
    refine ⟨.map (.cons key g rest), .record (.cons n v r), by simp [writeVal, hms], ?_, by simp [normGVal, hcons]⟩
    rw [← hms]
    rcases hk with rfl | rfl | rfl <;> simp [readVal, h1, hcons]

/-! ### one field -/

theorem fields_cons (E : Env) (sn n : String) (v : FVal) (r : Fields)
    (hco : coherentFieldG E sn n = true) (hk : kindMatches (E.fieldKind sn n) v = true)
    (hwf : wfVal E (E.fieldKind sn n) v = true)
    (hval : ∀ hw hr, deepPairG (E.fieldKind sn n) hw hr = true → ValOK E (E.fieldKind sn n) hw hr v)
    (hrest : FieldsOK E sn r) : FieldsOK E sn (.cons n v r) := by
  unfold coherentFieldG at hco
  cases hw : E.wrow sn n with
  | none => simp [hw] at hco
  | some w =>
    simp only [hw, Bool.and_eq_true] at hco
    obtain ⟨hfit, hrr⟩ := hco
    cases hr : E.rrow sn (nm w.term) with
    | none => simp [hr] at hrr
    | some rr =>
      simp only [hr, Bool.and_eq_true, beq_iff_eq] at hrr
      obtain ⟨hrf, hpair⟩ := hrr
      obtain ⟨g, v', hwv, hrv, hnv⟩ := hval w.helper rr.helper hpair
      have hg : guardPasses w.guard v = true :=
        guard_of_fits w.guard (E.fieldKind sn n) v hfit (kind_hasKind _ v hk) (wf_isSet E _ v hwf)
      refine ⟨?_, ?_⟩
      · simp only [writeFields, hw, hg, if_true, hwv, readFields, hr, hrf, hrv, normGFields, hnv, hrest.1]
      · intro _
        exact ⟨n, v', normGFields r, by simp [normGFields, hnv]⟩

/-! ### the induction -/

mutual
theorem deep_item (E : Env) : ∀ x : Item, wfItem E x = true → ItemOK E x
  | .nil, h => by simp [wfItem] at h
  | .typedNil _, h => by simp [wfItem] at h
  | .collNil _, h => by simp [wfItem] at h
  | .irisNil, h => by simp [wfItem] at h
  | .iri s, h => by
    simp only [wfItem, Bool.not_eq_true'] at h
    exact ⟨by simp [writeItem, h, readItem, normG], by simp [normG, h, isNilItem]⟩
  | .iris l, h => by
    simp only [wfItem, Bool.not_eq_true'] at h
    exact ⟨by simp [writeItem, readItem, normG, h], by simp [normG, h, isNilItem]⟩
  | .coll p l, h => by
    simp only [wfItem, Bool.and_eq_true, bne_iff_ne, ne_eq] at h
    exact item_coll E p l h.1 (deep_members E l h.2)
  | .node k p fs, h => by
    simp only [wfItem, Bool.and_eq_true, Bool.not_eq_true'] at h
    exact item_node E k p fs h.1.2 h.2 (deep_fields E k.goName fs h.1.1)
theorem deep_members (E : Env) : ∀ l : Items, wfMembers E l = true → MembersOK E l
  | .nil, _ => ⟨by simp [writeItems, GList.ofList, readList, normGItems], by simp [normGItems, Items.length]⟩
  | .cons i r, h => by
    simp only [wfMembers, Bool.and_eq_true] at h
    exact members_cons E i r (deep_item E i h.1) (deep_members E r h.2)
theorem deep_fields (E : Env) (sn : String) : ∀ fs : Fields, wfFields E sn fs = true → FieldsOK E sn fs
  | .nil, _ => ⟨by simp [writeFields, readFields, normGFields], by simp [writeFields, membersNil]⟩
  | .cons n v r, h => by
    simp only [wfFields, Bool.and_eq_true] at h
    obtain ⟨⟨⟨hco, hk⟩, hwf⟩, hr⟩ := h
    exact fields_cons E sn n v r hco hk hwf (fun hw hr' hp => deep_val E (E.fieldKind sn n) v hk hwf hw hr' hp)
      (deep_fields E sn r hr)
theorem deep_val (E : Env) (kind : String) : ∀ v : FVal, kindMatches kind v = true → wfVal E kind v = true →
    ∀ hw hr, deepPairG kind hw hr = true → ValOK E kind hw hr v
  | .item i, hk, hwf, hw, hr, hp => by
    have : kind = "item" := by simpa [kindMatches] using hk
    subst this
    obtain ⟨hhw, rfl⟩ := dpg_item hw hr hp
    simp only [wfVal] at hwf
    exact val_item E i (deep_item E i hwf) hw hhw
  | .items l, hk, hwf, hw, hr, hp => by
    have : kind = "items" := by simpa [kindMatches] using hk
    subst this
    obtain ⟨hhw, rfl⟩ := dpg_items hw hr hp
    simp only [wfVal, Bool.and_eq_true, bne_iff_ne, ne_eq] at hwf
    exact val_items E l hwf.1 (deep_members E l hwf.2) hw hhw
  | .nlv n, hk, hwf, hw, hr, hp => by
    have : kind = "nlv" := by simpa [kindMatches] using hk
    subst this
    obtain ⟨rfl, hhr⟩ := dpg_nlv hw hr hp
    simp only [wfVal, Bool.not_eq_true'] at hwf
    refine ⟨.leaf (.nlv n), .nlv n, by simp [writeVal, hwf], ?_, ?_⟩
    · rcases hhr with rfl | rfl <;> simp [readVal]
    · cases n with
      | nil => simp at hwf
      | cons a t => simp [normGVal]
  | .time s a b, hk, _, hw, hr, hp => by
    have : kind = "time" := by simpa [kindMatches] using hk
    subst this
    obtain ⟨rfl, rfl⟩ := dpg_time hw hr hp
    exact ⟨.leaf (.time s a b), .time s a b, by simp [writeVal], by simp [readVal], by simp [normGVal]⟩
  | .dur d, hk, _, hw, hr, hp => by
    have : kind = "duration" := by simpa [kindMatches] using hk
    subst this
    obtain ⟨rfl, rfl⟩ := dpg_duration hw hr hp
    exact ⟨.leaf (.dur d), .dur d, by simp [writeVal], by simp [readVal], by simp [normGVal]⟩
  | .dec6 z, hk, _, hw, hr, hp => by
    have : kind = "float" := by simpa [kindMatches] using hk
    subst this
    obtain ⟨rfl, rfl⟩ := dpg_float hw hr hp
    exact ⟨.leaf (.dec6 z), .dec6 z, by simp [writeVal], by simp [readVal], by simp [normGVal]⟩
  | .int z, hk, _, hw, hr, hp => by
    have : kind = "int" := by simpa [kindMatches] using hk
    subst this
    obtain ⟨rfl, rfl⟩ := dpg_int hw hr hp
    exact ⟨.leaf (.int z), .int z, by simp [writeVal], by simp [readVal], by simp [normGVal]⟩
  | .uint n, hk, _, hw, hr, hp => by
    have : kind = "uint" := by simpa [kindMatches] using hk
    subst this
    obtain ⟨rfl, rfl⟩ := dpg_uint hw hr hp
    exact ⟨.leaf (.uint n), .uint n, by simp [writeVal], by simp [readVal], by simp [normGVal]⟩
  | .bool b, hk, _, hw, hr, hp => by
    have : kind = "bool" := by simpa [kindMatches] using hk
    subst this
    obtain ⟨rfl, rfl⟩ := dpg_bool hw hr hp
    exact ⟨.leaf (.bool b), .bool b, by simp [writeVal], by simp [readVal], by simp [normGVal]⟩
  | .str s, hk, hwf, hw, hr, hp => by
    simp only [kindMatches] at hk
    simp only [deepPairG, hk, if_true, Bool.and_eq_true] at hp
    simp only [wfVal, Bool.not_eq_true'] at hwf
    obtain ⟨hpw, hpr⟩ := hp
    have hkg : isStrKindG kind = true := by simpa [isStrKindG, isStrKind] using hk
    refine ⟨.raw s, .str s, by simp [writeVal, hpw, hwf], ?_, by simp [normGVal]⟩
    have hne : (hr == "gobDecodeItem") = false := by
      simp only [isStrDec, Bool.or_eq_true, beq_iff_eq] at hpr
      rcases hpr with rfl | rfl <;> decide
    have hd : (hr == ".GobDecode" || hr == "string") = true := by simpa [isStrDec] using hpr
    simp [readVal, hne, hd, hkg]
  | .record fs, hk, hwf, hw, hr, hp => by
    simp only [kindMatches, Bool.or_eq_true, beq_iff_eq] at hk
    simp only [wfVal, Bool.and_eq_true, Bool.not_eq_true'] at hwf
    have hf := deep_fields E (Deep.recName kind) fs hwf.1
    rcases hk with (rfl | rfl) | rfl
    · obtain ⟨rfl, rfl⟩ := dpg_source hw hr hp
      exact val_record E "source" fs (Or.inl rfl) hwf.2 hf
    · obtain ⟨rfl, rfl⟩ := dpg_pubkey hw hr hp
      exact val_record E "pubkey" fs (Or.inr (Or.inl rfl)) hwf.2 hf
    · obtain ⟨rfl, rfl⟩ := dpg_endpoints hw hr hp
      exact val_record E "endpoints" fs (Or.inr (Or.inr rfl)) hwf.2 hf
end

/-- The whole-tree theorem for gob: for every well-formed value tree, decoding what the encoder writes
gives the value in C03's normal form. -/
theorem deep_roundtrip (E : Env) (x : Item) (h : wfItem E x = true) : roundTrip E x = normG x :=
  (deep_item E x h).1

end APModel.DeepGob
