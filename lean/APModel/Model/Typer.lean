/-
Model of collection IRIs (typer.go): IRIf, CollectionPaths.Split (URL branch), OfActor,
ValidCollectionIRI, CollectionPath.Of / IRI, IRI.AddPath — on byte strings, with the URL splitter of
`Model/IRI.lean` for the absolute-URL grammar.
-/
import APModel.Model.IRI

namespace APModel.Typer
open APModel.IRI

abbrev sl : UInt8 := 47

def collectionNames : List String := ["outbox", "inbox", "liked", "following", "followers", "likes", "shares", "replies"]
def validActivityCollection : List String := ["outbox", "inbox", "likes", "shares", "replies"]
def validObjectCollection : List String := ["following", "followers", "liked"]
def ofActorNames : List String := ["outbox", "inbox", "liked", "following", "followers"]
def ofObjectNames : List String := ["likes", "shares", "replies"]

def ascii (s : String) : Str := s.toUTF8.toList

/-- `CollectionPaths.Contains` (case-insensitive) -/
def containsName (l : List String) (c : Str) : Bool := l.any (fun n => foldEq (ascii n) c)

/-- `strings.TrimRight(s, "/")` -/
def trimRightSlash (s : Str) : Str := (s.reverse.dropWhile (· == sl)).reverse

/-- `IRIf` -/
def iriF (o c : Str) : Str :=
  match o.getLast? with
  | some b => if b == sl then o ++ c else o ++ sl :: c
  | none => sl :: c

/-- `filepath.Split`: everything up to and including the last '/', and the rest. -/
def pathSplit (p : Str) : Str × Str :=
  let file := (p.reverse.takeWhile (· != sl)).reverse
  (p.take (p.length - file.length), file)

/-- scheme://host of an absolute URL, rendered as `url.URL.String()` does for the grammar. -/
def renderURL (u : URL) (path : Str) : Str := u.scheme ++ schemeSep ++ u.host ++ path

/-- `CollectionPaths.Split` for IRIs that parse as absolute URLs without query and fragment. -/
def split (names : List String) (i : Str) : Option (Str × Str) :=
  match parseURL i with
  | .abs u =>
    if !u.query.isEmpty then none else
    let (dir, file) := pathSplit u.path
    if dir.isEmpty then some (i, [])
    else
      let tt := if containsName names file then file else []
      some (renderURL u (trimRightSlash dir), tt)
  | _ => none

/-- `CollectionPath.OfActor`: plain string split. -/
def ofActor (c i : Str) : Option Str :=
  let (dir, file) := pathSplit i
  if foldEq file c then some (trimRightSlash dir) else none

def validCollectionIRI (i : Str) : Option Bool :=
  (split collectionNames i).map (fun (_, t) =>
    containsName validActivityCollection t || (!t.isEmpty && containsName validObjectCollection t))

/-- `IRI.AddPath(name)` for a single plain name -/
def addPath (i name : Str) : Str := trimRightSlash i ++ sl :: name

/-- `CollectionPath.Of` on an object or actor: the explicitly set collection when present (for the
collections the value's kind can have), the built IRI otherwise. `explicit` is the link of the
collection property (`none` when unset). -/
def ofValue (c : Str) (isActorType : Bool) (id : Str) (explicit : Option Str) : Option Str :=
  let built := if id.isEmpty then none else some (addPath id c)
  if (containsName ofActorNames c && isActorType) || containsName ofObjectNames c then
    match explicit with
    | some x => some x
    | none => built
  else built

end APModel.Typer
