/- JSON helpers for the line-protocol driver (core Lean only). -/
import Lean.Data.Json
open Lean

namespace Driver

abbrev R := Except String

def fld (j : Json) (k : String) : R Json := j.getObjVal? k
def fldD (j : Json) (k : String) (d : Json) : Json := (j.getObjVal? k).toOption.getD d
def str (j : Json) : R String := j.getStr?
def nat (j : Json) : R Nat := j.getNat?
def int (j : Json) : R Int := j.getInt?
def bool (j : Json) : R Bool := j.getBool?
def arr (j : Json) : R (List Json) := do return (← j.getArr?).toList
def strF (j : Json) (k : String) : R String := do str (← fld j k)
def natF (j : Json) (k : String) : R Nat := do nat (← fld j k)
def intF (j : Json) (k : String) : R Int := do int (← fld j k)
def boolF (j : Json) (k : String) : R Bool := do bool (← fld j k)
def arrF (j : Json) (k : String) : R (List Json) := do arr (← fld j k)

def jarr (l : List Json) : Json := Json.arr l.toArray
def jstrOpt : Option String → Json
  | some s => Json.str s
  | none => Json.null

def hexDigit (c : Char) : Option Nat :=
  if '0' ≤ c ∧ c ≤ '9' then some (c.toNat - '0'.toNat)
  else if 'a' ≤ c ∧ c ≤ 'f' then some (c.toNat - 'a'.toNat + 10)
  else if 'A' ≤ c ∧ c ≤ 'F' then some (c.toNat - 'A'.toNat + 10)
  else none

/-- hex string → bytes -/
def unhex (s : String) : R (List UInt8) :=
  let rec go : List Char → List UInt8 → R (List UInt8)
    | [], acc => .ok acc.reverse
    | [_], _ => .error "odd hex"
    | a :: b :: r, acc =>
      match hexDigit a, hexDigit b with
      | some x, some y => go r (UInt8.ofNat (x * 16 + y) :: acc)
      | _, _ => .error "bad hex"
  go s.toList []

def hexOf (n : Nat) : Char := "0123456789abcdef".toList.getD n '0'

def hex (b : List UInt8) : String :=
  String.ofList (b.flatMap (fun x => [hexOf (x.toNat / 16), hexOf (x.toNat % 16)]))

end Driver
