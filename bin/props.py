# Per-property configuration of bin/check.
COMMON_TB = [
    "correspondence harness (Go, /verif/harness): generators, canonicalisation and the direct oracle",
    "the hand-written Lean model is tied to the code only by the differential correspondence run (sampling)",
]

PROPS = {
    "C19": {
        "level_text": "Lean 4 theorems, for all containers, tags, texts and all operation histories (induction over the history): Get/Set/Append/Count/First refine an ordered map from tag to text (first entry wins); Set frame conditions (other tags, order, length); Equals <-> same set of pairs for lists without repeated tags (pigeonhole via Batteries' Subperm). The model is hand-written and tied to natural_language_values.go by an exhaustive-then-random differential run.",
        "level_note": "Trusted: Lean kernel (axioms propext, Quot.sound), the Go harness and its oracle; the model<->code tie is differential testing (exhaustive histories to length 3/4 over 23 operations, all 51k pairs of small lists).",
        "technique": "Lean 4 proof by induction over operation histories + refinement to a tag->text map; model/code correspondence by exhaustive and random differential testing",
        "trusted_base": COMMON_TB + ["Go runtime slice/append semantics (modelled as list append)"],
        "assumptions": ["tags and texts are compared with Go == / bytes.Equal; modelled as decidable equality on an arbitrary type"],
    },
    "C17": {
        "level_text": "Lean 4 theorems for all pairs/triples of objects (instants as unbounded integers) and nil: the comparator equals 'later of published/updated is after', nil first; irreflexive, asymmetric, transitive, incomparability transitive (strict weak order); any list sorted by it is newest-first and any two sorted permutations show the same key sequence (core Lean's Perm.eq_of_pairwise). The model is a transcription of ItemOrderTimestamp tied to helpers.go by an all-pairs differential run over a pool of objects of all 13 object Go types, nil and typed nil.",
        "level_note": "Trusted: Lean kernel (propext, Quot.sound), the Go harness; time.Time.After is modelled as integer comparison of (unix sec, nsec) - monotonic clock readings are outside the model; sort.SliceStable itself is exercised by the oracle, not modelled.",
        "technique": "Lean 4 proof (case analysis + linear integer arithmetic, list permutation lemma) on a transcription of the comparator; correspondence by all-pairs differential testing",
        "trusted_base": COMMON_TB + ["time.Time.After modelled as integer comparison of instants; Go's sort package"],
        "assumptions": ["instants carry no monotonic clock reading (true for decoded and constructed values)"],
    },
    "C14": {
        "level_text": "Lean 4 theorems over byte strings: IRI.Equals is reflexive and symmetric for ALL strings and every URL parser returning queries as maps (in particular the executable splitter, proved well-formed); on parsed absolute URLs the comparison is exactly key equality (scheme when asked, host+port, cleaned path with empty = root, query multimap, ASCII case folded), key equality is reflexive/symmetric/transitive, and Equals coincides with it wherever the textual fast path is sound (hypothesis hfast, discharged only empirically - exhaustively on the URL grid - hence that theorem is conditional); Clean ignores trailing slash, '.', 'seg/..'; IRIs.Contains <-> exists equal member. Two repaired defects are kept as kernel-decided witnesses on the pinned model.",
        "level_note": "Trusted: Lean kernel (propext, Quot.sound, Classical.choice via Batteries), Go harness + independent key oracle. Modelled, not verified: net/url.Parse (a splitter for the grid grammar answers 'outside' elsewhere and those cases are skipped and counted), filepath.Clean (re-implemented), strings.EqualFold beyond ASCII. hfast of C14_char is checked by testing, not proved.",
        "technique": "Lean 4 proof over byte-string model (induction on lists, permutation/pigeonhole lemmas), kernel-decided witnesses; correspondence by exhaustive grid + random differential testing",
        "trusted_base": COMMON_TB + ["net/url.Parse and URL.Query modelled by a grammar-restricted splitter", "path/filepath.Clean re-implemented in the model", "strings.EqualFold modelled on ASCII"],
        "assumptions": ["query strings in one letter case (as the property's quantifier says)", "case variants are ASCII"],
    },
    "C13": {
        "level_text": "Lean 4 refinement theorem: for every history of Append/Contains/Remove/Count calls over a pool whose comparison answers true exactly on identical pool elements (the 'distinct identity' premise), from any duplicate-free start, final contents and every output equal those of a duplicate-free insertion-ordered list (append-if-absent, membership, erase); invariants (no duplicates, members from the pool) for every reachable state; corollaries: idempotent append, appended => contained, removed => not contained, append only extends at the end, remove yields a sublist. Remove's 'last match' loop is modelled as written and proved equal to erase under the premise. Generic in the comparison, so it covers item lists (ItemsEqual) and IRI lists (IRI.Equals on links).",
        "level_note": "Trusted: Lean kernel (propext, Quot.sound), Go harness. The premise PoolOK for concrete pools is the business of C09/C14; here it is a hypothesis. ItemsEqual on bare (id+type) items is modelled by a three-line function in the driver, tied by the correspondence (including pools with equivalent ids). Go slice aliasing of Remove's in-place splice is not modelled (values only).",
        "technique": "Lean 4 proof: refinement of the collection operations to an insertion-ordered set by induction over histories with a no-duplicates invariant; correspondence by exhaustive (bounded) and random histories on all six kinds",
        "trusted_base": COMMON_TB + ["Go slice/append semantics modelled as list operations (no aliasing)"],
        "assumptions": ["pool items have pairwise distinct identity (premise of the property); IRI lists have no Remove (their item-list view is a converting copy)"],
    },
    "C10": {
        "level_text": "Lean 4 theorems for ALL lists of columns, any key function and any equivalence on ids: the index-collecting/reverse-sorted-deleting loop of ItemCollectionDeduplication (transcribed with its missing break and with the slice-bounds panic as an explicit outcome) never panics and refines 'keep first mentions'; the result list is the first mentions in scan order, pairwise inequivalent, complete, sound, and equals the ids of the surviving entries in order; each column becomes a sublist keeping all nil/non-addressable entries; Block removal leaves no equivalent entry and keeps nil entries. A kernel-decided counterexample shows the equivalence premise (C14) is needed. The argument lists of all 14 Recipients() methods and of removeFromAudience are regenerated from the Go source on every run and checked by `decide` against the prescribed order.",
        "level_note": "Trusted: Lean kernel (propext, Quot.sound, Classical.choice), the go/ast translator for the argument lists (unknown shapes fail closed), Go harness with an independent first-mention oracle. IRI equality being an equivalence on the addressees is a hypothesis here (C14). The edit of the audience backing array through the `aud` copy is outside the statement and not modelled.",
        "technique": "Lean 4 proof: refinement of the index-deletion loop to a first-mention filter by structural induction (invariant: rec pairwise inequivalent => each index marked at most once); regenerated argument tables checked by kernel decide; correspondence by bounded-exhaustive and random differential testing over all 14 implementers",
        "trusted_base": COMMON_TB + ["extract/ translator (go/ast) for Recipients argument lists", "Go slice aliasing not modelled"],
        "assumptions": ["IRI equality (scheme ignored) is an equivalence relation on the addressees' ids (C14)", "embedded addressees carry ids"],
    },
    "C11": {
        "level_text": "Lean 4 theorems over ALL value trees (mutual structural induction, arbitrary depth and fan-out): after Clean() no object embedded by pointer along the walked properties, recursively and through lists, carries a non-empty bto/bcc (C11_no_private), and the result differs from the input only there (C11_frame: everything else structurally equal; nil-like list members become nil as CleanRecipients does). Both are proved for every walk table; the actual table (per type: truncated fields, CleanRecipients arguments, delegation to Object.Clean, HasRecipients method set) is regenerated from the Go source on every run and kernel-`decide`d to contain the nine prescribed properties (+object/actor/target for Activity), to truncate exactly bto and bcc, and to contain no unrecognised statement.",
        "level_note": "Trusted: Lean kernel (propext, Quot.sound), the go/ast translator for Clean() bodies (unknown statements fail closed), Go harness with an independent tree-rewriting oracle. Values are trees (no aliasing/cycles); the semantics of CleanRecipients (IsNil guard + interface assertion) and the JSON writer's omission of empty lists are modelled and tied by the correspondence (full value dumps after Clean() compared with the model's) and a direct serialisation check.",
        "technique": "Lean 4 proof by mutual structural induction over value trees, parametric in a walk table regenerated from the source and checked by kernel decide; correspondence by differential testing on generated nested values",
        "trusted_base": COMMON_TB + ["extract/ translator (go/ast) for Clean() bodies", "values are trees: aliasing between embedded objects is not modelled"],
        "assumptions": ["'an activity' is the transitive Activity type (object, actor, target walked only there)", "values are acyclic"],
    },
}
