import Driver.Value
import APModel.Model.Flatten
open Lean APModel APModel.Flatten

namespace Driver

def resJ (r : Res Json) : Json :=
  match r with
  | .ok j => j
  | .panic => Json.str "panic"
  | .outside => Json.mkObj [("outside", Json.bool true)]

def intransitiveTypesGo : List String := ["Arrive", "Travel", "Question"]
def activityTypesGo : List String :=
  ["Accept", "Add", "Announce", "Block", "Create", "Delete", "Dislike", "Flag", "Follow", "Ignore", "Invite", "Join",
   "Leave", "Like", "Listen", "Move", "Offer", "Reject", "Read", "Remove", "TentativeReject", "TentativeAccept",
   "Undo", "Update", "View"]
def actorTypesGo : List String := ["Application", "Group", "Organization", "Person", "Service"]

/-- `FlattenProperties(it)`: dispatch on the type name (helpers of flatten.go:102-127), for values
whose Go type matches the family of their type name. -/
def flattenDispatch (k : Kind) (fs : Fields) : Res Fields :=
  let t := strOf fs "Type"
  let T := APModel.Generated.flattenRows
  let step1 : Res Fields :=
    if typeIn intransitiveTypesGo t then
      (if k == .intransitive || k == .question || k == .activity then flattenProps T "FlattenIntransitiveActivityProperties" fs else .outside)
    else if typeIn activityTypesGo t then
      (if k == .activity then flattenProps T "FlattenActivityProperties" fs else .outside)
    else .ok fs
  match step1 with
  | .ok fs1 =>
    let step2 : Res Fields :=
      if typeIn actorTypesGo t then (if k == .actor then flattenProps T "FlattenActorProperties" fs1 else .outside) else .ok fs1
    match step2 with
    | .ok fs2 => if typeIn objectTypesGo t then (if k != .link then flattenProps T "FlattenObjectProperties" fs2 else .outside) else .ok fs2
    | r => r
  | r => r

def opFlatten (j : Json) : R Json := do
  let fn ← strF j "fn"
  let v ← parseItem (← fld j "v")
  match fn, v with
  | "FlattenToIRI", i => return renderItem (flattenToIRI i)
  | "Flatten", i =>
    return resJ (match flatten i with | .ok r => .ok (renderItem r) | .panic => .panic | .outside => .outside)
  | "FlattenItemCollection", .coll p l =>
    if l.toList.any (fun x => match x with | .typedNil _ => true | _ => false) then return resJ .outside
    match flattenList l.toList with
    | some r => return renderItem (.coll p (Items.ofList r))
    | none => return Json.str "panic"
  | "FlattenProperties", .node k p fs =>
    return resJ (match flattenDispatch k fs with | .ok r => .ok (renderItem (.node k p r)) | .panic => .panic | .outside => .outside)
  | _, .node k p fs =>
    return resJ (match flattenProps APModel.Generated.flattenRows fn fs with
      | .ok r => .ok (renderItem (.node k p r)) | .panic => .panic | .outside => .outside)
  | _, _ => throw "flatten: bad request"

end Driver
