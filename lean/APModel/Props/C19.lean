/-
C19 — Language-value containers behave as ordered maps from language tag to text.

Property theorems only (model: `Model/NLV.lean`, tied to natural_language_values.go by the
`nlv` / `nlvEquals` correspondence ops).
-/
import APModel.Model.NLV
import Batteries.Data.List.Perm

namespace APModel.NLV
open List

set_option linter.unusedSectionVars false
variable {τ γ : Type} [DecidableEq τ] [DecidableEq γ]

/-! ### helper lemmas (local to this file, none of them weakens a property statement) -/

theorem get_replaceAll_same (n : NLV τ γ) (t : τ) (v : γ) (h : hasTag n t = true) :
    get (replaceAll n t v) t = some v := by
  induction n with
  | nil => simp [hasTag] at h
  | cons e r ih =>
    obtain ⟨t', v'⟩ := e
    by_cases ht : t' = t
    · simp [replaceAll, get, ht]
    · simp [hasTag, ht] at h
      simp [replaceAll, get, ht, ih h]

theorem get_replaceAll_other (n : NLV τ γ) (t t' : τ) (v : γ) (hne : t' ≠ t) :
    get (replaceAll n t v) t' = get n t' := by
  induction n with
  | nil => rfl
  | cons e r ih =>
    obtain ⟨t0, v0⟩ := e
    by_cases ht : t0 = t
    · subst ht
      have : ¬ t0 = t' := fun h => hne h.symm
      simp [replaceAll, get, this, ih]
    · simp [replaceAll, get, ht, ih]

theorem get_append (n : NLV τ γ) (t t' : τ) (v : γ) :
    get (append n t v) t' = match get n t' with
      | some x => some x
      | none => if t = t' then some v else none := by
  induction n with
  | nil => simp [append, get]
  | cons e r ih =>
    obtain ⟨t0, v0⟩ := e
    by_cases ht : t0 = t'
    · simp [append, get, ht]
    · simp only [append, List.cons_append, get, ht, if_false]
      exact ih

theorem hasTag_false_get (n : NLV τ γ) (t : τ) (h : hasTag n t = false) : get n t = none := by
  induction n with
  | nil => rfl
  | cons e r ih =>
    obtain ⟨t0, v0⟩ := e
    simp [hasTag] at h
    simp [get, h.1, ih h.2]

theorem hasTag_iff_get (n : NLV τ γ) (t : τ) : hasTag n t = true ↔ (get n t).isSome = true := by
  induction n with
  | nil => simp [hasTag, get]
  | cons e r ih =>
    obtain ⟨t0, v0⟩ := e
    by_cases ht : t0 = t <;> simp [hasTag, get, ht, ih]

theorem replaceAll_length (n : NLV τ γ) (t : τ) (v : γ) : (replaceAll n t v).length = n.length := by
  induction n with
  | nil => rfl
  | cons e r ih => obtain ⟨t0, v0⟩ := e; simp [replaceAll, ih]

theorem replaceAll_tags (n : NLV τ γ) (t : τ) (v : γ) :
    (replaceAll n t v).map Prod.fst = n.map Prod.fst := by
  induction n with
  | nil => rfl
  | cons e r ih =>
    obtain ⟨t0, v0⟩ := e
    by_cases ht : t0 = t <;> simp [replaceAll, ht, ih]

/-! ### property theorems -/

/-- Set(tag, v) makes Get(tag) return v — for every container, tag and text. -/
theorem C19_get_set (n : NLV τ γ) (t : τ) (v : γ) : get (set n t v) t = some v := by
  unfold set
  cases h : hasTag n t
  · simp [get_append, hasTag_false_get n t h]
  · simp [get_replaceAll_same n t v h]

/-- Set(tag, v) leaves every other tag's text unchanged. -/
theorem C19_set_frame (n : NLV τ γ) (t t' : τ) (v : γ) (hne : t' ≠ t) :
    get (set n t v) t' = get n t' := by
  unfold set
  cases h : hasTag n t
  · have : ¬ t = t' := fun h => hne h.symm
    simp only [Bool.false_eq_true, if_false, get_append, this]
    cases get n t' <;> rfl
  · simp [get_replaceAll_other n t t' v hne]

/-- Set keeps the order of entries (the sequence of tags is the old one, possibly followed by the
new tag) … -/
theorem C19_set_order (n : NLV τ γ) (t : τ) (v : γ) :
    (set n t v).map Prod.fst = n.map Prod.fst ++ (if hasTag n t then [] else [t]) := by
  unfold set
  cases h : hasTag n t <;> simp [append, replaceAll_tags]

/-- … leaves every entry with another tag in its place … -/
theorem C19_set_entries (n : NLV τ γ) (t : τ) (v : γ) (i : Nat) (e : τ × γ)
    (hi : n[i]? = some e) (hne : e.1 ≠ t) : (set n t v)[i]? = some e := by
  unfold set
  cases h : hasTag n t
  · simp only [Bool.false_eq_true, if_false, append]
    rw [List.getElem?_append_left]
    · exact hi
    · exact (List.getElem?_eq_some_iff.mp hi).1
  · simp only [if_true]
    clear h
    induction n generalizing i with
    | nil => simp at hi
    | cons e0 r ih =>
      obtain ⟨t0, v0⟩ := e0
      cases i with
      | zero =>
        simp at hi
        subst hi
        simp at hne
        simp [replaceAll, hne]
      | succ j =>
        simp at hi
        simp [replaceAll, ih j hi]

/-- … and grows the list by at most one (by exactly one iff the tag was absent). -/
theorem C19_set_length (n : NLV τ γ) (t : τ) (v : γ) :
    (set n t v).length = n.length + (if hasTag n t then 0 else 1) := by
  unfold set
  cases h : hasTag n t <;> simp [append, replaceAll_length]

/-- Get returns the text of the *first* entry with that tag, `none` if there is none. -/
theorem C19_get_first (n : NLV τ γ) (t : τ) :
    get n t = (n.find? (fun e => decide (e.1 = t))).map Prod.snd := by
  induction n with
  | nil => rfl
  | cons e r ih =>
    obtain ⟨t0, v0⟩ := e
    by_cases ht : t0 = t <;> simp [get, List.find?, ht, ih]

/-- Count is the number of entries and First is the first entry, after any history. -/
theorem C19_count_first (n : NLV τ γ) (ops : List (Op τ γ)) :
    (step (run n ops) .count).2 = .nat (run n ops).length ∧
    (step (run n ops) .first).2 = .entry (run n ops)[0]? := by
  simp [step, count, first, List.head?_eq_getElem?]

/-- The ordered-map specification: a function from tag to text; `set` overrides, `append` binds
only an unbound tag (first entry wins). -/
def specStep (m : τ → Option γ) : Op τ γ → (τ → Option γ)
  | .set t v => fun t' => if t' = t then some v else m t'
  | .append t v => fun t' => if t' = t then (match m t with | some x => some x | none => some v) else m t'
  | _ => m

def specRun (m : τ → Option γ) : List (Op τ γ) → (τ → Option γ)
  | [] => m
  | op :: ops => specRun (specStep m op) ops

theorem step_refines (n : NLV τ γ) (op : Op τ γ) :
    get (step n op).1 = specStep (get n) op := by
  funext t'
  cases op with
  | get t => rfl
  | count => rfl
  | first => rfl
  | set t v =>
    simp only [step, specStep]
    by_cases h : t' = t
    · subst h; simp [C19_get_set]
    · simp [h, C19_set_frame n t t' v h]
  | append t v =>
    simp only [step, specStep, get_append]
    by_cases h : t' = t
    · subst h; simp
    · have : ¬ t = t' := fun e => h e.symm
      simp [h, this]; cases get n t' <;> rfl

/-- Refinement: for every history of Set / Append(Add) / Get / Count / First calls, the lookups
of the container are those of the ordered-map specification driven by the same calls. -/
theorem C19_refines (n : NLV τ γ) (ops : List (Op τ γ)) :
    get (run n ops) = specRun (get n) ops := by
  induction ops generalizing n with
  | nil => rfl
  | cons op ops ih => simp only [run, specRun]; rw [ih, step_refines]

/-- …and each Get output in the history is the specification's answer at that point. -/
theorem C19_get_output (n : NLV τ γ) (ops : List (Op τ γ)) (t : τ) :
    (step (run n ops) (.get t)).2 = .text (specRun (get n) ops t) := by
  simp [step, C19_refines]

def NoRepeatedTags (n : NLV τ γ) : Prop := (n.map Prod.fst).Nodup

instance (n : NLV τ γ) : Decidable (NoRepeatedTags n) := by
  unfold NoRepeatedTags; infer_instance

theorem nodup_of_noRepeatedTags {n : NLV τ γ} (h : NoRepeatedTags n) : n.Nodup := by
  unfold NoRepeatedTags List.Nodup at *
  rw [List.pairwise_map] at h
  exact h.imp (fun hab e => hab (by rw [e]))

theorem equals_iff (a b : NLV τ γ) :
    equals a b = true ↔ a.length = b.length ∧ ∀ e ∈ b, e ∈ a := by
  simp [equals, List.all_eq_true, List.any_eq_true]

/-- Two lists without repeated tags compare equal exactly when they hold the same tag/text
pairs, in any order. -/
theorem C19_equals (a b : NLV τ γ) (ha : NoRepeatedTags a) (hb : NoRepeatedTags b) :
    equals a b = true ↔ ∀ p, p ∈ a ↔ p ∈ b := by
  have hna := nodup_of_noRepeatedTags ha
  have hnb := nodup_of_noRepeatedTags hb
  rw [equals_iff]
  constructor
  · rintro ⟨hl, hsub⟩ p
    have hsp : b <+~ a := List.subperm_of_subset hnb (fun x hx => hsub x hx)
    have hp : b ~ a := hsp.perm_of_length_le (by omega)
    exact (hp.mem_iff).symm
  · intro h
    have h1 : a <+~ b := List.subperm_of_subset hna (fun x hx => (h x).mp hx)
    have h2 : b <+~ a := List.subperm_of_subset hnb (fun x hx => (h x).mpr hx)
    exact ⟨Nat.le_antisymm h1.length_le h2.length_le, fun e he => (h e).mpr he⟩

/-- Equality is reflexive on every list (this is what failed on the pinned tree for lists of
two or more distinct entries, see `C19_pinned_equals_not_reflexive`). -/
theorem C19_equals_refl (a : NLV τ γ) : equals a a = true := by
  rw [equals_iff]; exact ⟨rfl, fun _ h => h⟩

/-- Finding (repaired by a `fix:` commit): the pinned `Equals` was not reflexive. -/
theorem C19_pinned_equals_not_reflexive :
    equalsPinned [("en", "a"), ("fr", "b")] [("en", "a"), ("fr", "b")] = false := by decide

/-! ### non-vacuity -/
example : NoRepeatedTags [("en", "a"), ("fr", "b")] := by decide
example : equals [("en", "a"), ("fr", "b")] [("fr", "b"), ("en", "a")] = true := by decide
example : get (set [("en", "a"), ("-", "x"), ("en", "c")] "en" "z") "en" = some "z" := by decide

end APModel.NLV
