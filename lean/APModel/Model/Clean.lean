/-
Model of `Clean()` / `CleanRecipients` (object.go, activity.go, item_collection.go and the
one-line `Clean()` of every other type), driven by the table regenerated from the source
(`Generated/Clean.lean`): which fields a type truncates, which it walks, whether it delegates to
`Object.Clean`, and which types are in the method set of `HasRecipients`.
-/
import APModel.Model.Value
import APModel.Generated.Clean

namespace APModel.Clean
open APModel APModel.Generated

abbrev Tbl := List CleanRow

def rowOf (T : Tbl) (name : String) : Option CleanRow := T.find? (fun r => r.recv == name)

/-- fields truncated / walked by `Clean()` of a kind, following the delegation to `Object.Clean`. -/
def truncOf (T : Tbl) (k : Kind) : List String :=
  match rowOf T k.goName with
  | none => []
  | some r => r.trunc ++ (if r.delegate.contains "Object" then ((rowOf T "Object").map (·.trunc)).getD [] else [])

def walkOf (T : Tbl) (k : Kind) : List String :=
  match rowOf T k.goName with
  | none => []
  | some r => r.walk ++ (if r.delegate.contains "Object" then ((rowOf T "Object").map (·.walk)).getD [] else [])

/-- does a *pointer* to a struct of this kind satisfy `it.(HasRecipients)`? -/
def has (T : Tbl) (H : List String) (k : Kind) : Bool :=
  (rowOf T k.goName).isSome && H.contains k.goName

/-- `x.F = x.F[:0]` -/
def truncFVal : FVal → FVal
  | .items _ => .items .nil
  | v => v

structure Cfg where
  T : Tbl
  H : List String

mutual
/-- `CleanRecipients(it)` for a non-nil-like item (the returned item is `it` itself, mutated). -/
def cleanItem (c : Cfg) : Item → Item
  | .node k true fs =>
    if has c.T c.H k then .node k true (cleanFields c (truncOf c.T k) (walkOf c.T k) fs) else .node k true fs
  | .coll ptr l => .coll ptr (cleanMembers c l)       -- ItemCollection.Clean (value and pointer)
  | x => x                                            -- struct values, IRIs, links, nil-likes: not HasRecipients
/-- `for j, it := range i { i[j] = CleanRecipients(it) }`: a nil-like member becomes the nil item. -/
def cleanMembers (c : Cfg) : Items → Items
  | .nil => .nil
  | .cons i r => .cons (if i.isNilLike then .nil else cleanItem c i) (cleanMembers c r)
def cleanFields (c : Cfg) (trunc walk : List String) : Fields → Fields
  | .nil => .nil
  | .cons n v r =>
    .cons n (if trunc.contains n then truncFVal v else if walk.contains n then cleanFVal c v else v)
      (cleanFields c trunc walk r)
def cleanFVal (c : Cfg) : FVal → FVal
  | .item i => .item (cleanItem c i)
  | .items l => .items (cleanMembers c l)
  | v => v
end

def generatedCfg : Cfg := { T := cleanRows, H := hasRecipientsTypes }

end APModel.Clean
