import Driver.Util
import APModel.Model.NLV
open Lean APModel.NLV

namespace Driver

def parseEntry (j : Json) : R (String × String) := do
  match ← arr j with
  | [t, v] => return (← str t, ← str v)
  | _ => throw "entry"

def parseNLV (j : Json) : R (NLV String String) := do (← arr j).mapM parseEntry

def parseNLVOp (j : Json) : R (Op String String) := do
  match ← arr j with
  | [Json.str "get", t] => return .get (← str t)
  | [Json.str "set", t, v] => return .set (← str t) (← str v)
  | [Json.str "append", t, v] => return .append (← str t) (← str v)
  | [Json.str "add", t, v] => return .append (← str t) (← str v)
  | [Json.str "count"] => return .count
  | [Json.str "first"] => return .first
  | _ => throw "nlv op"

def renderNLV (n : NLV String String) : Json := jarr (n.map fun (t, v) => jarr [Json.str t, Json.str v])

def renderOut : Out String String → Json
  | .text o => jstrOpt o
  | .unit => Json.str "ok"
  | .nat n => Json.num n
  | .entry (some (t, v)) => jarr [Json.str t, Json.str v]
  | .entry none => jarr [Json.str "", Json.null]

def opNLV (j : Json) : R Json := do
  let init ← parseNLV (← fld j "init")
  let ops ← (← arrF j "ops").mapM parseNLVOp
  let (final, outs) := ops.foldl (fun (st : NLV String String × List Json) op =>
      let (n', o) := step st.1 op
      (n', renderOut o :: st.2)) (init, [])
  return Json.mkObj [("outs", jarr outs.reverse), ("final", renderNLV final)]

def opNLVEquals (j : Json) : R Json := do
  let a ← parseNLV (← fld j "a")
  let b ← parseNLV (← fld j "b")
  return Json.bool (equals a b)

end Driver
