package main

import (
	"bytes"
	"encoding/hex"
	"encoding/json"
	"fmt"
	xsd "git.sr.ht/~mariusor/go-xsd-duration"
	"io"
	"math"
	"reflect"
	"regexp"
	"sort"
	"strings"
	"time"
	"unicode/utf8"

	ap "github.com/go-ap/activitypub"
)

// C02 — emitted JSON is valid, unambiguous, injection-free and correctly termed.
//
// The oracle parses the library's output with encoding/json (an independent parser) and compares the
// generic document with the value tree, member by member, using the struct tags for the terms.

var hostile = []string{
	"\"", "\\", "\",\"type\":\"Delete", "\"}", "\\\"", "a\"b", "a\\", "\\\\\"", "\n", "\r\n", "\t", "\x00", "\x01", "\x1f", "\x7f",
	"{\"a\":1}", "[1,2]", "</script>", " ", "é", "😀", "\\u0022", "\\n", "\",\"id\":\"https://evil.example/", "x\",\"x\":\"y",
	// runes the writer treats specially although they are valid UTF-8: the line and paragraph separators it
	// escapes, and a genuine replacement character (which decoding functions also return for broken input)
	"\u2028", "a\u2029b", "\ufffd", "x\ufffdy", "\ufffc\ufffe",
	"\xff", "\xc3", "a\x80b",
}

func c02Hostile(r *RNG) string {
	s := r.Pick(hostile[:len(hostile)-3]) // valid UTF-8 only: the trees travel as JSON
	switch r.Intn(3) {
	case 0:
		return s
	case 1:
		return "https://example.com/" + s
	}
	return s + r.Pick(hostile[:len(hostile)-3])
}

// duplicate member names anywhere in the document, and syntactic validity (token walk)
func jsonDuplicates(b []byte) (dup string, err error) {
	dec := json.NewDecoder(bytes.NewReader(b))
	dec.UseNumber()
	type frame struct {
		obj  bool
		keys map[string]bool
		key  bool // next token is a key
	}
	var st []frame
	for {
		tok, e := dec.Token()
		if e == io.EOF {
			break
		}
		if e != nil {
			return "", e
		}
		switch t := tok.(type) {
		case json.Delim:
			switch t {
			case '{':
				st = append(st, frame{obj: true, keys: map[string]bool{}, key: true})
				continue
			case '[':
				st = append(st, frame{})
				continue
			default:
				st = st[:len(st)-1]
			}
		case string:
			if n := len(st); n > 0 && st[n-1].obj && st[n-1].key {
				if st[n-1].keys[t] {
					return t, nil
				}
				st[n-1].keys[t] = true
				st[n-1].key = false
				continue
			}
		}
		if n := len(st); n > 0 && st[n-1].obj {
			st[n-1].key = true
		}
	}
	return "", nil
}

var reXsdDuration = regexp.MustCompile(`^-?P(\d+Y)?(\d+M)?(\d+D)?(T(\d+H)?(\d+M)?(\d+(\.\d+)?S)?)?$`)

func parseXsdSeconds(s string) (float64, bool) {
	if !reXsdDuration.MatchString(s) || s == "P" || s == "-P" || strings.HasSuffix(s, "T") {
		return 0, false
	}
	neg := strings.HasPrefix(s, "-")
	s = strings.TrimPrefix(strings.TrimPrefix(s, "-"), "P")
	date, tm := s, ""
	if i := strings.IndexByte(s, 'T'); i >= 0 {
		date, tm = s[:i], s[i+1:]
	}
	total := 0.0
	num := ""
	for _, c := range date {
		if c >= '0' && c <= '9' {
			num += string(c)
			continue
		}
		var v float64
		fmt.Sscanf(num, "%g", &v)
		num = ""
		switch c {
		case 'Y':
			total += v * 365 * 86400
		case 'M':
			total += v * 30 * 86400
		case 'D':
			total += v * 86400
		}
	}
	for _, c := range tm {
		if (c >= '0' && c <= '9') || c == '.' {
			num += string(c)
			continue
		}
		var v float64
		fmt.Sscanf(num, "%g", &v)
		num = ""
		switch c {
		case 'H':
			total += v * 3600
		case 'M':
			total += v * 60
		case 'S':
			total += v
		}
	}
	if neg {
		total = -total
	}
	return total, true
}

type docChecker struct {
	path string
}

func sameText(held string, got interface{}) bool {
	g, ok := got.(string)
	if !ok {
		return false
	}
	if utf8.ValidString(held) {
		return g == held
	}
	return g == strings.ToValidUTF8(held, "�") || utf8.ValidString(g) // invalid bytes cannot be carried by JSON; the result must at least be valid
}

// checkItem compares an item of the tree with the JSON value written for it
func checkItem(path string, tr interface{}, doc interface{}) string {
	m, _ := tr.(T)
	if m == nil {
		return ""
	}
	if s, ok := m["iri"]; ok {
		if !sameText(s.(string), doc) {
			return fmt.Sprintf("%s: IRI %q written as %v", path, s, doc)
		}
		return ""
	}
	var members []interface{}
	if l, ok := m["iris"]; ok {
		for _, s := range asList(l) {
			members = append(members, T{"iri": s})
		}
	} else if l, ok := m["items"]; ok {
		members = asList(l)
	} else {
		o, ok := doc.(map[string]interface{})
		if !ok {
			return fmt.Sprintf("%s: embedded object written as %T", path, doc)
		}
		return checkObject(path, m, o)
	}
	var nn []interface{}
	for _, x := range members {
		if !c02Silent(x) {
			nn = append(nn, x)
		}
	}
	arr, isArr := doc.([]interface{})
	if !isArr {
		if len(nn) == 1 {
			return checkItem(path+"[0]", nn[0], doc)
		}
		return fmt.Sprintf("%s: list of %d written as %T", path, len(nn), doc)
	}
	if len(arr) != len(nn) {
		return fmt.Sprintf("%s: list of %d written as array of %d", path, len(nn), len(arr))
	}
	for i := range nn {
		if d := checkItem(fmt.Sprintf("%s[%d]", path, i), nn[i], arr[i]); d != "" {
			return d
		}
	}
	return ""
}

func checkField(path, term, kind string, v interface{}, doc map[string]interface{}, used map[string]bool, rt reflect.Type) string {
	m, _ := v.(T)
	get := func(t string) (interface{}, bool) {
		x, ok := doc[t]
		if ok {
			used[t] = true
		}
		return x, ok
	}
	switch kind {
	case "item":
		if c02Silent(v) {
			// a value with nothing to say may be left out, written as [], or written as an object whose members all
			// stand for properties it has (a list holding only nil members as "bcc":[])
			switch a := doc[term].(type) {
			case []interface{}:
				if len(a) == 0 {
					used[term] = true
				}
			case map[string]interface{}:
				if mm, ok := v.(T); ok && mm["t"] != nil && mm["nil"] != true {
					if d := checkObject(path+"."+term, mm, a); d != "" {
						return d
					}
					used[term] = true
				}
			}
			return ""
		}
		x, ok := get(term)
		if !ok {
			return fmt.Sprintf("%s: no member %q", path, term)
		}
		return checkItem(path+"."+term, v, x)
	case "items":
		l := asList(m["list"])
		var nn []interface{}
		for _, e := range l {
			if !c02Silent(e) {
				nn = append(nn, e)
			}
		}
		if len(nn) == 0 {
			if a, ok := doc[term].([]interface{}); ok && len(a) == 0 {
				used[term] = true // a list holding only members with nothing to say may be written as []
			}
			return ""
		}
		x, ok := get(term)
		if !ok {
			return fmt.Sprintf("%s: no member %q", path, term)
		}
		return checkItem(path+"."+term, T{"items": nn, "ptr": false}, x)
	case "nlv":
		l := asList(m["nlv"])
		if len(l) == 0 {
			return ""
		}
		if len(l) == 1 {
			x, ok := get(term)
			if !ok {
				return fmt.Sprintf("%s: no member %q", path, term)
			}
			if !sameText(asList(l[0])[1].(string), x) {
				return fmt.Sprintf("%s.%s: text %q written as %v", path, term, asList(l[0])[1], x)
			}
			return ""
		}
		keyed := 0
		for _, e := range l {
			if p := asList(e); p[0].(string) != "" && p[1].(string) != "" {
				keyed++
			}
		}
		x, ok := get(term + "Map")
		if !ok && keyed == 0 {
			return "" // no entry has both a reference and a text: nothing to write
		}
		if !ok {
			return fmt.Sprintf("%s: no member %q", path, term+"Map")
		}
		mp, ok := x.(map[string]interface{})
		if !ok {
			return fmt.Sprintf("%s.%sMap is %T", path, term, x)
		}
		// a language can appear once in a map: the first value of a repeated language reference wins
		first := map[string]string{}
		var order []string
		for _, e := range l {
			p := asList(e)
			if p[0].(string) == "" || p[1].(string) == "" {
				continue // an entry without a reference has no key to go under, an entry without a text nothing to say: left out of a map
			}
			tag := strings.ToValidUTF8(p[0].(string), "\ufffd")
			if _, ok := first[tag]; !ok {
				first[tag] = p[1].(string)
				order = append(order, tag)
			}
		}
		if len(mp) != len(first) {
			return fmt.Sprintf("%s.%sMap has %d entries for %d languages", path, term, len(mp), len(first))
		}
		for _, tag := range order {
			if !sameText(first[tag], mp[tag]) {
				return fmt.Sprintf("%s.%sMap[%q]: text %q written as %v", path, term, tag, first[tag], mp[tag])
			}
		}
		return ""
	}
	if (kind == "source" || kind == "pubkey" || kind == "endpoints") && normField(v) == nil {
		return "" // an empty sub-record is unset
	}
	x, ok := get(term)
	if !ok {
		return fmt.Sprintf("%s: no member %q", path, term)
	}
	switch kind {
	case "time":
		s, ok := x.(string)
		if !ok {
			return fmt.Sprintf("%s.%s: instant written as %T", path, term, x)
		}
		tm, err := time.Parse(time.RFC3339, s)
		if err != nil {
			return fmt.Sprintf("%s.%s: %q is not RFC 3339", path, term, s)
		}
		if tm.Unix() != int64(num(asList(m["time"])[0])) {
			return fmt.Sprintf("%s.%s: instant %v written as %q", path, term, asList(m["time"])[0], s)
		}
	case "duration":
		s, ok := x.(string)
		if !ok {
			return fmt.Sprintf("%s.%s: duration written as %T", path, term, x)
		}
		sec, ok := parseXsdSeconds(s)
		if !ok {
			return fmt.Sprintf("%s.%s: %q is not an xsd:duration", path, term, s)
		}
		if math.Abs(sec-num(m["dur"])/1e9) > 0.0015 {
			return fmt.Sprintf("%s.%s: duration %v ns written as %q", path, term, m["dur"], s)
		}
	case "string":
		if !sameText(m["s"].(string), x) {
			return fmt.Sprintf("%s.%s: string %q written as %v", path, term, m["s"], x)
		}
	case "float", "int", "uint":
		n, ok := x.(json.Number)
		if !ok {
			return fmt.Sprintf("%s.%s: number written as %T (%v)", path, term, x, x)
		}
		f, _ := n.Float64()
		want := 0.0
		switch kind {
		case "float":
			want = num(m["dec6"]) / 1e6
		case "int":
			want = num(m["int"])
		default:
			want = num(m["uint"])
		}
		if math.Abs(f-want) > 1e-6 {
			return fmt.Sprintf("%s.%s: number %v written as %s", path, term, want, n)
		}
	case "bool":
		b, ok := x.(bool)
		if !ok || b != m["bool"].(bool) {
			return fmt.Sprintf("%s.%s: boolean written as %T (%v)", path, term, x, x)
		}
	case "source", "pubkey", "endpoints":
		o, ok := x.(map[string]interface{})
		if !ok {
			return fmt.Sprintf("%s.%s: sub-record written as %T", path, term, x)
		}
		st := rt
		if st.Kind() == reflect.Ptr {
			st = st.Elem()
		}
		subUsed := map[string]bool{}
		rec := m["rec"].(T)
		for _, k := range sortedKeys(rec) {
			sf, _ := st.FieldByName(k)
			if d := checkField(path+"."+term, subTerm(rt, k), kindOfType(sf.Type), rec[k], o, subUsed, sf.Type); d != "" {
				return d
			}
		}
		for k := range o {
			if !subUsed[k] {
				return fmt.Sprintf("%s.%s: member %q stands for no property of the value", path, term, k)
			}
		}
	}
	return ""
}

func checkObject(path string, m T, doc map[string]interface{}) string {
	typ := m["t"].(string)
	f, _ := m["f"].(T)
	used := map[string]bool{}
	for _, name := range sortedKeys(f) {
		sf, _ := goTypes[typ].FieldByName(name)
		if d := checkField(path, termOf(typ, name), fieldKind(typ, name), f[name], doc, used, sf.Type); d != "" {
			return d
		}
	}
	for k, v := range doc {
		if used[k] {
			continue
		}
		if k == "totalItems" {
			if n, ok := v.(json.Number); ok && n.String() == "0" {
				continue // an unset count is written as 0 by the collection types
			}
		}
		return fmt.Sprintf("%s: member %q (%v) stands for no property of the value", path, k, v)
	}
	return ""
}

// c02Check: the whole oracle on one value
func c02Check(tr T) (out []byte, viol string) {
	it := buildItem(tr)
	var err error
	if pan, msg := guard(func() { out, err = ap.MarshalJSON(it) }); pan {
		return nil, "panic in MarshalJSON: " + msg
	}
	if err != nil {
		return out, "MarshalJSON error: " + err.Error()
	}
	if len(out) == 0 {
		return out, ""
	}
	if !json.Valid(out) {
		return out, "not valid JSON: " + string(out)
	}
	if dup, err := jsonDuplicates(out); err != nil {
		return out, "not valid JSON (" + err.Error() + "): " + string(out)
	} else if dup != "" {
		return out, fmt.Sprintf("member name %q repeated in one object: %s", dup, out)
	}
	dec := json.NewDecoder(bytes.NewReader(out))
	dec.UseNumber()
	var doc interface{}
	if err := dec.Decode(&doc); err != nil {
		return out, "not valid JSON: " + err.Error()
	}
	o, ok := doc.(map[string]interface{})
	if !ok {
		return out, fmt.Sprintf("an object value is written as %T", doc)
	}
	if d := checkObject("$", tr, o); d != "" {
		return out, d + "   document: " + string(out)
	}
	return out, ""
}

// every place a string is written, for the correspondence with the model's escaper
var c02Sites = []string{"id", "type", "mediaType", "iri-item", "iris-member", "units", "hrefLang", "formerType", "publicKeyPem", "key-owner", "key-id",
	"name", "summaryMap-value", "contentMap-tag", "source-mediaType", "link-href", "url"}

func c02SiteValue(site string, s string) T {
	obj := func(f T) T {
		f["Type"] = T{"s": "Note"}
		return T{"t": "Object", "ptr": true, "f": f}
	}
	switch site {
	case "id":
		return obj(T{"ID": T{"s": s}})
	case "type":
		return T{"t": "Object", "ptr": true, "f": T{"Type": T{"s": s}}}
	case "mediaType":
		return obj(T{"MediaType": T{"s": s}})
	case "iri-item":
		return obj(T{"Context": T{"iri": s}})
	case "iris-member":
		return obj(T{"Context": T{"iris": []interface{}{"https://example.com/1", s}}})
	case "units":
		return T{"t": "Place", "ptr": true, "f": T{"Type": T{"s": "Place"}, "Units": T{"s": s}}}
	case "hrefLang":
		return T{"t": "Link", "ptr": true, "f": T{"Type": T{"s": "Link"}, "HrefLang": T{"s": s}}}
	case "link-href":
		return T{"t": "Link", "ptr": true, "f": T{"Type": T{"s": "Link"}, "Href": T{"s": s}}}
	case "formerType":
		return T{"t": "Tombstone", "ptr": true, "f": T{"Type": T{"s": "Tombstone"}, "FormerType": T{"s": s}}}
	case "publicKeyPem":
		return T{"t": "Actor", "ptr": true, "f": T{"Type": T{"s": "Person"}, "PublicKey": T{"rec": T{"PublicKeyPem": T{"s": s}}}}}
	case "key-owner":
		return T{"t": "Actor", "ptr": true, "f": T{"Type": T{"s": "Person"}, "PublicKey": T{"rec": T{"Owner": T{"s": s}}}}}
	case "key-id":
		return T{"t": "Actor", "ptr": true, "f": T{"Type": T{"s": "Person"}, "PublicKey": T{"rec": T{"ID": T{"s": s}}}}}
	case "name":
		return obj(T{"Name": T{"nlv": []interface{}{[]interface{}{"-", s}}}})
	case "summaryMap-value":
		return obj(T{"Summary": T{"nlv": []interface{}{[]interface{}{"en", "x"}, []interface{}{"fr", s}}}})
	case "contentMap-tag":
		return obj(T{"Content": T{"nlv": []interface{}{[]interface{}{"en", "x"}, []interface{}{s, "y"}}}})
	case "source-mediaType":
		return obj(T{"Source": T{"rec": T{"MediaType": T{"s": s}}}})
	case "url":
		return obj(T{"URL": T{"iri": s}})
	}
	return nil
}

// the literal the library wrote for the string at the site: found by parsing the output with a
// scanner that only knows JSON string syntax, looking for the literal that decodes to s
func c02SiteLiteral(out []byte, s string) []int {
	want := strings.ToValidUTF8(s, "�")
	for i := 0; i < len(out); i++ {
		if out[i] != '"' {
			continue
		}
		j := i + 1
		for j < len(out) && out[j] != '"' {
			if out[j] == '\\' {
				j++
			}
			j++
		}
		if j >= len(out) {
			break
		}
		var dec string
		if json.Unmarshal(out[i:j+1], &dec) == nil && dec == want {
			return bytesToInts(out[i : j+1])
		}
		i = j
	}
	return nil
}

func init() {
	campaigns["C02"] = func(c *Ctx) {
		c.Rule = "(1) string sites: each of 28 hostile byte strings (quotes, backslashes, injection attempts, control characters, U+2028, JSON fragments, escape look-alikes, invalid UTF-8) alone, prefixed by an absolute URL and concatenated in pairs, placed in each of 17 string-bearing positions (id, type, media type, IRI as item, IRI list member, units, hrefLang, former type, key material/owner/id, text, language-map value and tag, source media type, link href, url): the literal the library writes must be byte-identical to the model's writeText (the proven escaper), and the whole output passes the oracle; (2) generated values over the whole vocabulary (C01's covering set and random trees) with hostile strings substituted into string positions with probability 0.3: oracle only. Oracle: the output is empty or parses with encoding/json, no object repeats a member name (token walk), every set property is found under its declared term (struct tag) with the prescribed kind (bool/number unquoted, RFC 3339 instant equal to the value's, xsd:duration equal to the value's), every string decodes to exactly the bytes held (valid UTF-8) and no member stands for no property (totalItems: 0 of collections aside). Also: language values repeating a language reference (one member per language, first wins) and NaN/+-Inf coordinates (no invalid token)."
		for _, site := range c02Sites {
			for i, h := range hostile {
				for v := 0; v < 3; v++ {
					s := h
					switch v {
					case 1:
						s = "https://example.com/" + h
					case 2:
						s = h + hostile[(i*7+3)%len(hostile)]
					}
					tr := c02SiteValue(site, s)
					out, viol := c02Check(tr)
					var lit interface{}
					if l := c02SiteLiteral(out, s); l != nil {
						lit = l
					} else {
						lit = T{"notFound": true}
					}
					if site == "publicKeyPem" {
						c.Count(map[string]interface{}{"site": site, "s": bytesToInts([]byte(s))}, true) // written by encoding/json itself (HTML-safe escapes): oracle only
					} else {
						c.Emit(map[string]interface{}{"op": "textWrite", "s": bytesToInts([]byte(s)), "site": site}, lit, true)
					}
					c.Tag("site/" + site)
					if viol != "" {
						c.Fail("C02/site:"+site, viol, map[string]interface{}{"v": tr})
					}
				}
			}
		}
		// long values: eight entries, the tag at position j repeating the one at position i, for every i < j
		// (whatever remembers the tags already written must remember all of them)
		var longRepeats [][]interface{}
		for i := 0; i < 8; i++ {
			for j := i + 1; j < 8; j++ {
				var l []interface{}
				for k := 0; k < 8; k++ {
					tag := append(append([]string{}, langTags...), "nl")[k]
					if k == j {
						tag = append(append([]string{}, langTags...), "nl")[i]
					}
					l = append(l, []interface{}{tag, fmt.Sprintf("text %d", k)})
				}
				longRepeats = append(longRepeats, l)
			}
		}
		// repeated language references in one value, and numbers JSON cannot carry
		for _, l := range append(longRepeats, [][]interface{}{
			{[]interface{}{"en", "one"}, []interface{}{"en", "two"}},
			{[]interface{}{"en", "one"}, []interface{}{"fr", "deux"}, []interface{}{"en", "three"}},
			{[]interface{}{"-", "one"}, []interface{}{"-", "two"}},
			// the stored reference may be empty, the marker "-", or a language: entries without a reference next to
			// entries with the marker, and next to a language
			{[]interface{}{"", "one"}, []interface{}{"-", "two"}},
			{[]interface{}{"-", "one"}, []interface{}{"", "two"}},
			{[]interface{}{"", "one"}, []interface{}{"en", "two"}},
			{[]interface{}{"", "one"}, []interface{}{"", "two"}},
			// several entries of which exactly one has a text (the term stays <term>Map, the value a map)
			{[]interface{}{"en", ""}, []interface{}{"fr", "salut"}},
			{[]interface{}{"fr", "salut"}, []interface{}{"en", ""}},
			{[]interface{}{"-", ""}, []interface{}{"en", "x"}, []interface{}{"fr", ""}},
			{[]interface{}{"fr", "a"}, []interface{}{"fr", "b"}, []interface{}{"fr", "c"}},
		}...) {
			for _, fld := range []string{"Name", "Summary", "Content"} {
				tr := T{"t": "Object", "ptr": true, "f": T{"Type": T{"s": "Note"}, fld: T{"nlv": l}}}
				c.Count(tr, true)
				c.Tag("repeated-language")
				c02Bytes(c, tr)
				if _, viol := c02Check(tr); viol != "" {
					c.Fail("C02/duplicate", viol, map[string]interface{}{"v": tr})
				}
			}
		}
		for _, f := range []float64{math.NaN(), math.Inf(1), math.Inf(-1)} {
			for k := 0; k < 4; k++ {
				p := &ap.Place{Type: ap.PlaceType, ID: "https://example.com/place"}
				*[]*float64{&p.Latitude, &p.Longitude, &p.Altitude, &p.Accuracy}[k] = f
				var out []byte
				var err error
				pan, msg := guard(func() { out, err = ap.MarshalJSON(p) })
				c.Count(map[string]interface{}{"nonfinite": fmt.Sprint(f), "field": k}, true)
				c.Tag("non-finite-number")
				if pan || (err == nil && len(out) > 0 && !json.Valid(out)) {
					c.Fail("C02/invalid", fmt.Sprintf("a Place holding %v is written as %s %s", f, out, msg), map[string]interface{}{"nonfinite": fmt.Sprint(f), "field": k})
				}
			}
		}
		// lists with members that have nothing to say (nil, typed nil, empty IRI, empty object) in every position
		silent := []interface{}{nil, T{"t": "Object", "nil": true}, T{"iri": ""}, T{"t": "Object", "ptr": true, "f": T{}}}
		for si, sv := range silent {
			for pos := 0; pos < 3; pos++ {
				l := []interface{}{T{"iri": "https://example.com/a"}, T{"t": "Object", "ptr": true, "f": T{"ID": T{"s": "https://example.com/b"}, "Type": T{"s": "Note"}}}}
				l = append(l[:pos], append([]interface{}{sv}, l[pos:]...)...)
				if pos == 0 && si%2 == 0 {
					l = append([]interface{}{sv}, l...)
				}
				for _, holder := range []T{
					{"t": "Object", "ptr": true, "f": T{"Type": T{"s": "Note"}, "To": T{"list": l}}},
					{"t": "Object", "ptr": true, "f": T{"Type": T{"s": "Note"}, "Tag": T{"list": l}, "Context": T{"items": l, "ptr": false}}},
					{"t": "OrderedCollection", "ptr": true, "f": T{"Type": T{"s": "OrderedCollection"}, "OrderedItems": T{"list": l}}},
					{"t": "Collection", "ptr": true, "f": T{"Type": T{"s": "Collection"}, "Items": T{"list": l}}},
					{"t": "Actor", "ptr": true, "f": T{"Type": T{"s": "Person"}, "Streams": T{"list": l}}},
				} {
					tr := cloneTree(holder).(T)
					c.Count(tr, true)
					c.Tag("silent-list-member")
					c02Bytes(c, tr)
					if _, viol := c02Check(tr); viol != "" {
						c.Fail("C02/invalid", viol, map[string]interface{}{"v": tr})
					}
				}
			}
		}
		cfg := c01Cfg(c.N(2, 3))
		cfg.NilMembers = true
		emit := func(c *Ctx, x interface{}, tag string) {
			tr := c02Substitute(c.R, x).(T)
			c.Count(tr, true)
			c.Tag(tag)
			c02Bytes(c, tr)
			if _, viol := c02Check(tr); viol != "" {
				cls := "C02/document"
				if strings.Contains(viol, "repeated in one object") {
					cls = "C02/duplicate"
				} else if strings.HasPrefix(viol, "not valid JSON") {
					cls = "C02/invalid"
				}
				c.Fail(cls, viol, map[string]interface{}{"v": tr})
			}
		}
		c01Cover(c, emit)
		for i := 0; i < c.N(2500, 60000); i++ {
			typ := allGoTypes[c.R.Intn(len(allGoTypes))]
			tr := cfg.genNode(c.R, typ, cfg.MaxDepth, false)
			tr["ptr"] = true
			emit(c, tr, "random/"+typ)
		}
	}
	replayers["C02"] = func(class string, input []byte) string {
		var in map[string]interface{}
		if err := json.Unmarshal(input, &in); err != nil {
			return "bad replay input"
		}
		if nf, ok := in["nonfinite"].(string); ok {
			f := map[string]float64{"NaN": math.NaN(), "+Inf": math.Inf(1), "-Inf": math.Inf(-1)}[nf]
			p := &ap.Place{Type: ap.PlaceType, ID: "https://example.com/place"}
			*[]*float64{&p.Latitude, &p.Longitude, &p.Altitude, &p.Accuracy}[int(num(in["field"]))] = f
			out, err := ap.MarshalJSON(p)
			if err == nil && len(out) > 0 && !json.Valid(out) {
				return "not valid JSON: " + string(out)
			}
			return ""
		}
		_, viol := c02Check(parseTree(in["v"]).(T))
		return viol
	}
}

// c02Leaves: the texts of the instants and durations of a value tree, as time.Format and xsd.Marshal write
// them (not the library's code: given to the byte-level model as they are)
func c02Leaves(x interface{}, times, durs map[int64]string) {
	switch v := x.(type) {
	case T:
		if t, ok := v["time"]; ok {
			if l := asList(t); len(l) == 3 {
				s := int64(num(l[0]))
				times[s] = time.Unix(s, 0).UTC().Format(time.RFC3339)
			}
		}
		if d, ok := v["dur"]; ok {
			ns := int64(num(d))
			if b, err := xsd.Marshal(time.Duration(ns)); err == nil {
				durs[ns] = string(b)
			}
		}
		for _, y := range v {
			c02Leaves(y, times, durs)
		}
	case []interface{}:
		for _, y := range v {
			c02Leaves(y, times, durs)
		}
	}
}

func c02PemDiffers(x interface{}) bool {
	switch v := x.(type) {
	case T:
		if p, ok := v["PublicKeyPem"].(T); ok {
			if str, ok := p["s"].(string); ok {
				std, _ := json.Marshal(str)
				if string(std) != string(c02LibString(str)) {
					return true
				}
			}
		}
		for _, y := range v {
			if c02PemDiffers(y) {
				return true
			}
		}
	case []interface{}:
		for _, y := range v {
			if c02PemDiffers(y) {
				return true
			}
		}
	}
	return false
}

// the library's string writer, reached through a type that uses it
func c02LibString(s string) []byte {
	b, _ := ap.IRI(s).MarshalJSON()
	return b
}

// c02Bytes: the bytes the type's own MarshalJSON writes, against the byte-level model (commas, braces, the
// notEmpty flag, statement order, escaping — byte for byte)
func c02Bytes(c *Ctx, tr T) {
	it := buildItem(tr)
	m, ok := it.(json.Marshaler)
	if !ok || ap.IsNil(it) {
		return
	}
	var out []byte
	var err error
	if p, _ := guard(func() { out, err = m.MarshalJSON() }); p || err != nil {
		return // judged by c02Check
	}
	// the key material is the one string written by encoding/json instead of the library's string writer:
	// where the two write a string differently (<, >, &, U+2028/9, invalid UTF-8) the model has no say
	if c02PemDiffers(tr) {
		c.Tag("bytes/skipped-pem-written-by-encoding-json")
		return
	}
	times, durs := map[int64]string{}, map[int64]string{}
	c02Leaves(tr, times, durs)
	pairs := func(m map[int64]string) []interface{} {
		keys := make([]int64, 0, len(m))
		for k := range m {
			keys = append(keys, k)
		}
		sort.Slice(keys, func(i, j int) bool { return keys[i] < keys[j] })
		out := []interface{}{}
		for _, k := range keys {
			out = append(out, []interface{}{k, m[k]})
		}
		return out
	}
	c.Emit(map[string]interface{}{"op": "jsonBytes", "v": tr, "times": pairs(times), "durs": pairs(durs)}, hex.EncodeToString(out), true)
	c.Tag("bytes")
}

// c02Substitute: hostile strings into string positions of a generated tree
func c02Substitute(r *RNG, x interface{}) interface{} {
	switch v := x.(type) {
	case T:
		out := T{}
		for k, e := range v {
			switch {
			case (k == "s" || k == "iri") && r.Chance(30):
				if s, ok := e.(string); ok {
					out[k] = s + c02Hostile(r)
					continue
				}
				out[k] = e
			case k == "nlv" && r.Chance(30):
				var l []interface{}
				for _, p := range asList(e) {
					pp := asList(p)
					l = append(l, []interface{}{pp[0], pp[1].(string) + c02Hostile(r)})
				}
				out[k] = l
			default:
				out[k] = c02Substitute(r, e)
			}
		}
		return out
	case []interface{}:
		out := make([]interface{}, len(v))
		for i, e := range v {
			out[i] = c02Substitute(r, e)
		}
		return out
	}
	return x
}

// c02Silent: a value the encoder has nothing to write for (nil-like, empty IRI, object without any set property, list of those)
func c02Silent(x interface{}) bool {
	n := normJSON(x)
	if n == nil {
		return true
	}
	m, _ := n.(T)
	if s, ok := m["iri"]; ok {
		return s == ""
	}
	if l, ok := m["items"]; ok {
		for _, e := range asList(l) {
			if !c02Silent(e) {
				return false
			}
		}
		return true
	}
	if f, ok := m["f"].(T); ok {
		return len(f) == 0
	}
	return false
}
