/-
Model of the collection operations shared by ItemCollection, Collection, OrderedCollection,
CollectionPage, OrderedCollectionPage (item_collection.go, collection*.go, ordered_collection*.go)
and IRIs (iri.go): Append with a Contains guard, Contains, Count, Collection, and
`ItemCollection.Remove` (last match is spliced out).

Generic over the element type and the element comparison `eq` (Go: `ItemsEqual` for item lists,
`IRI.Equals(·,·,false)` on links for IRI lists).
-/
namespace APModel.Coll

variable {α : Type}

/-- `Contains`: some member `it` with `eq it r`. -/
def contains (eq : α → α → Bool) (l : List α) (r : α) : Bool := l.any (fun it => eq it r)

/-- `Append` of one item: skipped when already contained. -/
def append (eq : α → α → Bool) (l : List α) (x : α) : List α :=
  if contains eq l x then l else l ++ [x]

/-- index of the last element satisfying `p` (the loop of `Remove` keeps overwriting `remIdx`). -/
def lastIdx (p : α → Bool) : List α → Option Nat
  | [] => none
  | a :: r =>
    match lastIdx p r with
    | some i => some (i + 1)
    | none => if p a then some 0 else none

/-- `ItemCollection.Remove`. -/
def remove (eq : α → α → Bool) (l : List α) (r : α) : List α :=
  match lastIdx (fun it => eq it r) l with
  | none => l
  | some i => l.eraseIdx i

inductive Op (α : Type)
  | append (x : α)
  | contains (x : α)
  | remove (x : α)
  | count
  deriving Repr

inductive Out
  | unit
  | bool (b : Bool)
  | nat (n : Nat)
  deriving Repr, DecidableEq

def Op.arg : Op α → Option α
  | .append x => some x
  | .contains x => some x
  | .remove x => some x
  | .count => none

def step (eq : α → α → Bool) (l : List α) : Op α → List α × Out
  | .append x => (append eq l x, .unit)
  | .contains x => (l, .bool (contains eq l x))
  | .remove x => (remove eq l x, .unit)
  | .count => (l, .nat l.length)

/-- final state and the outputs of a history. -/
def run (eq : α → α → Bool) (l : List α) : List (Op α) → List α × List Out
  | [] => (l, [])
  | op :: ops =>
    let (l', o) := step eq l op
    let (lf, os) := run eq l' ops
    (lf, o :: os)

end APModel.Coll
