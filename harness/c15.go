package main

import (
	"encoding/json"
	"fmt"
	"net/url"
	"strings"

	ap "github.com/go-ap/activitypub"
)

// C15 — collection IRIs and their owners convert back and forth consistently.

var c15Names = []ap.CollectionPath{ap.Outbox, ap.Inbox, ap.Liked, ap.Following, ap.Followers, ap.Likes, ap.Shares, ap.Replies}

func c15Owners(r *RNG, n int) []string {
	hosts := []string{"example.com", "example.com:8080", "sub.Example.ORG", "127.0.0.1:3000", "shares.example.com", "myinbox",
		"inbox", "followers", "replies:8080"} // single-label hosts spelled like a collection name
	// … and segments that merely contain, start with or end in the letters of a collection name
	segs := []string{"~jane", "actors", "jdoe", "inbox", "outbox", "likes", "a.b", "x-y_z", "9", "Followers", "api", "v1",
		"dislikes", "unfollowing", "non-followers", "unliked", "reshares", "autoreplies", "mailinbox", "outbox-archive", "inboxes", "likes42",
		// the characters a path segment may hold unescaped (RFC 3986 sub-delims, ':' and '@')
		"jane+doe", "c++", "a,b", "x;y", "k=v", "it's", "(x)", "a@b", "a:b", "star*", "ex!", "$1", "a&b"}
	out := []string{"https://example.com", "https://example.com/", "http://example.com/~jane", "https://example.com/~jane/",
		"https://example.com/inbox", "https://example.com/actors/inbox/", "https://example.com/a%2Fb", "https://example.com/caf%C3%A9/jane",
		"https://myinbox", "https://inbox", "http://outbox", "https://followers", "https://replies", "https://likes/", "https://shares:8080",
		"https://example.com/users/\u212aelvin", "https://example.com/%E2%84%AAelvin/x", "https://example.com/\u0130nci", "https://example.com/%C4%B0nci/", "https://example.com/\u2126/\u023a",
		"https://example.com/tags/c%23", "https://example.com/q%3Fa/b", "https://example.com/100%25/x", "https://example.com/users/jane+doe", "https://example.com/c++/maintainers/", "https://example.com/tags/dislikes", "https://example.com/users/inbox", "https://shares.example.com/u/1"}
	for i := 0; i < n; i++ {
		s := []string{"https", "http"}[r.Intn(2)] + "://" + r.Pick(hosts)
		for k := r.Intn(4); k > 0; k-- {
			s += "/" + r.Pick(segs)
		}
		if r.Chance(30) {
			s += "/"
		}
		out = append(out, s)
	}
	return out
}

type c15Case struct {
	F        string  `json:"f"`
	O        string  `json:"o,omitempty"`
	C        string  `json:"c,omitempty"`
	I        string  `json:"i,omitempty"`
	ID       string  `json:"id,omitempty"`
	Kind     string  `json:"kind,omitempty"` // object | actor
	Typ      string  `json:"typ,omitempty"`
	Explicit *string `json:"explicit"`
	Form     string  `json:"form,omitempty"` // how the explicit collection is held: "" an IRI, "ptr"/"val" an embedded collection object with that id
	Actor    bool    `json:"actorType"`
	// Rich: the value also carries the properties that resemble collections without being the asked one
	// (an actor's endpoints with a shared inbox, streams, url; an object's url, context, attachments)
	Rich bool `json:"rich,omitempty"`
}

func lastSegIsName(o string) bool {
	// the last element of the URL's PATH (a host is no path segment: https://inbox names a server)
	u, err := url.Parse(o)
	if err != nil || u.Host == "" {
		return false
	}
	pth := u.Path
	if pth != strings.TrimRight(pth, "/") {
		return false // a trailing slash: the last path element is empty
	}
	seg := pth[strings.LastIndex(pth, "/")+1:]
	if seg == "" {
		return false
	}
	for _, n := range c15Names {
		if strings.EqualFold(seg, string(n)) {
			return true
		}
	}
	return false
}

func c15Explicit(cs c15Case) ap.Item {
	switch cs.Form {
	case "ptr":
		return &ap.OrderedCollection{ID: ap.ID(*cs.Explicit), Type: ap.OrderedCollectionType, TotalItems: 3}
	case "val":
		return ap.Collection{ID: ap.ID(*cs.Explicit), Type: ap.CollectionType}
	}
	return ap.IRI(*cs.Explicit)
}

func c15Value(cs c15Case) ap.Item {
	col := ap.CollectionPath(cs.C)
	if cs.Kind == "actor" {
		a := &ap.Actor{ID: ap.ID(cs.ID), Type: ap.ActivityVocabularyType(cs.Typ)}
		if cs.Rich {
			srv := ap.IRI("https://shared.example")
			a.Endpoints = &ap.Endpoints{SharedInbox: srv + "/inbox", OauthAuthorizationEndpoint: srv + "/oauth/authorize",
				OauthTokenEndpoint: srv + "/oauth/token", UploadMedia: srv + "/upload", ProvideClientKey: srv + "/key", SignClientKey: srv + "/sign"}
			a.Streams = ap.ItemCollection{srv + "/streams/inbox", srv + "/streams/outbox", srv + "/followers"}
			a.URL = srv + "/~someone"
			a.Context = srv + "/liked"
			a.PreferredUsername = ap.DefaultNaturalLanguageValue("likes")
		}
		if cs.Explicit != nil {
			e := c15Explicit(cs)
			switch col {
			case ap.Inbox:
				a.Inbox = e
			case ap.Outbox:
				a.Outbox = e
			case ap.Liked:
				a.Liked = e
			case ap.Following:
				a.Following = e
			case ap.Followers:
				a.Followers = e
			case ap.Likes:
				a.Likes = e
			case ap.Shares:
				a.Shares = e
			case ap.Replies:
				a.Replies = e
			}
		}
		return a
	}
	o := &ap.Object{ID: ap.ID(cs.ID), Type: ap.ActivityVocabularyType(cs.Typ)}
	if cs.Rich {
		srv := ap.IRI("https://shared.example")
		o.URL = srv + "/replies"
		o.Context = srv + "/shares"
		o.InReplyTo = srv + "/likes"
		o.Attachment = ap.ItemCollection{srv + "/inbox", srv + "/outbox"}
		o.AttributedTo = &ap.Actor{ID: srv + "/~other", Inbox: srv + "/~other/in", Likes: srv + "/~other/likes"}
	}
	if cs.Explicit != nil {
		e := c15Explicit(cs)
		switch col {
		case ap.Likes:
			o.Likes = e
		case ap.Shares:
			o.Shares = e
		case ap.Replies:
			o.Replies = e
		}
	}
	return o
}

func c15Run(cs c15Case) (res interface{}, viol string) {
	p, msg := guard(func() {
		switch cs.F {
		case "iriF":
			built := ap.IRIf(ap.IRI(cs.O), ap.CollectionPath(cs.C))
			res = string(built)
			// the round trip of the property, judged on the implementation alone
			o2, c2 := ap.Split(built)
			if string(c2) != cs.C {
				viol = fmt.Sprintf("Split(IRIf(%q, %q)) returned the collection %q", cs.O, cs.C, c2)
			} else if !o2.Equals(ap.IRI(cs.O), true) {
				viol = fmt.Sprintf("Split(IRIf(%q, %q)) returned the owner %q, which is not equivalent to the original", cs.O, cs.C, o2)
			} else if !ap.ValidCollectionIRI(built) {
				viol = fmt.Sprintf("IRIf(%q, %q) = %q is not recognised as a valid collection IRI", cs.O, cs.C, built)
			} else if a, err := ap.CollectionPath(cs.C).OfActor(built); err != nil || !a.Equals(ap.IRI(cs.O), true) {
				viol = fmt.Sprintf("OfActor(IRIf(%q, %q)) = %q, %v", cs.O, cs.C, a, err)
			} else if viaItem := ap.CollectionPath(cs.C).IRI(ap.IRI(cs.O)); viaItem != built {
				// the owner given as an item that is a bare IRI: the same built IRI (also when the owner's own last
				// segment is this very collection name)
				viol = fmt.Sprintf("%s.IRI(IRI(%q)) = %q, IRIf gives %q", cs.C, cs.O, viaItem, built)
			} else if a, err := ap.CollectionPath(cs.C).OfActor(viaItem); err != nil || !a.Equals(ap.IRI(cs.O), true) {
				viol = fmt.Sprintf("%s.OfActor(%s.IRI(IRI(%q))) = %q, %v", cs.C, cs.C, cs.O, a, err)
			}
		case "split":
			o, c := ap.Split(ap.IRI(cs.I))
			res = []string{string(o), string(c)}
		case "ofActor":
			a, err := ap.CollectionPath(cs.C).OfActor(ap.IRI(cs.I))
			if err != nil {
				res = nil
			} else {
				res = string(a)
			}
		case "validIRI":
			v := ap.ValidCollectionIRI(ap.IRI(cs.I))
			res = v
			if v && !lastSegIsName(cs.I) {
				viol = fmt.Sprintf("%q is reported as a valid collection IRI although its last path segment is no collection name", cs.I)
			}
		case "of":
			x := c15Value(cs)
			it := ap.CollectionPath(cs.C).Of(x)
			if ap.IsNil(it) {
				res = nil
			} else {
				res = string(it.GetLink())
			}
			applicable := (cs.Kind == "actor" && cs.Actor) || cs.C == "likes" || cs.C == "shares" || cs.C == "replies"
			if cs.Kind == "object" && (cs.C != "likes" && cs.C != "shares" && cs.C != "replies") {
				applicable = false
			}
			want := string(ap.IRIf(ap.IRI(cs.ID), ap.CollectionPath(cs.C)))
			if cs.Explicit != nil && applicable {
				want = *cs.Explicit
			}
			if got, _ := res.(string); got != want {
				viol = fmt.Sprintf("%s.Of(%s %q explicit=%v) = %q, expected %q", cs.C, cs.Kind, cs.ID, cs.Explicit != nil, got, want)
			} else if iri := ap.CollectionPath(cs.C).IRI(x); string(iri) != want {
				viol = fmt.Sprintf("%s.IRI(…) = %q, expected %q", cs.C, iri, want)
			}
		}
	})
	if p {
		return "panic", "panic: " + msg
	}
	return res, viol
}

func c15Emit(c *Ctx, cs c15Case) {
	res, viol := c15Run(cs)
	b := mustJSON(cs)
	var in map[string]interface{}
	json.Unmarshal(b, &in)
	in["op"] = "typer"
	c.Emit(in, res, true)
	c.Tag("f/" + cs.F)
	if viol != "" {
		cls := "C15/" + cs.F
		if strings.HasPrefix(viol, "panic") {
			cls = "C15/panic"
		}
		c.Fail(cls, viol, in)
	}
}

func init() {
	campaigns["C15"] = func(c *Ctx) {
		owners := c15Owners(c.R, c.N(150, 3000))
		c.Rule = fmt.Sprintf("%d owner IRIs (hosts with ports and mixed case, nested paths, trailing slashes, percent-escapes, path segments that are themselves collection names) x the 8 collection names: IRIf, Split(IRIf), OfActor, ValidCollectionIRI on the built IRI and on the owner; objects and actors (actor types and the generic type) x 8 names x explicit collection unset / set as an IRI / set as an embedded collection object (by pointer, by value) with its own id: Of and IRI. Owners with percent-escapes are outside the model's URL grammar (skipped by the model, judged by the oracle).", len(owners))
		for _, o := range owners {
			for _, n := range c15Names {
				c15Emit(c, c15Case{F: "iriF", O: o, C: string(n)})
				built := string(ap.IRIf(ap.IRI(o), n))
				c15Emit(c, c15Case{F: "split", I: built})
				c15Emit(c, c15Case{F: "ofActor", C: string(n), I: built})
				c15Emit(c, c15Case{F: "validIRI", I: built})
			}
			c15Emit(c, c15Case{F: "split", I: o})
			c15Emit(c, c15Case{F: "validIRI", I: o})
		}
		for i := 0; i < c.N(1500, 30000); i++ {
			o := owners[c.R.Intn(len(owners))]
			if strings.Contains(o, "%") {
				continue
			}
			n := c15Names[c.R.Intn(len(c15Names))]
			cs := c15Case{F: "of", C: string(n), ID: o, Rich: c.R.Chance(40)}
			if c.R.Bool() {
				cs.Kind, cs.Typ, cs.Actor = "actor", c.R.Pick(vocab["Actor"][1:]), true
			} else {
				cs.Kind, cs.Typ = "object", c.R.Pick(vocab["Object"][1:])
			}
			if c.R.Chance(60) {
				e := o + "/custom-" + string(n)
				cs.Explicit = &e
				cs.Form = []string{"", "", "ptr", "val"}[c.R.Intn(4)]
			}
			c15Emit(c, cs)
		}
	}
	replayers["C15"] = func(class string, input []byte) string {
		var cs c15Case
		if err := json.Unmarshal(input, &cs); err != nil {
			return "bad replay input"
		}
		_, viol := c15Run(cs)
		return viol
	}
}
