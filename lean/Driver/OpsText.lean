import Driver.Util
import APModel.Model.Text
import APModel.Model.TextUnmarshal
open Lean APModel.Text

namespace Driver

def natList (j : Json) : R (List Nat) := do (← arr j).mapM nat
def renderBytes (l : List Nat) : Json := jarr (l.map (fun (n : Nat) => Json.num (JsonNumber.fromNat n)))

def opTextWrite (j : Json) : R Json := do
  return renderBytes (writeText (← natList (← fld j "s")))

/-- the reader on the document `{"type":"Note","name":"<raw>"}`: the literal must end at the quote that
closes it, otherwise the document does not parse -/
def opTextRead (j : Json) : R Json := do
  let raw ← natList (← fld j "raw")
  match scan (raw ++ [quote]) with
  | some (r, []) => return Json.mkObj [("text", renderBytes (unesc r))]
  | _ => return Json.mkObj [("none", Json.bool true)]

end Driver

namespace Driver
open APModel.TextUnmarshal

def opUnmarshalText (j : Json) : R Json := do
  let s ← natList (← fld j "s")
  let ty ← strF j "type"
  if ty == "NaturalLanguageValues" then
    match nlvUnmarshalText s with
    | .ok vals => return Json.mkObj [("err", Json.bool false), ("vals", jarr (vals.map renderBytes))]
    | .err => return Json.mkObj [("err", Json.bool true), ("vals", jarr [])]
    | .panic => return Json.mkObj [("panic", Json.bool true)]
  else
    match scalarUnmarshalText s with
    | .ok [v] => return Json.mkObj [("err", Json.bool false), ("v", renderBytes v)]
    | .ok _ => return Json.mkObj [("bad", Json.bool true)]
    | .err => return Json.mkObj [("err", Json.bool true), ("v", jarr [])]
    | .panic => return Json.mkObj [("panic", Json.bool true)]

end Driver
