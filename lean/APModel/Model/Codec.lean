/-
The table-driven codec model shared by C01 (JSON), C03 (gob) and C05.

Both codecs of the library are hand-written field tables, one per direction:
  JSON  write: JSONWrite<T>Value / <T>.MarshalJSON      read: JSONLoad<T>
  gob   write: map<T>Properties                          read: unmap<T>Properties
`Generated/Codec.lean` is regenerated from those functions (and from the struct definitions with
their `jsonld` tags) on every run.  This file gives the tables a semantics:

  * one LEVEL of a value is its `Fields`; `encodeLevel W` writes the members a write table emits for
    it (a row fires when the field is set and its guard lets the value through), `decodeLevel R`
    rebuilds the fields from those members by a read table;
  * `normJ` / `normG` are the documented normal forms of C01 / C03 on whole value trees
    (the specification the implementation's decode∘encode is compared with, case by case).

The values carried by the members are kept as values: the leaf codecs (one write helper and its read
helper per kind of field) are not modelled here; see DESIGN.md, trusted base.
-/
import APModel.Model.Value
import APModel.Theory.Fields
import APModel.Generated.Codec

namespace APModel.Codec
open APModel APModel.Generated
abbrev Str := APModel.IRI.Str

/-! ### tables -/

structure WRow where
  term : String
  field : String
  helper : String
  guard : String
  deriving DecidableEq, Repr

structure RRow where
  field : String
  helper : String
  term : String
  cond : String
  deriving DecidableEq, Repr

/-- rows of a function: its own, then those of the functions it delegates to. -/
def fnRows (T : List CodecFn) : Nat → String → List (String × String × String × String)
  | 0, _ => []
  | n + 1, fn =>
    match T.find? (fun r => r.fn == fn) with
    | none => []
    | some r => r.rows ++ r.delegates.flatMap (fnRows T n)

/-- statements the extractor could not read, anywhere below a function -/
def fnOther (T : List CodecFn) : Nat → String → List String
  | 0, _ => []
  | n + 1, fn =>
    match T.find? (fun r => r.fn == fn) with
    | none => ["?unknown: no function " ++ fn]
    | some r => r.other ++ r.delegates.flatMap (fnOther T n)

def wRows (T : List CodecFn) (fn : String) : List WRow :=
  (fnRows T 5 fn).map fun (a, b, c, d) => ⟨a, b, c, d⟩
/-- gob rows are (key, field, codec, guard) in both directions; JSON read rows are (field, helper, term, cond) -/
def rRowsJ (T : List CodecFn) (fn : String) : List RRow :=
  (fnRows T 5 fn).map fun (a, b, c, d) => ⟨a, b, c, d⟩
def rRowsG (T : List CodecFn) (fn : String) : List RRow :=
  (fnRows T 5 fn).map fun (a, b, c, d) => ⟨b, c, a, d⟩

/-! ### kinds of field values, "set", guards -/

inductive FKind
  | item | items | nlv | time | duration | str | float | int | uint | bool | record | unknown
  deriving DecidableEq, Repr

/-- the schema's kind strings (struct field types) -/
def FKind.parse (s : String) : FKind :=
  if s == "item" then .item else if s == "items" then .items else if s == "nlv" then .nlv
  else if s == "time" then .time else if s == "duration" then .duration else if s == "float" then .float
  else if s == "int" then .int else if s == "uint" then .uint else if s == "bool" then .bool
  else if s == "source" || s == "pubkey" || s == "endpoints" then .record
  else if s.startsWith "string:" then .str else .unknown

inductive Guard
  | always | nonNil | notZero | marshalNonEmpty | anySubLen | lenPos | neZero | gtZero | isTrue | isTrueOrData | unknown
  deriving DecidableEq, Repr

def Guard.parse (s : String) : Guard :=
  if s == "always" then .always else if s == "nonNil" then .nonNil else if s == "notZero" then .notZero
  else if s == "marshalNonEmpty" then .marshalNonEmpty else if s == "anySubLen" then .anySubLen
  else if s == "lenPos" then .lenPos else if s == "neZero" then .neZero else if s == "gtZero" then .gtZero
  else if s == "isTrue" then .isTrue else if s == "isTrueOrData" then .isTrueOrData else .unknown

def hasKind : FKind → FVal → Bool
  | .item, .item _ => true
  | .items, .items _ => true
  | .nlv, .nlv _ => true
  | .time, .time _ _ _ => true
  | .duration, .dur _ => true
  | .str, .str _ => true
  | .float, .dec6 _ => true
  | .int, .int _ => true
  | .uint, .uint _ => true
  | .bool, .bool _ => true
  | .record, .record _ => true
  | _, _ => false

/-- a value the Go side does not regard as the zero of its type (unset fields are absent from
`Fields`; this is the representation invariant of the dumps) -/
def isSet : FVal → Bool
  | .item _ => true
  | .items l => l.length != 0
  | .nlv n => !n.isEmpty
  | .time _ _ _ => true
  | .dur d => d != 0
  | .str s => !s.isEmpty
  | .dec6 z => z != 0
  | .int z => z != 0
  | .uint n => n != 0
  | .bool b => b
  | .record fs => match fs with | .nil => false | _ => true

/-- does the guard in front of a write row let this value through? (unknown guards never do) -/
def guardPassesG : Guard → FVal → Bool
  | .always, _ | .nonNil, _ | .notZero, _ => true
  | .marshalNonEmpty, v | .anySubLen, v => isSet v
  | .lenPos, .str s => !s.isEmpty
  | .lenPos, .nlv n => !n.isEmpty
  | .lenPos, .items l => l.length != 0
  | .neZero, .dur d => d != 0
  | .neZero, .dec6 z => z != 0
  | .neZero, .int z => z != 0
  | .neZero, .uint n => n != 0
  | .gtZero, .dur d => decide (d > 0)
  | .gtZero, .dec6 z => decide (z > 0)
  | .gtZero, .int z => decide (z > 0)
  | .gtZero, .uint n => n != 0
  | .isTrue, .bool b | .isTrueOrData, .bool b => b
  | _, _ => false

def guardPasses (g : String) (v : FVal) : Bool := guardPassesG (Guard.parse g) v

/-- static side: is this guard adequate for every set value of a field of that kind?  (`gtZero` is
adequate for unsigned fields only: a signed field guarded by `> 0` loses its negative values.) -/
def guardFitsG : Guard → FKind → Bool
  | .always, _ | .nonNil, _ | .notZero, _ | .marshalNonEmpty, _ | .anySubLen, _ => true
  | .lenPos, .str | .lenPos, .nlv | .lenPos, .items => true
  | .neZero, .duration | .neZero, .float | .neZero, .int | .neZero, .uint => true
  | .gtZero, .uint => true
  | .isTrue, .bool | .isTrueOrData, .bool => true
  | _, _ => false

def guardFits (g kind : String) : Bool := guardFitsG (Guard.parse g) (FKind.parse kind)

/-! ### one level -/

def encodeLevel (W : List WRow) (fs : Fields) : List (String × FVal) :=
  W.filterMap fun w =>
    match fs.get? w.field with
    | some v => if guardPasses w.guard v then some (w.term, v) else none
    | none => none

def decodeStep (ms : List (String × FVal)) (acc : Fields) (r : RRow) : Fields :=
  match ms.lookup r.term with
  | some v => acc.set r.field v
  | none => acc

def decodeLevel (R : List RRow) (ms : List (String × FVal)) : Fields :=
  R.foldl (decodeStep ms) .nil

/-! ### the static agreement of a struct's two tables with its definition -/

/-- which read helper undoes which write helper, per kind of field (JSON) -/
def pairJ (kind w r : String) : Bool :=
  if kind == "item" then w == "JSONWriteItemProp" && (r == "JSONGetItem" || r == "JSONGetURIItem")
  else if kind == "items" then (w == "JSONWriteItemCollectionProp" || w == "JSONWriteItemProp") && r == "JSONGetItems"
  else if kind == "nlv" then w == "JSONWriteNaturalLanguageProp" && r == "JSONGetNaturalLanguageField"
  else if kind == "time" then w == "JSONWriteTimeProp" && r == "JSONGetTime"
  else if kind == "duration" then w == "JSONWriteDurationProp" && r == "JSONGetDuration"
  else if kind == "float" then w == "JSONWriteFloatProp" && r == "JSONGetFloat"
  else if kind == "int" || kind == "uint" then w == "JSONWriteIntProp" && r == "JSONGetInt"
  else if kind == "bool" then w == "JSONWriteBoolProp" && r == "JSONGetBoolean"
  else if kind == "source" then w == "marshal" && r == "GetAPSource"
  else if kind == "pubkey" then w == "marshal" && r == "JSONGetPublicKey"
  else if kind == "endpoints" then w == "marshal" && r == "JSONGetActorEndpoints"
  else if kind == "string:ID" then w == "marshal" && r == "JSONGetID"
  else if kind == "string:ActivityVocabularyType" then w == "marshal" && (r == "JSONGetType" || r == "JSONGetString")
  else if kind == "string:MimeType" then w == "marshal" && (r == "JSONGetMimeType" || r == "val.GetStringBytes")
  else if kind == "string:LangRef" then w == "JSONWriteStringProp" && r == "JSONGetLangRefField"
  else if kind == "string:IRI" then (w == "marshal" || w == "JSONWriteIRIProp") && (r == "JSONGetURIItem" || r == "JSONGetIRI")
  else if kind == "string:string" then (w == "JSONWriteStringProp" && r == "JSONGetString") || (w == "marshal" && r == "val.GetStringBytes")
  else false

/-- … and for gob -/
def pairG (kind w r : String) : Bool :=
  if kind == "item" then (w == "gobEncodeItem" || w == "gobEncodeItemOrLink") && r == "gobDecodeItem"
  else if kind == "items" then (w == "gobEncodeItem" || w == "gobEncodeItems") && r == "gobDecodeItems"
  else if kind == "nlv" then w == ".GobEncode" && (r == "gobDecodeNaturalLanguageValues" || r == ".GobDecode")
  else if kind == "time" then w == ".GobEncode" && r == ".GobDecode"
  else if kind == "duration" then w == "gobEncodeInt64" && r == "gobDecodeDuration"
  else if kind == "float" then w == "gobEncodeFloat64" && r == "gobDecodeFloat64"
  else if kind == "int" then w == "gobEncodeInt64" && r == "gobDecodeInt64"
  else if kind == "uint" then w == "gobEncodeUint" && r == "gobDecodeUint"
  else if kind == "bool" then w == "gobEncodeBool" && r == "gobDecodeBool"
  else if kind == "source" || kind == "pubkey" || kind == "endpoints" then w == ".GobEncode" && r == ".GobDecode"
  else if kind == "string:string" then w == "bytes" && r == "string"
  else if kind == "string:IRI" then (w == ".GobEncode" || w == "gobEncodeItem") && r == ".GobDecode"  -- an IRI item is written as its bytes
  else if kind.startsWith "string:" then w == ".GobEncode" && r == ".GobDecode"
  else false

abbrev Schema := List (String × String × String)   -- (field, kind, term)

/-- The decidable agreement check: every declared field has a write row under its declared term with
an adequate guard, and a read row for the same term with the paired helper; no term is written from
two fields, no field is read twice, nothing is read from a term some other field is written to; no row
mentions an undeclared field; nothing in either function was left unread by the extractor. -/
def tablesAgree (pair : String → String → String → Bool) (S : Schema) (W : List WRow) (R : List RRow) : Bool :=
  S.all (fun (f, kind, term) =>
    W.any (fun w => w.field == f && w.term == term && guardFits w.guard kind &&
      R.any (fun r => r.field == f && r.term == term && pair kind w.helper r.helper))) &&
  W.all (fun w => W.all (fun w' => w.term != w'.term || w.field == w'.field)) &&
  decide ((R.map (·.field)).Nodup) &&
  W.all (fun w => R.any (fun r => r.field == w.field && r.term == w.term)) &&
  R.all (fun r => W.all (fun w => w.term != r.term || w.field == r.field)) &&
  W.all (fun w => S.any (fun (f, kind, _) => f == w.field && guardFits w.guard kind)) &&
  R.all (fun r => S.any (fun (f, _, _) => f == r.field))

/-- a level is well formed for a schema when every field it holds is declared, of the declared kind, and set -/
def wfLevel (S : Schema) (fs : Fields) : Prop :=
  ∀ f v, fs.get? f = some v → ∃ row ∈ S, row.1 = f ∧ hasKind (FKind.parse row.2.1) v = true ∧ isSet v = true

/-! ### the code's own JSON tables -/

/-- struct, its JSON writer entry and its JSON reader entry -/
def jsonEntries : List (String × String × String) := [
  ("Object", "Object.MarshalJSON", "Object.UnmarshalJSON"),
  ("Actor", "Actor.MarshalJSON", "Actor.UnmarshalJSON"),
  ("Activity", "Activity.MarshalJSON", "Activity.UnmarshalJSON"),
  ("IntransitiveActivity", "IntransitiveActivity.MarshalJSON", "IntransitiveActivity.UnmarshalJSON"),
  ("Question", "Question.MarshalJSON", "Question.UnmarshalJSON"),
  ("Collection", "Collection.MarshalJSON", "Collection.UnmarshalJSON"),
  ("OrderedCollection", "OrderedCollection.MarshalJSON", "OrderedCollection.UnmarshalJSON"),
  ("CollectionPage", "CollectionPage.MarshalJSON", "CollectionPage.UnmarshalJSON"),
  ("OrderedCollectionPage", "OrderedCollectionPage.MarshalJSON", "OrderedCollectionPage.UnmarshalJSON"),
  ("Place", "Place.MarshalJSON", "Place.UnmarshalJSON"),
  ("Profile", "Profile.MarshalJSON", "Profile.UnmarshalJSON"),
  ("Relationship", "Relationship.MarshalJSON", "Relationship.UnmarshalJSON"),
  ("Tombstone", "Tombstone.MarshalJSON", "Tombstone.UnmarshalJSON"),
  ("Link", "Link.MarshalJSON", "Link.UnmarshalJSON"),
  ("Source", "Source.MarshalJSON", "Source.UnmarshalJSON"),
  ("PublicKey", "PublicKey.MarshalJSON", "PublicKey.UnmarshalJSON"),
  ("Endpoints", "Endpoints.MarshalJSON", "JSONGetActorEndpoints")]

def schemaOf (name : String) : Schema :=
  ((schema.find? (fun s => s.1 == name)).map (·.2)).getD []

def jsonW (name : String) : List WRow :=
  ((jsonEntries.find? (fun e => e.1 == name)).map (fun e => wRows jsonWrite e.2.1)).getD []
def jsonR (name : String) : List RRow :=
  ((jsonEntries.find? (fun e => e.1 == name)).map (fun e => rRowsJ jsonRead e.2.2)).getD []


/-! ### the code's own gob tables -/

def gobEntries : List (String × String × String) := [
  ("Object", "Object.GobEncode", "Object.GobDecode"),
  ("Actor", "Actor.GobEncode", "Actor.GobDecode"),
  ("Activity", "Activity.GobEncode", "Activity.GobDecode"),
  ("IntransitiveActivity", "IntransitiveActivity.GobEncode", "IntransitiveActivity.GobDecode"),
  ("Question", "Question.GobEncode", "Question.GobDecode"),
  ("Collection", "Collection.GobEncode", "Collection.GobDecode"),
  ("OrderedCollection", "OrderedCollection.GobEncode", "OrderedCollection.GobDecode"),
  ("CollectionPage", "CollectionPage.GobEncode", "CollectionPage.GobDecode"),
  ("OrderedCollectionPage", "OrderedCollectionPage.GobEncode", "OrderedCollectionPage.GobDecode"),
  ("Place", "Place.GobEncode", "Place.GobDecode"),
  ("Profile", "Profile.GobEncode", "Profile.GobDecode"),
  ("Relationship", "Relationship.GobEncode", "Relationship.GobDecode"),
  ("Tombstone", "Tombstone.GobEncode", "Tombstone.GobDecode"),
  ("Link", "Link.GobEncode", "Link.GobDecode"),
  ("Source", "Source.GobEncode", "Source.GobDecode"),
  ("PublicKey", "PublicKey.GobEncode", "PublicKey.GobDecode"),
  ("Endpoints", "Endpoints.GobEncode", "Endpoints.GobDecode")]

def gobW (name : String) : List WRow :=
  ((gobEntries.find? (fun e => e.1 == name)).map (fun e => wRows gobMap e.2.1)).getD []
def gobR (name : String) : List RRow :=
  ((gobEntries.find? (fun e => e.1 == name)).map (fun e => rRowsG gobUnmap e.2.2)).getD []

/-- the struct's fields with the key the gob writer files each one under -/
def gobSchema (name : String) : Schema :=
  (schemaOf name).map fun (f, kind, _) =>
    (f, kind, (((gobW name).find? (fun w => w.field == f)).map (·.term)).getD "?no write row")


/-! ### the documented normal forms (whole trees) -/

def dash : Str := [45]

def isNilItem : Item → Bool
  | .nil => true
  | _ => false

/-- single-item position holding a list: nothing, the element, or the list -/
def collapse : List Item → Item
  | [] => .nil
  | [x] => x
  | l => .coll false (Items.ofList l)

mutual
/-- The normal form, with `e` saying whether the value went through the ENCODER (C01: a lone language
value is written collapsed and returns untagged) or was only DECODED from a document (C05: the tag the
document gives is kept): nil-like values are nothing, struct values come back as pointers, instants are
UTC whole seconds, a lone language value is untagged, a list in a single-item position collapses. -/
def normX (e : Bool) : Item → Item
  | .nil => .nil
  | .typedNil _ => .nil
  | .collNil _ => .nil
  | .irisNil => .nil
  | .iri s => if s.isEmpty then .nil else .iri s          -- the empty IRI writes nothing
  | .iris l => collapse ((l.filter (fun s => !s.isEmpty)).map .iri)
  | .coll _ l => collapse (normXItems e l)
  | .node k _ fs =>
    match normXFields e fs with
    | .nil => .nil                                         -- an object with nothing to say is not written
    | fs' => .node k true fs'
def normXItems (e : Bool) : Items → List Item
  | .nil => []
  | .cons i r => let n := normX e i; if isNilItem n then normXItems e r else n :: normXItems e r
def normXFields (e : Bool) : Fields → Fields
  | .nil => .nil
  | .cons n v r => match normXVal e v with
    | some v' => .cons n v' (normXFields e r)
    | none => normXFields e r
def normXVal (e : Bool) : FVal → Option FVal
  | .item i => let n := normX e i; if isNilItem n then none else some (.item n)
  | .items l => match normXItems e l with
    | [] => none
    | l' => some (.items (Items.ofList l'))
  | .nlv [] => none
  | .nlv [(t, v)] => some (.nlv [(if e then dash else t, v)])
  | .nlv n => some (.nlv n)
  | .time s _ _ => some (.time s 0 0)
  | .record fs => match normXFields e fs with
    | .nil => none
    | fs' => some (.record fs')
  | v => some v
end


/-- C01's normal form (encode, then decode) -/
abbrev normJ : Item → Item := normX true
/-- C05's normal form of what a document says (decode only) -/
abbrev normD : Item → Item := normX false

mutual
/-- C03's normal form: only nil-like/empty values are nothing and struct values come back as pointers. -/
def normG : Item → Item
  | .nil => .nil
  | .typedNil _ => .nil
  | .collNil _ => .nil
  | .irisNil => .nil
  | .iri s => if s.isEmpty then .nil else .iri s
  | .iris l => if l.isEmpty then .nil else .iris l
  | .coll _ l => match normGItems l with
    | [] => .nil
    | l' => .coll false (Items.ofList l')
  | .node k _ fs =>
    match normGFields fs with
    | .nil => .nil
    | fs' => .node k true fs'
def normGItems : Items → List Item
  | .nil => []
  | .cons i r => let n := normG i; if isNilItem n then normGItems r else n :: normGItems r
def normGFields : Fields → Fields
  | .nil => .nil
  | .cons n v r => match normGVal v with
    | some v' => .cons n v' (normGFields r)
    | none => normGFields r
def normGVal : FVal → Option FVal
  | .item i => let n := normG i; if isNilItem n then none else some (.item n)
  | .items l => match normGItems l with
    | [] => none
    | l' => some (.items (Items.ofList l'))
  | .nlv [] => none
  | .record fs => match normGFields fs with
    | .nil => none
    | fs' => some (.record fs')
  | v => some v
end

end APModel.Codec
