package main

import (
	"fmt"
	"go/ast"
	"go/token"
	"go/types"
	"os"
	"path/filepath"
	"sort"
	"strings"
)

// nil discipline: for every function, the method calls made directly on an interface-typed
// expression (an Item / LinkOrIRI / ObjectOrLink / CollectionInterface variable or field) that are
// not dominated by an IsNil(<that expression>) check. A value-receiver method invoked through a
// nil pointer stored in the interface panics, so every such call is a potential crash on a typed nil.
//
// Recognised protections for an expression key k (its source text):
//   if IsNil(k) [|| …] { …terminating… }          -> k is non-nil in the rest of the statement list
//   if !IsNil(k) && … { body }                     -> k is non-nil in body (and to the right of the &&)
//   A && B                                          -> guards established by A hold in B
//   A || B                                          -> negative guards of A (IsNil(k)) make k non-nil in B
type nilFinding struct {
	Func string
	Call string
	Pos  string
	Weak bool // protected only by `k == nil` / `k != nil` (does not cover typed nil)
}

type nilScanner struct {
	x        *Extractor
	fn       string
	findings []nilFinding
	alias    map[string]string // variable -> the item expression it was obtained from (type assertion, On* callback parameter)
}

// guardLevel of an expression key, following aliases: 2 = IsNil-guarded, 1 = compared with nil only
func (s *nilScanner) level(g guardSet, key string) int {
	best := g[key]
	seen := map[string]bool{}
	for k := key; !seen[k]; {
		seen[k] = true
		a, ok := s.alias[k]
		if !ok {
			break
		}
		if g[a] > best {
			best = g[a]
		}
		k = a
	}
	return best
}

// valueReceiverPtr: x has type *S for a struct S of the package and method m of S has a value receiver
func (s *nilScanner) valueReceiverPtr(sel *ast.SelectorExpr) bool {
	tv, ok := s.x.info.Types[sel.X]
	if !ok {
		return false
	}
	p, ok := tv.Type.(*types.Pointer)
	if !ok {
		return false
	}
	named, ok := p.Elem().(*types.Named)
	if !ok || named.Obj().Pkg() != s.x.pkg {
		return false
	}
	if _, ok := named.Underlying().(*types.Struct); !ok {
		return false
	}
	si := s.x.info.Selections[sel]
	if si == nil || si.Kind() != types.MethodVal {
		return false
	}
	fn, ok := si.Obj().(*types.Func)
	if !ok {
		return false
	}
	recv := fn.Type().(*types.Signature).Recv()
	if recv == nil {
		return false
	}
	_, isPtr := recv.Type().(*types.Pointer)
	return !isPtr
}

func (x *Extractor) isItemIface(t types.Type) bool {
	if t == nil {
		return false
	}
	if _, ok := t.Underlying().(*types.Interface); !ok {
		return false
	}
	// interfaces of the package that carry GetLink (LinkOrIRI and everything embedding it)
	ms := types.NewMethodSet(t)
	for i := 0; i < ms.Len(); i++ {
		if ms.At(i).Obj().Name() == "GetLink" {
			return true
		}
	}
	return false
}

type guardSet map[string]int // 2 = IsNil-guarded, 1 = only == nil guarded

func (g guardSet) clone() guardSet {
	c := guardSet{}
	for k, v := range g {
		c[k] = v
	}
	return c
}

// condGuards: expressions known non-nil when cond is TRUE (pos) and when cond is FALSE (neg).
func (s *nilScanner) condGuards(cond ast.Expr) (pos, neg guardSet) {
	pos, neg = guardSet{}, guardSet{}
	switch c := cond.(type) {
	case *ast.ParenExpr:
		return s.condGuards(c.X)
	case *ast.UnaryExpr:
		if c.Op == token.NOT {
			p, n := s.condGuards(c.X)
			return n, p
		}
	case *ast.CallExpr:
		if id, ok := c.Fun.(*ast.Ident); ok && id.Name == "IsNil" && len(c.Args) == 1 {
			neg[s.x.src(c.Args[0])] = 2
		}
	case *ast.BinaryExpr:
		switch c.Op {
		case token.LAND:
			p1, _ := s.condGuards(c.X)
			p2, _ := s.condGuards(c.Y)
			for k, v := range p2 {
				if v > p1[k] {
					p1[k] = v
				}
			}
			return p1, neg
		case token.LOR:
			_, n1 := s.condGuards(c.X)
			_, n2 := s.condGuards(c.Y)
			for k, v := range n2 {
				if v > n1[k] {
					n1[k] = v
				}
			}
			return pos, n1
		case token.NEQ, token.EQL:
			if s.x.src(c.Y) == "nil" {
				if c.Op == token.NEQ {
					pos[s.x.src(c.X)] = 1
				} else {
					neg[s.x.src(c.X)] = 1
				}
			}
		}
	}
	return pos, neg
}

func terminates(b *ast.BlockStmt) bool {
	if b == nil || len(b.List) == 0 {
		return false
	}
	switch l := b.List[len(b.List)-1].(type) {
	case *ast.ReturnStmt:
		return true
	case *ast.BranchStmt:
		return l.Tok == token.CONTINUE || l.Tok == token.BREAK
	case *ast.ExprStmt:
		if c, ok := l.X.(*ast.CallExpr); ok {
			if id, ok := c.Fun.(*ast.Ident); ok && id.Name == "panic" {
				return true
			}
		}
	}
	return false
}

// expr scans an expression for unprotected interface method calls under the guards g.
func (s *nilScanner) expr(e ast.Expr, g guardSet) {
	switch v := e.(type) {
	case nil:
		return
	case *ast.BinaryExpr:
		if v.Op == token.LAND {
			s.expr(v.X, g)
			p, _ := s.condGuards(v.X)
			g2 := g.clone()
			for k, x := range p {
				if x > g2[k] {
					g2[k] = x
				}
			}
			s.expr(v.Y, g2)
			return
		}
		if v.Op == token.LOR {
			s.expr(v.X, g)
			_, n := s.condGuards(v.X)
			g2 := g.clone()
			for k, x := range n {
				if x > g2[k] {
					g2[k] = x
				}
			}
			s.expr(v.Y, g2)
			return
		}
		s.expr(v.X, g)
		s.expr(v.Y, g)
	case *ast.CallExpr:
		if sel, ok := v.Fun.(*ast.SelectorExpr); ok {
			key := s.x.src(sel.X)
			if tv, ok := s.x.info.Types[sel.X]; ok {
				_, isIface := tv.Type.Underlying().(*types.Interface)
				_, aliased := s.alias[key]
				if s.x.isItemIface(tv.Type) || (isIface && aliased) {
					if selInfo := s.x.info.Selections[sel]; selInfo != nil && selInfo.Kind() == types.MethodVal {
						if lv := s.level(g, key); lv < 2 {
							s.findings = append(s.findings, nilFinding{Func: s.fn, Call: s.x.src(v), Pos: s.x.fset.Position(v.Pos()).String(), Weak: lv == 1})
						}
					}
				} else if aliased && s.valueReceiverPtr(sel) {
					// a pointer obtained from an item (callback parameter, type assertion): nil when the item was a typed nil
					if s.level(g, key) < 1 {
						s.findings = append(s.findings, nilFinding{Func: s.fn, Call: s.x.src(v), Pos: s.x.fset.Position(v.Pos()).String()})
					}
				}
			}
			s.expr(sel.X, g)
			// On*(k, func(v *T) error { … }): inside the callback v stands for k
			if id, ok := v.Fun.(*ast.Ident); ok && strings.HasPrefix(id.Name, "On") && len(v.Args) == 2 {
				_ = id
			}
		} else {
			if id, ok := v.Fun.(*ast.Ident); ok && strings.HasPrefix(id.Name, "On") && len(v.Args) == 2 {
				if fl, ok := v.Args[1].(*ast.FuncLit); ok && fl.Type.Params != nil && len(fl.Type.Params.List) == 1 && len(fl.Type.Params.List[0].Names) == 1 {
					s.alias[fl.Type.Params.List[0].Names[0].Name] = s.x.src(v.Args[0])
				}
			}
			s.expr(v.Fun, g)
		}
		for _, a := range v.Args {
			s.expr(a, g)
		}
	case *ast.FuncLit:
		s.block(v.Body.List, g.clone())
	case *ast.ParenExpr:
		s.expr(v.X, g)
	case *ast.UnaryExpr:
		s.expr(v.X, g)
	case *ast.StarExpr:
		s.expr(v.X, g)
	case *ast.SelectorExpr:
		s.expr(v.X, g)
	case *ast.IndexExpr:
		s.expr(v.X, g)
		s.expr(v.Index, g)
	case *ast.SliceExpr:
		s.expr(v.X, g)
		s.expr(v.Low, g)
		s.expr(v.High, g)
	case *ast.CompositeLit:
		for _, el := range v.Elts {
			s.expr(el, g)
		}
	case *ast.KeyValueExpr:
		s.expr(v.Value, g)
	case *ast.TypeAssertExpr:
		s.expr(v.X, g)
	}
}

func (s *nilScanner) stmt(st ast.Stmt, g guardSet) (after guardSet) {
	after = g
	switch v := st.(type) {
	case *ast.ExprStmt:
		s.expr(v.X, g)
	case *ast.AssignStmt:
		if len(v.Rhs) == 1 && len(v.Lhs) >= 1 {
			if ta, ok := v.Rhs[0].(*ast.TypeAssertExpr); ok && ta.Type != nil {
				if id, ok := v.Lhs[0].(*ast.Ident); ok && id.Name != "_" {
					s.alias[id.Name] = s.x.src(ta.X)
				}
			}
		}
		for _, r := range v.Rhs {
			s.expr(r, g)
		}
		for _, l := range v.Lhs {
			// an assignment to a guarded expression invalidates its guard
			delete(after, s.x.src(l))
		}
	case *ast.ReturnStmt:
		for _, r := range v.Results {
			s.expr(r, g)
		}
	case *ast.IfStmt:
		g0 := g
		if v.Init != nil {
			g0 = s.stmt(v.Init, g.clone())
		}
		s.expr(v.Cond, g0)
		pos, neg := s.condGuards(v.Cond)
		gb := g0.clone()
		for k, x := range pos {
			if x > gb[k] {
				gb[k] = x
			}
		}
		s.block(v.Body.List, gb)
		ge := g0.clone()
		for k, x := range neg {
			if x > ge[k] {
				ge[k] = x
			}
		}
		if v.Else != nil {
			switch e := v.Else.(type) {
			case *ast.BlockStmt:
				s.block(e.List, ge)
			default:
				s.stmt(e, ge)
			}
		}
		if terminates(v.Body) && v.Else == nil {
			after = g.clone()
			for k, x := range neg {
				if x > after[k] {
					after[k] = x
				}
			}
		}
	case *ast.BlockStmt:
		s.block(v.List, g.clone())
	case *ast.ForStmt:
		if v.Init != nil {
			s.stmt(v.Init, g)
		}
		s.expr(v.Cond, g)
		s.block(v.Body.List, g.clone())
	case *ast.RangeStmt:
		s.expr(v.X, g)
		g2 := g.clone()
		if v.Value != nil {
			delete(g2, s.x.src(v.Value))
		}
		s.block(v.Body.List, g2)
	case *ast.SwitchStmt:
		if v.Init != nil {
			s.stmt(v.Init, g)
		}
		s.expr(v.Tag, g)
		for _, cc := range v.Body.List {
			c := cc.(*ast.CaseClause)
			for _, e := range c.List {
				s.expr(e, g)
			}
			s.block(c.Body, g.clone())
		}
	case *ast.TypeSwitchStmt:
		for _, cc := range v.Body.List {
			s.block(cc.(*ast.CaseClause).Body, g.clone())
		}
	case *ast.DeclStmt, *ast.BranchStmt, *ast.IncDecStmt, *ast.EmptyStmt:
	case *ast.DeferStmt:
		s.expr(v.Call, g)
	case *ast.GoStmt:
		s.expr(v.Call, g)
	}
	return after
}

func (s *nilScanner) block(list []ast.Stmt, g guardSet) {
	for _, st := range list {
		g = s.stmt(st, g)
	}
}

func (x *Extractor) genNilCheck() string {
	if err := x.typecheck(); err != nil {
		return header + "namespace APModel.Generated\n\ndef nilFindings : List (String × String × Bool) := [(\"?unknown\", " + lstr(err.Error()) + ", false)]\ndef nilScannedInScope : List String := []\ndef nilScannedCount : Nat := 0\n\nend APModel.Generated\n"
	}
	var keys []string
	for k := range x.funcs {
		keys = append(keys, k)
	}
	sort.Strings(keys)
	var all []nilFinding
	for _, k := range keys {
		fd := x.funcs[k]
		if fd.Body == nil {
			continue
		}
		s := &nilScanner{x: x, fn: k, alias: map[string]string{}}
		s.block(fd.Body.List, guardSet{})
		all = append(all, s.findings...)
	}
	var sb strings.Builder
	sb.WriteString(header)
	sb.WriteString("namespace APModel.Generated\n\n/-- (function, call, weakly-guarded): method calls on an interface-typed item expression that are\nnot dominated by an `IsNil` check of that expression (weak: only compared with the untyped nil). -/\ndef nilFindings : List (String × String × Bool) := [\n")
	for i, f := range all {
		sep := ","
		if i == len(all)-1 {
			sep = ""
		}
		fmt.Fprintf(&sb, "  (%s, %s, %v)%s\n", lstr(f.Func), lstr(f.Call), f.Weak, sep)
	}
	// which of the helpers named in extract/inscope_c20.txt were scanned (present with a body), in that file's order
	var inScope []string
	if b, err := os.ReadFile(filepath.Join(filepath.Dir(os.Args[0]), "..", "extract", "inscope_c20.txt")); err == nil {
		for _, n := range strings.Fields(string(b)) {
			if fd, ok := x.funcs[n]; ok && fd.Body != nil {
				inScope = append(inScope, n)
			}
		}
	}
	sb.WriteString("]\n\n/-- the helpers listed in extract/inscope_c20.txt that the scan covered, in that order -/\ndef nilScannedInScope : List String := ")
	sb.WriteString(lstrList(inScope))
	fmt.Fprintf(&sb, "\n\n/-- number of functions and methods scanned -/\ndef nilScannedCount : Nat := %d\n\nend APModel.Generated\n", len(keys))
	return sb.String()
}

func init() {
	moreGens = append(moreGens, func(x *Extractor) map[string]func() string {
		return map[string]func() string{"NilCheck.lean": x.genNilCheck}
	})
}
