import Driver.Value
import APModel.Model.DeepEnv
import APModel.Theory.Deep
import APModel.Theory.DeepGob
open Lean APModel APModel.Codec APModel.Deep

namespace Driver

def opDeepRoundTrip (j : Json) : R Json := do
  return renderItem (normG (roundTrip envJson (← parseItem (← fld j "v"))))

end Driver

namespace Driver
open APModel.Deep in
/-- is the value inside the domain of the whole-tree theorem? -/
def opDeepWF (j : Json) : R Json := do
  return Json.bool (wfItem envJson (← parseItem (← fld j "v")))
end Driver

namespace Driver
open APModel.Deep

/-- a JSON tree as the harness sends it: {"str":s} | {"leaf":<field value>} | {"arr":[…]} | {"obj":[[name,J],…]} | {"null":true} -/
partial def parseJ (j : Json) : R J := do
  if let .ok s := j.getObjVal? "str" then return .str (utf8s (← str s))
  if let .ok v := j.getObjVal? "leaf" then return .leaf (← parseFVal v)
  if let .ok a := j.getObjVal? "arr" then
    let l ← (← arr a).mapM parseJ
    return .arr (JList.ofList l)
  if let .ok o := j.getObjVal? "obj" then
    let ms ← (← arr o).mapM fun p => do
      let kv ← arr p
      match kv with
      | [k, v] => return (utf8s (← str k), ← parseJ v)
      | _ => throw "bad member"
    return .obj (ms.foldr (fun (n, v) acc => .cons n v acc) .nil)
  return .null

/-- the deep reader on a document given as a JSON tree -/
def opDeepRead (j : Json) : R Json := do
  return renderItem (normG (readTop envJson (← parseJ (← fld j "j"))))

end Driver

namespace Driver
open APModel.DeepGob in
def opDeepGobRoundTrip (j : Json) : R Json := do
  return renderItem (normG (APModel.DeepGob.roundTrip envGob (← parseItem (← fld j "v"))))
end Driver

namespace Driver
def opDeepGobWF (j : Json) : R Json := do
  return Json.bool (APModel.DeepGob.wfItem APModel.DeepGob.envGob (← parseItem (← fld j "v")))
end Driver
