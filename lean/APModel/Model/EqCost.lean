/-
How often ItemsEqual visits a property (C04, the time clause).  Decoding a list de-duplicates it with
ItemsEqual; when a comparison visits a property of the compared values twice, the work doubles with every
level at which two equal values nest through that property.

  * `reach`: the item-valued properties an Equals method compares, counting the ones it reaches through the
    Equals methods it hands over to (regenerated: `equalsRows`, `equalsDelegations`); `Items` and
    `OrderedItems` are one storage seen through two views.
  * `cost`: the number of ItemsEqual invocations on a comparison skeleton, given a multiplicity per
    (kind, property) — linear when no multiplicity exceeds one, exponential in the depth of a chain through a
    property visited twice.
-/
import APModel.Model.Codec
import APModel.Generated.Equals

namespace APModel.EqCost
open APModel.Generated APModel.Codec

def isItemField (recv f : String) : Bool :=
  let k := ((schemaOf recv).find? (fun r => r.1 == f)).map (·.2.1)
  k == some "item" || k == some "items"

def alias (f : String) : String := if f == "OrderedItems" then "Items" else f

/-- the item-valued properties one run of `recv`.Equals compares, with repetitions -/
def reach (rows : List EqualsRow) (dels : List (String × String)) : Nat → String → List String
  | 0, _ => []
  | n + 1, recv =>
    let own := match rows.find? (fun r => r.recv == recv) with
      | some r => (r.rows.filter (fun row => isItemField recv row.1)).map (fun row => alias row.1)
      | none => []
    own ++ (dels.filter (fun d => d.1 == recv)).flatMap (fun d => reach rows dels n d.2)

def count (l : List String) (f : String) : Nat := (l.filter (· == f)).length

/-- the properties compared more than once -/
def twice (l : List String) : List String := (l.filter (fun f => count l f ≥ 2)).eraseDups

/-! ### the cost of a comparison -/

mutual
inductive Sk
  | node (kind : Nat) (children : SkList)
inductive SkList
  | nil
  | cons (prop : Nat) (child : Sk) (rest : SkList)
end

mutual
def size : Sk → Nat
  | .node _ cs => 1 + sizeL cs
def sizeL : SkList → Nat
  | .nil => 0
  | .cons _ c r => size c + sizeL r
end

mutual
/-- ItemsEqual invocations: one for the pair itself, then `m kind prop` comparisons of each child pair -/
def cost (m : Nat → Nat → Nat) : Sk → Nat
  | .node k cs => 1 + costL m k cs
def costL (m : Nat → Nat → Nat) (k : Nat) : SkList → Nat
  | .nil => 0
  | .cons p c r => m k p * cost m c + costL m k r
end

/-- a chain of `d` values nested through one property -/
def chain (k p : Nat) : Nat → Sk
  | 0 => .node k .nil
  | d + 1 => .node k (.cons p (chain k p d) .nil)

end APModel.EqCost
