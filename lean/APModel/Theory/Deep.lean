/-
The whole-tree theorem of the deep JSON codec model: for every well-formed value tree, reading what
the writer writes gives the documented normal form.  Well-formedness (`wfItem`) is a computable
predicate; it contains the property's quantifier (valid absolute IRIs, non-empty texts, set scalars,
distinct list members) and, per field, the coherence of the write and read rows the value meets.
-/
import APModel.Model.Deep

namespace APModel.Deep
open APModel APModel.Codec

/-! ### well-formedness -/

/-- which normal form the writer's presentation of a single tagged text leads to: the library's writer drops
the tag (`true`), a writer that keeps it in a one-entry language map does not (`false`) -/
def enc (E : Env) : Bool := !E.loneTagAsMap

def isListItem : Item → Bool
  | .iris _ => true
  | .coll _ _ => true
  | .collNil _ => true
  | .irisNil => true
  | _ => false

/-- no member of the list is regarded as present by an earlier one -/
def distinct (eqv : Item → Item → Bool) : List Item → Bool
  | [] => true
  | a :: r => !(r.any (fun b => eqv a b)) && distinct eqv r

def isStrKind (kind : String) : Bool :=
  kind == "string:ID" || kind == "string:IRI" || kind == "string:ActivityVocabularyType" || kind == "string:MimeType" ||
  kind == "string:LangRef" || kind == "string:string"

def isStrWriter (hw : String) : Bool := hw == "marshal" || hw == "JSONWriteStringProp" || hw == "JSONWriteIRIProp"
def isStrReader (hr : String) : Bool :=
  hr == "JSONGetID" || hr == "JSONGetType" || hr == "JSONGetMimeType" || hr == "JSONGetString" ||
  hr == "JSONGetLangRefField" || hr == "JSONGetIRI" || hr == "val.GetStringBytes" || hr == "JSONGetURIItem"

/-- pairs of helpers whose composition the theorem covers, per declared kind of field -/
def deepPair (kind hw hr : String) : Bool :=
  if isStrKind kind then isStrWriter hw && isStrReader hr
  else if kind == "item" then hw == "JSONWriteItemProp" && (hr == "JSONGetItem" || hr == "JSONGetURIItem")
  else if kind == "items" then (hw == "JSONWriteItemCollectionProp" || hw == "JSONWriteItemProp") && hr == "JSONGetItems"
  else if kind == "nlv" then hw == "JSONWriteNaturalLanguageProp" && hr == "JSONGetNaturalLanguageField"
  else if kind == "time" then hw == "JSONWriteTimeProp" && hr == "JSONGetTime"
  else if kind == "duration" then hw == "JSONWriteDurationProp" && hr == "JSONGetDuration"
  else if kind == "float" then hw == "JSONWriteFloatProp" && hr == "JSONGetFloat"
  else if kind == "int" || kind == "uint" then hw == "JSONWriteIntProp" && hr == "JSONGetInt"
  else if kind == "bool" then hw == "JSONWriteBoolProp" && hr == "JSONGetBoolean"
  else if kind == "source" then hw == "marshal" && hr == "GetAPSource"
  else if kind == "pubkey" then hw == "marshal" && hr == "JSONGetPublicKey"
  else if kind == "endpoints" then hw == "marshal" && hr == "JSONGetActorEndpoints"
  else false

/-- the declared kind of a field and the shape of the value it holds -/
def kindMatches (kind : String) : FVal → Bool
  | .item _ => kind == "item"
  | .items _ => kind == "items"
  | .nlv _ => kind == "nlv"
  | .time _ _ _ => kind == "time"
  | .dur _ => kind == "duration"
  | .dec6 _ => kind == "float"
  | .int _ => kind == "int"
  | .uint _ => kind == "uint"
  | .bool _ => kind == "bool"
  | .str _ => isStrKind kind
  | .record _ => kind == "source" || kind == "pubkey" || kind == "endpoints"

/-- the write row and the read row(s) a field meets fit together -/
def coherentField (E : Env) (sn n : String) : Bool :=
  match E.wrow sn n with
  | none => false
  | some w =>
    let kind := E.fieldKind sn n
    guardFits w.guard kind &&
    (match E.rrow sn (nm w.term) with
     | some r => r.field == n && deepPair kind w.helper r.helper
     | none => false) &&
    (kind != "nlv" ||
      ((E.rrow sn (nm (w.term ++ "Map"))).isNone &&
       (match E.rrowMap sn (nm (w.term ++ "Map")) with
        | some r => r.field == n
        | none => false)))

def tagsDistinct : List (Str × Str) → Bool
  | [] => true
  | (t, _) :: r => !(r.any (fun p => p.1 == t)) && tagsDistinct r

mutual
def wfItem (E : Env) : Item → Bool
  | .nil => true
  | .typedNil _ => true
  | .collNil _ => true
  | .irisNil => true
  | .iri s => !s.isEmpty && E.validIRI s
  | .iris l => l.all (fun s => !s.isEmpty && E.validIRI s) && l.length != 1 && distinct E.eqv (l.map .iri)
  | .coll _ l => wfMembers E l && distinct E.eqv (normXItems (enc E) l)
  | .node k _ fs => wfFields E k.goName fs && E.kindOfType (typOf (writeFields E k.goName fs)) == some k
/-- members of a list: well-formed, not lists themselves, and with something to say -/
def wfMembers (E : Env) : Items → Bool
  | .nil => true
  | .cons i r => wfItem E i && !isListItem i && !isNilItem (normX (enc E) i) && wfMembers E r
def wfFields (E : Env) (sn : String) : Fields → Bool
  | .nil => true
  | .cons n v r => coherentField E sn n && kindMatches (E.fieldKind sn n) v && wfVal E (E.fieldKind sn n) v && wfFields E sn r
def wfVal (E : Env) (kind : String) : FVal → Bool
  | .item i => wfItem E i
  | .items l => wfMembers E l && distinct E.eqv (normXItems (enc E) l)
  | .nlv n => !n.isEmpty && n.all (fun p => !p.1.isEmpty && !p.2.isEmpty) && tagsDistinct n
  | .time _ _ _ => true
  | .dur d => d != 0
  | .dec6 z => z != 0
  | .int z => z != 0
  | .uint n => n != 0
  | .bool b => b
  | .str s => !s.isEmpty
  | .record fs => wfFields E (recName kind) fs
end



/-! ### lists -/

theorem distinct_append_cons (eqv : Item → Item → Bool) (acc : List Item) (i : Item) (r : List Item)
    (h : distinct eqv (acc ++ i :: r) = true) :
    acc.any (fun a => eqv a i) = false ∧ distinct eqv ((acc ++ [i]) ++ r) = true := by
  induction acc with
  | nil => simpa using h
  | cons a acc ih =>
    simp only [List.cons_append, distinct, Bool.and_eq_true, Bool.not_eq_true'] at h
    obtain ⟨ha, hrest⟩ := h
    obtain ⟨h1, h2⟩ := ih hrest
    simp only [List.any_append, List.any_cons, Bool.or_eq_false_iff] at ha
    refine ⟨?_, ?_⟩
    · simp only [List.any_cons, Bool.or_eq_false_iff]; exact ⟨ha.2.1, h1⟩
    · simp only [List.cons_append, distinct, Bool.and_eq_true, Bool.not_eq_true']
      refine ⟨?_, h2⟩
      simp only [List.append_assoc, List.singleton_append, List.any_append, List.any_cons, Bool.or_eq_false_iff]
      exact ⟨ha.1, ha.2.1, ha.2.2⟩

theorem dedup_distinct (eqv : Item → Item → Bool) (L : List Item) : ∀ acc, distinct eqv (acc ++ L) = true →
    dedup eqv acc L = acc ++ L := by
  induction L with
  | nil => intro acc _; simp [dedup]
  | cons i r ih =>
    intro acc h
    obtain ⟨h1, h2⟩ := distinct_append_cons eqv acc i r h
    simp only [dedup, h1, Bool.false_eq_true, if_false]
    rw [ih (acc ++ [i]) h2]
    simp

theorem dedup_nil (eqv : Item → Item → Bool) (L : List Item) (h : distinct eqv L = true) : dedup eqv [] L = L := by
  simpa using dedup_distinct eqv L [] (by simpa using h)

/-- a member that loads to something is kept -/
theorem loadList_cons (E : Env) (j : J) (r : JList) (y : Item) (h : loadItem E j = y) (hn : isNilItem y = false) :
    loadList E (.cons j r) = y :: loadList E r := by
  simp only [loadList, h]
  cases y <;> simp_all [isNilItem]

theorem ofList_toList_length (js : List J) : (JList.ofList js).toList = js := by
  induction js with
  | nil => rfl
  | cons a r ih => simp [JList.ofList, JList.toList, ih]





def ItemOK (E : Env) (x : Item) : Prop :=
  (writeItem E x = none → normX (enc E) x = .nil) ∧
  (∀ j, writeItem E x = some j → readTop E j = normX (enc E) x) ∧
  (isListItem x = false → ∀ j, writeItem E x = some j → loadItem E j = normX (enc E) x)

theorem readTop_str (E : Env) (s : Str) : readTop E (.str s) = loadItem E (.str s) := rfl
theorem readTop_obj (E : Env) (ms : JMembers) : readTop E (.obj ms) = loadItem E (.obj ms) := rfl

theorem loadList_strs (E : Env) (l : List Str) (h : l.all (fun s => !s.isEmpty && E.validIRI s) = true) :
    loadList E (JList.ofList (l.map J.str)) = l.map .iri := by
  induction l with
  | nil => simp [JList.ofList, loadList]
  | cons s r ih =>
    simp only [List.all_cons, Bool.and_eq_true] at h
    simp only [List.map_cons, JList.ofList]
    rw [loadList_cons E (.str s) _ (.iri s) (by simp [loadItem, h.1.2]) (by simp [isNilItem]), ih h.2]

theorem filter_nonempty (l : List Str) (h : l.all (fun s => !s.isEmpty && true) = true) : l.filter (fun s => !s.isEmpty) = l := by
  induction l with
  | nil => rfl
  | cons s r ih => simp only [List.all_cons, Bool.and_eq_true] at h; simp [List.filter, h.1, ih h.2]

theorem item_iris (E : Env) (l : List Str) (h : wfItem E (.iris l) = true) : ItemOK E (.iris l) := by
  simp only [wfItem, Bool.and_eq_true, bne_iff_ne, ne_eq] at h
  obtain ⟨⟨hall, hlen⟩, hd⟩ := h
  have hfil : l.filter (fun s => !s.isEmpty) = l := by
    apply filter_nonempty
    simp only [List.all_eq_true, Bool.and_eq_true] at hall ⊢
    intro s hs; exact ⟨(hall s hs).1, trivial⟩
  refine ⟨by simp [writeItem], ?_, by simp [isListItem]⟩
  intro j hj
  simp only [writeItem, Option.some.injEq] at hj
  subst hj
  simp only [readTop, loadList_strs E l hall, dedup_nil E.eqv _ hd, normX, hfil]
  cases l with
  | nil => rfl
  | cons a t =>
    cases t with
    | nil => exact absurd rfl hlen
    | cons b r => simp [collapse]





/-- what the induction gives for the members of a list -/
def MembersOK (E : Env) (l : Items) : Prop :=
  loadList E (JList.ofList (writeItems E l)) = normXItems (enc E) l ∧
  (normXItems (enc E) l).length = Items.length l ∧
  (∀ i, l = .cons i .nil → ∃ j, writeItems E l = [j] ∧ loadItem E j = normX (enc E) i ∧
      ((∃ s, j = .str s ∧ s.isEmpty = false ∧ E.validIRI s = true) ∨ (∃ ms, j = .obj ms)))

theorem normXItems_len_pos (l : Items) (i : Item) (r : Items) (h : l = .cons i r) (hn : isNilItem (normX (enc E) i) = false) :
    normXItems (enc E) l ≠ [] := by
  subst h; simp [normXItems, hn]

/-- a list in an item position -/
theorem item_coll (E : Env) (p : Bool) (l : Items) (hd : distinct E.eqv (normXItems (enc E) l) = true) (hm : MembersOK E l) :
    ItemOK E (.coll p l) := by
  obtain ⟨hload, hlen, hone⟩ := hm
  refine ⟨?_, ?_, by simp [isListItem]⟩
  · intro hnone
    simp only [writeItem, compactOf] at hnone
    cases l with
    | nil => simp [normX, normXItems, collapse]
    | cons i r =>
      cases r with
      | nil =>
        obtain ⟨j, hj, _, _⟩ := hone i rfl
        simp [Items.length, hj] at hnone
      | cons i' r' => simp [Items.length] at hnone
  · intro j hj
    simp only [writeItem, compactOf] at hj
    cases l with
    | nil => simp [Items.length] at hj
    | cons i r =>
      cases r with
      | nil =>
        obtain ⟨j0, hj0, hl0, hshape⟩ := hone i rfl
        simp only [Items.length, hj0] at hj
        simp at hj
        subst hj
        have : readTop E j0 = loadItem E j0 := by
          rcases hshape with ⟨s, rfl, _, _⟩ | ⟨ms, rfl⟩ <;> rfl
        rw [this, hl0]
        have hl := hload
        rw [hj0] at hl
        simp only [JList.ofList, loadList] at hl
        -- normXItems of the one-element list is [normX i] (the member is not silent: it was written)
        simp only [normX, normXItems]
        simp only [normXItems] at hl
        by_cases hn : isNilItem (normX (enc E) i) = true
        · simp only [hn, if_true] at hl ⊢
          rw [hl0] at hl
          cases hx : normX (enc E) i <;> simp_all [isNilItem, collapse]
        · simp [hn, collapse]
      | cons i' r' =>
        simp only [Items.length] at hj
        have : ¬ (Items.length r' + 1 + 1 = 0) := by omega
        have h1 : ¬ (Items.length r' + 1 + 1 = 1) := by omega
        simp only [this, h1, if_false, Option.some.injEq] at hj
        subst hj
        simp only [readTop, hload, dedup_nil E.eqv _ hd, normX]
        simp only [Items.length] at hlen
        generalize normXItems (enc E) (.cons i (.cons i' r')) = L at hlen ⊢
        match L, hlen with
        | [], h => simp at h
        | [x], h => simp at h
        | x :: y :: t, _ => simp [collapse]





theorem writeItem_nonlist_shape (E : Env) (x : Item) (h : isListItem x = false) (hwf : wfItem E x = true) (j : J)
    (hj : writeItem E x = some j) :
    (∃ s, j = .str s ∧ s.isEmpty = false ∧ E.validIRI s = true) ∨ (∃ ms, j = .obj ms) := by
  cases x with
  | nil => simp [writeItem] at hj
  | typedNil k => simp [writeItem] at hj
  | collNil p => simp [isListItem] at h
  | irisNil => simp [isListItem] at h
  | iri s =>
    simp only [writeItem] at hj
    simp only [wfItem, Bool.and_eq_true, Bool.not_eq_true'] at hwf
    split at hj
    · cases hj
    · cases hj; exact Or.inl ⟨s, rfl, hwf.1, hwf.2⟩
  | iris l => simp [isListItem] at h
  | coll p l => simp [isListItem] at h
  | node k p fs =>
    simp only [writeItem] at hj
    split at hj
    · cases hj
    · cases hj; exact Or.inr ⟨_, rfl⟩

theorem members_cons (E : Env) (i : Item) (r : Items) (hi : ItemOK E i) (hwfi : wfItem E i = true) (hl : isListItem i = false)
    (hn : isNilItem (normX (enc E) i) = false) (hr : MembersOK E r) : MembersOK E (.cons i r) := by
  obtain ⟨h1, _, h3⟩ := hi
  obtain ⟨r1, r2, _⟩ := hr
  cases hw : writeItem E i with
  | none => rw [h1 hw] at hn; simp [isNilItem] at hn
  | some j =>
    have hload := h3 hl j hw
    refine ⟨?_, ?_, ?_⟩
    · simp only [writeItems, hw, JList.ofList, normXItems, hn]
      rw [loadList_cons E j _ _ hload hn, r1]
      simp
    · simp [normXItems, hn, Items.length, r2]
    · intro i' hi'
      cases hi'
      exact ⟨j, by simp [writeItems, hw], hload, writeItem_nonlist_shape E i hl hwfi j hw⟩

theorem item_node (E : Env) (k : Kind) (p : Bool) (fs : Fields)
    (hty : (E.kindOfType (typOf (writeFields E k.goName fs)) == some k) = true)
    (hf : readFields E k.goName (writeFields E k.goName fs) = normXFields (enc E) fs) : ItemOK E (.node k p fs) := by
  have hk : E.kindOfType (typOf (writeFields E k.goName fs)) = some k := by simpa using hty
  have key : ∀ ms, writeFields E k.goName fs = ms → loadItem E (.obj ms) = normX (enc E) (.node k p fs) := by
    intro ms hms
    subst hms
    simp only [loadItem, normX]
    rw [hk]
    simp only [hf]
    cases normXFields (enc E) fs <;> rfl
  refine ⟨?_, ?_, ?_⟩
  · intro hnone
    simp only [writeItem] at hnone
    cases hms : writeFields E k.goName fs with
    | nil =>
      rw [hms] at hf
      simp only [readFields] at hf
      simp [normX, ← hf]
    | cons n j r => rw [hms] at hnone; simp at hnone
  · intro j hj
    simp only [writeItem] at hj
    cases hms : writeFields E k.goName fs with
    | nil => rw [hms] at hj; simp at hj
    | cons n j' r =>
      rw [hms] at hj
      simp only [Option.some.injEq] at hj
      subst hj
      exact key _ hms
  · intro _ j hj
    simp only [writeItem] at hj
    cases hms : writeFields E k.goName fs with
    | nil => rw [hms] at hj; simp at hj
    | cons n j' r =>
      rw [hms] at hj
      simp only [Option.some.injEq] at hj
      subst hj
      exact key _ hms




/-- reading an item position: the value read is the item `readTop` gives, wrapped -/
def wrapItem : Item → Option FVal
  | .nil => none
  | i => some (.item i)

theorem wrapItem_eq (i : Item) : wrapItem i = (if isNilItem i then none else some (.item i)) := by
  cases i <;> simp [wrapItem, isNilItem]

theorem readVal_item (E : Env) (j : J) (hr : String) (hhr : hr = "JSONGetItem" ∨ hr = "JSONGetURIItem")
    (hstr : ∀ s, j = .str s → E.validIRI s = true) :
    readVal E "item" hr j = wrapItem (readTop E j) := by
  cases j with
  | null => simp [readVal, readTop, loadItem, wrapItem]
  | str s =>
    have hv := hstr s rfl
    rcases hhr with rfl | rfl <;> simp [readVal, readTop, loadItem, hv, wrapItem]
  | leaf v =>
    rcases hhr with rfl | rfl <;> cases v <;> simp [readVal, readTop, loadItem, wrapItem]
  | arr l =>
    rcases hhr with rfl | rfl <;> simp only [readVal, readTop] <;>
      cases dedup E.eqv [] (loadList E l) <;> simp [wrapItem]
  | obj ms =>
    rcases hhr with rfl | rfl <;> simp only [readVal, readTop] <;>
      cases loadItem E (.obj ms) <;> simp [wrapItem]

theorem wfMembers_single (E : Env) (i : Item) (h : wfMembers E (.cons i .nil) = true) :
    wfItem E i = true ∧ isListItem i = false := by
  simp only [wfMembers, Bool.and_eq_true, Bool.not_eq_true'] at h
  exact ⟨h.1.1.1, h.1.1.2⟩

/-- a string written for a well-formed item is a valid IRI -/
theorem written_str_valid (E : Env) (x : Item) (hwf : wfItem E x = true) (s : Str) (hj : writeItem E x = some (.str s)) :
    E.validIRI s = true := by
  cases x with
  | nil => simp [writeItem] at hj
  | typedNil k => simp [writeItem] at hj
  | collNil p => simp [writeItem] at hj
  | irisNil => simp [writeItem] at hj
  | iri t =>
    simp only [writeItem] at hj
    simp only [wfItem, Bool.and_eq_true] at hwf
    split at hj
    · cases hj
    · cases hj; exact hwf.2
  | iris l => simp [writeItem] at hj
  | node k p fs =>
    simp only [writeItem] at hj
    split at hj <;> cases hj
  | coll p l =>
    simp only [wfItem, Bool.and_eq_true] at hwf
    simp only [writeItem, compactOf] at hj
    cases l with
    | nil => simp [Items.length] at hj
    | cons i r =>
      cases r with
      | nil =>
        obtain ⟨hwi, hli⟩ := wfMembers_single E i hwf.1
        simp only [Items.length, writeItems] at hj
        cases hw : writeItem E i with
        | none => simp [hw] at hj
        | some j0 =>
          simp [hw] at hj
          subst hj
          -- i is not a list and wrote a string: it is an IRI
          cases i with
          | iri t =>
            simp only [writeItem] at hw
            simp only [wfItem, Bool.and_eq_true] at hwi
            split at hw
            · cases hw
            · cases hw; exact hwi.2
          | node k p fs => simp only [writeItem] at hw; split at hw <;> cases hw
          | nil => simp [writeItem] at hw
          | typedNil k => simp [writeItem] at hw
          | collNil p => simp [isListItem] at hli
          | irisNil => simp [isListItem] at hli
          | iris l => simp [isListItem] at hli
          | coll p l => simp [isListItem] at hli
      | cons i' r' =>
        simp only [Items.length] at hj
        have h0 : ¬ (Items.length r' + 1 + 1 = 0) := by omega
        have h1 : ¬ (Items.length r' + 1 + 1 = 1) := by omega
        simp [h0, h1] at hj





def ValOK (E : Env) (kind hw hr : String) (v : FVal) : Prop :=
  match writeVal E kind hw v with
  | none => normXVal (enc E) v = none
  | some (sfx, j) =>
    (sfx = "" ∧ readVal E kind hr j = normXVal (enc E) v) ∨
    (sfx = "Map" ∧ kind = "nlv" ∧ ∃ ms, j = .obj ms ∧ (match langPairs ms with | [] => none | ps => some (FVal.nlv ps)) = normXVal (enc E) v)

theorem val_item (E : Env) (i : Item) (hwf : wfItem E i = true) (hi : ItemOK E i) (hr : String)
    (hhr : hr = "JSONGetItem" ∨ hr = "JSONGetURIItem") : ValOK E "item" "JSONWriteItemProp" hr (.item i) := by
  unfold ValOK
  simp only [writeVal, beq_self_eq_true, if_true]
  cases hw : writeItem E i with
  | none => simp [normXVal, hi.1 hw, isNilItem]
  | some j =>
    simp only [Option.map_some]
    refine Or.inl ⟨by simp, ?_⟩
    rw [readVal_item E j hr hhr (fun s hs => written_str_valid E i hwf s (by rw [hw, hs])), hi.2.1 j hw, wrapItem_eq]
    simp [normXVal]

theorem items_arr (E : Env) (l : Items) (hm : MembersOK E l) (hd : distinct E.eqv (normXItems (enc E) l) = true) :
    readVal E "items" "JSONGetItems" (.arr (JList.ofList (writeItems E l))) = normXVal (enc E) (.items l) := by
  simp only [readVal, hm.1, dedup_nil E.eqv _ hd, normXVal]
  cases normXItems (enc E) l <;> simp

theorem val_items (E : Env) (l : Items) (hm : MembersOK E l) (hd : distinct E.eqv (normXItems (enc E) l) = true)
    (hw : String) (hhw : hw = "JSONWriteItemCollectionProp" ∨ hw = "JSONWriteItemProp") :
    ValOK E "items" hw "JSONGetItems" (.items l) := by
  unfold ValOK
  rcases hhw with rfl | rfl
  · simp only [writeVal, beq_self_eq_true, if_true]
    by_cases h0 : Items.length l = 0
    · simp only [h0, if_true]
      cases l with
      | nil => simp [normXVal, normXItems]
      | cons i r => simp [Items.length] at h0
    · simp only [h0, if_false]
      exact Or.inl ⟨by simp, items_arr E l hm hd⟩
  · have hne : ("JSONWriteItemProp" == "JSONWriteItemCollectionProp") = false := by decide
    simp only [writeVal, hne, Bool.false_eq_true, if_false, beq_self_eq_true, if_true, compactOf]
    cases l with
    | nil => simp [Items.length, normXVal, normXItems]
    | cons i r =>
      cases r with
      | nil =>
        obtain ⟨j, hj, hl, hshape⟩ := hm.2.2 i rfl
        have hlen := hm.2.1
        simp only [Items.length, hj]
        simp only [List.head?, Option.map_some]
        refine Or.inl ⟨by simp, ?_⟩
        -- the member is not silent
        have hnn : isNilItem (normX (enc E) i) = false := by
          simp only [normXItems, Items.length] at hlen
          by_cases hn : isNilItem (normX (enc E) i) = true
          · simp [hn] at hlen
          · simpa using hn
        rcases hshape with ⟨s, rfl, hs, hv⟩ | ⟨ms, rfl⟩
        · simp only [loadItem, hv, if_true] at hl
          simp [readVal, hs, normXVal, normXItems, ← hl, isNilItem, Items.ofList]
        · simp only [readVal]
          have hne2 : ("JSONGetItems" == "JSONGetItem") = false := by decide
          have hne3 : ("JSONGetItems" == "JSONGetURIItem") = false := by decide
          simp only [hne2, hne3, Bool.or_self, Bool.false_eq_true, if_false, beq_self_eq_true, if_true, hl]
          simp only [normXVal, normXItems, hnn, Bool.false_eq_true, if_false, Items.ofList]
          cases hx : normX (enc E) i <;> simp_all [isNilItem]
      | cons i' r' =>
        simp only [Items.length]
        have h0 : ¬ (Items.length r' + 1 + 1 = 0) := by omega
        have h1 : ¬ (Items.length r' + 1 + 1 = 1) := by omega
        simp only [h0, h1, if_false, Option.map_some]
        exact Or.inl ⟨by simp, items_arr E _ hm hd⟩




theorem nlvMapMembers_id (n : List (Str × Str)) : ∀ seen : List Str,
    n.all (fun p => !p.1.isEmpty && !p.2.isEmpty) = true → tagsDistinct n = true →
    (∀ p ∈ n, seen.contains p.1 = false) → nlvMapMembers n seen = n := by
  induction n with
  | nil => intro _ _ _ _; rfl
  | cons a r ih =>
    intro seen hall hd hs
    obtain ⟨t, v⟩ := a
    simp only [List.all_cons, Bool.and_eq_true, Bool.not_eq_true'] at hall
    simp only [tagsDistinct, Bool.and_eq_true, Bool.not_eq_true'] at hd
    have h1 := hs (t, v) List.mem_cons_self
    simp only at h1
    simp only [nlvMapMembers, hall.1.1, hall.1.2, h1, Bool.or_self, Bool.false_eq_true, if_false]
    rw [ih (t :: seen) hall.2 hd.2]
    intro p hp
    have h2 := hs p (List.mem_cons_of_mem _ hp)
    have h3 : (p.1 == t) = false := by
      have := hd.1
      simp only [List.any_eq_false, beq_eq_false_iff_ne] at this
      simpa using this p hp
    simp only [List.contains_cons, h3, h2, Bool.or_self]

theorem langPairs_mapOf (n : List (Str × Str)) (h : n.all (fun p => !p.1.isEmpty && !p.2.isEmpty) = true) :
    langPairs (mapOf n) = n := by
  induction n with
  | nil => rfl
  | cons a r ih =>
    obtain ⟨t, v⟩ := a
    simp only [List.all_cons, Bool.and_eq_true, Bool.not_eq_true'] at h
    have hv : v ≠ [] := by intro e; simp [e] at h
    simp only [mapOf, langPairs]
    have : ¬ (t == dash ∧ v.isEmpty = true) := by
      intro ⟨_, h2⟩; simp [h.1.2] at h2
    simp [h.1.2, ih h.2]

theorem val_nlv (E : Env) (n : List (Str × Str)) (kind : String) (hwf : wfVal E kind (.nlv n) = true) :
    ValOK E "nlv" "JSONWriteNaturalLanguageProp" "JSONGetNaturalLanguageField" (.nlv n) := by
  simp only [wfVal, Bool.and_eq_true, Bool.not_eq_true'] at hwf
  obtain ⟨⟨hne, hall⟩, hd⟩ := hwf
  unfold ValOK
  simp only [writeVal, beq_self_eq_true, if_true]
  match n, hne, hall, hd with
  | [], hne, _, _ => simp at hne
  | [(t, v)], _, hall, _ =>
    simp only [List.all_cons, List.all_nil, Bool.and_true, Bool.and_eq_true, Bool.not_eq_true'] at hall
    simp only [writeNLV, hall.2, Bool.false_eq_true, if_false]
    by_cases hm : (E.loneTagAsMap && t != dash) = true
    · simp only [hm, if_true]
      refine Or.inr ⟨by simp, trivial, mapOf [(t, v)], rfl, ?_⟩
      rw [langPairs_mapOf _ (by simpa using hall)]
      simp only [Bool.and_eq_true] at hm
      simp [normXVal, enc, hm.1]
    · simp only [hm, Bool.false_eq_true, if_false]
      refine Or.inl ⟨by simp, ?_⟩
      simp only [Bool.and_eq_true, not_and, bne_iff_ne, ne_eq, Decidable.not_not] at hm
      by_cases hl : E.loneTagAsMap = true
      · simp [readVal, normXVal, enc, hl, hm hl]
      · simp [readVal, normXVal, enc, hl]
  | a :: b :: r, _, hall, hd =>
    have hid := nlvMapMembers_id (a :: b :: r) [] hall hd (by intro p _; rfl)
    simp only [writeNLV, hid]
    refine Or.inr ⟨by simp, trivial, mapOf (a :: b :: r), rfl, ?_⟩
    rw [langPairs_mapOf _ hall]
    simp [normXVal]




theorem items_len0 (l : Items) (h : Items.length l = 0) : l = .nil := by
  cases l with
  | nil => rfl
  | cons i r => simp [Items.length] at h

theorem guard_or_silent (E : Env) (g kind : String) (v : FVal) (hk : kindMatches kind v = true)
    (hwf : wfVal E kind v = true) (hfit : guardFits g kind = true) (hfail : guardPasses g v = false) :
    normXVal (enc E) v = none := by
  unfold guardFits at hfit
  unfold guardPasses at hfail
  generalize Guard.parse g = G at hfit hfail
  cases v with
  | item i =>
    have : kind = "item" := by simpa [kindMatches] using hk
    subst this
    cases G <;> simp_all [FKind.parse, guardFitsG, guardPassesG, isSet]
  | items l =>
    have : kind = "items" := by simpa [kindMatches] using hk
    subst this
    cases G <;> simp_all [FKind.parse, guardFitsG, guardPassesG, isSet] <;>
      (have hl := items_len0 l (by assumption); subst hl; simp [normXVal, normXItems])
  | nlv n =>
    have : kind = "nlv" := by simpa [kindMatches] using hk
    subst this
    simp only [wfVal, Bool.and_eq_true, Bool.not_eq_true'] at hwf
    cases G <;> simp_all [FKind.parse, guardFitsG, guardPassesG, isSet]
  | time s n o =>
    have : kind = "time" := by simpa [kindMatches] using hk
    subst this
    cases G <;> simp_all [FKind.parse, guardFitsG, guardPassesG, isSet]
  | dur d =>
    have : kind = "duration" := by simpa [kindMatches] using hk
    subst this
    cases G <;> simp_all [FKind.parse, guardFitsG, guardPassesG, isSet, wfVal]
  | str s =>
    simp only [kindMatches, isStrKind, Bool.or_eq_true, beq_iff_eq] at hk
    simp only [wfVal, Bool.not_eq_true'] at hwf
    rcases hk with ((((rfl | rfl) | rfl) | rfl) | rfl) | rfl <;>
      cases G <;> simp_all [FKind.parse, guardFitsG, guardPassesG, isSet]
  | dec6 z =>
    have : kind = "float" := by simpa [kindMatches] using hk
    subst this
    cases G <;> simp_all [FKind.parse, guardFitsG, guardPassesG, isSet, wfVal]
  | int z =>
    have : kind = "int" := by simpa [kindMatches] using hk
    subst this
    cases G <;> simp_all [FKind.parse, guardFitsG, guardPassesG, isSet, wfVal]
  | uint n =>
    have : kind = "uint" := by simpa [kindMatches] using hk
    subst this
    cases G <;> simp_all [FKind.parse, guardFitsG, guardPassesG, isSet, wfVal]
  | bool b =>
    have : kind = "bool" := by simpa [kindMatches] using hk
    subst this
    cases G <;> simp_all [FKind.parse, guardFitsG, guardPassesG, isSet, wfVal]
  | record fs =>
    simp only [kindMatches, Bool.or_eq_true, beq_iff_eq] at hk
    rcases hk with (rfl | rfl) | rfl <;>
      cases G <;> simp_all [FKind.parse, guardFitsG, guardPassesG, isSet] <;>
      (cases fs <;> simp_all [normXVal, normXFields])


/-! ### scalars, strings, sub-records -/

theorem val_record (E : Env) (kind hr : String) (fs : Fields)
    (hk : (kind = "source" ∧ hr = "GetAPSource") ∨ (kind = "pubkey" ∧ hr = "JSONGetPublicKey") ∨ (kind = "endpoints" ∧ hr = "JSONGetActorEndpoints"))
    (hf : readFields E (recName kind) (writeFields E (recName kind) fs) = normXFields (enc E) fs) :
    ValOK E kind "marshal" hr (.record fs) := by
  unfold ValOK
  simp only [writeVal, beq_self_eq_true, if_true]
  cases hms : writeFields E (recName kind) fs with
  | nil =>
    rw [hms] at hf
    simp only [readFields] at hf
    simp [normXVal, ← hf]
  | cons n j r =>
    simp only
    refine Or.inl ⟨by simp, ?_⟩
    rw [← hms]
    rcases hk with ⟨rfl, rfl⟩ | ⟨rfl, rfl⟩ | ⟨rfl, rfl⟩ <;>
      (simp only [readVal, normXVal, hf]; simp; cases normXFields (enc E) fs <;> rfl)

/-! ### one field -/

theorem fields_cons (E : Env) (sn n : String) (v : FVal) (r : Fields)
    (hco : coherentField E sn n = true) (hk : kindMatches (E.fieldKind sn n) v = true)
    (hwf : wfVal E (E.fieldKind sn n) v = true)
    (hval : ∀ hw hr, deepPair (E.fieldKind sn n) hw hr = true → ValOK E (E.fieldKind sn n) hw hr v)
    (hrest : readFields E sn (writeFields E sn r) = normXFields (enc E) r) :
    readFields E sn (writeFields E sn (.cons n v r)) = normXFields (enc E) (.cons n v r) := by
  unfold coherentField at hco
  cases hw : E.wrow sn n with
  | none => simp [hw] at hco
  | some w =>
    simp only [hw, Bool.and_eq_true] at hco
    obtain ⟨⟨hfit, hrr⟩, hmap⟩ := hco
    cases hr : E.rrow sn (nm w.term) with
    | none => simp [hr] at hrr
    | some rr =>
      simp only [hr, Bool.and_eq_true, beq_iff_eq] at hrr
      obtain ⟨hrf, hpair⟩ := hrr
      have hv := hval w.helper rr.helper hpair
      simp only [writeFields, hw, normXFields]
      by_cases hg : guardPasses w.guard v = true
      · simp only [hg, if_true]
        unfold ValOK at hv
        cases hwv : writeVal E (E.fieldKind sn n) w.helper v with
        | none =>
          rw [hwv] at hv
          simp only [hv]
          exact hrest
        | some p =>
          obtain ⟨sfx, j⟩ := p
          rw [hwv] at hv
          simp only at hv ⊢
          rcases hv with ⟨rfl, hread⟩ | ⟨rfl, hnlv, ms, rfl, hlang⟩
          · simp only [String.append_empty, readFields, hr, hrf, hread]
            cases normXVal (enc E) v with
            | none => simpa using hrest
            | some v' => simp [hrest]
          · rw [hnlv] at hmap
            simp only [bne_self_eq_false, Bool.false_or, Bool.and_eq_true, Option.isNone_iff_eq_none] at hmap
            obtain ⟨hnone, hmm⟩ := hmap
            cases hm : E.rrowMap sn (nm (w.term ++ "Map")) with
            | none => simp [hm] at hmm
            | some rm =>
              simp only [hm, beq_iff_eq] at hmm
              simp only [readFields, hnone, hm, hmm]
              rw [← hlang]
              cases langPairs ms with
              | nil => simpa using hrest
              | cons a t => simp [hrest]
      · have hgf : guardPasses w.guard v = false := by simpa using hg
        have hnone := guard_or_silent E w.guard (E.fieldKind sn n) v hk hwf hfit hgf
        simp only [hgf, Bool.false_eq_true, if_false, hnone]
        exact hrest

/-! ### what `deepPair` says per kind -/

theorem deepPair_item (hw hr : String) (h : deepPair "item" hw hr = true) :
    hw = "JSONWriteItemProp" ∧ (hr = "JSONGetItem" ∨ hr = "JSONGetURIItem") := by
  simpa [deepPair, isStrKind] using h
theorem deepPair_items (hw hr : String) (h : deepPair "items" hw hr = true) :
    (hw = "JSONWriteItemCollectionProp" ∨ hw = "JSONWriteItemProp") ∧ hr = "JSONGetItems" := by
  simpa [deepPair, isStrKind] using h
theorem deepPair_nlv (hw hr : String) (h : deepPair "nlv" hw hr = true) :
    hw = "JSONWriteNaturalLanguageProp" ∧ hr = "JSONGetNaturalLanguageField" := by
  simpa [deepPair, isStrKind] using h
theorem deepPair_time (hw hr : String) (h : deepPair "time" hw hr = true) : hw = "JSONWriteTimeProp" ∧ hr = "JSONGetTime" := by
  simpa [deepPair, isStrKind] using h
theorem deepPair_duration (hw hr : String) (h : deepPair "duration" hw hr = true) : hw = "JSONWriteDurationProp" ∧ hr = "JSONGetDuration" := by
  simpa [deepPair, isStrKind] using h
theorem deepPair_float (hw hr : String) (h : deepPair "float" hw hr = true) : hw = "JSONWriteFloatProp" ∧ hr = "JSONGetFloat" := by
  simpa [deepPair, isStrKind] using h
theorem deepPair_int (hw hr : String) (h : deepPair "int" hw hr = true) : hw = "JSONWriteIntProp" ∧ hr = "JSONGetInt" := by
  simpa [deepPair, isStrKind] using h
theorem deepPair_uint (hw hr : String) (h : deepPair "uint" hw hr = true) : hw = "JSONWriteIntProp" ∧ hr = "JSONGetInt" := by
  simpa [deepPair, isStrKind] using h
theorem deepPair_bool (hw hr : String) (h : deepPair "bool" hw hr = true) : hw = "JSONWriteBoolProp" ∧ hr = "JSONGetBoolean" := by
  simpa [deepPair, isStrKind] using h
theorem deepPair_source (hw hr : String) (h : deepPair "source" hw hr = true) : hw = "marshal" ∧ hr = "GetAPSource" := by
  simpa [deepPair, isStrKind] using h
theorem deepPair_pubkey (hw hr : String) (h : deepPair "pubkey" hw hr = true) : hw = "marshal" ∧ hr = "JSONGetPublicKey" := by
  simpa [deepPair, isStrKind] using h
theorem deepPair_endpoints (hw hr : String) (h : deepPair "endpoints" hw hr = true) : hw = "marshal" ∧ hr = "JSONGetActorEndpoints" := by
  simpa [deepPair, isStrKind] using h

/-! ### the induction -/

mutual
theorem deep_item (E : Env) : ∀ x : Item, wfItem E x = true → ItemOK E x
  | .nil, _ => ⟨by simp [normX], by simp [writeItem], by simp [writeItem]⟩
  | .typedNil _, _ => ⟨by simp [normX], by simp [writeItem], by simp [writeItem]⟩
  | .collNil _, _ => ⟨by simp [normX], by simp [writeItem], by simp [writeItem]⟩
  | .irisNil, _ => ⟨by simp [normX], by simp [writeItem], by simp [writeItem]⟩
  | .iri s, h => by
    simp only [wfItem, Bool.and_eq_true, Bool.not_eq_true'] at h
    refine ⟨by simp [writeItem, h.1], ?_, ?_⟩
    · intro j hj
      simp only [writeItem, h.1, Bool.false_eq_true, if_false, Option.some.injEq] at hj
      subst hj
      simp [readTop, loadItem, h.2, normX, h.1]
    · intro _ j hj
      simp only [writeItem, h.1, Bool.false_eq_true, if_false, Option.some.injEq] at hj
      subst hj
      simp [loadItem, h.2, normX, h.1]
  | .iris l, h => item_iris E l h
  | .coll p l, h => by
    have h' := h
    simp only [wfItem, Bool.and_eq_true] at h'
    exact item_coll E p l h'.2 (deep_members E l h'.1)
  | .node k p fs, h => by
    have h' := h
    simp only [wfItem, Bool.and_eq_true] at h'
    exact item_node E k p fs h'.2 (deep_fields E k.goName fs h'.1)
theorem deep_members (E : Env) : ∀ l : Items, wfMembers E l = true → MembersOK E l
  | .nil, _ => ⟨by simp [writeItems, JList.ofList, loadList, normXItems], by simp [normXItems, Items.length], by intro i hi; cases hi⟩
  | .cons i r, h => by
    simp only [wfMembers, Bool.and_eq_true, Bool.not_eq_true'] at h
    obtain ⟨⟨⟨hwi, hli⟩, hni⟩, hr⟩ := h
    exact members_cons E i r (deep_item E i hwi) hwi hli hni (deep_members E r hr)
theorem deep_fields (E : Env) (sn : String) : ∀ fs : Fields, wfFields E sn fs = true →
    readFields E sn (writeFields E sn fs) = normXFields (enc E) fs
  | .nil, _ => by simp [writeFields, readFields, normXFields]
  | .cons n v r, h => by
    simp only [wfFields, Bool.and_eq_true] at h
    obtain ⟨⟨⟨hco, hk⟩, hwf⟩, hr⟩ := h
    exact fields_cons E sn n v r hco hk hwf (fun hw hr' hp => deep_val E (E.fieldKind sn n) v hk hwf hw hr' hp)
      (deep_fields E sn r hr)
theorem deep_val (E : Env) (kind : String) : ∀ v : FVal, kindMatches kind v = true → wfVal E kind v = true →
    ∀ hw hr, deepPair kind hw hr = true → ValOK E kind hw hr v
  | .item i, hk, hwf, hw, hr, hp => by
    have : kind = "item" := by simpa [kindMatches] using hk
    subst this
    obtain ⟨rfl, hhr⟩ := deepPair_item hw hr hp
    simp only [wfVal] at hwf
    exact val_item E i hwf (deep_item E i hwf) hr hhr
  | .items l, hk, hwf, hw, hr, hp => by
    have : kind = "items" := by simpa [kindMatches] using hk
    subst this
    obtain ⟨hhw, rfl⟩ := deepPair_items hw hr hp
    simp only [wfVal, Bool.and_eq_true] at hwf
    exact val_items E l (deep_members E l hwf.1) hwf.2 hw hhw
  | .nlv n, hk, hwf, hw, hr, hp => by
    have : kind = "nlv" := by simpa [kindMatches] using hk
    subst this
    obtain ⟨rfl, rfl⟩ := deepPair_nlv hw hr hp
    exact val_nlv E n "nlv" hwf
  | .time s a b, hk, _, hw, hr, hp => by
    have : kind = "time" := by simpa [kindMatches] using hk
    subst this
    obtain ⟨rfl, rfl⟩ := deepPair_time hw hr hp
    simp [ValOK, writeVal, readVal, normXVal]
  | .dur d, hk, _, hw, hr, hp => by
    have : kind = "duration" := by simpa [kindMatches] using hk
    subst this
    obtain ⟨rfl, rfl⟩ := deepPair_duration hw hr hp
    simp [ValOK, writeVal, readVal, normXVal]
  | .dec6 z, hk, _, hw, hr, hp => by
    have : kind = "float" := by simpa [kindMatches] using hk
    subst this
    obtain ⟨rfl, rfl⟩ := deepPair_float hw hr hp
    simp [ValOK, writeVal, readVal, normXVal]
  | .int z, hk, _, hw, hr, hp => by
    have : kind = "int" := by simpa [kindMatches] using hk
    subst this
    obtain ⟨rfl, rfl⟩ := deepPair_int hw hr hp
    simp [ValOK, writeVal, readVal, normXVal]
  | .uint n, hk, _, hw, hr, hp => by
    have : kind = "uint" := by simpa [kindMatches] using hk
    subst this
    obtain ⟨rfl, rfl⟩ := deepPair_uint hw hr hp
    simp [ValOK, writeVal, readVal, normXVal]
  | .bool b, hk, _, hw, hr, hp => by
    have : kind = "bool" := by simpa [kindMatches] using hk
    subst this
    obtain ⟨rfl, rfl⟩ := deepPair_bool hw hr hp
    simp [ValOK, writeVal, readVal, normXVal]
  | .str s, hk, hwf, hw, hr, hp => by
    simp only [kindMatches] at hk
    simp only [deepPair, hk, if_true, Bool.and_eq_true] at hp
    simp only [wfVal, Bool.not_eq_true'] at hwf
    obtain ⟨hpw, hpr⟩ := hp
    simp only [isStrWriter, Bool.or_eq_true, beq_iff_eq] at hpw
    simp only [isStrReader, Bool.or_eq_true, beq_iff_eq] at hpr
    have hkne : (kind == "item") = false := by
      simp only [isStrKind, Bool.or_eq_true, beq_iff_eq] at hk
      rcases hk with ((((rfl | rfl) | rfl) | rfl) | rfl) | rfl <;> decide
    unfold ValOK
    have hwv : writeVal E kind hw (.str s) = some ("", .str s) := by
      rcases hpw with (rfl | rfl) | rfl <;> simp [writeVal, hwf]
    rw [hwv]
    refine Or.inl ⟨rfl, ?_⟩
    rcases hpr with ((((((rfl | rfl) | rfl) | rfl) | rfl) | rfl) | rfl) | rfl <;> simp [readVal, hwf, normXVal, hkne]
  | .record fs, hk, hwf, hw, hr, hp => by
    simp only [kindMatches, Bool.or_eq_true, beq_iff_eq] at hk
    simp only [wfVal] at hwf
    have hf := deep_fields E (recName kind) fs hwf
    rcases hk with (rfl | rfl) | rfl
    · obtain ⟨rfl, rfl⟩ := deepPair_source hw hr hp
      exact val_record E "source" "GetAPSource" fs (Or.inl ⟨rfl, rfl⟩) hf
    · obtain ⟨rfl, rfl⟩ := deepPair_pubkey hw hr hp
      exact val_record E "pubkey" "JSONGetPublicKey" fs (Or.inr (Or.inl ⟨rfl, rfl⟩)) hf
    · obtain ⟨rfl, rfl⟩ := deepPair_endpoints hw hr hp
      exact val_record E "endpoints" "JSONGetActorEndpoints" fs (Or.inr (Or.inr ⟨rfl, rfl⟩)) hf
end

/-- The whole-tree theorem: for every well-formed value tree, reading what the writer writes gives the
documented normal form. -/
theorem deep_roundtrip (E : Env) (x : Item) (h : wfItem E x = true) : roundTrip E x = normX (enc E) x := by
  obtain ⟨h1, h2, _⟩ := deep_item E x h
  unfold roundTrip
  cases hw : writeItem E x with
  | none => simp [h1 hw]
  | some j => simp [h2 j hw]

/-! ### the reader looks only at the read side of the environment -/

structure SameReader (E E' : Env) : Prop where
  rrow : E.rrow = E'.rrow
  rrowMap : E.rrowMap = E'.rrowMap
  fieldKind : E.fieldKind = E'.fieldKind
  kindOfType : E.kindOfType = E'.kindOfType
  validIRI : E.validIRI = E'.validIRI
  eqv : E.eqv = E'.eqv

mutual
theorem loadItem_ext (E E' : Env) (h : SameReader E E') : ∀ j, loadItem E j = loadItem E' j
  | .null => by simp [loadItem]
  | .leaf _ => by simp [loadItem]
  | .arr _ => by simp [loadItem]
  | .str s => by simp [loadItem, h.validIRI]
  | .obj ms => by
    simp only [loadItem, h.kindOfType]
    cases E'.kindOfType (typOf ms) with
    | none => rfl
    | some k => simp only [readFields_ext E E' h k.goName ms]
theorem loadList_ext (E E' : Env) (h : SameReader E E') : ∀ l, loadList E l = loadList E' l
  | .nil => by simp [loadList]
  | .cons j r => by simp only [loadList, loadItem_ext E E' h j, loadList_ext E E' h r]
theorem readFields_ext (E E' : Env) (h : SameReader E E') (sn : String) : ∀ ms, readFields E sn ms = readFields E' sn ms
  | .nil => by simp [readFields]
  | .cons name j r => by
    simp only [readFields, h.rrow, h.rrowMap, h.fieldKind, readFields_ext E E' h sn r]
    cases E'.rrow sn name with
    | none => rfl
    | some row => simp only [readVal_ext E E' h _ _ j]
theorem readVal_ext (E E' : Env) (h : SameReader E E') (kind helper : String) : ∀ j, readVal E kind helper j = readVal E' kind helper j
  | .null => by simp [readVal]
  | .str s => by simp only [readVal, h.validIRI]
  | .leaf v => by cases v <;> simp [readVal]
  | .arr l => by simp only [readVal, h.eqv, loadList_ext E E' h l]
  | .obj ms => by simp only [readVal, loadItem, h.kindOfType, readFields_ext E E' h _ ms]
end

theorem readTop_ext (E E' : Env) (h : SameReader E E') (j : J) : readTop E j = readTop E' j := by
  cases j <;> simp only [readTop, loadItem_ext E E' h, loadList_ext E E' h, h.eqv]

/-! ### members the reader has no row for are skipped -/

/-- a member added at position `n` (at the end when the object is shorter) -/
def JMembers.insertAt : Nat → Str → J → JMembers → JMembers
  | 0, name, j, ms => .cons name j ms
  | _ + 1, name, j, .nil => .cons name j .nil
  | n + 1, name, j, .cons a b r => .cons a b (JMembers.insertAt n name j r)

theorem readFields_insert_unknown (E : Env) (sn : String) (name : Str) (j : J)
    (h1 : E.rrow sn name = none) (h2 : E.rrowMap sn name = none) :
    ∀ (n : Nat) (ms : JMembers), readFields E sn (JMembers.insertAt n name j ms) = readFields E sn ms
  | 0, ms => by simp [JMembers.insertAt, readFields, h1, h2]
  | _ + 1, .nil => by simp [JMembers.insertAt, readFields, h1, h2]
  | n + 1, .cons a b r => by
    simp only [JMembers.insertAt, readFields, readFields_insert_unknown E sn name j h1 h2 n r]

theorem get?_insert_other (name k : Str) (j : J) (hne : name ≠ k) :
    ∀ (n : Nat) (ms : JMembers), JMembers.get? (JMembers.insertAt n name j ms) k = JMembers.get? ms k
  | 0, ms => by simp [JMembers.insertAt, JMembers.get?, hne]
  | _ + 1, .nil => by simp [JMembers.insertAt, JMembers.get?, hne]
  | n + 1, .cons a b r => by
    simp only [JMembers.insertAt, JMembers.get?, get?_insert_other name k j hne n r]

/-- an object with one more member, under a name no struct reads and that is not "type", loads to the
same value, wherever the member stands -/
theorem loadItem_insert_unknown (E : Env) (name : Str) (j : J) (hne : name ≠ nm "type")
    (h : ∀ k : Kind, E.rrow k.goName name = none ∧ E.rrowMap k.goName name = none)
    (n : Nat) (ms : JMembers) :
    loadItem E (.obj (JMembers.insertAt n name j ms)) = loadItem E (.obj ms) := by
  have ht : typOf (JMembers.insertAt n name j ms) = typOf ms := by
    unfold typOf; rw [get?_insert_other name (nm "type") j hne]
  simp only [loadItem, ht]
  cases E.kindOfType (typOf ms) with
  | none => rfl
  | some k => simp only [readFields_insert_unknown E k.goName name j (h k).1 (h k).2]

/-! ### the order of the members of a document does not matter -/

def JMembers.toList : JMembers → List (Str × J)
  | .nil => []
  | .cons n j r => (n, j) :: JMembers.toList r

def JMembers.ofList : List (Str × J) → JMembers
  | [] => .nil
  | (n, j) :: r => .cons n j (JMembers.ofList r)

/-- what one member of an object contributes: the field it is attached to and the value read -/
def readMember (E : Env) (sn : String) (name : Str) (j : J) : Option (String × FVal) :=
  match E.rrow sn name with
  | some row => (readVal E (E.fieldKind sn row.field) row.helper j).map (fun v => (row.field, v))
  | none =>
    match E.rrowMap sn name with
    | some row =>
      (match j with
       | .obj ms => (match langPairs ms with | [] => none | ps => some (row.field, .nlv ps))
       | _ => none)
    | none => none

theorem readFields_cons_member (E : Env) (sn : String) (name : Str) (j : J) (r : JMembers) :
    readFields E sn (.cons name j r) =
      (match readMember E sn name j with
       | some p => .cons p.1 p.2 (readFields E sn r)
       | none => readFields E sn r) := by
  simp only [readFields, readMember]
  cases E.rrow sn name with
  | some row =>
    simp only
    cases readVal E (E.fieldKind sn row.field) row.helper j <;> simp
  | none =>
    simp only
    cases E.rrowMap sn name with
    | none => simp
    | some row =>
      simp only
      cases j with
      | obj ms =>
        simp only
        cases langPairs ms <;> simp
      | _ => simp

theorem readFields_members (E : Env) (sn : String) : ∀ ms : JMembers,
    readFields E sn ms = Fields.ofList ((JMembers.toList ms).filterMap (fun p => readMember E sn p.1 p.2))
  | .nil => by simp [readFields, JMembers.toList, Fields.ofList]
  | .cons name j r => by
    rw [readFields_cons_member, readFields_members E sn r]
    simp only [JMembers.toList, List.filterMap_cons]
    cases readMember E sn name j with
    | none => rfl
    | some p => obtain ⟨f, v⟩ := p; simp [Fields.ofList]

theorem get_ofList (l : List (String × FVal)) (f : String) : (Fields.ofList l).get? f = l.lookup f := by
  induction l with
  | nil => rfl
  | cons a r ih =>
    obtain ⟨n, v⟩ := a
    simp only [Fields.ofList, Fields.get?, List.lookup]
    by_cases h : n = f
    · subst h; simp
    · have : (f == n) = false := by simpa using Ne.symm h
      simp [h, this, ih]

theorem lookup_mem_of_nodup {l : List (String × FVal)} (hn : (l.map Prod.fst).Nodup) (f : String) (v : FVal) :
    l.lookup f = some v ↔ (f, v) ∈ l := by
  induction l with
  | nil => simp [List.lookup]
  | cons a r ih =>
    obtain ⟨n, w⟩ := a
    simp only [List.map_cons, List.nodup_cons] at hn
    by_cases h : f = n
    · subst h
      simp only [List.lookup, beq_self_eq_true, Option.some.injEq, List.mem_cons, Prod.mk.injEq, true_and]
      constructor
      · intro e; exact Or.inl e.symm
      · rintro (e | hm)
        · exact e.symm
        · exact absurd (List.mem_map.mpr ⟨(f, v), hm, rfl⟩) hn.1
    · have : (f == n) = false := by simpa using h
      simp only [List.lookup, this, List.mem_cons, Prod.mk.injEq, h, false_and, false_or]
      exact ih hn.2

/-- **member order**: two objects with the same members in any order, of which no two are attached to
the same field, are read to values that hold the same in every field -/
theorem readFields_perm (E : Env) (sn : String) (ms ms' : JMembers)
    (hp : (JMembers.toList ms).Perm (JMembers.toList ms'))
    (hn : (((JMembers.toList ms).filterMap (fun p => readMember E sn p.1 p.2)).map Prod.fst).Nodup)
    (f : String) : (readFields E sn ms').get? f = (readFields E sn ms).get? f := by
  rw [readFields_members, readFields_members, get_ofList, get_ofList]
  have hp' := hp.filterMap (fun p => readMember E sn p.1 p.2)
  have hn' : (((JMembers.toList ms').filterMap (fun p => readMember E sn p.1 p.2)).map Prod.fst).Nodup :=
    (hp'.map Prod.fst).nodup_iff.mp hn
  cases h : ((JMembers.toList ms).filterMap (fun p => readMember E sn p.1 p.2)).lookup f with
  | some v =>
    have hm := (lookup_mem_of_nodup hn f v).mp h
    exact (lookup_mem_of_nodup hn' f v).mpr (hp'.mem_iff.mp hm)
  | none =>
    cases h' : ((JMembers.toList ms').filterMap (fun p => readMember E sn p.1 p.2)).lookup f with
    | none => rfl
    | some v =>
      have hm := (lookup_mem_of_nodup hn' f v).mp h'
      have := (lookup_mem_of_nodup hn f v).mpr (hp'.mem_iff.mpr hm)
      rw [h] at this; cases this

end APModel.Deep
