/-
Memory model for the typed views of C08: a struct layout is a list of fields (name, type class,
offset, size — as computed by go/types for gc/amd64 and regenerated into `Generated/Casts.lean`);
memory is a function from addresses to bytes; a view of type `dst` placed at the address of a value
of type `src` reads and writes bytes `[base + off, base + off + size)` for each of its fields.
-/
namespace APModel.Layout

structure Field where
  name : Nat
  cls : Nat
  off : Nat
  size : Nat
  deriving Repr, DecidableEq

abbrev Layout := List Field
abbrev Mem := Nat → UInt8

def readField (m : Mem) (base : Nat) (f : Field) : List UInt8 :=
  (List.range f.size).map (fun i => m (base + f.off + i))

def writeField (m : Mem) (base : Nat) (f : Field) (bytes : Nat → UInt8) : Mem :=
  fun a => if base + f.off ≤ a ∧ a < base + f.off + f.size then bytes (a - (base + f.off)) else m a

/-- every field lies inside the struct -/
def wellFormed (l : Layout) (size : Nat) : Bool := l.all (fun f => f.off + f.size ≤ size)

/-- a field of the view has a counterpart in the source: the field named `rho f.name`, of the same
type class, at the same offset, of the same size. -/
def compatField (src : Layout) (rho : Nat → Nat) (f : Field) : Bool :=
  src.any (fun g => g.name == rho f.name && g.cls == f.cls && g.off == f.off && g.size == f.size)

/-- the view type is a field-for-field prefix of the source type (up to the renaming) and not larger. -/
def prefixCompat (src dst : Layout) (srcSize dstSize : Nat) (rho : Nat → Nat) : Bool :=
  dst.all (compatField src rho) && decide (dstSize ≤ srcSize)

end APModel.Layout
