import Driver.Util
import APModel.Generated.Casts
import APModel.Generated.Switches
open Lean APModel.Generated

namespace Driver

/-- the layout go/types computed for a struct, in the shape the harness derives from `reflect`. -/
def opLayout (j : Json) : R Json := do
  let t ← strF j "t"
  match layouts.lookup t with
  | none => throw s!"no layout for {t}"
  | some (sz, fs) =>
    return Json.mkObj [("size", Json.num sz),
      ("fields", jarr (fs.map (fun (n, _, o, s) => jarr [Json.str (fieldNames.getD n "?"), Json.num o, Json.num s])))]

/-- does `To<X>` accept a value of Go struct `src`? (its type switch lists the struct; everything else
goes to the reflection fallback, which only converts identical struct types) -/
def opCast (j : Json) : R Json := do
  let fn ← strF j "fn"
  let src ← strF j "src"
  let k := kindNames.idxOf src
  let ok := ((typeSwitches.lookup fn).getD []).contains k
  return Json.str (if ok then "ok" else "err")

end Driver
