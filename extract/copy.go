package main

import (
	"fmt"
	"go/ast"
	"go/token"
	"sort"
	"strings"
)

// copy.go: per Copy*Properties / UpdatePersonProperties function the assignment rows
//   to.F = from.F                                   -> (F, "always")
//   to.F = replaceIf{Item,ItemCollection,NaturalLanguageValues}(to.F, from.F) -> (F, "ifFromSet")
//   to.F = replaceIfSource(to.F, from.F)            -> (F, "source")
//   if GUARD { to.F = from.F }                       -> (F, "if:" + atoms joined by "&"), atoms: fromSet | fromUnset | toSet | toUnset
// and the delegation  _, err := Copy<X>Properties(a, b)  -> delegate "Copy<X>Properties"
func (x *Extractor) copyGuardAtom(e ast.Expr, field string) string {
	neg := false
	if u, ok := e.(*ast.UnaryExpr); ok && u.Op == token.NOT {
		neg = true
		e = u.X
	}
	side := func(se ast.Expr) (string, bool) {
		s, ok := se.(*ast.SelectorExpr)
		if !ok || s.Sel.Name != field {
			return "", false
		}
		id, ok := s.X.(*ast.Ident)
		if !ok || (id.Name != "to" && id.Name != "from") {
			return "", false
		}
		return id.Name, true
	}
	mk := func(who string, set bool) string {
		if neg {
			set = !set
		}
		if set {
			return who + "Set"
		}
		return who + "Unset"
	}
	switch v := e.(type) {
	case *ast.CallExpr: // x.F.IsZero()
		if s, ok := v.Fun.(*ast.SelectorExpr); ok && s.Sel.Name == "IsZero" && len(v.Args) == 0 {
			if who, ok := side(s.X); ok {
				return mk(who, false)
			}
		}
	case *ast.BinaryExpr:
		// len(x.F) > 0 ; x.F != nil ; x.F != 0 ; x.F == 0 ; x.F == nil
		l, r := v.X, x.src(v.Y)
		if c, ok := l.(*ast.CallExpr); ok {
			if id, ok := c.Fun.(*ast.Ident); ok && id.Name == "len" && len(c.Args) == 1 && v.Op == token.GTR && r == "0" {
				if who, ok := side(c.Args[0]); ok {
					return mk(who, true)
				}
			}
		}
		if who, ok := side(l); ok && (r == "nil" || r == "0") {
			switch v.Op {
			case token.NEQ:
				return mk(who, true)
			case token.EQL:
				return mk(who, false)
			}
		}
	}
	return "?unknown: " + x.src(e)
}

func (x *Extractor) copyGuard(e ast.Expr, field string) string {
	if b, ok := e.(*ast.BinaryExpr); ok && b.Op == token.LAND {
		return x.copyGuard(b.X, field) + "&" + x.copyGuard(b.Y, field)
	}
	if p, ok := e.(*ast.ParenExpr); ok {
		return x.copyGuard(p.X, field)
	}
	return x.copyGuardAtom(e, field)
}

// plain `to.F = from.F`
func plainCopy(s *ast.AssignStmt) (string, bool) {
	if len(s.Lhs) != 1 || len(s.Rhs) != 1 || s.Tok != token.ASSIGN {
		return "", false
	}
	l, ok1 := s.Lhs[0].(*ast.SelectorExpr)
	r, ok2 := s.Rhs[0].(*ast.SelectorExpr)
	if !ok1 || !ok2 || l.Sel.Name != r.Sel.Name {
		return "", false
	}
	li, ok1 := l.X.(*ast.Ident)
	ri, ok2 := r.X.(*ast.Ident)
	if !ok1 || !ok2 || li.Name != "to" || ri.Name != "from" {
		return "", false
	}
	return l.Sel.Name, true
}

func (x *Extractor) genCopy() string {
	var names []string
	for k := range x.funcs {
		if (strings.HasPrefix(k, "Copy") && strings.HasSuffix(k, "Properties") && k != "CopyItemProperties") || k == "UpdatePersonProperties" {
			names = append(names, k)
		}
	}
	sort.Strings(names)
	var sb strings.Builder
	sb.WriteString(header)
	sb.WriteString("namespace APModel.Generated\n\nstructure CopyRow where\n  fn : String\n  rows : List (String × String)   -- (field, rule)\n  delegates : List String\n  other : List String\n  deriving Repr, DecidableEq\n\ndef copyRows : List CopyRow := [\n")
	for i, n := range names {
		fd := x.funcs[n]
		var rows, dels, other []string
		for _, st := range fd.Body.List {
			switch s := st.(type) {
			case *ast.ReturnStmt:
				continue
			case *ast.IfStmt:
				src := x.src(s)
				if s.Init == nil && s.Else == nil && len(s.Body.List) == 1 {
					if as, ok := s.Body.List[0].(*ast.AssignStmt); ok {
						if f, ok := plainCopy(as); ok {
							rows = append(rows, fmt.Sprintf("(%s, %s)", lstr(f), lstr("if:"+x.copyGuard(s.Cond, f))))
							continue
						}
					}
					if _, ok := s.Body.List[0].(*ast.ReturnStmt); ok && strings.HasPrefix(x.src(s.Cond), "err != nil") {
						continue
					}
				}
				other = append(other, "?unknown: "+src)
			case *ast.AssignStmt:
				if f, ok := plainCopy(s); ok {
					rows = append(rows, fmt.Sprintf("(%s, %s)", lstr(f), lstr("always")))
					continue
				}
				if len(s.Lhs) == 1 && len(s.Rhs) == 1 {
					if l, ok := s.Lhs[0].(*ast.SelectorExpr); ok {
						if c, ok := s.Rhs[0].(*ast.CallExpr); ok && len(c.Args) == 2 {
							if fn, ok := c.Fun.(*ast.Ident); ok && strings.HasPrefix(fn.Name, "replaceIf") {
								a0, ok0 := c.Args[0].(*ast.SelectorExpr)
								a1, ok1 := c.Args[1].(*ast.SelectorExpr)
								if ok0 && ok1 && a0.Sel.Name == l.Sel.Name && a1.Sel.Name == l.Sel.Name && x.src(a0.X) == "to" && x.src(a1.X) == "from" && x.src(l.X) == "to" {
									rule := "ifFromSet"
									if fn.Name == "replaceIfSource" {
										rule = "source"
									}
									rows = append(rows, fmt.Sprintf("(%s, %s)", lstr(l.Sel.Name), lstr(rule)))
									continue
								}
							}
						}
					}
				}
				// boilerplate: a, _ := ToX(to) ; _, err := CopyXProperties(a, b)
				if len(s.Rhs) == 1 {
					if c, ok := s.Rhs[0].(*ast.CallExpr); ok {
						if fn, ok := c.Fun.(*ast.Ident); ok {
							if strings.HasPrefix(fn.Name, "To") && len(c.Args) == 1 && (x.src(c.Args[0]) == "to" || x.src(c.Args[0]) == "from") {
								continue
							}
							if (strings.HasPrefix(fn.Name, "Copy") || fn.Name == "UpdatePersonProperties") && len(c.Args) == 2 {
								dels = append(dels, fn.Name)
								continue
							}
						}
					}
				}
				other = append(other, "?unknown: "+x.src(s))
			default:
				other = append(other, "?unknown: "+x.src(st))
			}
		}
		sep := ","
		if i == len(names)-1 {
			sep = ""
		}
		fmt.Fprintf(&sb, "  { fn := %s, rows := [%s], delegates := %s, other := %s }%s\n", lstr(n), strings.Join(rows, ", "), lstrList(dels), lstrList(other), sep)
	}
	sb.WriteString("]\n\nend APModel.Generated\n")
	return sb.String()
}

func init() {
	moreGens = append(moreGens, func(x *Extractor) map[string]func() string {
		return map[string]func() string{"Copy.lean": x.genCopy}
	})
}
