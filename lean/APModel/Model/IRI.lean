/-
Model of IRI comparison (iri.go): `stripFragment`, `stripScheme`, `IRI.Equals`, `irisEqual`,
`IRIs.Contains`, Go's `path/filepath.Clean`, and a concrete URL splitter for the part of
`net/url.Parse` the correspondence exercises.

Strings are byte lists (Go strings are byte strings). `strings.EqualFold` is modelled on ASCII
letters; other bytes compare exactly (Unicode simple folding is outside the model).
-/
namespace APModel.IRI

abbrev Str := List UInt8

def lowerB (b : UInt8) : UInt8 := if 65 ≤ b ∧ b ≤ 90 then b + 32 else b
def lower (s : Str) : Str := s.map lowerB

/-- `strings.EqualFold` (ASCII). -/
def foldEq (a b : Str) : Bool := lower a == lower b

/-- `stripFragment`: cut at the first '#', unless it is at index 0 (`p <= 0` keeps everything). -/
def stripFragment : Str → Str
  | [] => []
  | c :: r => if c == 35 then c :: r else c :: r.takeWhile (· != 35)

/-- suffix of `s` starting at the first occurrence of `pat`. -/
def findSub (pat : Str) : Str → Option Str
  | [] => if pat.isEmpty then some [] else none
  | s@(_ :: r) => if pat.isPrefixOf s then some s else findSub pat r

def schemeSep : Str := [58, 47, 47]   -- "://"

/-- `stripScheme`: `u[p:]` with p the index of "://", or the whole string when absent. -/
def stripScheme (u : Str) : Str := (findSub schemeSep u).getD u

/-- What `url.Parse` + `URL.Query()` give for a valid absolute URL: scheme, host (with port),
path, and the query as Go's `map[string][]string` (distinct keys, values in order of appearance). -/
structure URL where
  scheme : Str
  host : Str
  path : Str
  query : List (Str × List Str)
  deriving Repr, DecidableEq

/-! ### path/filepath.Clean -/

def splitOn (sep : UInt8) : Str → List Str
  | [] => [[]]
  | c :: r =>
    if c == sep then [] :: splitOn sep r
    else match splitOn sep r with
      | [] => [[c]]
      | h :: t => (c :: h) :: t

def dot : Str := [46]
def dotdot : Str := [46, 46]

/-- one step of Clean's segment processing; the stack holds the kept segments, last first. -/
def cleanStep (rooted : Bool) (stack : List Str) (seg : Str) : List Str :=
  if seg = [] ∨ seg = dot then stack
  else if seg = dotdot then
    match stack with
    | [] => if rooted then [] else [dotdot]
    | top :: rest => if top = dotdot then (if rooted then stack else dotdot :: stack) else rest
  else seg :: stack

def cleanSegs (rooted : Bool) (segs : List Str) : List Str :=
  (segs.foldl (cleanStep rooted) []).reverse

def joinSlash : List Str → Str
  | [] => []
  | [s] => s
  | s :: r => s ++ 47 :: joinSlash r

/-- `filepath.Clean` on Unix. -/
def clean (p : Str) : Str :=
  match p with
  | [] => dot
  | c :: _ =>
    let rooted := c == 47
    let segs := cleanSegs rooted (splitOn 47 p)
    if rooted then 47 :: joinSlash segs
    else if segs.isEmpty then dot else joinSlash segs

/-! ### irisEqual / Equals -/

def slash : Str := [47]

/-- path comparison of `irisEqual` (as repaired: the empty path is the root path, then Clean + EqualFold). -/
def pathEq (p q : Str) : Bool :=
  foldEq (clean (if p = [] then slash else p)) (clean (if q = [] then slash else q))

/-- path comparison on the pinned tree: "" and "/" special-cased, otherwise Clean + EqualFold. -/
def pathEqPinned (p q : Str) : Bool :=
  (p = slash ∧ q = [] ∨ p = [] ∧ q = slash) || foldEq (clean p) (clean q)

/-- values of one query key (as repaired: compared as multisets). -/
def valuesEq (a b : List Str) : Bool := a.isPerm b

/-- values of one query key on the pinned tree: same length and every value of `a` occurs in `b`. -/
def valuesEqPinned (a b : List Str) : Bool :=
  a.length == b.length && a.all (fun x => b.contains x)

def queryEqWith (veq : List Str → List Str → Bool) (q w : List (Str × List Str)) : Bool :=
  q.length == w.length &&
  q.all (fun kv => match w.lookup kv.1 with
    | some ws => veq kv.2 ws
    | none => false)

def queryEq := queryEqWith valuesEq

/-- the URL-level comparison of `irisEqual` once both sides parsed as valid absolute URLs. -/
def slowEq (cs : Bool) (u w : URL) : Bool :=
  (!cs || foldEq u.scheme w.scheme) && foldEq u.host w.host && pathEq u.path w.path && queryEq u.query w.query

def slowEqPinned (cs : Bool) (u w : URL) : Bool :=
  (!cs || foldEq u.scheme w.scheme) && foldEq u.host w.host && pathEqPinned u.path w.path &&
    queryEqWith valuesEqPinned u.query w.query

/-- `irisEqual`; `parse i = some u` means: `url.Parse` succeeded and scheme and host are non-empty. -/
def irisEqual (parse : Str → Option URL) (i1 i2 : Str) (cs : Bool) : Bool :=
  match parse i1, parse i2 with
  | some u, some w => slowEq cs u w
  | _, _ => foldEq i1 i2

/-- `IRI.Equals`. -/
def equals (parse : Str → Option URL) (i w : Str) (cs : Bool) : Bool :=
  let is := stripFragment i
  let ws := stripFragment w
  let is' := if cs then is else stripScheme is
  let ws' := if cs then ws else stripScheme ws
  if foldEq is' ws' then true else irisEqual parse i w cs

def equalsPinned (parse : Str → Option URL) (i w : Str) (cs : Bool) : Bool :=
  let is := stripFragment i
  let ws := stripFragment w
  let is' := if cs then is else stripScheme is
  let ws' := if cs then ws else stripScheme ws
  if foldEq is' ws' then true else
    match parse i, parse w with
    | some u, some v => slowEqPinned cs u v
    | _, _ => foldEq i w

/-- `IsNil` on an IRI: the empty IRI and the nil IRI `-` are the nil item -/
def isNilIRI (r : Str) : Bool := r.isEmpty || r == [45]

/-- `IRIs.Contains(r)`: the nil item is a member of nothing (`IsNil(r)` answers first); otherwise some member
`iri` with `r.Equals(iri, false)`. -/
def irisContains (parse : Str → Option URL) (l : List Str) (r : Str) : Bool :=
  !isNilIRI r && l.any (fun iri => equals parse r iri false)

/-! ### a concrete splitter for the URL grammar used by the correspondence

  scheme "://" host[":" digits] path ["?" query] ["#" fragment]
with scheme = ALPHA *(ALPHA / DIGIT / "+" / "-" / "."), host = 1*(ALPHA / DIGIT / "." / "-"),
path = *("/" *unreserved), query = pairs `k=v` separated by "&" over unreserved characters,
fragment = *unreserved.  Outside this grammar the splitter answers `outside` (the model makes no
claim), except where `url.Parse` certainly yields no scheme or no host (`notAbs`). -/

inductive Parsed
  | abs (u : URL)
  | notAbs
  | outside
  deriving Repr

def isAlpha (b : UInt8) : Bool := (65 ≤ b && b ≤ 90) || (97 ≤ b && b ≤ 122)
def isDigit (b : UInt8) : Bool := 48 ≤ b && b ≤ 57
def isSchemeChar (b : UInt8) : Bool := isAlpha b || isDigit b || b == 43 || b == 45 || b == 46
def isUnreserved (b : UInt8) : Bool := isAlpha b || isDigit b || b == 45 || b == 46 || b == 95 || b == 126
def isHostChar (b : UInt8) : Bool := isAlpha b || isDigit b || b == 45 || b == 46

/-- insert a value into Go's query map representation (append to the key's list, keys in first-seen order). -/
def qInsert : List (Str × List Str) → Str → Str → List (Str × List Str)
  | [], k, v => [(k, [v])]
  | (k', vs) :: r, k, v => if k' = k then (k', vs ++ [v]) :: r else (k', vs) :: qInsert r k v

/-- one `k=v` pair of a query string added to the map (`none`: outside the grammar). -/
def parsePair (acc : Option (List (Str × List Str))) (pair : Str) : Option (List (Str × List Str)) :=
  match acc with
  | none => none
  | some m =>
    if pair = [] then some m
    else
      let k := pair.takeWhile (· != 61)
      let v := (pair.dropWhile (· != 61)).drop 1
      if k.all isUnreserved && v.all isUnreserved then some (qInsert m k v) else none

def parseQuery (q : Str) : Option (List (Str × List Str)) :=
  (splitOn 38 q).foldl parsePair (some [])

def finishURL (sch hostport path q : Str) : Parsed :=
  match parseQuery q with
  | some m => .abs { scheme := lower sch, host := hostport, path := path, query := m }
  | none => .outside

def portOk (hostport : Str) : Bool :=
  match hostport.dropWhile (· != 58) with
  | [] => true
  | _ :: ds => ds.all isDigit

def authorityOk (hostport path frag : Str) : Bool :=
  let host := hostport.takeWhile (· != 58)
  !host.isEmpty && host.all isHostChar && portOk hostport &&
    path.all (fun b => b == 47 || isUnreserved b) && frag.all isUnreserved

def parseAuthority (sch auth frag : Str) : Parsed :=
  let beforeQ := auth.takeWhile (· != 63)
  let q := (auth.dropWhile (· != 63)).drop 1
  let hostport := beforeQ.takeWhile (· != 47)
  let path := beforeQ.dropWhile (· != 47)
  if authorityOk hostport path frag then finishURL sch hostport path q else .outside

def parseURL (s : Str) : Parsed :=
  -- the fragment is cut first (url.Parse: strings.Cut(rawURL, "#"))
  let main := s.takeWhile (· != 35)
  let frag := (s.dropWhile (· != 35)).drop 1
  let sch := main.takeWhile isSchemeChar
  match sch, main.dropWhile isSchemeChar with
  | c :: _, 58 :: rest =>
    if !isAlpha c then .notAbs
    else match rest with
      | 47 :: 47 :: auth => parseAuthority sch auth frag
      | _ => .notAbs        -- opaque or path-only: no host
  | _, _ => .notAbs          -- no scheme

def parseOpt (s : Str) : Option URL :=
  match parseURL s with
  | .abs u => some u
  | _ => none

end APModel.IRI
