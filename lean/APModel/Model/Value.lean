/-
The shared value model: vocabulary values as trees (the harness' canonical dump, see
harness/values.go). Explicit mutual inductives (nested inductives block structural recursion).

Field identity is the Go field name. A field that is unset in Go (nil interface, nil slice,
zero scalar) is absent from `Fields`.
-/
import APModel.Model.IRI

namespace APModel
open IRI (Str)

inductive Kind
  | object | actor | activity | intransitive | question | collection | orderedCollection
  | collectionPage | orderedCollectionPage | place | profile | relationship | tombstone | link
  deriving DecidableEq, Repr

def Kind.all : List Kind :=
  [.object, .actor, .activity, .intransitive, .question, .collection, .orderedCollection,
   .collectionPage, .orderedCollectionPage, .place, .profile, .relationship, .tombstone, .link]

/-- the Go struct type name -/
def Kind.goName : Kind → String
  | .object => "Object" | .actor => "Actor" | .activity => "Activity" | .intransitive => "IntransitiveActivity"
  | .question => "Question" | .collection => "Collection" | .orderedCollection => "OrderedCollection"
  | .collectionPage => "CollectionPage" | .orderedCollectionPage => "OrderedCollectionPage" | .place => "Place"
  | .profile => "Profile" | .relationship => "Relationship" | .tombstone => "Tombstone" | .link => "Link"

def Kind.ofGoName (s : String) : Option Kind := Kind.all.find? (fun k => k.goName == s)

mutual
inductive Item
  | nil                                     -- the untyped nil interface
  | typedNil (k : Kind)                     -- nil pointer to a vocabulary struct
  | collNil (ptr : Bool)                    -- ItemCollection(nil) / (*ItemCollection)(nil)
  | irisNil                                 -- IRIs(nil)
  | iri (s : Str)
  | iris (l : List Str)
  | coll (ptr : Bool) (l : Items)           -- ItemCollection / *ItemCollection
  | node (k : Kind) (ptr : Bool) (fs : Fields)   -- struct value / pointer to struct
inductive Items
  | nil
  | cons (i : Item) (r : Items)
inductive Fields
  | nil
  | cons (name : String) (v : FVal) (r : Fields)
inductive FVal
  | item (i : Item)                         -- Item-typed field holding a non-nil interface
  | items (l : Items)                       -- ItemCollection-typed field holding a non-nil slice
  | nlv (n : List (Str × Str))              -- NaturalLanguageValues (non-nil)
  | time (sec nsec off : Int)
  | dur (ns : Int)
  | str (s : Str)
  | dec6 (z : Int)                          -- float64 as z/10^6
  | int (z : Int)
  | uint (n : Nat)
  | bool (b : Bool)
  | record (fs : Fields)                    -- Source / PublicKey / *Endpoints
end

def Items.toList : Items → List Item
  | .nil => []
  | .cons i r => i :: Items.toList r
def Items.ofList : List Item → Items
  | [] => .nil
  | i :: r => .cons i (Items.ofList r)
def Items.length : Items → Nat
  | .nil => 0
  | .cons _ r => Items.length r + 1

def Fields.get? : Fields → String → Option FVal
  | .nil, _ => none
  | .cons n v r, k => if n = k then some v else Fields.get? r k
def Fields.toList : Fields → List (String × FVal)
  | .nil => []
  | .cons n v r => (n, v) :: Fields.toList r
def Fields.ofList : List (String × FVal) → Fields
  | [] => .nil
  | (n, v) :: r => .cons n v (Fields.ofList r)
/-- set or replace a field (first occurrence), appending when absent -/
def Fields.set : Fields → String → FVal → Fields
  | .nil, k, v => .cons k v .nil
  | .cons n v' r, k, v => if n = k then .cons n v r else .cons n v' (Fields.set r k v)
def Fields.erase : Fields → String → Fields
  | .nil, _ => .nil
  | .cons n v r, k => if n = k then Fields.erase r k else .cons n v (Fields.erase r k)

end APModel

namespace APModel
open IRI (Str)

/-! structural equality on values, written out by hand (`deriving DecidableEq` is not available on
mutual inductives) -/
mutual
def Item.beq : Item → Item → Bool
  | .nil, .nil => true
  | .typedNil k, .typedNil k' => k == k'
  | .collNil p, .collNil p' => p == p'
  | .irisNil, .irisNil => true
  | .iri s, .iri s' => s == s'
  | .iris l, .iris l' => l == l'
  | .coll p l, .coll p' l' => p == p' && Items.beq l l'
  | .node k p fs, .node k' p' fs' => k == k' && p == p' && Fields.beq fs fs'
  | _, _ => false
def Items.beq : Items → Items → Bool
  | .nil, .nil => true
  | .cons i r, .cons i' r' => Item.beq i i' && Items.beq r r'
  | _, _ => false
def Fields.beq : Fields → Fields → Bool
  | .nil, .nil => true
  | .cons n v r, .cons n' v' r' => n == n' && FVal.beq v v' && Fields.beq r r'
  | _, _ => false
def FVal.beq : FVal → FVal → Bool
  | .item i, .item i' => Item.beq i i'
  | .items l, .items l' => Items.beq l l'
  | .nlv n, .nlv n' => n == n'
  | .time a b c, .time a' b' c' => a == a' && b == b' && c == c'
  | .dur d, .dur d' => d == d'
  | .str s, .str s' => s == s'
  | .dec6 z, .dec6 z' => z == z'
  | .int z, .int z' => z == z'
  | .uint n, .uint n' => n == n'
  | .bool b, .bool b' => b == b'
  | .record fs, .record fs' => Fields.beq fs fs'
  | _, _ => false
end

mutual
theorem Item.beq_refl : ∀ x : Item, Item.beq x x = true
  | .nil => by simp [Item.beq]
  | .typedNil k => by simp [Item.beq]
  | .collNil p => by simp [Item.beq]
  | .irisNil => by simp [Item.beq]
  | .iri s => by simp [Item.beq]
  | .iris l => by simp [Item.beq]
  | .coll p l => by simp [Item.beq, Items.beq_refl l]
  | .node k p fs => by simp [Item.beq, Fields.beq_refl fs]
theorem Items.beq_refl : ∀ l : Items, Items.beq l l = true
  | .nil => by simp [Items.beq]
  | .cons i r => by simp [Items.beq, Item.beq_refl i, Items.beq_refl r]
theorem Fields.beq_refl : ∀ fs : Fields, Fields.beq fs fs = true
  | .nil => by simp [Fields.beq]
  | .cons n v r => by simp [Fields.beq, FVal.beq_refl v, Fields.beq_refl r]
theorem FVal.beq_refl : ∀ v : FVal, FVal.beq v v = true
  | .item i => by simp [FVal.beq, Item.beq_refl i]
  | .items l => by simp [FVal.beq, Items.beq_refl l]
  | .nlv n => by simp [FVal.beq]
  | .time a b c => by simp [FVal.beq]
  | .dur d => by simp [FVal.beq]
  | .str s => by simp [FVal.beq]
  | .dec6 z => by simp [FVal.beq]
  | .int z => by simp [FVal.beq]
  | .uint n => by simp [FVal.beq]
  | .bool b => by simp [FVal.beq]
  | .record fs => by simp [FVal.beq, Fields.beq_refl fs]
end

/-- `IsNil` of item.go on the value model. -/
def Item.isNilLike : Item → Bool
  | .nil => true
  | .typedNil _ => true
  | .collNil _ => true
  | .irisNil => true
  | .iri s => s.isEmpty || IRI.foldEq s [45]    -- "" or "-"
  | _ => false

end APModel
