package main

import (
	"fmt"
	"go/ast"
	"go/token"
	"sort"
	"strings"
)

// Equals methods: per receiver type the w-driven comparison rows
//   (field, guard, comparator)
// guard:       lenPos | nonNil | notNilLike | notZero | neZero | gtZero
// comparator:  items (ItemsEqual) | list (ItemCollection.Equals) | nlv | time | value (== / !=) | link (GetLink().Equals) | iri (IRI.Equals)
// plus the delegations `<x>.Equals(<y>)` on non-field receivers, in source order.

func (x *Extractor) eqGuard(cond ast.Expr) (field, guard string, rest ast.Expr) {
	// cond may be  G  or  G && <comparison>
	if b, ok := cond.(*ast.BinaryExpr); ok && b.Op == token.LAND {
		f, g, _ := x.eqGuard(b.X)
		return f, g, b.Y
	}
	wField := func(e ast.Expr) string {
		if s, ok := e.(*ast.SelectorExpr); ok {
			if id, ok := s.X.(*ast.Ident); ok && id.Name == "w" {
				return s.Sel.Name
			}
		}
		return ""
	}
	switch c := cond.(type) {
	case *ast.BinaryExpr:
		if call, ok := c.X.(*ast.CallExpr); ok {
			if id, ok := call.Fun.(*ast.Ident); ok && id.Name == "len" && len(call.Args) == 1 && c.Op == token.GTR && x.src(c.Y) == "0" {
				return wField(call.Args[0]), "lenPos", nil
			}
		}
		if f := wField(c.X); f != "" {
			r := x.src(c.Y)
			switch {
			case c.Op == token.NEQ && r == "nil":
				return f, "nonNil", nil
			case c.Op == token.NEQ && r == "0":
				return f, "neZero", nil
			case c.Op == token.GTR && r == "0":
				return f, "gtZero", nil
			}
		}
	case *ast.UnaryExpr:
		if c.Op == token.NOT {
			if call, ok := c.X.(*ast.CallExpr); ok {
				if id, ok := call.Fun.(*ast.Ident); ok && id.Name == "IsNil" && len(call.Args) == 1 {
					return wField(call.Args[0]), "notNilLike", nil
				}
				if sel, ok := call.Fun.(*ast.SelectorExpr); ok && sel.Sel.Name == "IsZero" {
					return wField(sel.X), "notZero", nil
				}
			}
		}
	}
	return "", "?unknown: " + x.src(cond), nil
}

func (x *Extractor) eqComparator(n ast.Node, field string) string {
	src := x.src(n)
	switch {
	case strings.Contains(src, "ItemsEqual("):
		return "items"
	case strings.Contains(src, "."+field+".GetLink().Equals("):
		return "link"
	case strings.Contains(src, "."+field+".Equals(") && strings.Contains(src, ", false)"):
		return "iri"
	case strings.Contains(src, "w."+field+".Equals("):
		return "equalsW" // w.F.Equals(x.F): NaturalLanguageValues.Equals or ItemCollection.Equals, by the field's type
	case strings.Contains(src, "."+field+".Equals("):
		return "equalsO" // x.F.Equals(w.F)
	case strings.Contains(src, "."+field+".Equal("):
		return "time"
	case strings.Contains(src, "w."+field+" != ") || strings.Contains(src, "."+field+" != w."+field):
		return "value"
	}
	return "?unknown: " + src
}

func (x *Extractor) genEquals() string {
	if err := x.typecheck(); err != nil {
		return header + "-- typecheck failed: " + err.Error() + "\n#check (APModel.Generated.typecheckFailed : Nat)\n"
	}
	var names []string
	for k := range x.funcs {
		if strings.HasSuffix(k, ".Equals") {
			names = append(names, k)
		}
	}
	sort.Strings(names)
	var sb strings.Builder
	sb.WriteString(header)
	sb.WriteString("namespace APModel.Generated\n\nstructure EqualsRow where\n  recv : String\n  rows : List (String × String × String)   -- (field, guard, comparator)\n  delegates : List String\n  deriving Repr, DecidableEq\n\ndef equalsRows : List EqualsRow := [\n")
	for i, k := range names {
		fd := x.funcs[k]
		var rows, dels []string
		ast.Inspect(fd.Body, func(n ast.Node) bool {
			switch v := n.(type) {
			case *ast.IfStmt:
				f, g, rest := x.eqGuard(v.Cond)
				if f == "" {
					return true
				}
				var cmp string
				if rest != nil {
					cmp = x.eqComparator(rest, f)
				} else {
					cmp = x.eqComparator(v.Body, f)
				}
				rows = append(rows, fmt.Sprintf("(%s, %s, %s)", lstr(f), lstr(g), lstr(cmp)))
				return false
			case *ast.CallExpr:
				if sel, ok := v.Fun.(*ast.SelectorExpr); ok && sel.Sel.Name == "Equals" && len(v.Args) == 1 {
					if id, ok := sel.X.(*ast.Ident); ok {
						if a, ok := v.Args[0].(*ast.Ident); ok {
							dels = append(dels, id.Name+".Equals("+a.Name+")")
						}
					}
				}
			}
			return true
		})
		sep := ","
		if i == len(names)-1 {
			sep = ""
		}
		fmt.Fprintf(&sb, "  { recv := %s, rows := [%s], delegates := %s }%s\n", lstr(strings.TrimSuffix(k, ".Equals")), strings.Join(rows, ", "), lstrList(dels), sep)
	}
	sb.WriteString("]\n\n")
	// where an Equals method hands the comparison over to another Equals method: the static type of the receiver
	sb.WriteString("/-- (method, the struct whose Equals it calls on a view of one of its arguments) in source order -/\ndef equalsDelegations : List (String × String) := [\n")
	var dl []string
	for _, k := range names {
		fd := x.funcs[k]
		ast.Inspect(fd.Body, func(n ast.Node) bool {
			if v, ok := n.(*ast.CallExpr); ok {
				if sel, ok := v.Fun.(*ast.SelectorExpr); ok && sel.Sel.Name == "Equals" && len(v.Args) == 1 {
					if id, ok := sel.X.(*ast.Ident); ok {
						if _, ok := v.Args[0].(*ast.Ident); ok {
							t := "?"
							if tv := x.info.TypeOf(id); tv != nil {
								t = strings.TrimPrefix(strings.TrimPrefix(tv.String(), "*"), "github.com/go-ap/activitypub.")
							}
							dl = append(dl, fmt.Sprintf("  (%s, %s)", lstr(strings.TrimSuffix(k, ".Equals")), lstr(t)))
						}
					}
				}
			}
			return true
		})
	}
	sb.WriteString(strings.Join(dl, ",\n"))
	sb.WriteString("\n]\n\n")
	// ItemsEqual: the Equals methods it runs for two objects, with the conditions in front of each
	sb.WriteString("/-- the comparisons ItemsEqual runs in its object branch: (helper, the conditions it stands under) -/\ndef itemsEqualCalls : List (String × List String) := [\n")
	var il []string
	if fd := x.funcs["ItemsEqual"]; fd != nil && fd.Body != nil {
		chains := ifChains(fd.Body)
		ast.Inspect(fd.Body, func(n ast.Node) bool {
			if v, ok := n.(*ast.CallExpr); ok {
				if id, ok := v.Fun.(*ast.Ident); ok && strings.HasPrefix(id.Name, "On") && len(v.Args) == 2 {
					var conds []string
					for _, c := range chains[v] {
						conds = append(conds, lstr(x.src(c)))
					}
					il = append(il, fmt.Sprintf("  (%s, [%s])", lstr(id.Name), strings.Join(conds, ", ")))
				}
			}
			return true
		})
	}
	sb.WriteString(strings.Join(il, ",\n"))
	sb.WriteString("\n]\n\nend APModel.Generated\n")
	return sb.String()
}

func init() {
	moreGens = append(moreGens, func(x *Extractor) map[string]func() string {
		return map[string]func() string{"Equals.lean": x.genEquals}
	})
}
